import Pywbem.Model.CimJson
import Pywbem.Model.ListenerHttp
import Pywbem.Model.XmlParse
open Lean Pywbem.Proto Pywbem.Model Pywbem.Model.CimJson Pywbem.Model.XmlText Pywbem.Model.ListenerHttp

/-! C17 driver.  One input line = one listener history:
  {"cap":n, "cfg":{"validateLen":b,"encodeDetails":b,"catchAll":b}?, "events":[ev,…]}
  ev = {"ev":"deliver"} | {"ev":"shut","cid":n,"server":cps,"date":cps}   (a stalled peer stops sending)
     | {"ev":"req","cid":n,"stall":bool?,   (stall: the peer keeps its sending side open; body = octets sent so far)
        "method":cps,"headers":[[cps,cps],…],"blen":n,          octets sent after the header section
        "xmlmode":"par","hex":"…"   the request parser is the model's own parseBytes on the real octets (else:)
        "k":n,"tree":tt|null,       expat+CIMContentHandler result for the first k octets (null = SAX error,
        "xmlexc":name|null,           or with xmlexc: that exception class escaped from xml.sax)
        "msg":cps,                  str(exc) of the XMLParseError / CIMXMLParseError, if any
        "inst":"shared"|"ok"|{"table":[[subtree,"ok"|name],…]},   parse_instance: shared decoder (with "codec"),
                                    or the given outcomes per INSTANCE subtree (others: shared decoder)
        "foreign":name|null, "alloc":n, "exctext":cps}
  Output: {"obs":[o,…],"queue":[cps],"accepted":[cps],"delivered":[cps]}  (message ids)
  o = {"rsp":{"status":n,"reason":cps,"headers":[[cps,cps],…],"body":cps},"nread":n|null,
       "bodytree":tt|null   XmlParse.par of the 200 body (what a receiver's XML parser reads),
       "wire":cps}     header section as written to the socket, with the "server"/"date" values of the event
    | {"stdlib":true} | {"dropped":name} | null
  Other ops: {"op":"ascii2","s":cps} {"op":"quote","s":cps} {"op":"tokq","s":cps} {"op":"tokc","s":cps}
             {"op":"int","s":cps}
-/

def decCodecOfJson (j : Json) : DecCodec :=
  let truncs : List (UInt64 × Except PyExc Int) := (getArr j "truncs").filterMap (fun e => match e with
    | .arr a => some (bitsOf (a[0]!), match a[1]! with
        | .str s => (match s.toInt? with
            | some i => .ok i
            | none => if s == "OverflowError" then .error .overflowError else .error .valueError)
        | _ => .error .valueError)
    | _ => none)
  let fofi : List (Int × Option UInt64) := (getArr j "fofi").filterMap (fun e => match e with
    | .arr a => some ((jsonToInt? (a[0]!)).getD 0, match a[1]! with | .null => none | b => some (bitsOf b))
    | _ => none)
  { toCodec := codecOfJson j,
    truncFloat := fun b => match truncs.find? (fun e => e.1 == b) with
      | some e => e.2 | none => .error .valueError,
    floatOfInt := fun i => match fofi.find? (fun e => e.1 == i) with
      | some e => e.2 | none => none }

def missing : Xml := .elem "?missing".toList [] []

def envOfJson (j : Json) : Env :=
  let k := (getNat j "k").getD 0
  let tree : Except (Option Exc) Xml := match getField j "tree" with
    | .null => .error ((getStr j "xmlexc").map (fun n => (⟨n⟩ : Exc)))
    | t => .ok (xmlOfJson t)
  let C := decCodecOfJson (getField j "codec")
  let excOf (n : Option String) : Except PyExc Unit :=
    match n with
    | some "ok" => .ok ()
    | some "CIMXMLParseError" => .error .cimXmlParseError
    | some "XMLParseError" => .error .xmlParseError
    | some "OverflowError" => .error .overflowError
    | some "ValueError" => .error .valueError
    | some "TypeError" => .error .typeError
    | some "KeyError" => .error .keyError
    | some "AttributeError" => .error .attributeError
    | some "RecursionError" => .error .recursionError
    | some "IndexError" => .error .indexError
    | _ => .error .assertionError
  let shared : Xml → Except PyExc Unit := fun t => (decInstance C (embAt C 8) t).map (fun _ => ())
  let instP : Xml → Except PyExc Unit :=
    match getField j "inst" with
    | .str "ok" => fun _ => .ok ()
    | .str _ => shared
    | o =>
      -- {"table":[[subtree, outcome],…]}: outcomes of the real parse_instance, keyed by the subtree
      let tab : List (String × Option String) := (getArr o "table").filterMap (fun e => match e with
        | .arr a => some ((xmlToJson (xmlOfJson (a[0]!))).compress, match a[1]! with | .str x => some x | _ => none)
        | _ => none)
      fun t => match tab.find? (fun e => e.1 == (xmlToJson t).compress) with
        | some e => excOf e.2
        | none => shared t
  { xmlParse := if getStr j "xmlmode" == some "par" then parseBytes
      else fun bs => if bs.length == k then tree else .ok missing,
    parserMsg := (getChars j "msg").getD [],
    instParse := instP,
    foreign := fun _ => (getStr j "foreign").map (fun n => (⟨n⟩ : Exc)),
    allocLimit := (getNat j "alloc").getD (2 ^ 40),
    excText := fun _ => (getChars j "exctext").getD [] }

def hexNib (c : Char) : Nat :=
  if '0' ≤ c ∧ c ≤ '9' then c.toNat - 48 else if 'a' ≤ c ∧ c ≤ 'f' then c.toNat - 87 else 0

def hexBytes : List Char → List Nat
  | a :: b :: rest => (16 * hexNib a + hexNib b) :: hexBytes rest
  | _ => []

def reqOfJson (j : Json) : Req :=
  { method := (getChars j "method").getD [],
    headers := (getArr j "headers").filterMap (fun kv => match kv with
      | .arr a => some ((jsonToChars? (a[0]!)).getD [], (jsonToChars? (a[1]!)).getD [])
      | _ => none),
    body := match getStr j "hex" with
      | some h => hexBytes h.toList                       -- "xmlmode":"par": the real octets
      | none => List.replicate ((getNat j "blen").getD 0) 0 }

def cfgOfJson (j : Json) : Cfg :=
  match getField j "cfg" with
  | .null => Cfg.fixed
  | c => ⟨(getBool c "validateLen").getD true, (getBool c "encodeDetails").getD true, (getBool c "catchAll").getD true,
          (getBool c "rejectDup").getD true⟩

def hdrsJ (hs : List (Str × Str)) : Json :=
  Json.arr (hs.map (fun p => Json.arr #[cpsToJson p.1, cpsToJson p.2])).toArray

def rspJ (r : Response) : Json :=
  Json.mkObj [("status", (r.status : Nat)), ("reason", cpsToJson r.reason), ("headers", hdrsJ r.headers),
              ("body", cpsToJson r.body)]

def idsJ (l : List Item) : Json := Json.arr (l.map (fun p => cpsToJson p.1)).toArray

def obsJ (cfg : Cfg) (e : Json) (E : Env) (r : Req) (o : Obs) : Json :=
  match o with
  | .response rsp => Json.mkObj [("rsp", rspJ rsp),
      ("bodytree", if rsp.status == 200 then optToJson xmlToJson (Pywbem.Model.XmlParse.par rsp.body) else Json.null),
      ("wire", cpsToJson (wireHead ((getChars e "server").getD []) ((getChars e "date").getD []) rsp)),
      ("nread", if r.method = "POST".toList then optToJson (fun (n : Nat) => (n : Json)) (bytesRead cfg E r) else Json.null)]
  | .stdlib => Json.mkObj [("stdlib", true)]
  | .dropped x => Json.mkObj [("dropped", x.name)]
  | .none => Json.null

/-- the history through the thread model `cstep`: a "req" event is a connection (complete, or with "stall":true a
    peer that keeps sending open); "shut" ends a stalled one.  One output entry per event (null = no answer yet). -/
def runHist (cfg : Cfg) : CState → List Json → List Json → CState × List Json
  | cs, [], acc => (cs, acc.reverse)
  | cs, e :: es, acc =>
    match getStr e "ev" with
    | some "deliver" => runHist cfg (cstep cfg cs .deliver).st es (Json.null :: acc)
    | some "shut" =>
      let id := (getNat e "cid").getD 0
      match cs.pending.find? (fun c => c.id == id) with
      | none => runHist cfg cs es (Json.mkObj [("bad", "shut of a connection that is not pending")] :: acc)
      | some c =>
        let o := cstep cfg cs (.shut id)
        let oj := match o.obs with
          | [x] => obsJ cfg e c.E { c.req with body := c.got } x
          | _ => Json.null
        runHist cfg o.st es (oj :: acc)
    | _ =>
      let E := envOfJson e
      let r := reqOfJson e
      let c : Conn := { id := (getNat e "cid").getD 0, E := E, method := r.method, headers := r.headers, got := r.body,
                        eof := !((getBool e "stall").getD false) }
      let o := cstep cfg cs (.connect c)
      let oj := match o.obs with
        | [x] => obsJ cfg e E r x
        | _ => Json.null
      runHist cfg o.st es (oj :: acc)

def handleJ (j : Json) : Json :=
  match getStr j "op" with
  | some "ascii2" => Json.mkObj [("out", cpsToJson (ascii2 ((getChars j "s").getD [])))]
  | some "keys" => Json.mkObj [("out", cpsToJson (ascii2Keys ((getArr j "ks").filterMap jsonToChars?)))]
  | some "quote" => Json.mkObj [("out", cpsToJson (quoteDetails ((getChars j "s").getD [])))]
  | some "tokq" =>
    let s := (getChars j "s").getD []
    Json.mkObj [("out", Json.arr ((tokensQ (s.length + 1) s).map cpsToJson).toArray), ("ok", acceptCharsetOk s)]
  | some "tokc" =>
    let s := (getChars j "s").getD []
    Json.mkObj [("out", Json.arr ((tokensC (s.length + 1) s).map (fun p => Json.arr #[cpsToJson p.1, cpsToJson p.2])).toArray),
                ("ok", contentTypeOk s)]
  | some "serve" =>
    -- one connection from the raw request line on: {"op":"serve","line":cps,"hdrfault":bool, + the fields of a "req" event}
    let E := envOfJson j
    let r := reqOfJson j
    let out := match getChars j "rest" with
      | some rest => (serveRaw (cfgOfJson j) E (LState.init 0) ((getChars j "line").getD []) rest r.body).2   -- raw header section
      | none => (serve (cfgOfJson j) E (LState.init 0) ((getChars j "line").getD []) ((getBool j "hdrfault").getD false)
          r.headers r.body).2
    Json.mkObj [("out", match out with
      | .silent => Json.arr #["silent"]
      | .bare c => Json.arr #["bare", (c : Nat)]
      | .bareBody => Json.arr #["barebody"]
      | .status rsp => Json.arr #["status", (rsp.status : Nat)]
      | .stdlib c => Json.arr #["stdlib", (c : Nat)]
      | .dropped e => Json.arr #["dropped", e.name])]
  | some "hdrs" =>
    Json.mkObj [("out", match parseHeaders ((getChars j "s").getD []) with
      | none => Json.null
      | some hs => hdrsJ hs)]
  | some "date" =>
    let g (k : String) := (getNat j k).getD 0
    Json.mkObj [("out", cpsToJson (dateString (g "wd") (g "d") (g "mon") (g "y") (g "hh") (g "mm") (g "ss"))),
                ("server", cpsToJson (versionString ((getChars j "v").getD []) ((getChars j "sv").getD []) ((getChars j "sys").getD [])))]
  | some "utf8" => Json.mkObj [("out", optToJson cpsToJson (utf8Decode (hexBytes ((getStr j "hex").getD "").toList)))]
  | some "int" => Json.mkObj [("out", optToJson intToJson (pyInt ((getChars j "s").getD [])))]
  | _ =>
    let cfg := cfgOfJson j
    let s0 : CState := { ls := LState.init ((getNat j "cap").getD 0), pending := [] }
    let (cs, obs) := runHist cfg s0 (getArr j "events") []
    Json.mkObj [("obs", Json.arr obs.toArray), ("queue", idsJ cs.ls.queue), ("accepted", idsJ cs.ls.accepted),
                ("delivered", idsJ cs.ls.delivered), ("pending", (cs.pending.length : Nat))]

def main : IO Unit := runDriver handleJ
