import Pywbem.Model.Store
import Pywbem.Model.StoreClient
import Pywbem.Model.StoreAlias
import Pywbem.Model.StoreSubclass
open Lean Pywbem.Proto Pywbem.Model.Store

abbrev SName := Pywbem.Model.Store.Name

/-! C10 driver.  One request = one history:
  {"dflt":str,"nss":[{"name":str,"classes":[cls,…]}],"calls":[call,…]}     (str = code point array; calls: see parseCall)
  cls  = {"name":str,"super":str|null,"assoc":bool,"props":[{"n":str,"t":"uint8",…,"a":bool,"key":bool,"d":val}]}
  op   = {"op":"create","ns":str|null,"inst":inst} | {"op":"modify","path":path,"inst":inst,"pl":[str]|null}
       | {"op":"delete","path":path} | {"op":"get","path":path,"pl":[str]|null}
       | {"op":"enum","ns":str|null,"cls":str,"di":bool|null,"pl":[str]|null} | {"op":"names","ns":str|null,"cls":str}
  inst = {"c":str,"p":[{"n":str,"t":"…","a":bool,"v":val}]}
  path = {"c":str,"n":str|null,"h":str|null,"k":[[str,kv],…]}
  kv   = {"s":str} | {"i":"<decimal>"} | {"b":bool} | {"o":["tag",str]} | {"r":path with scalar keys}
  val  = null | kv | {"a":[scalar|null,…]} | {"e":[isClass,str classname,str text]}  (embedded object)
  property declarations additionally carry "ei":str|null (EmbeddedInstance value) and "eo":bool (EmbeddedObject)
  Answer: {"outs":[out,…],"state":[{"name":str,"insts":[{"key":path,"path":path,"inst":inst}]}],
           "specAgrees":bool}     (specAgrees: the run of Spec/StoreSpec gives the same normalised outputs) -/

def optChars (j : Json) (k : String) : Option SName :=
  match getField j k with
  | .null => none
  | x => jsonToChars? x

def parseScalar (j : Json) : Option Scalar :=
  match getField j "s", getField j "i", getField j "b", getField j "o" with
  | .null, .null, .null, .null => none
  | .null, .null, .null, .arr a =>
    match a.toList with
    | [t, x] => do some (.other (← jsonToChars? t) (← jsonToChars? x))
    | _ => none
  | .null, .null, .bool b, _ => some (.bool b)
  | .null, i, _, _ => (jsonToInt? i).map .int
  | s, _, _, _ => (jsonToChars? s).map .str

def parseKeys0 (l : List Json) : Option (List (SName × Scalar)) :=
  l.mapM (fun e => match e with
    | .arr a => (match a.toList with
        | [k, v] => do some ((← jsonToChars? k), (← parseScalar v))
        | _ => none)
    | _ => none)

def parsePath0 (j : Json) : Option Path0 := do
  let c ← getChars j "c"
  let keys ← parseKeys0 (getArr j "k")
  some { cls := c, ns := optChars j "n", host := optChars j "h", keys := keys }

def parseKV (j : Json) : Option KV :=
  match getField j "r" with
  | .null => (parseScalar j).map .sc
  | p => (parsePath0 p).map .ref

def parsePath (j : Json) : Option Path := do
  let c ← getChars j "c"
  let keys ← (getArr j "k").mapM (fun e => match e with
    | .arr a => (match a.toList with
        | [k, v] => do some ((← jsonToChars? k), (← parseKV v))
        | _ => none)
    | _ => none)
  some { cls := c, ns := optChars j "n", host := optChars j "h", keys := keys }

def parseVal (j : Json) : Option Val :=
  match j with
  | Json.null => some Val.null
  | _ =>
    match getField j "a" with
    | Json.arr a => (a.toList.mapM (fun (x : Json) => match x with
        | Json.null => some (none : Option Scalar)
        | y => (parseScalar y).map some)).map Val.arr
    | _ =>
      match getField j "e" with
      | Json.arr e =>
        (match e.toList with
         | [Json.bool b, c, t] => do some (Val.emb b (← jsonToChars? c) (← jsonToChars? t))
         | _ => none)
      | _ => (parseKV j).map Val.one

def parseProp (j : Json) : Option PropV := do
  let n ← getChars j "n"
  let t ← getChars j "t"
  let v ← parseVal (getField j "v")
  some { name := n, ty := t, isArr := (getBool j "a").getD false, val := v,
         origin := optChars j "co", quals := (getBool j "q").getD false, propagated := getBool j "pg" }

def parseInst (j : Json) : Option Inst := do
  let c ← getChars j "c"
  let ps ← (getArr j "p").mapM parseProp
  some { cls := c, props := ps, quals := (getBool j "q").getD false }

def parseDecl (j : Json) : Option PropDecl := do
  let n ← getChars j "n"
  let t ← getChars j "t"
  let d ← parseVal (getField j "d")
  some { name := n, ty := t, isArr := (getBool j "a").getD false, isKey := (getBool j "key").getD false, dflt := d,
         embInst := optChars j "ei", embObj := (getBool j "eo").getD false,
         propagated := (getBool j "pg").getD false }

def parseCls (j : Json) : Option Cls := do
  let n ← getChars j "name"
  let ps ← (getArr j "props").mapM parseDecl
  some { name := n, super := optChars j "super", isAssoc := (getBool j "assoc").getD false, props := ps }

def parseNs (j : Json) : Option NsEntry := do
  let n ← getChars j "name"
  let cs ← (getArr j "classes").mapM parseCls
  some { name := n, classes := cs, insts := [] }

def parsePl (j : Json) : Option (Option (List SName)) :=
  match getField j "pl" with
  | .null => some none
  | .arr a => (a.toList.mapM jsonToChars?).map some
  | _ => none

def isOther (j : Json) : Bool :=
  match getField j "other" with
  | Json.null => false
  | _ => true

def parseNsArg (j : Json) : Option NsArg :=
  match j with
  | Json.null => some NsArg.none
  | Json.arr _ => (jsonToChars? j).map NsArg.str
  | x => if isOther x then some NsArg.other else none

def parseBoolArg (j : Json) : Option BoolArg :=
  match j with
  | Json.null => some BoolArg.none
  | Json.bool b => some (BoolArg.bool b)
  | x => if isOther x then some BoolArg.other else none

def parsePlArg (j : Json) : Option PlArg :=
  match j with
  | Json.null => some PlArg.none
  | Json.arr a => (a.toList.mapM jsonToChars?).map PlArg.list
  | x =>
    if isOther x then some PlArg.other
    else match getField x "baditem", getField x "s" with
      | Json.null, Json.null => none
      | Json.null, sj => (jsonToChars? sj).map PlArg.str
      | _, _ => some PlArg.listBadItem

def parseNameArg (j : Json) : Option NameArg :=
  if isOther j then some NameArg.other else (parsePath j).map NameArg.path

def parseClsArg (j : Json) : Option ClsArg :=
  match j with
  | Json.arr _ => (jsonToChars? j).map ClsArg.str
  | x =>
    if isOther x then some ClsArg.other
    else do some (ClsArg.clsName (← getChars x "cn") (optChars x "ns"))

def parseInstArg (j : Json) (jp : Json) : Option InstArg :=
  if isOther j then some InstArg.other
  else do
    let i ← parseInst j
    match jp with
    | Json.null => some (InstArg.inst i none)
    | pj => do some (InstArg.inst i (some (← parsePath pj)))

/-- call = {"call":"create","inst":inst|other,"ipath":path|null,"ns":nsarg}
        | {"call":"modify","inst":…,"ipath":…,"iq":boolarg,"pl":plarg} | {"call":"delete","name":namearg}
        | {"call":"get","name":namearg,"lo":…,"iq":…,"ico":…,"pl":…}
        | {"call":"enum","cls":clsarg,"ns":nsarg,"lo":…,"di":…,"iq":…,"ico":…,"pl":…} | {"call":"names","cls":…,"ns":…}
   nsarg = null | str | {"other":true};  boolarg = null | bool | {"other":true}
   plarg = null | {"s":str} | [str,…] | {"baditem":true} | {"other":true};  namearg = path | {"other":true}
   clsarg = str | {"cn":str,"ns":str|null} | {"other":true} -/
def parseCall (j : Json) : Option Call :=
  match getStr j "call" with
  | some "create" => do some (.createInstance (← parseInstArg (getField j "inst") (getField j "ipath")) (← parseNsArg (getField j "ns")))
  | some "modify" => do some (.modifyInstance (← parseInstArg (getField j "inst") (getField j "ipath"))
                            (← parseBoolArg (getField j "iq")) (← parsePlArg (getField j "pl")))
  | some "delete" => do some (.deleteInstance (← parseNameArg (getField j "name")))
  | some "get" => do some (.getInstance (← parseNameArg (getField j "name")) (← parseBoolArg (getField j "lo"))
                         (← parseBoolArg (getField j "iq")) (← parseBoolArg (getField j "ico")) (← parsePlArg (getField j "pl")))
  | some "enum" => do some (.enumerateInstances (← parseClsArg (getField j "cls")) (← parseNsArg (getField j "ns"))
                          (← parseBoolArg (getField j "lo")) (← parseBoolArg (getField j "di")) (← parseBoolArg (getField j "iq"))
                          (← parseBoolArg (getField j "ico")) (← parsePlArg (getField j "pl")))
  | some "names" => do some (.enumerateInstanceNames (← parseClsArg (getField j "cls")) (← parseNsArg (getField j "ns")))
  | _ => none

/-! output -/

def scalarToJson : Scalar → Json
  | .str s => Json.mkObj [("s", cpsToJson s)]
  | .int v => Json.mkObj [("i", intToJson v)]
  | .bool b => Json.mkObj [("b", b)]
  | .other t x => Json.mkObj [("o", Json.arr #[cpsToJson t, cpsToJson x])]

def optName (o : Option SName) : Json := optToJson cpsToJson o

def path0ToJson (p : Path0) : Json :=
  Json.mkObj [("c", cpsToJson p.cls), ("n", optName p.ns), ("h", optName p.host),
    ("k", Json.arr (p.keys.map (fun e => Json.arr #[cpsToJson e.1, scalarToJson e.2])).toArray)]

def kvToJson : KV → Json
  | .sc s => scalarToJson s
  | .ref p => Json.mkObj [("r", path0ToJson p)]

def pathToJson (p : Path) : Json :=
  Json.mkObj [("c", cpsToJson p.cls), ("n", optName p.ns), ("h", optName p.host),
    ("k", Json.arr (p.keys.map (fun e => Json.arr #[cpsToJson e.1, kvToJson e.2])).toArray)]

def valToJson : Val → Json
  | .null => Json.null
  | .one v => kvToJson v
  | .arr xs => Json.mkObj [("a", Json.arr (xs.map (optToJson scalarToJson)).toArray)]
  | .emb b c t => Json.mkObj [("e", Json.arr #[Json.bool b, cpsToJson c, cpsToJson t])]

def propToJson (p : PropV) : Json :=
  Json.mkObj [("n", cpsToJson p.name), ("t", cpsToJson p.ty), ("a", p.isArr), ("v", valToJson p.val),
    ("co", optName p.origin), ("q", p.quals), ("pg", optToJson (fun (b : Bool) => (b : Json)) p.propagated)]

def instToJson (i : Inst) : Json :=
  Json.mkObj [("c", cpsToJson i.cls), ("p", Json.arr (i.props.map propToJson).toArray), ("q", i.quals)]

def rinstToJson (i : RInst) : Json :=
  Json.mkObj [("c", cpsToJson i.cls), ("path", pathToJson i.path), ("p", Json.arr (i.props.map propToJson).toArray),
    ("q", i.quals)]

def outToJson : Out → Json
  | .path p => Json.mkObj [("ok", Json.mkObj [("path", pathToJson p)])]
  | .unit => Json.mkObj [("ok", Json.null)]
  | .inst i => Json.mkObj [("ok", Json.mkObj [("inst", rinstToJson i)])]
  | .insts l => Json.mkObj [("ok", Json.mkObj [("insts", Json.arr (l.map rinstToJson).toArray)])]
  | .paths l => Json.mkObj [("ok", Json.mkObj [("paths", Json.arr (l.map pathToJson).toArray)])]
  | .err e => e.toJson

def stateToJson (r : Repo) : Json :=
  Json.arr (r.nss.map (fun e => Json.mkObj [("name", cpsToJson e.name),
    ("insts", Json.arr (e.insts.map (fun s => Json.mkObj [("key", pathToJson s.key), ("path", pathToJson s.path),
       ("inst", instToJson s.inst)])).toArray)])).toArray

def handle (j : Json) : Json :=
  match (getArr j "nss").mapM parseNs, (getArr j "calls").mapM parseCall, getChars j "dflt" with
  | some nss, some calls, some d =>
    let r0 : Repo := { nss := nss, dflt := d }
    let (r, outs) := runCalls r0 calls
    let sp := Pywbem.Model.StoreSpec.runCalls (Pywbem.Model.StoreSpec.abs r0) calls
    Json.mkObj [("outs", Json.arr (outs.map outToJson).toArray), ("state", stateToJson r),
                ("specAgrees", decide (outs.map Pywbem.Model.StoreSpec.normOut = sp.2
                                       ∧ Pywbem.Model.StoreSpec.abs r = sp.1))]
  | _, _, _ => Json.mkObj [("bad", "request")]

/-! alias mode: {"alias":[aop,…]} with
   aop = {"a":"create","x":insto,"keys":[n,…]} | {"a":"modify","x":insto,"idx":n,"others":n} | {"a":"delete","idx":n}
       | {"a":"get","name":patho,"idx":n} | {"a":"enumInsts","idxs":[n,…]} | {"a":"enumNames","idxs":[n,…]}
   insto = {"id":n,"props":[{"id":n,"vals":[n,…]}],"path":patho|null}, patho = {"id":n,"kids":[n,…]}  (client node numbers)
   Answer: {"steps":[{"handed":k,"sharedWithInput":k,"sharedWithEarlier":k,"storeDisjoint":bool},…]} -/

namespace AliasDrv
open Pywbem.Model.StoreAlias

def cli (j : Json) : Option Id := (jsonToNat? j).map Id.cli

def parsePathO (j : Json) : Option PathO := do
  some { id := (← cli (getField j "id")), kids := (← (getArr j "kids").mapM cli) }

def parseInstO (j : Json) : Option InstO := do
  let ps ← (getArr j "props").mapM (fun pj => do
    some ({ id := (← cli (getField pj "id")), vals := (← (getArr pj "vals").mapM cli) } : PropO))
  let path ← match getField j "path" with
    | Json.null => some none
    | pj => (parsePathO pj).map some
  some { id := (← cli (getField j "id")), props := ps, path := path }

def nats (j : Json) (k : String) : List Nat := (getArr j k).filterMap jsonToNat?

def parseAOp (j : Json) : Option AOp :=
  match getStr j "a" with
  | some "create" => do some (.create (← parseInstO (getField j "x")) (nats j "keys"))
  | some "modify" => do some (.modify (← parseInstO (getField j "x")) ((getNat j "idx").getD 0) ((getNat j "others").getD 0))
  | some "delete" => some (.delete ((getNat j "idx").getD 0))
  | some "get" => do some (.get (← parsePathO (getField j "name")) ((getNat j "idx").getD 0))
  | some "enumInsts" => some (.enumInsts (nats j "idxs"))
  | some "enumNames" => some (.enumNames (nats j "idxs"))
  | _ => none

def stepsJson (s : AState) : List AOp → List Json
  | [] => []
  | op :: t =>
    let s' := stepA {} s op
    let handed := s'.client.drop s.client.length
    let inp := op.inputIds
    let j := Json.mkObj [("handed", (handed.length : Nat)),
      ("sharedWithInput", ((handed.filter (fun i => inp.contains i)).length : Nat)),
      ("sharedWithEarlier", ((handed.filter (fun i => s.client.contains i)).length : Nat)),
      ("storeDisjoint", decide (∀ i ∈ storeIds s', i ∉ s'.client ++ inp))]
    j :: stepsJson s' t

def handleAlias (j : Json) : Json :=
  match (getArr j "alias").mapM parseAOp with
  | some ops => Json.mkObj [("steps", Json.arr (stepsJson {} ops).toArray)]
  | none => Json.mkObj [("bad", "alias request")]

end AliasDrv

/-- {"subclasses":{"classes":[cls,…],"targets":[str,…]}} →
    {"subs":[[str,…] per target], "down":[[bool per class] per target], "up":[[bool per class] per target]}
    (`subclassNames` / `inEnumDown` of Model/StoreSubclass.lean, `descends` of Model/Store.lean) -/
def handleSubclasses (j : Json) : Json :=
  match (getArr j "classes").mapM parseCls, (getArr j "targets").mapM jsonToChars? with
  | some cs, some ts =>
    Json.mkObj [
      ("subs", Json.arr (ts.map (fun t => Json.arr ((subclassNames cs cs.length t).map cpsToJson).toArray)).toArray),
      ("down", Json.arr (ts.map (fun t => Json.arr (cs.map (fun c => Json.bool (inEnumDown cs t c.name))).toArray)).toArray),
      ("up", Json.arr (ts.map (fun t => Json.arr (cs.map (fun c => Json.bool (descends cs cs.length c.name t))).toArray)).toArray)]
  | _, _ => Json.mkObj [("bad", "subclasses request")]

def handleAny (j : Json) : Json :=
  match getField j "alias", getField j "subclasses" with
  | Json.null, Json.null => handle j
  | Json.null, sj => handleSubclasses sj
  | _, _ => AliasDrv.handleAlias j

def main : IO Unit := runDriver handleAny
