import Pywbem.Model.Store
import Pywbem.Model.StoreSpec
open Lean Pywbem.Proto Pywbem.Model.Store

abbrev SName := Pywbem.Model.Store.Name

/-! C10 driver.  One request = one history:
  {"dflt":str,"nss":[{"name":str,"classes":[cls,…]}],"ops":[op,…]}        (str = code point array)
  cls  = {"name":str,"super":str|null,"assoc":bool,"props":[{"n":str,"t":"uint8",…,"a":bool,"key":bool,"d":val}]}
  op   = {"op":"create","ns":str|null,"inst":inst} | {"op":"modify","path":path,"inst":inst,"pl":[str]|null}
       | {"op":"delete","path":path} | {"op":"get","path":path,"pl":[str]|null}
       | {"op":"enum","ns":str|null,"cls":str,"di":bool|null,"pl":[str]|null} | {"op":"names","ns":str|null,"cls":str}
  inst = {"c":str,"p":[{"n":str,"t":"…","a":bool,"v":val}]}
  path = {"c":str,"n":str|null,"h":str|null,"k":[[str,kv],…]}
  kv   = {"s":str} | {"i":"<decimal>"} | {"b":bool} | {"o":["tag",str]} | {"r":path with scalar keys}
  val  = null | kv | {"a":[scalar|null,…]} | {"e":[isClass,str classname,str text]}  (embedded object)
  property declarations additionally carry "ei":str|null (EmbeddedInstance value) and "eo":bool (EmbeddedObject)
  Answer: {"outs":[out,…],"state":[{"name":str,"insts":[{"key":path,"path":path,"inst":inst}]}],
           "specAgrees":bool}     (specAgrees: the run of Spec/StoreSpec gives the same normalised outputs) -/

def optChars (j : Json) (k : String) : Option SName :=
  match getField j k with
  | .null => none
  | x => jsonToChars? x

def parseScalar (j : Json) : Option Scalar :=
  match getField j "s", getField j "i", getField j "b", getField j "o" with
  | .null, .null, .null, .null => none
  | .null, .null, .null, .arr a =>
    match a.toList with
    | [t, x] => do some (.other (← jsonToChars? t) (← jsonToChars? x))
    | _ => none
  | .null, .null, .bool b, _ => some (.bool b)
  | .null, i, _, _ => (jsonToInt? i).map .int
  | s, _, _, _ => (jsonToChars? s).map .str

def parseKeys0 (l : List Json) : Option (List (SName × Scalar)) :=
  l.mapM (fun e => match e with
    | .arr a => (match a.toList with
        | [k, v] => do some ((← jsonToChars? k), (← parseScalar v))
        | _ => none)
    | _ => none)

def parsePath0 (j : Json) : Option Path0 := do
  let c ← getChars j "c"
  let keys ← parseKeys0 (getArr j "k")
  some { cls := c, ns := optChars j "n", host := optChars j "h", keys := keys }

def parseKV (j : Json) : Option KV :=
  match getField j "r" with
  | .null => (parseScalar j).map .sc
  | p => (parsePath0 p).map .ref

def parsePath (j : Json) : Option Path := do
  let c ← getChars j "c"
  let keys ← (getArr j "k").mapM (fun e => match e with
    | .arr a => (match a.toList with
        | [k, v] => do some ((← jsonToChars? k), (← parseKV v))
        | _ => none)
    | _ => none)
  some { cls := c, ns := optChars j "n", host := optChars j "h", keys := keys }

def parseVal (j : Json) : Option Val :=
  match j with
  | Json.null => some Val.null
  | _ =>
    match getField j "a" with
    | Json.arr a => (a.toList.mapM (fun (x : Json) => match x with
        | Json.null => some (none : Option Scalar)
        | y => (parseScalar y).map some)).map Val.arr
    | _ =>
      match getField j "e" with
      | Json.arr e =>
        (match e.toList with
         | [Json.bool b, c, t] => do some (Val.emb b (← jsonToChars? c) (← jsonToChars? t))
         | _ => none)
      | _ => (parseKV j).map Val.one

def parseProp (j : Json) : Option PropV := do
  let n ← getChars j "n"
  let t ← getChars j "t"
  let v ← parseVal (getField j "v")
  some { name := n, ty := t, isArr := (getBool j "a").getD false, val := v }

def parseInst (j : Json) : Option Inst := do
  let c ← getChars j "c"
  let ps ← (getArr j "p").mapM parseProp
  some { cls := c, props := ps }

def parseDecl (j : Json) : Option PropDecl := do
  let n ← getChars j "n"
  let t ← getChars j "t"
  let d ← parseVal (getField j "d")
  some { name := n, ty := t, isArr := (getBool j "a").getD false, isKey := (getBool j "key").getD false, dflt := d,
         embInst := optChars j "ei", embObj := (getBool j "eo").getD false }

def parseCls (j : Json) : Option Cls := do
  let n ← getChars j "name"
  let ps ← (getArr j "props").mapM parseDecl
  some { name := n, super := optChars j "super", isAssoc := (getBool j "assoc").getD false, props := ps }

def parseNs (j : Json) : Option NsEntry := do
  let n ← getChars j "name"
  let cs ← (getArr j "classes").mapM parseCls
  some { name := n, classes := cs, insts := [] }

def parsePl (j : Json) : Option (Option (List SName)) :=
  match getField j "pl" with
  | .null => some none
  | .arr a => (a.toList.mapM jsonToChars?).map some
  | _ => none

def parseOp (j : Json) : Option Op :=
  match getStr j "op" with
  | some "create" => do some (.create (optChars j "ns") (← parseInst (getField j "inst")))
  | some "modify" => do some (.modify (← parsePath (getField j "path")) (← parseInst (getField j "inst")) (← parsePl j))
  | some "delete" => do some (.delete (← parsePath (getField j "path")))
  | some "get" => do some (.get (← parsePath (getField j "path")) (← parsePl j))
  | some "enum" => do some (.enumInsts (optChars j "ns") (← getChars j "cls") (getBool j "di") (← parsePl j))
  | some "names" => do some (.enumNames (optChars j "ns") (← getChars j "cls"))
  | _ => none

/-! output -/

def scalarToJson : Scalar → Json
  | .str s => Json.mkObj [("s", cpsToJson s)]
  | .int v => Json.mkObj [("i", intToJson v)]
  | .bool b => Json.mkObj [("b", b)]
  | .other t x => Json.mkObj [("o", Json.arr #[cpsToJson t, cpsToJson x])]

def optName (o : Option SName) : Json := optToJson cpsToJson o

def path0ToJson (p : Path0) : Json :=
  Json.mkObj [("c", cpsToJson p.cls), ("n", optName p.ns), ("h", optName p.host),
    ("k", Json.arr (p.keys.map (fun e => Json.arr #[cpsToJson e.1, scalarToJson e.2])).toArray)]

def kvToJson : KV → Json
  | .sc s => scalarToJson s
  | .ref p => Json.mkObj [("r", path0ToJson p)]

def pathToJson (p : Path) : Json :=
  Json.mkObj [("c", cpsToJson p.cls), ("n", optName p.ns), ("h", optName p.host),
    ("k", Json.arr (p.keys.map (fun e => Json.arr #[cpsToJson e.1, kvToJson e.2])).toArray)]

def valToJson : Val → Json
  | .null => Json.null
  | .one v => kvToJson v
  | .arr xs => Json.mkObj [("a", Json.arr (xs.map (optToJson scalarToJson)).toArray)]
  | .emb b c t => Json.mkObj [("e", Json.arr #[Json.bool b, cpsToJson c, cpsToJson t])]

def propToJson (p : PropV) : Json :=
  Json.mkObj [("n", cpsToJson p.name), ("t", cpsToJson p.ty), ("a", p.isArr), ("v", valToJson p.val)]

def instToJson (i : Inst) : Json :=
  Json.mkObj [("c", cpsToJson i.cls), ("p", Json.arr (i.props.map propToJson).toArray)]

def rinstToJson (i : RInst) : Json :=
  Json.mkObj [("c", cpsToJson i.cls), ("path", pathToJson i.path), ("p", Json.arr (i.props.map propToJson).toArray)]

def outToJson : Out → Json
  | .path p => Json.mkObj [("ok", Json.mkObj [("path", pathToJson p)])]
  | .unit => Json.mkObj [("ok", Json.null)]
  | .inst i => Json.mkObj [("ok", Json.mkObj [("inst", rinstToJson i)])]
  | .insts l => Json.mkObj [("ok", Json.mkObj [("insts", Json.arr (l.map rinstToJson).toArray)])]
  | .paths l => Json.mkObj [("ok", Json.mkObj [("paths", Json.arr (l.map pathToJson).toArray)])]
  | .err e => e.toJson

def stateToJson (r : Repo) : Json :=
  Json.arr (r.nss.map (fun e => Json.mkObj [("name", cpsToJson e.name),
    ("insts", Json.arr (e.insts.map (fun s => Json.mkObj [("key", pathToJson s.key), ("path", pathToJson s.path),
       ("inst", instToJson s.inst)])).toArray)])).toArray

def handle (j : Json) : Json :=
  match (getArr j "nss").mapM parseNs, (getArr j "ops").mapM parseOp, getChars j "dflt" with
  | some nss, some ops, some d =>
    let r0 : Repo := { nss := nss, dflt := d }
    let (r, outs) := run r0 ops
    let sp := Pywbem.Model.StoreSpec.run (Pywbem.Model.StoreSpec.abs r0) ops
    Json.mkObj [("outs", Json.arr (outs.map outToJson).toArray), ("state", stateToJson r),
                ("specAgrees", decide (outs.map Pywbem.Model.StoreSpec.normOut = sp.2
                                       ∧ Pywbem.Model.StoreSpec.abs r = sp.1))]
  | _, _, _ => Json.mkObj [("bad", "request")]

def main : IO Unit := runDriver handle
