import Pywbem.Model.Iter
open Lean Pywbem.Proto Pywbem.Model.Pull Pywbem.Model.Iter

/-! C15 driver.  Input line:
  {"use": null|bool, "nss":[..], "disabled": bool, "events":[ev,…]}
  ev = {"ev":"call","fam":0..6,"ns":n,"terr":int|null,"objs":[..],"max":A,"timeout":A,"maxform":F,"toform":F,
        "lang":0|1|2,"query":bool,"coe":bool,"rqrc":bool}          A = null | int | "x" (non-int type)
     | {"ev":"next","g":i} | {"ev":"close","g":i} | {"ev":"drop","g":i}
     | {"ev":"throw","g":i,"code":int|null}      (null: a non-CIM exception, modelled as OSError)
     | {"ev":"disable","v":bool} | {"ev":"rmns","ns":n}
  Output: {"steps":[{"res":R,"flags":[7 × null|bool],"open":[ctx ids],"log":[[op,fam,err],…]},…]} -/

def famOf (n : Nat) : Family :=
  match n with
  | 0 => .enumInst | 1 => .enumPath | 2 => .assocInst | 3 => .assocPath
  | 4 => .refInst | 5 => .refPath | _ => .query

def intArg (j : Json) (k : String) : IntArg :=
  match getField j k with
  | .null => .none
  | .str s => match s.toInt? with | some i => .int i | none => .other
  | v => match jsonToInt? v with | some i => .int i | none => .other

/-- an integer argument with the FORM it was given in ("u32" | "u64" | "bool" | absent), canonicalised by the model -/
def pyInt (j : Json) (k form : String) : PyInt :=
  match intArg j k, getStr j form with
  | .int i, some "u32" => .uint32 i
  | .int i, some "u64" => .uint64 i
  | .int i, some "bool" => .bool (i != 0)
  | .int i, _ => .int i
  | .none, _ => .none
  | .other, _ => .other

def langOf (n : Nat) : Lang :=
  match n with | 0 => .none | 1 => .fql | _ => .other

def parseEv (j : Json) : Option Ev :=
  match getStr j "ev" with
  | some "call" => some (.call {
      fam := famOf ((getNat j "fam").getD 0), ns := (getNat j "ns").getD 0,
      tradErr := getNat j "terr", tradObjs := (getArr j "objs").filterMap jsonToNat?,
      max := (pyInt j "max" "maxform").canon, timeout := (pyInt j "timeout" "toform").canon, lang := langOf ((getNat j "lang").getD 0),
      query := (getBool j "query").getD false, coe := (getBool j "coe").getD false,
      rqrc := (getBool j "rqrc").getD false, coeType := (getBool j "coetype").getD false,
      filterType := (getBool j "filtertype").getD false, srcIsClass := (getBool j "srcclass").getD false })
  | some "next" => some (.next ((getNat j "g").getD 0))
  | some "close" => some (.close ((getNat j "g").getD 0))
  | some "drop" => some (.drop ((getNat j "g").getD 0))
  | some "throw" => some (.throw ((getNat j "g").getD 0)
      (match getNat j "code" with | some c => .cimError c | none => .osError))
  | some "disable" => some (.setDisabled ((getBool j "v").getD false))
  | some "rmns" => some (.removeNs ((getNat j "ns").getD 0))
  | _ => none

def natArr (l : List Nat) : Json := Json.arr (l.map (fun (n : Nat) => (n : Json))).toArray

def resToJson : Res → Json
  | .yield o => Json.mkObj [("yield", (o : Nat))]
  | .stop => Json.mkObj [("stop", true)]
  | .raise e => e.toJson
  | .ok => Json.mkObj [("ok", Json.null)]
  | .value objs => Json.mkObj [("value", natArr objs)]
  | .diverge => Json.mkObj [("diverge", true)]

def opToJson : SrvOp → List Json
  | .open f => ["open", (f.idx : Nat)]
  | .pull f => ["pull", (f.idx : Nat)]
  | .close _ => ["close", Json.null]
  | .trad f => ["trad", (f.idx : Nat)]

def logToJson (e : SrvOp × Option PyExc) : Json :=
  Json.arr ((opToJson e.1) ++ [optToJson PyExc.toJson e.2]).toArray

def flagsToJson (fl : Family → Option Bool) : Json :=
  Json.arr (Family.all.map (fun f => optToJson (fun (b : Bool) => (b : Json)) (fl f))).toArray

def runEvents (w : World) (evs : List Ev) : List Json :=
  match evs with
  | [] => []
  | ev :: rest =>
    let r := stepW w ev
    -- an Open stopped by the client-side type check never reached the wire
    let newLog := (r.1.conn.log.drop w.conn.log.length).filter (fun e => e.2 != some PyExc.typeError)
    Json.mkObj [("res", resToJson r.2), ("flags", flagsToJson r.1.conn.flags),
                ("open", natArr (r.1.conn.srv.ctxs.map (·.id))),
                ("log", Json.arr (newLog.map logToJson).toArray)] :: runEvents r.1 rest

def handle (j : Json) : Json :=
  match (getArr j "events").mapM parseEv with
  | none => Json.mkObj [("bad", "event")]
  | some evs =>
    let s0 : State := { nss := (getArr j "nss").filterMap jsonToNat?, disabled := (getBool j "disabled").getD false }
    let w0 := fresh s0 (getBool j "use")
    Json.mkObj [("steps", Json.arr (runEvents w0 evs).toArray)]

def main : IO Unit := runDriver handle
