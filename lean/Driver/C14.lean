import Pywbem.Model.Pull
open Lean Pywbem.Proto Pywbem.Model.Pull

/-! C14 driver.  Input line: {"nss":[..],"ops":[op,…]} with
  op = {"op":"open","kind":k,"ns":n,"objs":[..],"max":int|null,"fql":..,"fq":bool,"ot":int|null,"coe":bool|null}
     | {"op":"pull","kind":k,"ctx":int|null,"max":int|null}
     | {"op":"close","ctx":int|null} | {"op":"addns","ns":n} | {"op":"rmns","ns":n}
     | {"op":"disable","v":bool}
  Output: {"outs":[out,…],"open":[ctx ids still in the table]} -/

def kindOf (s : Option String) : Kind :=
  match s with
  | some "paths" => .paths
  | some "insts" => .insts
  | _ => .withPath

/-- "fql": "absent"|"empty"|"dmtf"|"other", "fq": bool (FilterQuery non-empty), "ot": int|null, "coe": bool|null -/
def paramsOf (j : Json) : OpenParams :=
  { fql := match getStr j "fql" with
      | some "empty" => .empty
      | some "dmtf" => .dmtf
      | some "other" => .other
      | _ => .absent,
    fqSet := (getBool j "fq").getD false,
    timeout := getInt j "ot",
    coe := getBool j "coe" }

def optInt (j : Json) (k : String) : Option Int := getInt j k
def optNat (j : Json) (k : String) : Option Nat := getNat j k

def parseOp (j : Json) : Option Op :=
  match getStr j "op" with
  | some "open" => some (.open (paramsOf j) (kindOf (getStr j "kind")) ((getNat j "ns").getD 0)
                     ((getArr j "objs").filterMap jsonToNat?) (optInt j "max"))
  | some "pull" => some (.pull (kindOf (getStr j "kind")) (optNat j "ctx") (optInt j "max"))
  | some "close" => some (.close (optNat j "ctx"))
  | some "addns" => some (.addNs ((getNat j "ns").getD 0))
  | some "rmns" => some (.removeNs ((getNat j "ns").getD 0))
  | some "disable" => some (.setDisabled ((getBool j "v").getD false))
  | _ => none

def outToJson : Out → Json
  | .batch objs eos ctx => Json.mkObj [("ok", Json.mkObj [
      ("objs", Json.arr (objs.map (fun (n : Nat) => (n : Json))).toArray),
      ("eos", eos), ("ctx", optToJson (fun (n : Nat) => (n : Json)) ctx)])]
  | .done => Json.mkObj [("ok", Json.null)]
  | .err e => e.toJson

def handle (j : Json) : Json :=
  match (getArr j "ops").mapM parseOp with
  | none => Json.mkObj [("bad", "op")]
  | some ops =>
    let s0 : State := { nss := (getArr j "nss").filterMap jsonToNat? }
    let (s, outs) := run s0 ops
    Json.mkObj [("outs", Json.arr (outs.map outToJson).toArray),
                ("open", Json.arr (s.ctxs.map (fun c => (c.id : Json))).toArray)]

def main : IO Unit := runDriver handle
