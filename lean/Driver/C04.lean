import Pywbem.Model.CimJson
import Pywbem.Model.Ops
import Pywbem.Model.OpsMeth
open Lean Pywbem.Proto Pywbem.Model Pywbem.Model.CimJson Pywbem.Model.XmlText Pywbem.Model.Ops
open Pywbem.Generated.OpsSig Pywbem.Model.OpsMeth Pywbem.Model.XmlParse

/-! C04 driver.  One request per executed operation:
  {"op":"full","dflt":cps|null,"name":str,"args":{kw:arg},"host":cps,"reqtree":tt|null,
   "result":res|null,"rsptree":tt|null,"codec":{…}}
  arg  = {"t":"none"|"other"} | {"t":"bool","v":b} | {"t":"int","v":"n"} | {"t":"str","v":cps} |
         {"t":"strs","v":[cps|null]} | {"t":"path"|"inst"|"cls"|"qdecl","v":obj}
  res  = {"err":n,"desc":cps} | {"items":[{"iret":[item]} | {"eos":cps} | {"ctx":cps|null}]}
  item = {"k":"inst"|"path"|"cls"|"qdecl"|"opInst"|"opPath","v":…} | {"k":"opCls","p":path,"c":cls}
  answer: {"req":{"ns","params","xml","wire"}|exc, "srv":{"msgid","opname","ns","params"}|exc|null,
           "rsp":{"xml","wire"}|null, "cli":{"ok":cval}|exc|null, "exch":{"ok":cval}|exc|null}
  {"op":"sig"} -> the signature table as JSON (used by the harness for its own bookkeeping). -/

def decCodecOfJson (j : Json) : DecCodec :=
  let truncs : List (UInt64 × Except PyExc Int) := (getArr j "truncs").filterMap (fun e => match e with
    | .arr a => some (bitsOf (a[0]!), match a[1]! with
        | .str s => (match s.toInt? with
            | some i => .ok i
            | none => if s == "OverflowError" then .error .overflowError else .error .valueError)
        | _ => .error .valueError)
    | _ => none)
  let fofi : List (Int × Option UInt64) := (getArr j "fofi").filterMap (fun e => match e with
    | .arr a => some ((jsonToInt? (a[0]!)).getD 0, match a[1]! with | .null => none | b => some (bitsOf b))
    | _ => none)
  { toCodec := codecOfJson j,
    truncFloat := fun b => match truncs.find? (fun e => e.1 == b) with
      | some e => e.2 | none => .error .valueError,
    floatOfInt := fun i => match fofi.find? (fun e => e.1 == i) with
      | some e => e.2 | none => none }

def optStrsOfJson (j : Json) : List (Option Str) :=
  match j with
  | .arr a => a.toList.map jsonToChars?
  | _ => []

def argOfJson (j : Json) : Arg :=
  let v := getField j "v"
  match getStr j "t" with
  | some "none" => .none
  | some "bool" => .bool ((getBool j "v").getD false)
  | some "int" => .int ((getInt j "v").getD 0)
  | some "str" => .str ((jsonToChars? v).getD [])
  | some "strs" => .strs (optStrsOfJson v)
  | some "path" => .path (pathOfJson v)
  | some "inst" => .inst (instOfJson v)
  | some "cls" => .cls (clsOfJson v)
  | some "qdecl" => .qdecl (qdeclOfJson v)
  | _ => .other

def callOfJson (j : Json) : Call :=
  match j with
  | .obj kvs => { args := kvs.toList.map (fun (k, v) => (k.toList, argOfJson v)) }
  | _ => { args := [] }

def pvalToJson : PVal → Json
  | .bool b => Json.mkObj [("b", b)]
  | .int n => Json.mkObj [("i", intToJson n)]
  | .str s => Json.mkObj [("s", strJ s)]
  | .strs l => Json.mkObj [("l", Json.arr (l.map optStrJ).toArray)]
  | .obj o => Json.mkObj [("o", objToJson o)]

def paramsToJson (ps : Params) : Json :=
  Json.arr (ps.map (fun p => Json.arr #[strJ p.1, optToJson pvalToJson p.2])).toArray

def seenParamsToJson (ps : List (Str × PVal)) : Json :=
  Json.arr (ps.map (fun p => Json.arr #[strJ p.1, pvalToJson p.2])).toArray

def ritemOfJson (j : Json) : RItem :=
  let v := getField j "v"
  match getStr j "k" with
  | some "inst" => .inst (instOfJson v)
  | some "path" => .path (pathOfJson v)
  | some "cls" => .cls (clsOfJson v)
  | some "qdecl" => .qdecl (qdeclOfJson v)
  | some "opInst" => .opInst (instOfJson v)
  | some "opPath" => .opPath (pathOfJson v)
  | _ => .opCls (pathOfJson (getField j "p")) (clsOfJson (getField j "c"))

def rchildOfJson (j : Json) : RChild :=
  match j.getObjVal? "iret" with
  | .ok (.arr a) => .iret (a.toList.map ritemOfJson)
  | _ =>
    match j.getObjVal? "eos" with
    | .ok e => .out (.eos ((jsonToChars? e).getD []))
    | _ => .out (.ctx (jsonToChars? (getField j "ctx")))

def resultOfJson (j : Json) : Result :=
  match getNat j "err" with
  | some c => .err c ((getChars j "desc").getD [])
  | none => .ok ((getArr j "items").map rchildOfJson)

def cobjToJson : CObj → Json
  | .obj o => Json.mkObj [("obj", objToJson o)]
  | .pair p c => Json.mkObj [("pair", Json.arr #[pathToJson p, clsToJson c])]

def cvalToJson : CVal → Json
  | .none => Json.mkObj [("none", true)]
  | .list l => Json.mkObj [("list", Json.arr (l.map cobjToJson).toArray)]
  | .one o => Json.mkObj [("one", cobjToJson o)]
  | .names l => Json.mkObj [("names", Json.arr (l.map strJ).toArray)]
  | .pull l eos ctx => Json.mkObj [("pull", Json.arr (l.map cobjToJson).toArray), ("eos", eos),
      ("ctx", match ctx with
        | none => Json.null
        | some (c, ns) => Json.arr #[optStrJ c, strJ ns])]

def rJson {α} (f : α → Json) : R α → Json
  | .ok a => f a
  | .error e => e.toJson

def kindName : Kind → String
  | .bool => "bool" | .uint => "uint" | .str => "str" | .cls => "cls" | .inst => "inst" | .obj => "obj"
  | .klass => "klass" | .instance => "instance" | .qdecl => "qdecl" | .plist => "plist" | .maxobj => "maxobj"
  | .ctx => "ctx"

def sigJson : Json :=
  Json.arr (rows.map (fun r => Json.mkObj [("op", r.op), ("py", r.pyName),
    ("params", Json.arr (r.params.map (fun p => Json.arr #[(p.name : Json), (kindName p.kind : Json), (p.required : Json)])).toArray),
    ("ret", r.hasReturn), ("out", r.hasOut)])).toArray

def depth : Nat := 8

def full (j : Json) : Json :=
  let C := decCodecOfJson (getField j "codec")
  let dflt := effDefault (jsonToChars? (getField j "dflt"))
  let host := (getChars j "host").getD []
  let name := (getStr j "name").getD ""
  match rows.find? (fun r => r.pyName == name) with
  | none => Json.mkObj [("bad", "unknown operation")]
  | some row =>
    let call := callOfJson (getField j "args")
    let prep := prepare dflt row call
    let reqJ := rJson (fun (p : Str × Params) =>
      let x := requestXml C.toCodec row.op.toList p.1 p.2
      Json.mkObj [("ns", strJ p.1), ("params", paramsToJson p.2), ("xml", strJ x.ser),
                  ("wire", optToJson xmlToJson (wireTree x))]) prep
    let srvJ := match getField j "reqtree" with
      | .null => Json.null
      | t => rJson (fun (p : Str × Seen) => Json.mkObj [("msgid", strJ p.1), ("opname", strJ p.2.op),
          ("ns", strJ p.2.ns), ("params", seenParamsToJson p.2.params)]) (serverSees C depth rows (xmlOfJson t))
    let res := getField j "result"
    let msgid := (getChars j "msgid").getD "1001".toList
    let rspJ := match res with
      | .null => Json.null
      | r =>
        let x := responseXml C.toCodec host row.op.toList msgid (resultOfJson r)
        Json.mkObj [("xml", strJ x.ser), ("wire", optToJson xmlToJson (wireTree x))]
    let cliJ := match getField j "rsptree", prep with
      | .null, _ => Json.null
      | _, .error _ => Json.null
      | t, .ok (ns, ps) => rJson (fun v => Json.mkObj [("ok", cvalToJson v)])
          (clientReceive C depth row ns host ps (xmlOfJson t))
    let exchJ := match res with
      | .null => Json.null
      | r => rJson (fun v => Json.mkObj [("ok", cvalToJson v)])
          (exchange C depth rows dflt host (fun _ => resultOfJson r) row call)
    Json.mkObj [("req", reqJ), ("srv", srvJ), ("rsp", rspJ), ("cli", cliJ), ("exch", exchJ)]

def margOfJson (j : Json) : MArg :=
  { name := (getChars j "name").getD [], val := valOfJson (getField j "val"),
    declared := match getField j "decl" with
      | .arr a => some ((jsonToChars? (a[0]!)).getD [], jsonToChars? (a[1]!))
      | _ => none }

/-- {"op":"meth","dflt":cps|null,"name":cps,"obj":arg,"args":[{"name","val","decl":null|[ty, eo|null]}],"codec"} -/
def meth (j : Json) : Json :=
  let C := codecOfJson (getField j "codec")
  let dflt := effDefault (jsonToChars? (getField j "dflt"))
  match methodRequestXml C dflt ((getChars j "name").getD []) (argOfJson (getField j "obj"))
      ((getArr j "args").map margOfJson) with
  | .ok x => Json.mkObj [("xml", strJ x.ser), ("wire", optToJson xmlToJson (wireTree x))]
  | .error e => e.toJson

def handle (j : Json) : Json :=
  match getStr j "op" with
  | some "full" => full j
  | some "meth" => meth j
  | some "sig" => Json.mkObj [("sig", sigJson), ("coerced", Json.arr (coercedNames.map (fun (s : String) => (s : Json))).toArray),
      ("dropsOnlyNone", dropsOnlyNone)]
  | _ => Json.mkObj [("bad", "op")]

def main : IO Unit := runDriver handle
