import Pywbem.Model.CimJson
import Pywbem.Model.Envelope
import Pywbem.Model.Transport
import Pywbem.Model.Wire
import Pywbem.Generated.RspTables
open Lean Pywbem.Proto Pywbem.Model Pywbem.Model.CimJson Pywbem.Model.XmlText Pywbem.Model.Envelope Pywbem.Model.Transport

/-! C02 driver.  ops:
  {"op":"rsp","spec":{kind,meth,hasRet,hasOut,post,instLevel,returnClass},"http":{"status":n,"headers":[[k,v]…]},
   "tree":tt|null,"codec":{…}}
      -> {"out":{"ok":summary}|{"exc":…,"code":…},"req":bool,"resp":bool,"vk":str|null}
  {"op":"http","http":{…}}  -> {"out":{"ok":null}|{"exc":…}}
-/

def decCodecOfJson (j : Json) : DecCodec :=
  let truncs : List (UInt64 × Except PyExc Int) := (getArr j "truncs").filterMap (fun e => match e with
    | .arr a => some (bitsOf (a[0]!), match a[1]! with
        | .str s => (match s.toInt? with
            | some i => .ok i
            | none => if s == "OverflowError" then .error .overflowError else .error .valueError)
        | _ => .error .valueError)
    | _ => none)
  let fofi : List (Int × Option UInt64) := (getArr j "fofi").filterMap (fun e => match e with
    | .arr a => some ((jsonToInt? (a[0]!)).getD 0, match a[1]! with | .null => none | b => some (bitsOf b))
    | _ => none)
  { toCodec := codecOfJson j,
    truncFloat := fun b => match truncs.find? (fun e => e.1 == b) with
      | some e => e.2 | none => .error .valueError,
    floatOfInt := fun i => match fofi.find? (fun e => e.1 == i) with
      | some e => e.2 | none => none }

/-- correspondence of the concrete conversions with the Python tables of the request: number of
    table entries where `truncF64` / `floatOverflows` disagree with what CPython answered -/
def convMismatches (j : Json) : Nat :=
  let t1 := (getArr j "truncs").filter (fun e => match e with
    | .arr a =>
      let want : Except PyExc Int := match a[1]! with
        | .str s => (match s.toInt? with
            | some i => .ok i
            | none => if s == "OverflowError" then .error .overflowError else .error .valueError)
        | _ => .error .valueError
      (match Resp.truncF64 (bitsOf (a[0]!)), want with
        | .ok x, .ok y => x != y
        | .error x, .error y => x != y
        | _, _ => true)
    | _ => false)
  let t2 := (getArr j "fofi").filter (fun e => match e with
    | .arr a =>
      let i := (jsonToInt? (a[0]!)).getD 0
      let none_ := match a[1]! with | .null => true | _ => false
      Resp.floatOverflows i != none_
    | _ => false)
  t1.length + t2.length

def envCodecOfJson (j : Json) : EnvCodec :=
  let uris : List (Str × Option Path) := (getArr j "uris").filterMap (fun e => match e with
    | .arr a => some ((jsonToChars? (a[0]!)).getD [], match a[1]! with | .null => none | p => some (pathOfJson p))
    | _ => none)
  { toDecCodec := Resp.concreteCodec (decCodecOfJson j),
    wbemUri := fun s => match uris.find? (fun e => e.1 == s) with | some e => e.2 | none => none }

def postOfJson (j : Json) : Post :=
  let il := (getBool j "instLevel").getD true
  let rc := (getBool j "returnClass").getD false
  match getStr j "post" with
  | some "void" => .void | some "instList" => .instList | some "pathList" => .pathList
  | some "oneInst" => .oneInst | some "onePath" => .onePath | some "objs" => .objs il
  | some "objNames" => .objNames il | some "query" => .query | some "pullInst" => .pullInst
  | some "pullPath" => .pullPath | some "pullQuery" => .pullQuery rc | some "classList" => .classList
  | some "classNameList" => .classNameList | some "oneClass" => .oneClass | some "qdeclList" => .qdeclList
  | some "oneQdecl" => .oneQdecl | _ => .invoke

/-- operation signature: call kind, CIM-XML method name and has_return_value / has_out_params come from
    the table regenerated from pywbem/_cim_operations.py (key: the Python method whose `_imethodcall` /
    `_methodcall` / `_iexportcall` call handles the response); only InvokeMethod's method name and the
    result shape come from the harness -/
def specOfJson (j : Json) : Option OpSpec :=
  let py := (getStr j "py").getD ""
  match Pywbem.Generated.Rsp.opFlags.find? (fun r => r.1 == py) with
  | none => none
  | some (_, meth, kind, hr, ho) =>
    some { kind := (if kind == "method" then .method else if kind == "export" then .export else .imethod),
           meth := (if kind == "method" then (getChars j "meth").getD [] else meth.toList),
           hasRet := hr, hasOut := ho, post := postOfJson j,
           ns := (getChars j "ns").getD [], host := (getChars j "host").getD [],
           reqPath := (match getField j "reqPath" with
             | .null => .inst [] none none []
             | p => pathOfJson p) }

def httpOfJson (j : Json) : HttpResp :=
  { status := (getNat j "status").getD 200,
    headers := (getArr j "headers").filterMap (fun kv => match kv with
      | .arr a => some ((jsonToChars? (a[0]!)).getD [], (jsonToChars? (a[1]!)).getD [])
      | _ => none) }

def pathKind (p : Path) : String := if isInstPath p then "ipath" else "cpath"
def instKind (i : Inst) : String := if (instPath i).isSome then "inst" else "inst-nopath"

def strsJ (l : List String) : Json := Json.arr (l.map Json.str).toArray

def arrJ {α} (f : α → Json) (l : List α) : Json := Json.arr (l.map f).toArray

def resToJson : Res → Json
  | .void => Json.mkObj [("k", "void")]
  | .instances l => Json.mkObj [("k", "list"), ("items", strsJ (l.map instKind)), ("objs", arrJ instToJson l)]
  | .paths l => Json.mkObj [("k", "list"), ("items", strsJ (l.map pathKind)), ("objs", arrJ pathToJson l)]
  | .inst i => Json.mkObj [("k", "one"), ("item", instKind i), ("objs", arrJ instToJson [i])]
  | .path p => Json.mkObj [("k", "one"), ("item", pathKind p), ("objs", arrJ pathToJson [p])]
  | .classPairs l => Json.mkObj [("k", "list"), ("items", strsJ (l.map (fun _ => "pair"))),
      ("objs", arrJ (fun (pc : Path × Cls) => Json.arr #[pathToJson pc.1, clsToJson pc.2]) l)]
  | .classes l => Json.mkObj [("k", "list"), ("items", strsJ (l.map (fun _ => "cls"))), ("objs", arrJ clsToJson l)]
  | .classNames l => Json.mkObj [("k", "list"), ("items", strsJ (l.map (fun _ => "str"))), ("objs", arrJ strJ l)]
  | .cls c => Json.mkObj [("k", "one"), ("item", "cls"), ("objs", arrJ clsToJson [c])]
  | .qdecls l => Json.mkObj [("k", "list"), ("items", strsJ (l.map (fun _ => "qdecl"))), ("objs", arrJ qdeclToJson l)]
  | .qdecl q => Json.mkObj [("k", "one"), ("item", "qdecl"), ("objs", arrJ qdeclToJson [q])]
  | .pullI l eos ctx qrc => Json.mkObj [("k", "pull"), ("items", strsJ (l.map instKind)), ("eos", eos),
      ("ctx", optStrJ ctx), ("qrc", qrc.isSome), ("objs", arrJ instToJson l),
      ("qrcObj", match qrc with | some c => clsToJson c | none => Json.null)]
  | .pullP l eos ctx => Json.mkObj [("k", "pull"), ("items", strsJ (l.map pathKind)), ("eos", eos),
      ("ctx", optStrJ ctx), ("qrc", false), ("objs", arrJ pathToJson l), ("qrcObj", Json.null)]
  | .invoke rv outs => Json.mkObj [("k", "invoke"), ("rv", valToJson rv),
      ("outs", Json.arr (outs.map (fun (p : Str × Val) => Json.arr #[strJ p.1, valToJson p.2])).toArray)]

/-- which VersionError subclass parse_cim / parse_message raise (class-name detail of `.versionError`) -/
def versionKind (t : Xml) : String :=
  match t with
  | .elem _ as _ =>
    if !startsWith (getAttrD as "CIMVERSION" "") "2." then "CIMVersionError"
    else if !startsWith (getAttrD as "DTDVERSION" "") "2." then "DTDVersionError"
    else "ProtocolVersionError"
  | _ => "VersionError"

def u3OfJson (j : Json) : U3Exc :=
  { isMaxRetry := (getBool j "isMaxRetry").getD false, className := (getChars j "className").getD [],
    arg0 := getOptChars j "arg0" }

def postOutcomeOfJson (j : Json) : PostOutcome :=
  match getStr j "lib" with
  | some "requests" =>
    let k : ReqKind := match getStr j "kind" with
      | some "ssl" => .ssl | some "readTimeout" => .readTimeout | some "retry" => .retry | _ => .other
    let a := getField j "arg"
    let arg : ReqArg := match getStr a "t" with
      | some "missing" => .missing
      | some "u3" => .u3 (u3OfJson (getField a "e"))
      | _ => .str ((getChars a "s").getD [])
    .requestsExc k arg
  | _ => .urllib3Exc (u3OfJson (getField j "e"))

def FUEL : Nat := 40

def handle (j : Json) : Json :=
  match getStr j "op" with
  | some "rsp" =>
    let C := envCodecOfJson (getField j "codec")
    match specOfJson (getField j "spec") with
    | none => Json.mkObj [("bad", "unknown operation")]
    | some spec =>
    let h := httpOfJson (getField j "http")
    let body : Option Xml := match getField j "tree" with
      | .null => none
      | t => some (xmlOfJson t)
    let o := client C FUEL spec h body
    let out := match o.res with
      | .ok r => Json.mkObj [("ok", resToJson r)]
      | .error e => e.toJson
    let vk : Json := match o.res, body with
      | .error .versionError, some t => Json.str (versionKind t)
      | _, _ => Json.null
    Json.mkObj [("out", out), ("req", o.hasRequestData), ("resp", o.hasResponseData), ("vk", vk),
      ("leak", o.isLeak), ("convMismatch", convMismatches (getField j "codec"))]
  | some "rspText" =>
    -- like "rsp", but the body arrives as text and is parsed by XmlParse.par; answers the tree too
    let C := envCodecOfJson (getField j "codec")
    match specOfJson (getField j "spec") with
    | none => Json.mkObj [("bad", "unknown operation")]
    | some spec =>
    let h := httpOfJson (getField j "http")
    let text := (getChars j "text").getD []
    let tree := Pywbem.Model.XmlParse.par text
    let o := Pywbem.Model.Wire.operationText C FUEL spec (.response h) text
    let out := match o.res with
      | .ok r => Json.mkObj [("ok", resToJson r)]
      | .error e => e.toJson
    Json.mkObj [("out", out), ("parsed", tree.isSome),
      ("tree", match tree with | some t => xmlToJson t | none => Json.null)]
  | some "transport" =>
    let C := envCodecOfJson (getField j "codec")
    match wbemRequest C (postOutcomeOfJson (getField j "exc")) with
    | .ok _ => Json.mkObj [("out", Json.mkObj [("ok", Json.null)])]
    | .error e => Json.mkObj [("out", e.toJson)]
  | some "http" =>
    let h := httpOfJson (getField j "http")
    let info := httpErrorInfo h
    let extra : List (String × Json) := [("status", (info.status : Nat)), ("cimerror", optStrJ info.cimerror),
      ("pg", info.hasPGErrorDetail), ("basic", basicOffered h),
      ("srt", (serverResponseTime (envCodecOfJson (getField j "codec")) h).isSome)]
    match httpLayer h with
    | .ok _ => Json.mkObj ([("out", Json.mkObj [("ok", Json.null)])] ++ extra)
    | .error e => Json.mkObj ([("out", e.toJson)] ++ extra)
  | _ => Json.mkObj [("bad", "op")]

def main : IO Unit := runDriver handle
