import Pywbem.Model.Observer
import Pywbem.Model.Statistics
import Pywbem.Model.LogConfig
open Lean Pywbem.Proto Pywbem.Model.Utf8 Pywbem.Model.ToYaml Pywbem.Model.Observer

/-! C19 driver.  One JSON object per line:
  {"op":"utf8","bytes":[..]}                    -> {"strict":cps|null,"replace":cps}
  {"op":"encode","s":cps}                       -> {"bytes":[..]}
  {"op":"toyaml","v":pyval}                     -> {"ok":yaml,"dumpable":bool} | {"exc":name}
  {"op":"run","conn":{..},"recorders":[..],"calls":[..]} -> {"connEvents":[..],"results":[..]}
 (schemas: harness/c19.py) -/

def chars (j : Json) (k : String) : List Char := (getChars j k).getD []
def optChars (j : Json) (k : String) : Option (List Char) :=
  match getField j k with
  | .null => none
  | x => jsonToChars? x
def nats (j : Json) (k : String) : List Nat := (getArr j k).filterMap jsonToNat?
def optNats (j : Json) (k : String) : Option (List Nat) :=
  match getField j k with
  | .arr a => some (a.toList.filterMap jsonToNat?)
  | _ => none
def bytesJson (b : List Nat) : Json := Json.arr (b.map (fun (n : Nat) => (n : Json))).toArray
def optJson {α} (f : α → Json) : Option α → Json
  | some a => f a
  | none => Json.null

partial def parsePyVal (j : Json) : PyVal :=
  let vs := fun (k : String) => (getArr j k).map parsePyVal
  let keys := (getArr j "k").map (fun x => (jsonToChars? x).getD [])
  match getStr j "t" with
  | some "none" => .none
  | some "bool" => .bool ((getBool j "v").getD false)
  | some "int" => .int ((getInt j "v").getD 0)
  | some "cimint" => .cimInt ((getInt j "v").getD 0)
  | some "float" => .float (chars j "v")
  | some "cimfloat" => .cimFloat (chars j "v")
  | some "str" => .str (chars j "v")
  | some "strsub" => .strSub (chars j "v")
  | some "bytes" => .bytes (nats j "v")
  | some "cimdt" => .cimDateTime (chars j "v")
  | some "datetime" => .datetime (chars j "v")
  | some "timedelta" => .timedelta (chars j "v")
  | some "list" => .list (vs "v")
  | some "tuple" => .tuple (vs "v")
  | some "namedtuple" => .namedtuple keys (vs "v")
  | some "dict" => .dict keys (vs "v")
  | some "obj" => .cimObj ((getStr j "kind").getD "") (vs "v")
  | _ => .other (chars j "v")

partial def yamlJson : Yaml → Json
  | .null => Json.mkObj [("y", "null")]
  | .bool b => Json.mkObj [("y", "bool"), ("v", b)]
  | .int i => Json.mkObj [("y", "int"), ("v", intToJson i)]
  | .float t => Json.mkObj [("y", "float"), ("v", cpsToJson t)]
  | .str s => Json.mkObj [("y", "str"), ("v", cpsToJson s)]
  | .seq xs => Json.mkObj [("y", "seq"), ("v", Json.arr (xs.map yamlJson).toArray)]
  | .map ks vs => Json.mkObj [("y", "map"), ("k", Json.arr (ks.map cpsToJson).toArray),
                               ("v", Json.arr (vs.map yamlJson).toArray)]
  | .unrep w => Json.mkObj [("y", "unrep"), ("v", w)]

def excOf (name : String) (code : Option Nat) : Exc :=
  if name == "CIMError" then .py (.cimError (code.getD 0)) else .named name

def excJson : Exc → Json
  | .py e => e.toJson
  | .named n => Json.mkObj [("exc", n)]

def parseRaised (j : Json) : Raised :=
  { exc := excOf ((getStr j "exc").getD "?") (getNat j "code"), text := chars j "text" }

def parseHdr (j : Json) : Hdr := ⟨chars j "n", chars j "v", chars j "r"⟩

def parseView (j : Json) : View :=
  match getStr j "k" with
  | some "list" => .list ((getArr j "items").map (fun i => ⟨chars i "t", optChars i "p"⟩)) (chars j "ascii")
  | _ => .single (chars j "t") (optChars j "name") (optChars j "p") (chars j "ascii")

def parseRetView (j : Json) : RetView :=
  match getStr j "k" with
  | some "pull" => .pull (chars j "type") (chars j "ctx") (chars j "eos") (optChars j "qrc") (chars j "data")
                     (parseView (getField j "view"))
  | _ => .plain (parseView (getField j "view")) (optChars j "qrc")

def parseDetail (j : Json) : Detail :=
  match j with
  | .str "paths" => .paths
  | .str "summary" => .summary
  | .str _ => .all
  | x => match jsonToNat? x with
    | some n => .maxLen n
    | none => .all

def applyLevels (r : LogRec) (ls : List Json) : LogRec :=
  ls.foldl (fun r l => r.setDetail ((getBool l "api").getD true) (parseDetail (getField l "d"))) r

def parseCreds (j : Json) : Creds :=
  match getStr j "kind" with
  | some "tuple" => .tuple (chars j "user") (chars j "pw")
  | some "tupleSub" => .tupleSub (chars j "user") (chars j "pw")
  | some "list" => .list (chars j "user") (chars j "pw")
  | _ => .none

def setEnabled (b : Bool) : Recorder → Recorder
  | .log r => .log { r with enabled := b }
  | .tcr r => .tcr { r with enabled := b }

def eventJson : Event → Json
  | .log lg kind fs => Json.mkObj [("log", lg), ("kind", kind), ("f", Json.arr (fs.map cpsToJson).toArray)]
  | .testcase y => Json.mkObj [("tc", yamlJson y)]

/-- add the recorders of the spec to the connection (in order), then apply the later level changes / enabled flag -/
def addRecorders (c : Conn) (specs : List Json) : Conn × List Event :=
  specs.foldl (fun (acc : Conn × List Event) spec =>
    let (c, evs) := acc
    let rec0 : Recorder :=
      match getStr spec "kind" with
      | some "log" =>
        .log (applyLevels { apiOn := (getBool spec "apiOnAdd").getD true, httpOn := (getBool spec "httpOnAdd").getD true }
               (getArr spec "pre"))
      | _ => .tcr {}
    let (c1, ev) := c.addRecorder rec0
    -- changes after the recorder was added: more detail levels, then the enabled flag
    let post := getArr spec "post"
    let en := (getBool spec "enabled").getD true
    let n := c1.recorders.length
    let recs := c1.recorders.mapIdx (fun i r =>
      if i + 1 == n then
        setEnabled en (match r with
          | .log l => .log { applyLevels l post with apiOn := (getBool spec "apiOn").getD true,
                                                       httpOn := (getBool spec "httpOn").getD true }
          | x => x)
      else r)
    ({ c1 with recorders := recs }, evs ++ ev)) (c, [])

def lookupRecordsRet (method : List Char) : Bool :=
  match Pywbem.Generated.ObserverTables.opSkeletons.find? (fun s => s.op.toList == method) with
  | some s => s.recordsRet
  | none => true

def lookupPull (method : List Char) : Bool :=
  match Pywbem.Generated.ObserverTables.opSkeletons.find? (fun s => s.op.toList == method) with
  | some s => s.pull
  | none => false

def parseCall (j : Json) : Call × Core :=
  let method := chars j "method"
  let given : List Kwarg := (getArr j "kwargs").map (fun k => ⟨chars k "k", chars k "repr", parsePyVal (getField k "v")⟩)
  -- order in which the operation hands its parameters to stage_pywbem_args (generated table); **params follow
  let order : List (List Char) :=
    match Pywbem.Generated.ObserverTables.opSkeletons.find? (fun s => s.op.toList == method) with
    | some s => s.stageArgs.map String.toList
    | none => []
  let named := order.filterMap (fun n => given.find? (fun k => k.key == n))
  let extra := given.filter (fun k => !(order.contains k.key))
  let kwargs := named ++ extra
  let prepJ := getField j "prep"
  let prep : Except Raised Req :=
    match getField prepJ "err" with
    | .null =>
      -- the harness hands over the CIM* headers it saw; the model rebuilds the list from the values
      let hs := (getArr prepJ "headers").map parseHdr
      let isExport := match hs with | h :: _ => h.name == hCIMExport | [] => false
      let nth := fun (i : Nat) => (hs[i]?).getD ⟨[], [], []⟩
      .ok { data := chars prepJ "data", isExport := isExport, cimMethod := (nth 1).value, cimMethodRepr := (nth 1).valueRepr,
            cimObject := (nth 2).value, cimObjectRepr := (nth 2).valueRepr }
    | e => .error (parseRaised e)
  let sendJ := getField j "send"
  let send : Transport :=
    match getField sendJ "raise" with
    | .null => .response { version := (getNat sendJ "version").getD 11, status := (getNat sendJ "status").getD 200,
                           reason := chars sendJ "reason", headers := (getArr sendJ "headers").map parseHdr,
                           body := nats sendJ "body" }
    | e => .raised (parseRaised e)
  let parseJ := getField j "parse"
  let parse : Outcome :=
    match getField parseJ "err" with
    | .null => .ok ⟨parsePyVal (getField parseJ "val"), parseRetView (getField parseJ "view")⟩
    | e => .error (parseRaised e)
  let srvParse := optChars j "srvParse"
  let badCT : Option Raised := match getField j "badCT" with | .null => none | e => some (parseRaised e)
  ({ method := method, kwargs := kwargs, pull := lookupPull method, recordsRet := lookupRecordsRet method,
     listener := (getBool j "listener").getD false },
   { prep := prep, send := fun _ _ => send, parseFloat := fun _ => srvParse,
     statusError := fun _ => parseRaised (getField j "statusErr"), badContentType := fun _ => badCT,
     xmlOk := fun _ => (getBool j "xmlOk").getD true, parse := fun _ => parse })

def srvJson : SrvTime → Json
  | .none => "none"
  | .num _ => "num"
  | .str _ => "str"

def outcomeJson : Outcome → Json
  | .ok _ => Json.mkObj [("ok", true)]
  | .error e => excJson e.exc

def statsJson (s : Stats) : Json :=
  Json.arr (s.ops.map (fun (p : Str × OpStat) => Json.arr #[cpsToJson p.1, (p.2.count : Json), (p.2.excCount : Json),
    (p.2.reqLenSum : Json), (p.2.replyLenSum : Json), (p.2.srvSuspended : Json)])).toArray

def resultJson (r : OpResult) : Json :=
  Json.mkObj [
    ("outcome", outcomeJson r.outcome),
    ("events", Json.arr (r.events.map eventJson).toArray),
    ("lastRawRequest", optJson cpsToJson r.conn.lastRawRequest),
    ("lastRawReply", optJson bytesJson r.conn.lastRawReply),
    ("reqLen", (r.conn.lastRequestLen : Json)), ("replyLen", (r.conn.lastReplyLen : Json)),
    ("srv", srvJson r.conn.lastSrvTime),
    ("sent", optJson bytesJson r.sent),
    ("stats", statsJson r.conn.stats),
    ("dbgReq", r.conn.lastRequestXmlSet), ("dbgReply", r.conn.lastReplyXmlSet),
    ("opTimeSet", r.conn.lastOpTimeSet)]

def variantOf (j : Json) : Variant :=
  match getField j "variant" with
  | .null => Variant.fixed
  | v => ⟨(getBool v "log").getD true, (getBool v "tcr").getD true, (getBool v "srv").getD true⟩

def handleRun (j : Json) : Json :=
  let cj := getField j "conn"
  let info : ConnInfo := ⟨parseCreds (getField cj "creds"), chars cj "strPre", chars cj "strPost",
                          chars cj "reprPre", chars cj "reprPost"⟩
  let c0 : Conn := { info := info, stats := { enabled := (getBool cj "stats").getD false },
                     debug := (getBool cj "debug").getD false }
  let (c1, connEv) := addRecorders c0 (getArr j "recorders")
  let v := variantOf j
  let (_, results) := (getArr j "calls").foldl (fun (acc : Conn × List Json) cj =>
    let (c, outs) := acc
    let (call, core) := parseCall cj
    let r := runOp v c id call core
    (r.conn, outs ++ [resultJson r])) (c1, [])
  Json.mkObj [("connEvents", Json.arr (connEv.map eventJson).toArray), ("results", Json.arr results.toArray)]

/-! statistics stream: {"op":"stats","ops":[{"o":"start","n":cps,"t":int}|{"o":"stop","i":nat,"t":int,"rq":int|null,
   "rp":int|null,"sv":int|null,"e":bool}|{"o":"reset"}|{"o":"enable"}|{"o":"disable"}]} -/
namespace StatsDrv
open Pywbem.Model.Statistics

def optInt (j : Json) (k : String) : Option Int :=
  match getField j k with
  | .null => none
  | x => jsonToInt? x

def parseOp (j : Json) : Option Op :=
  match getStr j "o" with
  | some "start" => some (.start ((getChars j "n").getD []) ((getInt j "t").getD 0))
  | some "stop" => some (.stop ((getNat j "i").getD 0) ((getInt j "t").getD 0) (optInt j "rq") (optInt j "rp")
                          (optInt j "sv") ((getBool j "e").getD false))
  | some "enter" => some (.enter ((getChars j "n").getD []) ((getInt j "t").getD 0))
  | some "exit" => some (.exit ((getInt j "t").getD 0))
  | some "reset" => some .reset
  | some "enable" => some .enable
  | some "disable" => some .disable
  | _ => none

def oi : Option Int → Json
  | some i => intToJson i
  | none => Json.null

def outJson : Out → Json
  | .handle .dummy => Json.mkObj [("h", "dummy")]
  | .handle (.named n g) => Json.mkObj [("h", cpsToJson n), ("g", (g : Json))]
  | .stopped .none => Json.mkObj [("stop", Json.null)]
  | .stopped (.dt d) => Json.mkObj [("stop", intToJson d)]
  | .stopped .runtimeError => Json.mkObj [("exc", "RuntimeError")]
  | .resetDone ok => Json.mkObj [("reset", ok)]
  | .unit => Json.mkObj [("ok", Json.null)]
  | .indexError => Json.mkObj [("exc", "IndexError")]
  | .exited sup .none => Json.mkObj [("exit", Json.null), ("suppress", sup)]
  | .exited sup (.dt d) => Json.mkObj [("exit", intToJson d), ("suppress", sup)]
  | .exited _ .runtimeError => Json.mkObj [("exc", "RuntimeError")]

def statJson (p : List Char × Pywbem.Model.Statistics.OpStat) : Json :=
  let o := p.2
  Json.mkObj [("n", cpsToJson p.1), ("count", (o.count : Json)), ("exc", (o.excCount : Json)),
    ("tsum", intToJson o.timeSum), ("tmin", oi o.timeMin), ("tmax", intToJson o.timeMax),
    ("susp", o.srvSuspended), ("ssum", intToJson o.srvSum), ("smin", oi o.srvMin), ("smax", intToJson o.srvMax),
    ("qsum", intToJson o.reqSum), ("qmin", oi o.reqMin), ("qmax", intToJson o.reqMax),
    ("psum", intToJson o.replySum), ("pmin", oi o.replyMin), ("pmax", intToJson o.replyMax),
    ("start", oi o.startTime), ("first", oi o.statStart)]

def handleStats (j : Json) : Json :=
  match (getArr j "ops").mapM parseOp with
  | none => Json.mkObj [("bad", "stats op")]
  | some ops =>
    let (r, outs) := run {} ops
    Json.mkObj [("outs", Json.arr (outs.map outJson).toArray), ("enabled", r.stats.enabled),
                ("stats", Json.arr (r.stats.ops.map statJson).toArray)]
end StatsDrv

/-! configure_logger stream: {"op":"logcfg","parentDebug":b,"userHandlers":{"api":n,"http":n},"conn":{..as in run..},
   "tcr":b,"calls":[{"name":"api|http|all|<other>","dest":null|"stderr"|"file"|"off"|<other>,"detail":null|str|int|{"other":..},
   "filename":b,"conn":null|true|false|"conn","propagate":b}]} -/
namespace LogCfgDrv
open Pywbem.Model.LogConfig

def nameArg (j : Json) : NameArg :=
  match j with
  | .str "api" => .api
  | .str "http" => .http
  | .str "all" => .all
  | _ => .other

def destArg (j : Json) : DestArg :=
  match j with
  | .null => .none
  | .str "stderr" => .stderr
  | .str "file" => .file
  | .str "off" => .off
  | _ => .other

def detailArg (j : Json) : DetailArg :=
  match j with
  | .null => .none
  | .str s => .str s.toList
  | .arr a => .str (a.toList.filterMap (fun x => (jsonToNat? x).map Char.ofNat))
  | .num _ => match jsonToInt? j with | some i => .int i | none => .other
  | _ => .other

def connArg (j : Json) : ConnArg :=
  match j with
  | .null => .none
  | .bool b => .flag b
  | _ => .conn

def detailJson : Option Detail → Json
  | none => Json.null
  | some .all => "all"
  | some .paths => "paths"
  | some .summary => "summary"
  | some (.maxLen n) => (n : Json)

def levelJson : Level → Json
  | .notset => "notset"
  | .debug => "debug"
  | .error => "error"

def hk : HandlerKind → Json
  | .stderr => "stderr"
  | .file => "file"
  | .user => "user"

def loggerJson (l : LoggerSt) : Json :=
  Json.mkObj [("handlers", Json.arr (l.handlers.map hk).toArray), ("level", levelJson l.level), ("propagate", l.propagate)]

def recJson : Recorder → Json
  | .log l => Json.mkObj [("kind", "log"), ("api", detailJson l.apiLevel), ("http", detailJson l.httpLevel),
      ("apiMax", optJson (fun (n : Nat) => (n : Json)) l.apiMax), ("httpMax", optJson (fun (n : Nat) => (n : Json)) l.httpMax),
      ("apiOn", l.apiOn), ("httpOn", l.httpOn), ("enabled", l.enabled)]
  | .tcr t => Json.mkObj [("kind", "tcr"), ("enabled", t.enabled)]

def stateJson (g : Global) (c : Conn) : Json :=
  Json.mkObj [("apiLogger", loggerJson g.api), ("httpLogger", loggerJson g.http), ("activate", g.activate),
    ("apiDetail", detailJson g.apiDetail), ("httpDetail", detailJson g.httpDetail),
    ("recorders", Json.arr (c.recorders.map recJson).toArray)]

def handleLogCfg (j : Json) : Json :=
  let cj := getField j "conn"
  let info : ConnInfo := ⟨parseCreds (getField cj "creds"), chars cj "strPre", chars cj "strPost",
                          chars cj "reprPre", chars cj "reprPost"⟩
  let uh := getField j "userHandlers"
  let g0 : Global := { parentDebug := (getBool j "parentDebug").getD false,
                       api := { handlers := List.replicate ((getNat uh "api").getD 0) .user },
                       http := { handlers := List.replicate ((getNat uh "http").getD 0) .user } }
  let c0 := Conn.new info ((getBool cj "stats").getD false)
  let c1 := if (getBool j "tcr").getD false then (c0.addRecorder (.tcr {})).1 else c0
  let (g, c, outs) := (getArr j "calls").foldl (fun (acc : Global × Conn × List Json) cj =>
    let (g, c, outs) := acc
    let r := configure g c (nameArg (getField cj "name")) (destArg (getField cj "dest")) (detailArg (getField cj "detail"))
               ((getBool cj "filename").getD false) (connArg (getField cj "conn")) ((getBool cj "propagate").getD false)
    (r.g, r.c, outs ++ [Json.mkObj [("exc", optJson (fun (e : Exc) => (e.name : Json)) r.exc),
                                     ("events", Json.arr (r.events.map eventJson).toArray),
                                     ("state", stateJson r.g r.c)]])) (g0, c1, [])
  let (cn, evn) := newConn g info false
  let (cc, evc) := copyConn g c
  let kinds := fun (evs : List Event) => Json.arr (evs.map (fun e => match e with
    | .log lg kind _ => Json.mkObj [("log", lg), ("kind", kind)]
    | .testcase _ => Json.mkObj [("tc", Json.null)])).toArray
  Json.mkObj [("calls", Json.arr outs.toArray),
              ("copy", Json.mkObj [("exc", Json.null), ("recorders", Json.arr (cc.recorders.map recJson).toArray),
                                    ("events", kinds evc)]),
              ("newConn", Json.mkObj [("recorders", Json.arr (cn.recorders.map recJson).toArray),
                                       ("events", Json.arr (evn.map eventJson).toArray)]),
              ("final", stateJson g c)]
end LogCfgDrv

def handle (j : Json) : Json :=
  match getStr j "op" with
  | some "utf8" =>
    let b := nats j "bytes"
    Json.mkObj [("strict", optJson cpsToJson (decodeStrict b)), ("replace", cpsToJson (decodeReplace b))]
  | some "encode" => Json.mkObj [("bytes", bytesJson (encode (chars j "s")))]
  | some "toyaml" =>
    match toyaml (parsePyVal (getField j "v")) with
    | .ok y => Json.mkObj [("ok", yamlJson y), ("dumpable", y.representable)]
    | .error e => excJson e
  | some "run" => handleRun j
  | some "stats" => StatsDrv.handleStats j
  | some "logcfg" => LogCfgDrv.handleLogCfg j
  | _ => Json.mkObj [("bad", "op")]

def main : IO Unit := runDriver handle
