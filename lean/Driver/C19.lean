import Pywbem.Model.Observer
open Lean Pywbem.Proto Pywbem.Model.Utf8 Pywbem.Model.ToYaml Pywbem.Model.Observer

/-! C19 driver.  One JSON object per line:
  {"op":"utf8","bytes":[..]}                    -> {"strict":cps|null,"replace":cps}
  {"op":"encode","s":cps}                       -> {"bytes":[..]}
  {"op":"toyaml","v":pyval}                     -> {"ok":yaml,"dumpable":bool} | {"exc":name}
  {"op":"run","conn":{..},"recorders":[..],"calls":[..]} -> {"connEvents":[..],"results":[..]}
 (schemas: harness/c19.py) -/

def chars (j : Json) (k : String) : List Char := (getChars j k).getD []
def optChars (j : Json) (k : String) : Option (List Char) :=
  match getField j k with
  | .null => none
  | x => jsonToChars? x
def nats (j : Json) (k : String) : List Nat := (getArr j k).filterMap jsonToNat?
def optNats (j : Json) (k : String) : Option (List Nat) :=
  match getField j k with
  | .arr a => some (a.toList.filterMap jsonToNat?)
  | _ => none
def bytesJson (b : List Nat) : Json := Json.arr (b.map (fun (n : Nat) => (n : Json))).toArray
def optJson {α} (f : α → Json) : Option α → Json
  | some a => f a
  | none => Json.null

partial def parsePyVal (j : Json) : PyVal :=
  let vs := fun (k : String) => (getArr j k).map parsePyVal
  let keys := (getArr j "k").map (fun x => (jsonToChars? x).getD [])
  match getStr j "t" with
  | some "none" => .none
  | some "bool" => .bool ((getBool j "v").getD false)
  | some "int" => .int ((getInt j "v").getD 0)
  | some "cimint" => .cimInt ((getInt j "v").getD 0)
  | some "float" => .float (chars j "v")
  | some "cimfloat" => .cimFloat (chars j "v")
  | some "str" => .str (chars j "v")
  | some "strsub" => .strSub (chars j "v")
  | some "bytes" => .bytes (nats j "v")
  | some "cimdt" => .cimDateTime (chars j "v")
  | some "datetime" => .datetime (chars j "v")
  | some "timedelta" => .timedelta (chars j "v")
  | some "list" => .list (vs "v")
  | some "tuple" => .tuple (vs "v")
  | some "namedtuple" => .namedtuple keys (vs "v")
  | some "dict" => .dict keys (vs "v")
  | some "obj" => .cimObj ((getStr j "kind").getD "") (vs "v")
  | _ => .other (chars j "v")

partial def yamlJson : Yaml → Json
  | .null => Json.mkObj [("y", "null")]
  | .bool b => Json.mkObj [("y", "bool"), ("v", b)]
  | .int i => Json.mkObj [("y", "int"), ("v", intToJson i)]
  | .float t => Json.mkObj [("y", "float"), ("v", cpsToJson t)]
  | .str s => Json.mkObj [("y", "str"), ("v", cpsToJson s)]
  | .seq xs => Json.mkObj [("y", "seq"), ("v", Json.arr (xs.map yamlJson).toArray)]
  | .map ks vs => Json.mkObj [("y", "map"), ("k", Json.arr (ks.map cpsToJson).toArray),
                               ("v", Json.arr (vs.map yamlJson).toArray)]
  | .unrep w => Json.mkObj [("y", "unrep"), ("v", w)]

def excOf (name : String) (code : Option Nat) : Exc :=
  if name == "CIMError" then .py (.cimError (code.getD 0)) else .named name

def excJson : Exc → Json
  | .py e => e.toJson
  | .named n => Json.mkObj [("exc", n)]

def parseRaised (j : Json) : Raised :=
  { exc := excOf ((getStr j "exc").getD "?") (getNat j "code"), text := chars j "text" }

def parseHdr (j : Json) : Hdr := ⟨chars j "n", chars j "v", chars j "r"⟩

def parseView (j : Json) : View :=
  match getStr j "k" with
  | some "list" => .list ((getArr j "items").map (fun i => ⟨chars i "t", optChars i "p"⟩)) (chars j "ascii")
  | _ => .single (chars j "t") (optChars j "name") (optChars j "p") (chars j "ascii")

def parseRetView (j : Json) : RetView :=
  match getStr j "k" with
  | some "pull" => .pull (chars j "type") (chars j "ctx") (chars j "eos") (optChars j "qrc") (chars j "data")
                     (parseView (getField j "view"))
  | _ => .plain (parseView (getField j "view")) (optChars j "qrc")

def parseDetail (j : Json) : Detail :=
  match j with
  | .str "paths" => .paths
  | .str "summary" => .summary
  | .str _ => .all
  | x => match jsonToNat? x with
    | some n => .maxLen n
    | none => .all

def applyLevels (r : LogRec) (ls : List Json) : LogRec :=
  ls.foldl (fun r l => r.setDetail ((getBool l "api").getD true) (parseDetail (getField l "d"))) r

def parseCreds (j : Json) : Creds :=
  match getStr j "kind" with
  | some "tuple" => .tuple (chars j "user") (chars j "pw")
  | some "list" => .list (chars j "user") (chars j "pw")
  | _ => .none

def setEnabled (b : Bool) : Recorder → Recorder
  | .log r => .log { r with enabled := b }
  | .tcr r => .tcr { r with enabled := b }

def eventJson : Event → Json
  | .log lg kind fs => Json.mkObj [("log", lg), ("kind", kind), ("f", Json.arr (fs.map cpsToJson).toArray)]
  | .testcase y => Json.mkObj [("tc", yamlJson y)]

/-- add the recorders of the spec to the connection (in order), then apply the later level changes / enabled flag -/
def addRecorders (c : Conn) (specs : List Json) : Conn × List Event :=
  specs.foldl (fun (acc : Conn × List Event) spec =>
    let (c, evs) := acc
    let rec0 : Recorder :=
      match getStr spec "kind" with
      | some "log" =>
        .log (applyLevels { apiOn := (getBool spec "apiOnAdd").getD true, httpOn := (getBool spec "httpOnAdd").getD true }
               (getArr spec "pre"))
      | _ => .tcr {}
    let (c1, ev) := c.addRecorder rec0
    -- changes after the recorder was added: more detail levels, then the enabled flag
    let post := getArr spec "post"
    let en := (getBool spec "enabled").getD true
    let n := c1.recorders.length
    let recs := c1.recorders.mapIdx (fun i r =>
      if i + 1 == n then
        setEnabled en (match r with
          | .log l => .log { applyLevels l post with apiOn := (getBool spec "apiOn").getD true,
                                                       httpOn := (getBool spec "httpOn").getD true }
          | x => x)
      else r)
    ({ c1 with recorders := recs }, evs ++ ev)) (c, [])

def lookupRecordsRet (method : List Char) : Bool :=
  match Pywbem.Generated.ObserverTables.opSkeletons.find? (fun s => s.op.toList == method) with
  | some s => s.recordsRet
  | none => true

def lookupPull (method : List Char) : Bool :=
  match Pywbem.Generated.ObserverTables.opSkeletons.find? (fun s => s.op.toList == method) with
  | some s => s.pull
  | none => false

def parseCall (j : Json) : Call × Core :=
  let method := chars j "method"
  let given : List Kwarg := (getArr j "kwargs").map (fun k => ⟨chars k "k", chars k "repr", parsePyVal (getField k "v")⟩)
  -- order in which the operation hands its parameters to stage_pywbem_args (generated table); **params follow
  let order : List (List Char) :=
    match Pywbem.Generated.ObserverTables.opSkeletons.find? (fun s => s.op.toList == method) with
    | some s => s.stageArgs.map String.toList
    | none => []
  let named := order.filterMap (fun n => given.find? (fun k => k.key == n))
  let extra := given.filter (fun k => !(order.contains k.key))
  let kwargs := named ++ extra
  let prepJ := getField j "prep"
  let prep : Except Raised Req :=
    match getField prepJ "err" with
    | .null => .ok ⟨chars prepJ "data", (getArr prepJ "headers").map parseHdr⟩
    | e => .error (parseRaised e)
  let sendJ := getField j "send"
  let send : Transport :=
    match getField sendJ "raise" with
    | .null => .response { version := (getNat sendJ "version").getD 11, status := (getNat sendJ "status").getD 200,
                           reason := chars sendJ "reason", headers := (getArr sendJ "headers").map parseHdr,
                           body := nats sendJ "body" }
    | e => .raised (parseRaised e)
  let parseJ := getField j "parse"
  let parse : Outcome :=
    match getField parseJ "err" with
    | .null => .ok ⟨parsePyVal (getField parseJ "val"), parseRetView (getField parseJ "view")⟩
    | e => .error (parseRaised e)
  let srvParse := optChars j "srvParse"
  let badCT : Option Raised := match getField j "badCT" with | .null => none | e => some (parseRaised e)
  ({ method := method, kwargs := kwargs, pull := lookupPull method, recordsRet := lookupRecordsRet method,
     listener := (getBool j "listener").getD false },
   { prep := prep, send := fun _ _ => send, parseFloat := fun _ => srvParse,
     statusError := fun _ => parseRaised (getField j "statusErr"), badContentType := fun _ => badCT,
     xmlOk := fun _ => (getBool j "xmlOk").getD true, parse := fun _ => parse })

def srvJson : SrvTime → Json
  | .none => "none"
  | .num _ => "num"
  | .str _ => "str"

def outcomeJson : Outcome → Json
  | .ok _ => Json.mkObj [("ok", true)]
  | .error e => excJson e.exc

def statsJson (s : Stats) : Json :=
  Json.arr (s.ops.map (fun (p : Str × OpStat) => Json.arr #[cpsToJson p.1, (p.2.count : Json), (p.2.excCount : Json),
    (p.2.reqLenSum : Json), (p.2.replyLenSum : Json), (p.2.srvSuspended : Json)])).toArray

def resultJson (r : OpResult) : Json :=
  Json.mkObj [
    ("outcome", outcomeJson r.outcome),
    ("events", Json.arr (r.events.map eventJson).toArray),
    ("lastRawRequest", optJson cpsToJson r.conn.lastRawRequest),
    ("lastRawReply", optJson bytesJson r.conn.lastRawReply),
    ("reqLen", (r.conn.lastRequestLen : Json)), ("replyLen", (r.conn.lastReplyLen : Json)),
    ("srv", srvJson r.conn.lastSrvTime),
    ("sent", optJson bytesJson r.sent),
    ("stats", statsJson r.conn.stats),
    ("dbgReq", r.conn.lastRequestXmlSet), ("dbgReply", r.conn.lastReplyXmlSet),
    ("opTimeSet", r.conn.lastOpTimeSet)]

def variantOf (j : Json) : Variant :=
  match getField j "variant" with
  | .null => Variant.fixed
  | v => ⟨(getBool v "log").getD true, (getBool v "tcr").getD true, (getBool v "srv").getD true⟩

def handleRun (j : Json) : Json :=
  let cj := getField j "conn"
  let info : ConnInfo := ⟨parseCreds (getField cj "creds"), chars cj "strPre", chars cj "strPost",
                          chars cj "reprPre", chars cj "reprPost"⟩
  let c0 : Conn := { info := info, stats := { enabled := (getBool cj "stats").getD false },
                     debug := (getBool cj "debug").getD false }
  let (c1, connEv) := addRecorders c0 (getArr j "recorders")
  let v := variantOf j
  let (_, results) := (getArr j "calls").foldl (fun (acc : Conn × List Json) cj =>
    let (c, outs) := acc
    let (call, core) := parseCall cj
    let r := runOp v c id call core
    (r.conn, outs ++ [resultJson r])) (c1, [])
  Json.mkObj [("connEvents", Json.arr (connEv.map eventJson).toArray), ("results", Json.arr results.toArray)]

def handle (j : Json) : Json :=
  match getStr j "op" with
  | some "utf8" =>
    let b := nats j "bytes"
    Json.mkObj [("strict", optJson cpsToJson (decodeStrict b)), ("replace", cpsToJson (decodeReplace b))]
  | some "encode" => Json.mkObj [("bytes", bytesJson (encode (chars j "s")))]
  | some "toyaml" =>
    match toyaml (parsePyVal (getField j "v")) with
    | .ok y => Json.mkObj [("ok", yamlJson y), ("dumpable", y.representable)]
    | .error e => excJson e
  | some "run" => handleRun j
  | _ => Json.mkObj [("bad", "op")]

def main : IO Unit := runDriver handle
