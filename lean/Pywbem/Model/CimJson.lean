/-
JSON <-> CIM object family / Xml trees for the line protocol (used by drivers C01..C04).
Not part of any theorem; `partial` is fine here.
-/
import Pywbem.Model.CimXmlEnc
import Pywbem.Proto

namespace Pywbem.Model.CimJson
open Lean Pywbem.Proto Pywbem.Model Pywbem.Model.XmlText

def strJ (s : Str) : Json := cpsToJson s
def optStrJ (s : Option Str) : Json := optToJson strJ s
def optBoolJ (b : Option Bool) : Json := optToJson (fun (x : Bool) => (x : Json)) b
def optNatJ (n : Option Nat) : Json := optToJson (fun (x : Nat) => (x : Json)) n

def getOptChars (j : Json) (k : String) : Option Str := jsonToChars? (getField j k)
def getOptBool (j : Json) (k : String) : Option Bool := getBool j k
def getOptNat (j : Json) (k : String) : Option Nat := getNat j k
def getCharsD (j : Json) (k : String) : Str := (getChars j k).getD []
def bitsOf (j : Json) : UInt64 :=
  match j with
  | .str s => (s.toNat?.getD 0).toUInt64
  | .num n => n.mantissa.toNat.toUInt64
  | _ => 0

def intTyOf (s : String) : IntTy := (IntTy.ofName s.toList).getD .u8

mutual
partial def atomOfJson (j : Json) : Atom :=
  match getStr j "t" with
  | some "str" => .str (getCharsD j "v")
  | some "char16" => .char16 (getCharsD j "v")
  | some "bool" => .bool ((getBool j "v").getD false)
  | some "int" => .int (intTyOf ((getStr j "ty").getD "uint8")) ((getInt j "v").getD 0)
  | some "real" => .real ((getBool j "w").getD true) (bitsOf (getField j "bits"))
  | some "dt" => .dt (getCharsD j "v")
  | some "pyint" => .pyint ((getInt j "v").getD 0)
  | some "pyfloat" => .pyfloat (bitsOf (getField j "bits"))
  | some "ref" => .ref (pathOfJson (getField j "v"))
  | some "einst" => .einst (instOfJson (getField j "v"))
  | some "ecls" => .ecls (clsOfJson (getField j "v"))
  | _ => .null
partial def pathOfJson (j : Json) : Path :=
  match getStr j "k" with
  | some "inst" => .inst (getCharsD j "cls") (getOptChars j "host") (getOptChars j "ns")
      ((getArr j "keys").map (fun kv => match kv with
        | .arr a => .mk (jsonToChars? (a[0]!)) (atomOfJson (a[1]!))
        | _ => .mk none .null))
  | _ => .cls (getCharsD j "cls") (getOptChars j "host") (getOptChars j "ns")
partial def valOfJson (j : Json) : Val :=
  match j with
  | .null => .null
  | _ => match j.getObjVal? "s" with
    | .ok a => .scalar (atomOfJson a)
    | .error _ => .array ((getArr j "a").map atomOfJson)
partial def qualOfJson (j : Json) : Qual :=
  .mk (getCharsD j "name") (getCharsD j "ty") (valOfJson (getField j "val")) (getOptBool j "propagated")
    (getOptBool j "overridable") (getOptBool j "tosubclass") (getOptBool j "toinstance") (getOptBool j "translatable")
partial def propOfJson (j : Json) : Prop_ :=
  .mk (getCharsD j "name") (getCharsD j "ty") (valOfJson (getField j "val")) ((getBool j "isArray").getD false)
    (getOptNat j "arraySize") (getOptChars j "refCls") (getOptChars j "origin") (getOptBool j "propagated")
    (getOptChars j "emb") ((getArr j "quals").map qualOfJson)
partial def instOfJson (j : Json) : Inst :=
  .mk (getCharsD j "cls") (match getField j "path" with | .null => none | p => some (pathOfJson p))
    ((getArr j "props").map propOfJson) ((getArr j "quals").map qualOfJson)
partial def paramOfJson (j : Json) : Param :=
  .mk (getCharsD j "name") (getCharsD j "ty") (getOptChars j "refCls") ((getBool j "isArray").getD false)
    (getOptNat j "arraySize") ((getArr j "quals").map qualOfJson) (valOfJson (getField j "val")) (getOptChars j "emb")
partial def methOfJson (j : Json) : Meth :=
  .mk (getCharsD j "name") (getOptChars j "retTy") ((getArr j "params").map paramOfJson) (getOptChars j "origin")
    (getOptBool j "propagated") ((getArr j "quals").map qualOfJson)
partial def clsOfJson (j : Json) : Cls :=
  .mk (getCharsD j "name") (getOptChars j "super") (match getField j "path" with | .null => none | p => some (pathOfJson p))
    ((getArr j "props").map propOfJson) ((getArr j "meths").map methOfJson) ((getArr j "quals").map qualOfJson)
end

def qdeclOfJson (j : Json) : QualDecl :=
  { name := getCharsD j "name", ty := getCharsD j "ty", val := valOfJson (getField j "val"),
    isArray := (getBool j "isArray").getD false, arraySize := getOptNat j "arraySize",
    scopes := (getArr j "scopes").filterMap (fun kv => match kv with
      | .arr a => some ((jsonToChars? (a[0]!)).getD [], match a[1]! with | .bool b => b | _ => false)
      | _ => none),
    overridable := getOptBool j "overridable", tosubclass := getOptBool j "tosubclass",
    toinstance := getOptBool j "toinstance", translatable := getOptBool j "translatable" }

def objOfJson (j : Json) : Option Obj :=
  let v := getField j "v"
  match getStr j "kind" with
  | some "path" => some (.path (pathOfJson v))
  | some "inst" => some (.inst (instOfJson v))
  | some "cls" => some (.cls (clsOfJson v))
  | some "prop" => some (.prop (propOfJson v))
  | some "meth" => some (.meth (methOfJson v))
  | some "param" => some (.param (paramOfJson v))
  | some "qual" => some (.qual (qualOfJson v))
  | some "qdecl" => some (.qdecl (qdeclOfJson v))
  | _ => none

mutual
partial def atomToJson : Atom → Json
  | .null => Json.mkObj [("t", "null")]
  | .str s => Json.mkObj [("t", "str"), ("v", strJ s)]
  | .char16 s => Json.mkObj [("t", "char16"), ("v", strJ s)]
  | .bool b => Json.mkObj [("t", "bool"), ("v", b)]
  | .int t v => Json.mkObj [("t", "int"), ("ty", String.ofList t.name), ("v", intToJson v)]
  | .real w bits => Json.mkObj [("t", "real"), ("w", w), ("bits", toString bits.toNat)]
  | .dt s => Json.mkObj [("t", "dt"), ("v", strJ s)]
  | .pyint v => Json.mkObj [("t", "pyint"), ("v", intToJson v)]
  | .pyfloat bits => Json.mkObj [("t", "pyfloat"), ("bits", toString bits.toNat)]
  | .ref p => Json.mkObj [("t", "ref"), ("v", pathToJson p)]
  | .einst i => Json.mkObj [("t", "einst"), ("v", instToJson i)]
  | .ecls c => Json.mkObj [("t", "ecls"), ("v", clsToJson c)]
partial def pathToJson : Path → Json
  | .inst cls host ns keys => Json.mkObj [("k", "inst"), ("cls", strJ cls), ("host", optStrJ host), ("ns", optStrJ ns),
      ("keys", Json.arr (keys.map (fun k => match k with
        | .mk n v => Json.arr #[optStrJ n, atomToJson v])).toArray)]
  | .cls cls host ns => Json.mkObj [("k", "cls"), ("cls", strJ cls), ("host", optStrJ host), ("ns", optStrJ ns)]
partial def valToJson : Val → Json
  | .null => Json.null
  | .scalar a => Json.mkObj [("s", atomToJson a)]
  | .array l => Json.mkObj [("a", Json.arr (l.map atomToJson).toArray)]
partial def qualToJson : Qual → Json
  | .mk name ty val p o ts ti tr => Json.mkObj [("name", strJ name), ("ty", strJ ty), ("val", valToJson val),
      ("propagated", optBoolJ p), ("overridable", optBoolJ o), ("tosubclass", optBoolJ ts),
      ("toinstance", optBoolJ ti), ("translatable", optBoolJ tr)]
partial def propToJson : Prop_ → Json
  | .mk name ty val isArray arraySize refCls origin propagated emb quals =>
    Json.mkObj [("name", strJ name), ("ty", strJ ty), ("val", valToJson val), ("isArray", isArray),
      ("arraySize", optNatJ arraySize), ("refCls", optStrJ refCls), ("origin", optStrJ origin),
      ("propagated", optBoolJ propagated), ("emb", optStrJ emb), ("quals", Json.arr (quals.map qualToJson).toArray)]
partial def instToJson : Inst → Json
  | .mk cls path props quals => Json.mkObj [("cls", strJ cls), ("path", optToJson pathToJson path),
      ("props", Json.arr (props.map propToJson).toArray), ("quals", Json.arr (quals.map qualToJson).toArray)]
partial def paramToJson : Param → Json
  | .mk name ty refCls isArray arraySize quals val emb =>
    Json.mkObj [("name", strJ name), ("ty", strJ ty), ("refCls", optStrJ refCls), ("isArray", isArray),
      ("arraySize", optNatJ arraySize), ("quals", Json.arr (quals.map qualToJson).toArray),
      ("val", valToJson val), ("emb", optStrJ emb)]
partial def methToJson : Meth → Json
  | .mk name retTy params origin propagated quals =>
    Json.mkObj [("name", strJ name), ("retTy", optStrJ retTy), ("params", Json.arr (params.map paramToJson).toArray),
      ("origin", optStrJ origin), ("propagated", optBoolJ propagated), ("quals", Json.arr (quals.map qualToJson).toArray)]
partial def clsToJson : Cls → Json
  | .mk name super path props meths quals =>
    Json.mkObj [("name", strJ name), ("super", optStrJ super), ("path", optToJson pathToJson path),
      ("props", Json.arr (props.map propToJson).toArray), ("meths", Json.arr (meths.map methToJson).toArray),
      ("quals", Json.arr (quals.map qualToJson).toArray)]
end

def qdeclToJson (q : QualDecl) : Json :=
  Json.mkObj [("name", strJ q.name), ("ty", strJ q.ty), ("val", valToJson q.val), ("isArray", q.isArray),
    ("arraySize", optNatJ q.arraySize),
    ("scopes", Json.arr (q.scopes.map (fun p => Json.arr #[strJ p.1, (p.2 : Json)])).toArray),
    ("overridable", optBoolJ q.overridable), ("tosubclass", optBoolJ q.tosubclass),
    ("toinstance", optBoolJ q.toinstance), ("translatable", optBoolJ q.translatable)]

def objToJson : Obj → Json
  | .path p => Json.mkObj [("kind", "path"), ("v", pathToJson p)]
  | .inst i => Json.mkObj [("kind", "inst"), ("v", instToJson i)]
  | .cls c => Json.mkObj [("kind", "cls"), ("v", clsToJson c)]
  | .prop p => Json.mkObj [("kind", "prop"), ("v", propToJson p)]
  | .meth m => Json.mkObj [("kind", "meth"), ("v", methToJson m)]
  | .param p => Json.mkObj [("kind", "param"), ("v", paramToJson p)]
  | .qual q => Json.mkObj [("kind", "qual"), ("v", qualToJson q)]
  | .qdecl q => Json.mkObj [("kind", "qdecl"), ("v", qdeclToJson q)]

/-- tupletree JSON: {"e":name,"a":[[k,v],…],"c":[…]} | {"x":text} -/
partial def xmlOfJson (j : Json) : Xml :=
  match j.getObjVal? "x" with
  | .ok t => .text ((jsonToChars? t).getD [])
  | .error _ =>
    .elem (getCharsD j "e")
      ((getArr j "a").filterMap (fun kv => match kv with
        | .arr a => some ((jsonToChars? (a[0]!)).getD [], (jsonToChars? (a[1]!)).getD [])
        | _ => none))
      ((getArr j "c").map xmlOfJson)

partial def xmlToJson : Xml → Json
  | .text s => Json.mkObj [("x", strJ s)]
  | .elem n as ks => Json.mkObj [("e", strJ n),
      ("a", Json.arr (as.map (fun p => Json.arr #[strJ p.1, strJ p.2])).toArray),
      ("c", Json.arr (ks.map xmlToJson).toArray)]

/-- Codec instance from the oracle tables the harness sends along with a request -/
def codecOfJson (j : Json) : Codec :=
  let reals : List (Bool × UInt64 × Str) := (getArr j "reals").filterMap (fun e => match e with
    | .arr a => some ((match a[0]! with | .bool b => b | _ => true), bitsOf (a[1]!), (jsonToChars? (a[2]!)).getD [])
    | _ => none)
  let strf : List (UInt64 × Str) := (getArr j "strf").filterMap (fun e => match e with
    | .arr a => some (bitsOf (a[0]!), (jsonToChars? (a[1]!)).getD [])
    | _ => none)
  let floats : List (Str × UInt64) := (getArr j "floats").filterMap (fun e => match e with
    | .arr a => some ((jsonToChars? (a[0]!)).getD [], bitsOf (a[1]!))
    | _ => none)
  let dts : List (Str × Option Str) := (getArr j "dts").filterMap (fun e => match e with
    | .arr a => some ((jsonToChars? (a[0]!)).getD [], jsonToChars? (a[1]!))
    | _ => none)
  let embs : List (Str × Option Xml) := (getArr j "embs").filterMap (fun e => match e with
    | .arr a => some ((jsonToChars? (a[0]!)).getD [], match a[1]! with | .null => none | t => some (xmlOfJson t))
    | _ => none)
  { fmtReal := fun w b => match reals.find? (fun e => e.1 == w && e.2.1 == b) with
      | some e => e.2.2 | none => "?real".toList,
    strFloat := fun b => match strf.find? (fun e => e.1 == b) with | some e => e.2 | none => "?strf".toList,
    parseFloat := fun s => match floats.find? (fun e => e.1 == s) with | some e => some e.2 | none => none,
    parseDt := fun s => match dts.find? (fun e => e.1 == s) with | some e => e.2 | none => none,
    par := fun s => match embs.find? (fun e => e.1 == s) with | some e => e.2 | none => none }

end Pywbem.Model.CimJson

namespace Pywbem.Model.CimJson
open Lean Pywbem.Proto Pywbem.Model Pywbem.Model.XmlText

end Pywbem.Model.CimJson
