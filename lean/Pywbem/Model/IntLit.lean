/-
DSP0004 integer literals as recognised by pywbem (`pywbem/_utils.py`), used by C20
(ValueMap entries).  Strings are `List Char`.  Mathlib-free.

The four module-level patterns (after the `fix:` commit of C20: `\Z` instead of `$`; the octal
pattern still has the digit class `[1-7]`, known finding C20-KF1) are modelled as hand-written matchers, one per pattern, in the order
in which `_integerValue_to_int` tries them.
-/
namespace Pywbem.Model.IntLit

abbrev Str := List Char

/-- mirrors pywbem/_utils.py: the optional `[+\-]?` prefix of BINARY_VALUE/OCTAL_VALUE/DECIMAL_VALUE/HEX_VALUE.
    Returns (negative?, rest). -/
def splitSign : Str → Bool × Str
  | '+' :: r => (false, r)
  | '-' :: r => (true, r)
  | r => (false, r)

/-- character class `[0-1]` -/
def isBin (c : Char) : Bool := c == '0' || c == '1'
/-- character class `[1-7]` (sic: DSP0004 octalDigit is `[0-7]`; known finding C20-KF1) -/
def isOct (c : Char) : Bool := 49 ≤ c.toNat && c.toNat ≤ 55
/-- character class `[0-9]` -/
def isDec (c : Char) : Bool := 48 ≤ c.toNat && c.toNat ≤ 57
/-- character class `[1-9]` -/
def isPos (c : Char) : Bool := 49 ≤ c.toNat && c.toNat ≤ 57
/-- character class `[0-9A-F]` under re.IGNORECASE -/
def isHex (c : Char) : Bool :=
  isDec c || (65 ≤ c.toNat && c.toNat ≤ 70) || (97 ≤ c.toNat && c.toNat ≤ 102)

/-- value of one digit as Python's `int(s, base)` reads it (0 for a non-digit; never used on one) -/
def digitVal (c : Char) : Nat :=
  if isDec c then c.toNat - 48
  else if 65 ≤ c.toNat && c.toNat ≤ 70 then c.toNat - 55
  else if 97 ≤ c.toNat && c.toNat ≤ 102 then c.toNat - 87
  else 0

/-- mirrors Python `int(digits, base)` on an unsigned digit string validated by the pattern -/
def natOf (base : Nat) (ds : Str) : Nat := ds.foldl (fun a c => a * base + digitVal c) 0

def signed (neg : Bool) (n : Nat) : Int := if neg then -(n : Int) else (n : Int)

/-- body of BINARY_VALUE after the sign: `[0-1]+` then `B` (IGNORECASE) -/
def binaryBody (neg : Bool) (r : Str) : Option Int :=
  match r.getLast? with
  | none => none
  | some b =>
    if (b == 'b' || b == 'B') && !r.dropLast.isEmpty && r.dropLast.all isBin
    then some (signed neg (natOf 2 r.dropLast)) else none

/-- mirrors pywbem/_utils.py: BINARY_VALUE `^([+\-]?(?:[0-1]+))B\Z` (IGNORECASE) and `int(m.group(1), 2)` -/
def matchBinary (s : Str) : Option Int := binaryBody (splitSign s).1 (splitSign s).2

/-- body of OCTAL_VALUE after the sign: `0(?:[1-7]*)` -/
def octalBody (neg : Bool) : Str → Option Int
  | c :: ds => if c = '0' ∧ ds.all isOct then some (signed neg (natOf 8 ds)) else none
  | [] => none

/-- mirrors pywbem/_utils.py: OCTAL_VALUE `^[+\-]?0(?:[1-7]*)\Z` and `int(value_str, 8)` -/
def matchOctal (s : Str) : Option Int := octalBody (splitSign s).1 (splitSign s).2

/-- body of DECIMAL_VALUE after the sign: `(?:0|[1-9][0-9]*)` -/
def decimalBody (neg : Bool) : Str → Option Int
  | d :: ds =>
    if d = '0' ∧ ds = [] then some 0
    else if isPos d ∧ ds.all isDec then some (signed neg (natOf 10 (d :: ds))) else none
  | [] => none

/-- mirrors pywbem/_utils.py: DECIMAL_VALUE `^[+\-]?(?:0|[1-9][0-9]*)\Z` and `int(value_str)` -/
def matchDecimal (s : Str) : Option Int := decimalBody (splitSign s).1 (splitSign s).2

/-- body of HEX_VALUE after the sign: `0X(?:[0-9A-F]+)` (IGNORECASE) -/
def hexBody (neg : Bool) : Str → Option Int
  | z :: x :: ds =>
    if z = '0' ∧ (x = 'x' ∨ x = 'X') ∧ ds ≠ [] ∧ ds.all isHex then some (signed neg (natOf 16 ds)) else none
  | _ => none

/-- mirrors pywbem/_utils.py: HEX_VALUE `^[+\-]?0X(?:[0-9A-F]+)\Z` (IGNORECASE) and `int(value_str, 16)` -/
def matchHex (s : Str) : Option Int := hexBody (splitSign s).1 (splitSign s).2

/-- mirrors pywbem/_utils.py: _integerValue_to_int (order of the alternatives as in the code) -/
def integerValueToInt (s : Str) : Option Int :=
  match matchBinary s with
  | some v => some v
  | none =>
    match matchOctal s with
    | some v => some v
    | none =>
      match matchDecimal s with
      | some v => some v
      | none => matchHex s

/-! ## The DSP0004 grammar (ANNEX A "integerValue"), stated independently of the recognisers

    binaryValue  = [ "+" / "-" ] 1*binaryDigit ( "b" / "B" )
    octalValue   = [ "+" / "-" ] "0" 1*octalDigit
    decimalValue = [ "+" / "-" ] ( positiveDecimalDigit *decimalDigit / "0" )
    hexValue     = [ "+" / "-" ] ( "0x" / "0X" ) 1*hexDigit
-/
namespace Dsp0004

inductive Sign where
  | none | plus | minus
  deriving DecidableEq, Repr

def Sign.chars : Sign → Str
  | .none => []
  | .plus => ['+']
  | .minus => ['-']

def Sign.apply : Sign → Nat → Int
  | .minus, n => -(n : Int)
  | _, n => (n : Int)

/-- octalDigit = "0".."7" -/
def isOctDigit (c : Char) : Bool := 48 ≤ c.toNat && c.toNat ≤ 55

/-- positional value of a digit string, most significant digit first -/
def posValue (base : Nat) : Str → Nat
  | [] => 0
  | c :: r => digitVal c * base ^ r.length + posValue base r

/-- `IsIntegerValue s v`: the string `s` derives from `integerValue` and denotes `v` -/
inductive IsIntegerValue : Str → Int → Prop
  | binary (sg : Sign) (ds : Str) (b : Char) :
      ds ≠ [] → (∀ c ∈ ds, isBin c = true) → (b = 'b' ∨ b = 'B') →
      IsIntegerValue (sg.chars ++ (ds ++ [b])) (sg.apply (posValue 2 ds))
  | octal (sg : Sign) (ds : Str) :
      ds ≠ [] → (∀ c ∈ ds, isOctDigit c = true) →
      IsIntegerValue (sg.chars ++ '0' :: ds) (sg.apply (posValue 8 ds))
  | decimalZero (sg : Sign) : IsIntegerValue (sg.chars ++ ['0']) 0
  | decimal (sg : Sign) (d : Char) (ds : Str) :
      isPos d = true → (∀ c ∈ ds, isDec c = true) →
      IsIntegerValue (sg.chars ++ d :: ds) (sg.apply (posValue 10 (d :: ds)))
  | hex (sg : Sign) (x : Char) (ds : Str) :
      (x = 'x' ∨ x = 'X') → ds ≠ [] → (∀ c ∈ ds, isHex c = true) →
      IsIntegerValue (sg.chars ++ '0' :: x :: ds) (sg.apply (posValue 16 ds))

/-- the input class of known finding C20-KF1: an octal literal with a digit 0 after the leading 0 -/
def OctalWithZeroDigit (s : Str) : Prop :=
  ∃ (sg : Sign) (ds : Str), s = sg.chars ++ '0' :: ds ∧ ds ≠ [] ∧ (∀ c ∈ ds, isOctDigit c = true) ∧ '0' ∈ ds

/-- body of octalValue after the sign: "0" 1*octalDigit -/
def octalBodyD (neg : Bool) : Str → Option Int
  | c :: ds => if c = '0' ∧ ds ≠ [] ∧ ds.all isOctDigit then some (signed neg (natOf 8 ds)) else none
  | [] => none

/-- **decision procedure for the DSP0004 integerValue grammar** (theorem `C20_dsp0004_parse_iff_grammar`:
    `parse s = some v ↔ IsIntegerValue s v`).  It differs from pywbem's recogniser only in the octal digit class. -/
def parse (s : Str) : Option Int :=
  match binaryBody (splitSign s).1 (splitSign s).2 with
  | some v => some v
  | none =>
    match octalBodyD (splitSign s).1 (splitSign s).2 with
    | some v => some v
    | none =>
      match decimalBody (splitSign s).1 (splitSign s).2 with
      | some v => some v
      | none => hexBody (splitSign s).1 (splitSign s).2

end Dsp0004

end Pywbem.Model.IntLit
