/-
C18 — model of the subscription manager (client side) together with the part of the mock
WBEM server it talks to (the three subscription providers and the instance store of the
Interop namespace).

mirrors pywbem/_subscription_manager.py: WBEMSubscriptionManager.__init__, add_server,
  remove_server, remove_all_servers, __exit__, add_destination, _create_destination,
  add_filter, _create_filter, add_subscriptions, _create_subscription, remove_destinations,
  remove_filter, remove_subscriptions, get_owned_*, get_all_*, validate_persistence_type
mirrors pywbem_mock/_subscriptionproviders.py: CreateInstance / DeleteInstance of
  CIMIndicationFilterProvider, CIMListenerDestinationProvider, CIMIndicationSubscriptionProvider
mirrors pywbem_mock/_providerdispatcher.py: DeleteInstance (existence check), and
  pywbem_mock/_instancewriteprovider.py: CreateInstance (reference end points must exist,
  new path must not exist)
mirrors CPython `re`: re.escape, and the fragment of re.compile / re.match that the patterns of
  add_server can reach (literals, `\c`, `.`, `[^:]`, postfix `*`, `$`)

Not modelled (parameters supplied by the harness): normalisation of the listener URL
(`parse_url`; the model receives the identity of the normalised URL or "invalid"), the payload
properties of the instances (query, source namespaces, timestamps), connection failures.

A path of a filter / destination is (Name, SystemName-variant): instances created through the
providers always get variant 0; static instances put into the repository directly may have others.
`Sub.owner` is a GHOST field (who created the subscription as owned); no step function reads it and
the server has no such information — it exists to state the theorems.
-/
import Pywbem.Proto
import Pywbem.Generated.SubMgr

namespace Pywbem.Model.SubMgr
open Pywbem.Proto

abbrev Str := List Char

inductive Kind where
  | dest | filt
  deriving DecidableEq, Repr, Inhabited

/-! ## 1. The ownership marker -/

def nameHead : Kind → Str
  | .dest => Pywbem.Generated.SubMgr.destNameHead
  | .filt => Pywbem.Generated.SubMgr.filterNameHead

def nameSep : Kind → Str
  | .dest => Pywbem.Generated.SubMgr.destNameSep
  | .filt => Pywbem.Generated.SubMgr.filterNameSep

/-- mirrors `_create_destination` / `_create_filter`: `_format('pywbemfilter:{0}:{1}', mgr_id, x)` -/
def mkName (k : Kind) (mgrId x : Str) : Str := nameHead k ++ mgrId ++ nameSep k ++ x

/-- the marker prefix of the SPECIFICATION (written out; `Generated` constants are pinned to it by theorems) -/
def markerPrefix : Kind → Str
  | .dest => ['p', 'y', 'w', 'b', 'e', 'm', 'd', 'e', 's', 't', 'i', 'n', 'a', 't', 'i', 'o', 'n', ':']
  | .filt => ['p', 'y', 'w', 'b', 'e', 'm', 'f', 'i', 'l', 't', 'e', 'r', ':']

/-- SPEC: `name` carries the ownership marker of manager `id`:
    name = prefix ++ id ++ ":" ++ rest with no ':' in rest -/
def ownsSpec (k : Kind) (id name : Str) : Prop :=
  ∃ rest, name = markerPrefix k ++ id ++ ':' :: rest ∧ ':' ∉ rest

def stripPrefix? : Str → Str → Option Str
  | [], s => some s
  | _ :: _, [] => none
  | p :: ps, c :: cs => if p = c then stripPrefix? ps cs else none

/-- executable form of `ownsSpec` -/
def ownsSpecB (k : Kind) (id name : Str) : Bool :=
  match stripPrefix? (markerPrefix k ++ id ++ [':']) name with
  | some rest => !rest.contains ':'
  | none => false

/-! ## 2. The regular expression the code builds (CPython `re`, the reachable fragment) -/

/-- mirrors re.escape (CPython >= 3.7): `_special_chars_map` = ()[]{}?*+-|^$\.&~# \t\n\r\v\f -/
def specialChars : List Char :=
  ['(', ')', '[', ']', '{', '}', '?', '*', '+', '-', '|', '^', '$', '\\', '.', '&', '~', '#', ' ',
   '\t', '\n', '\r', Char.ofNat 11, Char.ofNat 12]

def isSpecial (c : Char) : Bool := specialChars.contains c

def escChar (c : Char) : Str := if isSpecial c then ['\\', c] else [c]

def reEscape (s : Str) : Str := s.flatMap escChar

inductive Atom where
  | lit (c : Char)
  | any            -- `.`  (no DOTALL: everything but '\n')
  | notColon       -- `[^:]`
  deriving DecidableEq, Repr

inductive Tok where
  | atom (a : Atom)
  | star
  deriving DecidableEq, Repr

structure Item where
  atom : Atom
  star : Bool
  deriving DecidableEq, Repr

def isAsciiAlnum (c : Char) : Bool :=
  ('a' ≤ c && c ≤ 'z') || ('A' ≤ c && c ≤ 'Z') || ('0' ≤ c && c ≤ '9')

/-- pattern characters outside the modelled fragment (groups, alternation, other repeats, anchors
    inside the body, stray brackets): the model answers `none` = "not in the fragment" -/
def unsupported (c : Char) : Bool :=
  c == '(' || c == ')' || c == '|' || c == '+' || c == '?' || c == '{' || c == '}' ||
  c == '^' || c == '$' || c == ']'

/-- lexical pass of `re.compile` on the pattern body (the text between `^` and the final `$`) -/
def tokenize : Str → Option (List Tok)
  | [] => some []
  | c :: rest =>
    if c == '\\' then
      match rest with
      | [] => none
      | d :: rest' => if isAsciiAlnum d then none else (tokenize rest').map (Tok.atom (.lit d) :: ·)
    else if c == '[' then
      match rest with
      | a :: b :: e :: rest' =>
        if a == '^' && b == ':' && e == ']' then (tokenize rest').map (Tok.atom .notColon :: ·) else none
      | _ => none
    else if c == '.' then (tokenize rest).map (Tok.atom .any :: ·)
    else if c == '*' then (tokenize rest).map (Tok.star :: ·)
    else if unsupported c then none
    else (tokenize rest).map (Tok.atom (.lit c) :: ·)

/-- attach postfix `*` to the preceding atom; `**` and a leading `*` are errors ("nothing to repeat") -/
def items : List Tok → Option (List Item)
  | [] => some []
  | .star :: _ => none
  | .atom a :: .star :: rest => (items rest).map (⟨a, true⟩ :: ·)
  | .atom a :: rest => (items rest).map (⟨a, false⟩ :: ·)

def compileBody (body : Str) : Option (List Item) := (tokenize body).bind items

def atomOk : Atom → Char → Bool
  | .lit c, x => x == c
  | .any, x => x != '\n'
  | .notColon, x => x != ':'

/-- `$` without MULTILINE: at the end, or just before a final newline -/
def endOk (s : Str) : Bool := s == [] || s == ['\n']

/-- `a*` followed by continuation `k`, all split points tried (backtracking) -/
def matchStar (a : Atom) (k : Str → Bool) : Str → Bool
  | [] => k []
  | c :: cs => k (c :: cs) || (atomOk a c && matchStar a k cs)

/-- `re.match('^' + body + '$', s) is not None` -/
def matchItems : List Item → Str → Bool
  | [], s => endOk s
  | it :: rest, s =>
    if it.star then matchStar it.atom (matchItems rest) s
    else match s with
      | [] => false
      | c :: cs => atomOk it.atom c && matchItems rest cs

def patHead : Kind → Str
  | .dest => Pywbem.Generated.SubMgr.destPatHead
  | .filt => Pywbem.Generated.SubMgr.filterPatHead

def patTail : Kind → Str
  | .dest => Pywbem.Generated.SubMgr.destPatTail
  | .filt => Pywbem.Generated.SubMgr.filterPatTail

def idEscaped : Kind → Bool
  | .dest => Pywbem.Generated.SubMgr.destIdEscaped
  | .filt => Pywbem.Generated.SubMgr.filterIdEscaped

/-- body of the pattern of add_server: `_format(r'^pywbemfilter:{0}:[^:]*$', re.escape(id))` -/
def patBody (esc : Bool) (k : Kind) (id : Str) : Str :=
  patHead k ++ (if esc then reEscape id else id) ++ patTail k

/-- `re.match(pattern, name)` with `esc` saying whether the id was escaped;
    `none` = the pattern is outside the modelled fragment (or does not compile) -/
def ownsRe (esc : Bool) (k : Kind) (id name : Str) : Option Bool :=
  (compileBody (patBody esc k id)).map (fun its => matchItems its name)

/-- ownership AS THE CODE COMPUTES IT (mirrors add_server: `re.match(dest_name_pattern, Name)`) -/
def ownsCode (k : Kind) (id name : Str) : Bool := (ownsRe (idEscaped k) k id name).getD false

/-! ## 3. The server: instance store of the Interop namespace + the three providers -/

structure Path where
  name : Str
  sys : Nat
  deriving DecidableEq, Repr, Inhabited

structure Dest where
  path : Path
  url : Nat
  ptype : Option Nat
  deriving DecidableEq, Repr

structure Filt where
  path : Path
  deriving DecidableEq, Repr

structure Sub where
  filter : Path
  handler : Path
  owner : Option Str      -- GHOST
  deriving DecidableEq, Repr

structure Store where
  dests : List Dest := []
  filts : List Filt := []
  subs : List Sub := []
  deriving Repr

def cFAILED : Nat := Pywbem.Generated.SubMgr.CIM_ERR_FAILED
def cINVALID_PARAMETER : Nat := Pywbem.Generated.SubMgr.CIM_ERR_INVALID_PARAMETER
def cNOT_FOUND : Nat := Pywbem.Generated.SubMgr.CIM_ERR_NOT_FOUND
def cALREADY_EXISTS : Nat := Pywbem.Generated.SubMgr.CIM_ERR_ALREADY_EXISTS

def Store.hasFilt (st : Store) (p : Path) : Bool := st.filts.any (fun f => f.path == p)
def Store.hasDest (st : Store) (p : Path) : Bool := st.dests.any (fun d => d.path == p)
def Store.hasSub (st : Store) (f h : Path) : Bool := st.subs.any (fun s => s.filter == f && s.handler == h)
/-- `ReferenceNames(path, ResultClass=CIM_IndicationSubscription)` is non-empty -/
def Store.filtReferenced (st : Store) (p : Path) : Bool := st.subs.any (fun s => s.filter == p)
def Store.destReferenced (st : Store) (p : Path) : Bool := st.subs.any (fun s => s.handler == p)

/-- CIMIndicationFilterProvider.CreateInstance: key properties are overwritten (variant 0) -/
def createFilt (st : Store) (name : Str) : Except PyExc (Store × Filt) :=
  let f : Filt := ⟨⟨name, 0⟩⟩
  if st.hasFilt f.path then .error (.cimError cALREADY_EXISTS)
  else .ok ({ st with filts := st.filts ++ [f] }, f)

/-- CIMListenerDestinationProvider.CreateInstance: PersistenceType defaults to 2 -/
def createDest (st : Store) (name : Str) (url : Nat) (pt : Option Nat) : Except PyExc (Store × Dest) :=
  let d : Dest := ⟨⟨name, 0⟩, url, some (pt.getD Pywbem.Generated.SubMgr.ptMockDefault)⟩
  if st.hasDest d.path then .error (.cimError cALREADY_EXISTS)
  else .ok ({ st with dests := st.dests ++ [d] }, d)

/-- CIMIndicationSubscriptionProvider.CreateInstance → InstanceWriteProvider.CreateInstance -/
def createSub (st : Store) (f h : Path) (ghost : Option Str) : Except PyExc (Store × Sub) :=
  if !st.hasFilt f then .error (.cimError cINVALID_PARAMETER)
  else if !st.hasDest h then .error (.cimError cINVALID_PARAMETER)
  else if st.hasSub f h then .error (.cimError cALREADY_EXISTS)
  else
    let s : Sub := ⟨f, h, ghost⟩
    .ok ({ st with subs := st.subs ++ [s] }, s)

def delFilt (st : Store) (p : Path) : Except PyExc Store :=
  if !st.hasFilt p then .error (.cimError cNOT_FOUND)
  else if st.filtReferenced p then .error (.cimError cFAILED)
  else .ok { st with filts := st.filts.filter (fun f => f.path != p) }

def delDest (st : Store) (p : Path) : Except PyExc Store :=
  if !st.hasDest p then .error (.cimError cNOT_FOUND)
  else if st.destReferenced p then .error (.cimError cFAILED)
  else .ok { st with dests := st.dests.filter (fun d => d.path != p) }

def delSub (st : Store) (f h : Path) : Except PyExc Store :=
  if !st.hasSub f h then .error (.cimError cNOT_FOUND)
  else .ok { st with subs := st.subs.filter (fun s => !(s.filter == f && s.handler == h)) }

/-! ## 4. One manager's view of one server -/

/-- the entries `_owned_destinations[server_id]`, `_owned_filters[server_id]`,
    `_owned_subscriptions[server_id]`; `none` = the key is absent from the dict -/
structure Owned where
  od : Option (List Dest) := none
  of : Option (List Filt) := none
  os : Option (List Sub) := none
  deriving Repr

inductive Res where
  | done
  | mgr (m : Nat)
  | dest (d : Dest)
  | filt (f : Filt)
  | subs (l : List Sub)
  | exited (reraised : Bool)     -- `__exit__` returned False: an exception raised inside the block propagates
  | dests (l : List Dest)
  | filts (l : List Filt)
  | err (e : PyExc)
  | bad
  deriving Repr

structure R where
  st : Store
  o : Owned
  out : Res
  deriving Repr

/-- owned ⇒ id given and no name; permanent ⇒ name given and no id (`True` = ValueError) -/
def argErr (owned : Bool) (idArg nameArg : Option Str) : Bool :=
  if owned then idArg.isNone || nameArg.isSome else nameArg.isNone || idArg.isSome

def lowerAscii (c : Char) : Char :=
  if 'A' ≤ c ∧ c ≤ 'Z' then Char.ofNat (c.toNat + 32) else c

def strPermanent : Str := ['p', 'e', 'r', 'm', 'a', 'n', 'e', 'n', 't']
def strTransient : Str := ['t', 'r', 'a', 'n', 's', 'i', 'e', 'n', 't']

/-- mirrors validate_persistence_type (NocaseDict lookup; ASCII strings only) -/
def validatePT (pt : Option Str) : Except PyExc (Option Nat) :=
  match pt with
  | none => .ok none
  | some s =>
    if s.map lowerAscii = strPermanent then .ok (some Pywbem.Generated.SubMgr.ptPermanent)
    else if s.map lowerAscii = strTransient then .ok (some Pywbem.Generated.SubMgr.ptTransient)
    else .error .valueError

/-- the loop of `_create_destination` looking for an owned destination with the same URL and
    PersistenceType; `inst['PersistenceType']` raises KeyError when the property is missing -/
def findDup (url : Nat) (ptv : Option Nat) : List Dest → Except PyExc (Option Dest)
  | [] => .ok none
  | d :: ds =>
    if d.url = url then
      match d.ptype with
      | none => .error .keyError
      | some p => if some p = ptv then .ok (some d) else findDup url ptv ds
    else findDup url ptv ds

structure DestArgs where
  url : Option Nat        -- identity of the normalised listener URL; none: parse_url raises ValueError
  owned : Bool
  destId : Option Str
  name : Option Str
  pt : Option Str
  deriving Repr

def destIdBad (destId : Option Str) : Bool :=
  Pywbem.Generated.SubMgr.destIdColonRejected && (destId.getD []).contains ':'

def effPT (a : DestArgs) (ptv0 : Option Nat) : Option Nat :=
  if a.owned && a.pt.isNone then some Pywbem.Generated.SubMgr.ptOwnedDefault else ptv0

def destName (id : Str) (a : DestArgs) : Str :=
  if a.owned then mkName .dest id (a.destId.getD []) else a.name.getD []

/-- mirrors add_destination + _create_destination (`reg` = server_id is a key of `_servers`) -/
def stepAddDest (reg : Bool) (id : Str) (st : Store) (o : Owned) (a : DestArgs) : R :=
  if argErr a.owned a.destId a.name then ⟨st, o, .err .valueError⟩
  else if destIdBad a.destId then ⟨st, o, .err .valueError⟩
  else match validatePT a.pt with
    | .error e => ⟨st, o, .err e⟩
    | .ok ptv0 =>
      if !reg then ⟨st, o, .err .valueError⟩
      else match a.url with
        | none => ⟨st, o, .err .valueError⟩
        | some url =>
          if st.dests.any (fun d => d.path.name == destName id a) then ⟨st, o, .err (.cimError cALREADY_EXISTS)⟩
          else if a.owned then
            match o.od with
            | none => ⟨st, o, .err .keyError⟩
            | some l =>
              match findDup url (effPT a ptv0) l with
              | .error e => ⟨st, o, .err e⟩
              | .ok (some d) => ⟨st, o, .dest d⟩
              | .ok none =>
                match createDest st (destName id a) url (effPT a ptv0) with
                | .error e => ⟨st, o, .err e⟩
                | .ok (st', d) => ⟨st', { o with od := some (l ++ [d]) }, .dest d⟩
          else
            match createDest st (destName id a) url (effPT a ptv0) with
            | .error e => ⟨st, o, .err e⟩
            | .ok (st', d) => ⟨st', o, .dest d⟩

def filterIdBad (fid : Option Str) : Bool :=
  Pywbem.Generated.SubMgr.filterIdColonRejected && (fid.getD []).contains ':'

def filterName (id : Str) (fid name : Option Str) : Str :=
  if fid.isSome then mkName .filt id (fid.getD []) else name.getD []

/-- mirrors add_filter + _create_filter (there `owned = filter_id is not None`) -/
def stepAddFilter (reg : Bool) (id : Str) (st : Store) (o : Owned) (owned : Bool) (fid name : Option Str) : R :=
  if argErr owned fid name then ⟨st, o, .err .valueError⟩
  else if filterIdBad fid then ⟨st, o, .err .valueError⟩
  else if !reg then ⟨st, o, .err .valueError⟩
  else if st.filts.any (fun f => f.path.name == filterName id fid name) then ⟨st, o, .err (.cimError cALREADY_EXISTS)⟩
  else match createFilt st (filterName id fid name) with
    | .error e => ⟨st, o, .err e⟩
    | .ok (st', f) =>
      if fid.isSome then
        match o.of with
        | none => ⟨st', o, .err .keyError⟩       -- the instance has been created already
        | some l => ⟨st', { o with of := some (l ++ [f]) }, .filt f⟩
      else ⟨st', o, .filt f⟩

/-- mirrors add_subscriptions (single destination path) + _create_subscription -/
def stepAddSub1 (reg : Bool) (id : Str) (st : Store) (o : Owned) (f d : Path) (owned : Bool) : R :=
  match o.od with
  | none => ⟨st, o, .err .keyError⟩
  | some od =>
    match o.of with
    | none => ⟨st, o, .err .keyError⟩
    | some ofl =>
      if !owned && ofl.any (fun x => x.path == f) then ⟨st, o, .err .valueError⟩
      else if !owned && od.any (fun x => x.path == d) then ⟨st, o, .err .valueError⟩
      else if !reg then ⟨st, o, .err .valueError⟩
      else if owned then
        match o.os with
        | none => ⟨st, o, .err .keyError⟩
        | some os =>
          match os.find? (fun s => s.filter == f && s.handler == d) with
          | some s => ⟨st, o, .subs [s]⟩
          | none =>
            match createSub st f d (some id) with
            | .error e => ⟨st, o, .err e⟩
            | .ok (st', s) => ⟨st', { o with os := some (os ++ [s]) }, .subs [s]⟩
      else
        match createSub st f d none with
        | .error e => ⟨st, o, .err e⟩
        | .ok (st', s) => ⟨st', o, .subs [s]⟩

/-- the recursion of add_subscriptions over a list of destination paths: stops at the first exception,
    what was created before stays -/
def stepAddSubList (reg : Bool) (id : Str) (f : Path) (owned : Bool) :
    Store → Owned → List Path → List Sub → R
  | st, o, [], acc => ⟨st, o, .subs acc⟩
  | st, o, d :: rest, acc =>
    match stepAddSub1 reg id st o f d owned with
    | ⟨st', o', .subs l⟩ => stepAddSubList reg id f owned st' o' rest (acc ++ l)
    | r => r

inductive DestSel where
  | all                     -- destination_paths=None: all owned destinations
  | one (p : Path)
  | many (ps : List Path)
  deriving Repr

def stepAddSubs (reg : Bool) (id : Str) (st : Store) (o : Owned) (f : Path) (sel : DestSel) (owned : Bool) : R :=
  match o.od with
  | none => ⟨st, o, .err .keyError⟩          -- first statement of add_subscriptions
  | some od =>
    match sel with
    | .all => stepAddSubList reg id f owned st o (od.map (·.path)) []
    | .many ps => stepAddSubList reg id f owned st o ps []
    | .one p => stepAddSub1 reg id st o f p owned

/-- mirrors remove_destinations (single path) -/
def stepRemoveDest1 (reg : Bool) (st : Store) (o : Owned) (p : Path) : R :=
  if !reg then ⟨st, o, .err .valueError⟩
  else if st.destReferenced p then ⟨st, o, .err (.cimError cFAILED)⟩
  else match delDest st p with
    | .error e => ⟨st, o, .err e⟩
    | .ok st' =>
      match o.od with
      | none => ⟨st', o, .err .keyError⟩
      | some l => ⟨st', { o with od := some (l.filter (fun d => d.path != p)) }, .done⟩

def stepRemoveDestList (reg : Bool) : Store → Owned → List Path → R
  | st, o, [] => ⟨st, o, .done⟩
  | st, o, p :: rest =>
    match stepRemoveDest1 reg st o p with
    | ⟨st', o', .done⟩ => stepRemoveDestList reg st' o' rest
    | r => r

inductive PathSel where
  | one (p : Path)
  | many (ps : List Path)
  deriving Repr

def stepRemoveDests (reg : Bool) (st : Store) (o : Owned) (sel : PathSel) : R :=
  if !reg then ⟨st, o, .err .valueError⟩
  else match sel with
    | .one p => stepRemoveDest1 reg st o p
    | .many ps => stepRemoveDestList reg st o ps

/-- mirrors remove_filter -/
def stepRemoveFilter (reg : Bool) (st : Store) (o : Owned) (p : Path) : R :=
  if !reg then ⟨st, o, .err .valueError⟩
  else if st.filtReferenced p then ⟨st, o, .err (.cimError cFAILED)⟩
  else match delFilt st p with
    | .error e => ⟨st, o, .err e⟩
    | .ok st' =>
      match o.of with
      | none => ⟨st', o, .err .keyError⟩
      | some l => ⟨st', { o with of := some (l.filter (fun f => f.path != p)) }, .done⟩

/-- mirrors remove_subscriptions (single path) -/
def stepRemoveSub1 (reg : Bool) (st : Store) (o : Owned) (f h : Path) : R :=
  if !reg then ⟨st, o, .err .valueError⟩
  else match delSub st f h with
    | .error e => ⟨st, o, .err e⟩
    | .ok st' =>
      match o.os with
      | none => ⟨st', o, .err .keyError⟩
      | some l => ⟨st', { o with os := some (l.filter (fun s => !(s.filter == f && s.handler == h))) }, .done⟩

def stepRemoveSubList (reg : Bool) : Store → Owned → List (Path × Path) → R
  | st, o, [] => ⟨st, o, .done⟩
  | st, o, p :: rest =>
    match stepRemoveSub1 reg st o p.1 p.2 with
    | ⟨st', o', .done⟩ => stepRemoveSubList reg st' o' rest
    | r => r

inductive SubSel where
  | one (f h : Path)
  | many (ps : List (Path × Path))
  deriving Repr

def stepRemoveSubs (reg : Bool) (st : Store) (o : Owned) (sel : SubSel) : R :=
  if !reg then ⟨st, o, .err .valueError⟩
  else match sel with
    | .one f h => stepRemoveSub1 reg st o f h
    | .many ps => stepRemoveSubList reg st o ps

/-- mirrors the discovery part of add_server -/
def discover (id : Str) (st : Store) : Owned :=
  let od := st.dests.filter (fun d => ownsCode .dest id d.path.name)
  let ofl := st.filts.filter (fun f => ownsCode .filt id f.path.name)
  let os := st.subs.filter (fun s => ofl.any (fun f => f.path == s.filter) || od.any (fun d => d.path == s.handler))
  ⟨some od, some ofl, some os⟩

/-- `for i in range(len(l)-1, -1, -1): DeleteInstance(l[i].path); del l[i]` on the REVERSED list:
    result = (store, what is left of the reversed list, the exception that stopped the loop) -/
def delLoop {α : Type} (del : Store → α → Except PyExc Store) : Store → List α → Store × List α × Option PyExc
  | st, [] => (st, [], none)
  | st, x :: xs =>
    match del st x with
    | .error e => (st, x :: xs, some e)
    | .ok st' => delLoop del st' xs

def delBackwards {α : Type} (del : Store → α → Except PyExc Store) (st : Store) (l : List α) :
    Store × List α × Option PyExc :=
  let r := delLoop del st l.reverse
  (r.1, r.2.1.reverse, r.2.2)

/-- first block of remove_server: the owned subscriptions -/
def rmSubs (st : Store) (o : Owned) : Store × Owned × Option PyExc :=
  match o.os with
  | none => (st, o, none)
  | some l =>
    match delBackwards (fun st (s : Sub) => delSub st s.filter s.handler) st l with
    | (st', _, none) => (st', { o with os := none }, none)
    | (st', rem, some e) => (st', { o with os := some rem }, some e)

def rmFilts (st : Store) (o : Owned) : Store × Owned × Option PyExc :=
  match o.of with
  | none => (st, o, none)
  | some l =>
    match delBackwards (fun st (f : Filt) => delFilt st f.path) st l with
    | (st', _, none) => (st', { o with of := none }, none)
    | (st', rem, some e) => (st', { o with of := some rem }, some e)

def rmDests (st : Store) (o : Owned) : Store × Owned × Option PyExc :=
  match o.od with
  | none => (st, o, none)
  | some l =>
    match delBackwards (fun st (d : Dest) => delDest st d.path) st l with
    | (st', _, none) => (st', { o with od := none }, none)
    | (st', rem, some e) => (st', { o with od := some rem }, some e)

/-- mirrors remove_server; the Bool says whether the server is still registered afterwards -/
def stepRemoveServer (reg : Bool) (st : Store) (o : Owned) : R × Bool :=
  if !reg then (⟨st, o, .err .valueError⟩, false)
  else
    match rmSubs st o with
    | (st1, o1, some e) => (⟨st1, o1, .err e⟩, true)
    | (st1, o1, none) =>
      match rmFilts st1 o1 with
      | (st2, o2, some e) => (⟨st2, o2, .err e⟩, true)
      | (st2, o2, none) =>
        match rmDests st2 o2 with
        | (st3, o3, some e) => (⟨st3, o3, .err e⟩, true)
        | (st3, o3, none) => (⟨st3, o3, .done⟩, false)

inductive Which where
  | dests | filts | subs
  deriving DecidableEq, Repr

/-- mirrors get_owned_destinations / get_owned_filters / get_owned_subscriptions -/
def getOwned (reg : Bool) (o : Owned) : Which → Res
  | .dests => if !reg then .err .valueError else match o.od with | none => .err .keyError | some l => .dests l
  | .filts => if !reg then .err .valueError else match o.of with | none => .err .keyError | some l => .filts l
  | .subs => if !reg then .err .valueError else match o.os with | none => .err .keyError | some l => .subs l

/-- mirrors get_all_destinations / get_all_filters / get_all_subscriptions -/
def getAll (reg : Bool) (st : Store) : Which → Res
  | .dests => if !reg then .err .valueError else .dests st.dests
  | .filts => if !reg then .err .valueError else .filts st.filts
  | .subs => if !reg then .err .valueError else .subs st.subs

/-! ## 5. The world: servers, manager objects, registrations -/

structure World where
  store : Nat → Store                  -- server index ↦ Interop instance store
  ids : Nat → Option Str               -- manager object ↦ its id (none: never created / discarded)
  servers : Nat → List Nat             -- manager ↦ keys of `_servers` in insertion order
  owned : Nat → Nat → Owned            -- manager ↦ server ↦ the three dict entries
  nMgr : Nat := 0

def World.init (stores : Nat → Store) : World :=
  { store := stores, ids := fun _ => none, servers := fun _ => [], owned := fun _ _ => {}, nMgr := 0 }

def World.reg (w : World) (m s : Nat) : Bool := (w.servers m).contains s

def World.put (w : World) (m s : Nat) (st : Store) (o : Owned) : World :=
  { w with store := fun s' => if s' = s then st else w.store s',
           owned := fun m' s' => if m' = m ∧ s' = s then o else w.owned m' s' }

inductive Op where
  | newMgr (id : Str)                                   -- WBEMSubscriptionManager(id)
  | dropMgr (m : Nat)                                   -- the object is lost without clean-up (client restart)
  | addServer (m s : Nat)
  | removeServer (m s : Nat)
  | removeAll (m : Nat)                                 -- remove_all_servers()
  | exitCtx (m : Nat) (exc : Option Nat)                -- leaving `with mgr:` — normally (none) or through an
                                                        -- exception of class `exc` raised inside the block:
                                                        -- `__exit__`: self.remove_all_servers(); return False
  | addDest (m s : Nat) (a : DestArgs)
  | addFilter (m s : Nat) (owned : Bool) (fid name : Option Str)
  | addSubs (m s : Nat) (f : Path) (sel : DestSel) (owned : Bool)
  | removeDests (m s : Nat) (sel : PathSel)
  | removeFilter (m s : Nat) (p : Path)
  | removeSubs (m s : Nat) (sel : SubSel)
  | getOwned (m s : Nat) (which : Which)
  | getAll (m s : Nat) (which : Which)
  deriving Repr

def managerIdBad (id : Str) : Bool :=
  Pywbem.Generated.SubMgr.managerIdColonRejected && id.contains ':'

def World.applyR (w : World) (m s : Nat) (r : R) : World × Res := (w.put m s r.st r.o, r.out)

def stepRemoveServerW (w : World) (m s : Nat) : World × Res :=
  match stepRemoveServer (w.reg m s) (w.store s) (w.owned m s) with
  | (r, still) =>
    let w' := w.put m s r.st r.o
    (if still || !(w.reg m s) then w' else { w' with servers := fun m' => if m' = m then (w.servers m).erase s else w'.servers m' },
     r.out)

/-- `for server_id in list(self._servers.keys()): self.remove_server(server_id)` -/
def removeAllLoop (m : Nat) : World → List Nat → World × Res
  | w, [] => (w, .done)
  | w, s :: rest =>
    match stepRemoveServerW w m s with
    | (w', .done) => removeAllLoop m w' rest
    | r => r

def step (w : World) (op : Op) : World × Res :=
  match op with
  | .newMgr id =>
    if managerIdBad id then (w, .err .valueError)
    else ({ w with ids := fun m => if m = w.nMgr then some id else w.ids m, nMgr := w.nMgr + 1 }, .mgr w.nMgr)
  | .dropMgr m => ({ w with ids := fun m' => if m' = m then none else w.ids m' }, .done)
  | .addServer m s =>
    match w.ids m with
    | none => (w, .bad)
    | some id =>
      if w.reg m s then (w, .err .valueError)
      else
        let w' := w.put m s (w.store s) (discover id (w.store s))
        ({ w' with servers := fun m' => if m' = m then w.servers m ++ [s] else w'.servers m' }, .done)
  | .removeServer m s =>
    match w.ids m with
    | none => (w, .bad)
    | some _ => stepRemoveServerW w m s
  | .removeAll m =>
    match w.ids m with
    | none => (w, .bad)
    | some _ => removeAllLoop m w (w.servers m)
  | .exitCtx m exc =>
    match w.ids m with
    | none => (w, .bad)
    | some _ =>
      match removeAllLoop m w (w.servers m) with
      | (w', .done) => (w', .exited exc.isSome)      -- `return False`: nothing is swallowed
      | r => r                                       -- an exception of the clean-up replaces it
  | .addDest m s a =>
    match w.ids m with
    | none => (w, .bad)
    | some id => w.applyR m s (stepAddDest (w.reg m s) id (w.store s) (w.owned m s) a)
  | .addFilter m s owned fid name =>
    match w.ids m with
    | none => (w, .bad)
    | some id => w.applyR m s (stepAddFilter (w.reg m s) id (w.store s) (w.owned m s) owned fid name)
  | .addSubs m s f sel owned =>
    match w.ids m with
    | none => (w, .bad)
    | some id => w.applyR m s (stepAddSubs (w.reg m s) id (w.store s) (w.owned m s) f sel owned)
  | .removeDests m s sel =>
    match w.ids m with
    | none => (w, .bad)
    | some _ => w.applyR m s (stepRemoveDests (w.reg m s) (w.store s) (w.owned m s) sel)
  | .removeFilter m s p =>
    match w.ids m with
    | none => (w, .bad)
    | some _ => w.applyR m s (stepRemoveFilter (w.reg m s) (w.store s) (w.owned m s) p)
  | .removeSubs m s sel =>
    match w.ids m with
    | none => (w, .bad)
    | some _ => w.applyR m s (stepRemoveSubs (w.reg m s) (w.store s) (w.owned m s) sel)
  | .getOwned m s which =>
    match w.ids m with
    | none => (w, .bad)
    | some _ => (w, getOwned (w.reg m s) (w.owned m s) which)
  | .getAll m s which =>
    match w.ids m with
    | none => (w, .bad)
    | some _ => (w, getAll (w.reg m s) (w.store s) which)

def run (w : World) : List Op → World × List Res
  | [] => (w, [])
  | op :: ops =>
    let r := step w op
    let rr := run r.1 ops
    (rr.1, r.2 :: rr.2)

end Pywbem.Model.SubMgr
