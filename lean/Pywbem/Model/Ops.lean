/-
C04 — intrinsic operations over CIM-XML: what the client marshals, what a server unmarshals, how a
server answers and what the client makes of the answer.

mirrors pywbem/_cim_operations.py: WBEMConnection._set_default_namespace,
  _iparam_namespace_from_namespace, _iparam_namespace_from_objectname, _iparam_objectname,
  _iparam_classname, _iparam_instancename, _iparam_class, _iparam_instance,
  _iparam_qualifierdeclaration, _iparam_string, _iparam_positive_integer, _iparam_bool,
  _iparam_propertylist, _validate_MaxObjectCount_OpenPull, _validate_context, _imethodcall (request
  half and response half), _get_rslt_params, _get_returned_objects, _get_returned_objectnames and the
  body of every operation method (driven by the table Generated/OpsSig.lean extracted from them)
mirrors pywbem/_cim_obj.py: tocimxml(value)
mirrors pywbem/_tupleparse.py: parse_cim, parse_message, parse_simplereq, parse_imethodcall,
  parse_iparamvalue, parse_simplersp, parse_imethodresponse, parse_error, parse_ireturnvalue,
  parse_paramvalue, parse_value_object, parse_value_objectwithpath, parse_objectpath, one_child,
  optional_child, list_of_same
wire at tree level: `Pywbem.Model.XmlParse.wireTree` (shared; proved equal to parse∘serialise in XmlSyntax)
mirrors /verif/harness/facade.py (the DSP0200 server side used by the correspondence run): _typed,
  FacadeAdapter._obj_xml, _imethod_response
-/
import Pywbem.Model.CimXmlDec
import Pywbem.Model.XmlParse
import Pywbem.Generated.OpsSig

namespace Pywbem.Model.Ops
open Pywbem.Model Pywbem.Model.XmlText Pywbem.Model.XmlParse Pywbem.Proto Pywbem.Generated.OpsSig

/-! ### values -/

/-- a Python value handed to an argument of an operation method -/
inductive Arg where
  | none
  | bool (b : Bool)
  | int (n : Int)
  | str (s : Str)
  | strs (l : List (Option Str))      -- list / tuple of strings (entries may be None)
  | path (p : Path)                   -- CIMClassName / CIMInstanceName
  | inst (i : Inst)
  | cls (c : Cls)
  | qdecl (q : QualDecl)
  | other                             -- any other Python type
  deriving Inhabited

/-- a parameter value as `_imethodcall` receives it / as a server hands it to the operation -/
inductive PVal where
  | bool (b : Bool)
  | int (n : Int)
  | str (s : Str)
  | strs (l : List (Option Str))
  | obj (o : Obj)
  deriving Inhabited

abbrev Params := List (Str × Option PVal)

structure Call where
  args : List (Str × Arg)             -- keyword arguments, incl. `namespace` / `context`

def Call.arg (c : Call) (name : String) : Arg :=
  match c.args.find? (fun p => p.1 == name.toList) with
  | some p => p.2
  | none => .none

/-! ### namespaces -/

/-- `s.strip('/')` -/
def stripSlash (s : Str) : Str := ((s.dropWhile (· == '/')).reverse.dropWhile (· == '/')).reverse

/-- `DEFAULT_NAMESPACE` -/
def defaultNamespace : Str := "root/cimv2".toList

/-- mirrors _cim_operations.py: WBEMConnection._set_default_namespace -/
def effDefault : Option Str → Str
  | none => defaultNamespace
  | some s => stripSlash s

/-- mirrors _cim_operations.py: _iparam_namespace_from_namespace -/
def nsFromNamespace (dflt : Str) : Arg → R Str
  | .str s => pure (stripSlash s)
  | .none => pure dflt
  | _ => .error .typeError

def Path.ns : Path → Option Str
  | .inst _ _ ns _ => ns
  | .cls _ _ ns => ns

/-- mirrors _cim_operations.py: _iparam_namespace_from_objectname -/
def nsFromObjectName (dflt : Str) : Arg → R Str
  | .path p => pure ((Path.ns p).getD dflt)
  | .str _ => pure dflt
  | .none => pure dflt
  | _ => .error .typeError

def optStrArg : Option Str → Arg
  | none => .none
  | some s => .str s

/-! ### `_iparam_*` -/

def Path.bare : Path → Path
  | .inst c _ _ ks => .inst c none none ks
  | .cls c _ _ => .cls c none none

def Path.isInst : Path → Bool
  | .inst .. => true
  | .cls .. => false

/-- mirrors _cim_operations.py: _iparam_bool -/
def iparamBool : Arg → R (Option PVal)
  | .none => pure none
  | .bool b => pure (some (.bool b))
  | _ => .error .typeError

/-- mirrors _cim_operations.py: _iparam_positive_integer and _validate_MaxObjectCount_OpenPull
    (a bool is rejected although `isinstance(True, int)` holds in Python) -/
def iparamUint : Arg → R (Option PVal)
  | .none => pure none
  | .int n => if n < 0 then .error .valueError else pure (some (.int n))
  | _ => .error .typeError

/-- mirrors _cim_operations.py: _iparam_string -/
def iparamStr (required : Bool) : Arg → R (Option PVal)
  | .str s => pure (some (.str s))
  | .none => if required then .error .typeError else pure none
  | _ => .error .typeError

/-- mirrors _cim_operations.py: _iparam_classname -/
def iparamClassname (required : Bool) : Arg → R (Option PVal)
  | .path (.cls c _ _) => pure (some (.obj (.path (.cls c none none))))
  | .str s => pure (some (.obj (.path (.cls s none none))))
  | .none => if required then .error .typeError else pure none
  | _ => .error .typeError

/-- mirrors _cim_operations.py: _iparam_instancename -/
def iparamInstancename (required : Bool) : Arg → R (Option PVal)
  | .path (.inst c _ _ ks) => pure (some (.obj (.path (.inst c none none ks))))
  | .none => if required then .error .typeError else pure none
  | _ => .error .typeError

/-- mirrors _cim_operations.py: _iparam_objectname -/
def iparamObjectname (required : Bool) : Arg → R (Option PVal)
  | .path p => pure (some (.obj (.path (Path.bare p))))
  | .str s => pure (some (.obj (.path (.cls s none none))))
  | .none => if required then .error .typeError else pure none
  | _ => .error .typeError

/-- mirrors _cim_operations.py: _iparam_class (copy without path; None passes) -/
def iparamClass : Arg → R (Option PVal)
  | .cls (.mk n s _ ps ms qs) => pure (some (.obj (.cls (.mk n s none ps ms qs))))
  | .none => pure none
  | _ => .error .typeError

/-- mirrors _cim_operations.py: _iparam_qualifierdeclaration -/
def iparamQualDecl (required : Bool) : Arg → R (Option PVal)
  | .qdecl q => pure (some (.obj (.qdecl q)))
  | .none => if required then .error .typeError else pure none
  | _ => .error .typeError

/-- mirrors _cim_operations.py: _iparam_propertylist -/
def iparamPropertyList : Arg → R (Option PVal)
  | .none => pure none
  | .strs l => pure (some (.strs l))
  | .str s => pure (some (.strs [some s]))
  | _ => .error .typeError

/-- mirrors _cim_operations.py: _iparam_instance followed by the attribute clearing of the calling
    operation (`clears` of the signature row): CreateInstance drops the path, ModifyInstance
    requires a path and drops its namespace and host -/
def iparamInstance (clears : List String) : Arg → R (Option PVal)
  | .inst (.mk c path ps qs) =>
    if clears.contains "NewInstance.path" then pure (some (.obj (.inst (.mk c none ps qs))))
    else if clears.contains "ModifiedInstance.path.namespace" then
      match path with
      | none => .error .valueError
      | some p => pure (some (.obj (.inst (.mk c (some (Path.bare p)) ps qs))))
    else pure (some (.obj (.inst (.mk c path ps qs))))
  | _ => .error .typeError

/-- mirrors _cim_operations.py: _validate_context, giving (context[0], context[1]) -/
def validateContext : Arg → R (Option Str × Option Str)
  | .none => .error .valueError
  | .strs [a, b] => pure (a, b)
  | .strs _ => .error .valueError
  | _ => .error .typeError

def iparamOf (row : Row) (pr : PRow) (a : Arg) : R (Option PVal) :=
  match pr.kind with
  | .bool => iparamBool a
  | .uint => iparamUint a
  | .maxobj => iparamUint a
  | .str => iparamStr pr.required a
  | .cls => iparamClassname pr.required a
  | .inst => iparamInstancename pr.required a
  | .obj => iparamObjectname pr.required a
  | .klass => iparamClass a
  | .instance => iparamInstance row.clears a
  | .qdecl => iparamQualDecl pr.required a
  | .plist => iparamPropertyList a
  | .ctx => pure none     -- filled by `prepare`

def iparams (row : Row) (c : Call) : List PRow → R Params
  | [] => pure []
  | pr :: rest => do
    let v ← iparamOf row pr (c.arg pr.name)
    let r ← iparams row c rest
    pure ((pr.name.toList, v) :: r)

/-- the `.path` attribute of the object argument named before the dot in `a` (`X.path`) -/
def pathAttrOf (c : Call) (a : String) : R Arg :=
  match c.arg ((a.splitOn ".").headD "") with
  | .inst (.mk _ (some p) _ _) => pure (.path p)
  | .inst (.mk _ none _ _) => pure .none
  | .cls (.mk _ _ (some p) _ _ _) => pure (.path p)
  | .cls (.mk _ _ none _ _ _) => pure .none
  | _ => .error .attributeError

/-- the target namespace of an operation (first lines of every operation method) -/
def effNs (dflt : Str) (row : Row) (c : Call) : R Str :=
  match row.nsRule with
  | .ns => nsFromNamespace dflt (c.arg "namespace")
  | .nsOrClass a =>
    match c.arg "namespace", c.arg a with
    | .none, .path (.cls _ _ ns) => nsFromNamespace dflt (optStrArg ns)
    | n, _ => nsFromNamespace dflt n
  | .nsOrPath a =>
    -- `namespace is None and isinstance(NewInstance, CIMInstance) and getattr(NewInstance.path, 'namespace', None)
    --  is not None`: anything but an instance with a path that has a namespace leaves `namespace` alone
    match c.arg "namespace" with
    | .none =>
      match c.arg ((a.splitOn ".").headD "") with
      | .inst (.mk _ (some p) _ _) => nsFromNamespace dflt (optStrArg (Path.ns p))
      | _ => nsFromNamespace dflt .none
    | n => nsFromNamespace dflt n
  | .object a =>
    if a.contains '.' then do
      let p ← pathAttrOf c a
      nsFromObjectName dflt p
    else nsFromObjectName dflt (c.arg a)
  | .context => do
    match (← validateContext (c.arg "context")) with
    | (_, some ns) => pure ns
    | (_, none) => .error .typeError      -- get_cimobject_header(None)

/-- everything an operation method does before `_imethodcall`: (namespace, parameters).  The order of
    the checks is the order in the code (it decides which exception is raised first). -/
def prepare (dflt : Str) (row : Row) (c : Call) : R (Str × Params) :=
  match row.nsRule with
  | .context => do
    -- _validate_MaxObjectCount_OpenPull precedes _validate_context
    let ps ← iparams row c row.params
    let (id, _) ← validateContext (c.arg "context")
    let ns ← effNs dflt row c
    pure (ns, ps.map (fun p => if p.1 == "EnumerationContext".toList then (p.1, id.map PVal.str) else p))
  | .object a =>
    if a.contains '.' then do
      -- ModifyInstance: _iparam_instance, path checks, then the namespace
      let ps ← iparams row c row.params
      let ns ← effNs dflt row c
      pure (ns, ps)
    else do
      let ns ← effNs dflt row c
      let ps ← iparams row c row.params
      pure (ns, ps)
  | _ => do
    let ns ← effNs dflt row c
    let ps ← iparams row c row.params
    pure (ns, ps)

/-! ### client: request marshalling -/

def optStrAtom : Option Str → Atom
  | none => .null
  | some s => .str s

/-- mirrors _cim_obj.py: tocimxml(value) -/
def pvalXml (C : Codec) : PVal → Xml
  | .bool b => valueElem (if b then "TRUE".toList else "FALSE".toList)
  | .int n => valueElem (intToStr n)
  | .str s => valueElem s
  | .strs l => E "VALUE.ARRAY" [] (encArrItems C (l.map optStrAtom))
  | .obj o => encObj C o

/-- one entry of the `plist` comprehension of `_imethodcall`: None-valued parameters are dropped -/
def iparamXml (C : Codec) (p : Str × Option PVal) : List Xml :=
  match p.2 with
  | none => []
  | some v => [E "IPARAMVALUE" [("NAME".toList, p.1)] [pvalXml C v]]

def iparamsXml (C : Codec) : Params → List Xml
  | [] => []
  | p :: ps => iparamXml C p ++ iparamsXml C ps

def messageXml (body : Xml) (msgid : Str) : Xml :=
  E "CIM" [("CIMVERSION".toList, "2.0".toList), ("DTDVERSION".toList, "2.0".toList)]
    [E "MESSAGE" [("ID".toList, msgid), ("PROTOCOLVERSION".toList, "1.0".toList)] [body]]

/-- the request document `_imethodcall` builds -/
def requestXml (C : Codec) (op ns : Str) (ps : Params) : Xml :=
  messageXml (E "SIMPLEREQ" [] [E "IMETHODCALL" [("NAME".toList, op)] (localNsPath ns :: iparamsXml C ps)])
    "1001".toList

/-! ### the wire at tree level

`wireTree` (Pywbem/Model/XmlParse.lean): what `xml_to_tupletree_sax` makes of `toxml()` of a tree — attribute
values and character data pass the text-level wire, empty character data leaves no node, adjacent character
data is one node.  Proofs/Props/XmlSyntax.lean proves `par (Xml.ser t) = wireTree t` for the concrete parser
model `par`, so the exchange below is the exchange over the serialised documents. -/

/-! ### server: request unmarshalling -/

/-- a parsed IPARAMVALUE child as `parse_iparamvalue` returns it -/
inductive Raw where
  | none
  | text (s : Str)
  | bool (b : Bool)
  | arr (l : List (Option Str))
  | obj (o : Obj)
  deriving Inhabited

/-- `one_child(tup_tree, acceptable)` on the children list: the single element child -/
def oneChild (ks : List Xml) (acceptable : List String) : R Xml :=
  match Xml.elemKids ks with
  | [k] => if nameIn k acceptable then pure k else perr
  | _ => perr

def startsWith (p : String) (s : Str) : Bool := p.toList.isPrefixOf s

section
variable (C : DecCodec) (emb : Str → R Atom)

/-- `parse_any` of the child of an IPARAMVALUE -/
def decIParamChild (k : Xml) : R Raw :=
  if k.name = "VALUE".toList then do
    let s ← decValueText k
    pure (.text s)
  else if k.name = "VALUE.ARRAY".toList then do
    let (_, aks) ← checkNode k "VALUE.ARRAY" [] [] none false
    let l ← decArrayRaw aks
    pure (.arr l)
  else if k.name = "VALUE.REFERENCE".toList then do
    let p ← decValueReference C k
    pure (.obj (.path p))
  else if nameIn k ["INSTANCENAME", "CLASSNAME", "QUALIFIER.DECLARATION", "CLASS", "INSTANCE",
      "VALUE.NAMEDINSTANCE"] then do
    let o ← decodeTop C emb k
    pure (.obj o)
  else perr

/-- the boolean special case of `parse_iparamvalue` -/
def coerceRaw (name : Str) (r : Raw) : Raw :=
  match r with
  | .text s =>
    if coercedNames.any (fun n => n.toList == lowerAscii name) &&
        (lowerAscii s == "true".toList || lowerAscii s == "false".toList) then
      .bool (lowerAscii s == "true".toList)
    else .text s
  | r => r

/-- mirrors _tupleparse.py: parse_iparamvalue -/
def decIParamValue (t : Xml) : R (Str × Raw) := do
  let (as, ks) ← checkNode t "IPARAMVALUE" ["NAME"] [] none false
  let name := getAttrD as "NAME" ""
  match Xml.elemKids ks with
  | [] => pure (name, .none)
  | [k] => do
    let r ← decIParamChild C emb k
    pure (name, coerceRaw name r)
  | _ => perr

def decIParamValues : List Xml → R (List (Str × Raw))
  | [] => pure []
  | k :: ks => do
    let p ← decIParamValue C emb k
    let r ← decIParamValues ks
    pure (p :: r)

/-- mirrors _tupleparse.py: parse_imethodcall -/
def decIMethodCall (t : Xml) : R (Str × Str × List (Str × Raw)) := do
  let (as, ks) ← checkNode t "IMETHODCALL" ["NAME"] [] none false
  match Xml.elemKids ks with
  | [] => perr
  | k0 :: rest => do
    let ns ← decLocalNsPath k0
    let ps ← decIParamValues C emb rest
    pure (getAttrD as "NAME" "", ns, ps)

/-- the envelope: parse_cim, parse_message and the single child below MESSAGE -/
def decEnvelope (t : Xml) (kind : String) (bodies : List String) : R (Str × Xml) := do
  let (as, ks) ← checkNode t "CIM" ["CIMVERSION", "DTDVERSION"] [] none false
  if !startsWith "2." (getAttrD as "CIMVERSION" "") then .error .versionError
  else if !startsWith "2." (getAttrD as "DTDVERSION" "") then .error .versionError
  else do
    let m ← oneChild ks ["MESSAGE", "DECLARATION"]
    if m.name ≠ "MESSAGE".toList then perr       -- DECLARATION documents are not operation messages
    else do
      let (mas, mks) ← checkNode m "MESSAGE" ["ID", "PROTOCOLVERSION"] [] none false
      if !startsWith "1." (getAttrD mas "PROTOCOLVERSION" "") then .error .versionError
      else do
        let s ← oneChild mks ["SIMPLEREQ", "MULTIREQ", "SIMPLERSP", "MULTIRSP", "SIMPLEEXPREQ", "MULTIEXPREQ",
          "SIMPLEEXPRSP", "MULTIEXPRSP"]
        if s.name ≠ kind.toList then perr
        else do
          let (_, sks) ← checkNode s kind [] [] none false
          let b ← oneChild sks bodies
          pure (getAttrD mas "ID" "", b)

/-- what a server gets out of a request document: message id, operation, namespace, raw parameters -/
def decRequest (t : Xml) : R (Str × Str × Str × List (Str × Raw)) := do
  let (msgid, b) ← decEnvelope t "SIMPLEREQ" ["IMETHODCALL", "METHODCALL"]
  if b.name ≠ "IMETHODCALL".toList then perr       -- METHODCALL: see Model/OpsMeth
  else do
    let (op, ns, ps) ← decIMethodCall C emb b
    pure (msgid, op, ns, ps)

end

/-! ### server: typing by the operation signature (IPARAMVALUE carries no type) -/

def findRow (sig : List Row) (op : Str) : Option Row := sig.find? (fun r => r.op.toList == op)

def kindOf (sig : List Row) (op name : Str) : Option Kind :=
  match findRow sig op with
  | none => none
  | some r => (r.params.find? (fun p => lowerAscii p.name.toList == lowerAscii name)).map (·.kind)

/-- mirrors harness/facade.py: _typed -/
def typeRaw (k : Option Kind) (r : Raw) : R (Option PVal) :=
  match r with
  | .none => pure none
  | .bool b => pure (some (.bool b))
  | .arr l => pure (some (.strs l))
  | .obj o => pure (some (.obj o))
  | .text s =>
    match k with
    | some .bool => pure (some (.bool (lowerAscii s == "true".toList)))
    | some .uint | some .maxobj =>
      match pyInt s with
      | some n => pure (some (.int n))
      | none => .error .valueError
    | _ => pure (some (.str s))

/-- parameters a server passes on: typed, value-less ones omitted -/
def typeParams (sig : List Row) (op : Str) : List (Str × Raw) → R (List (Str × PVal))
  | [] => pure []
  | (n, r) :: rest => do
    let v ← typeRaw (kindOf sig op n) r
    let tl ← typeParams sig op rest
    match v with
    | none => pure tl
    | some x => pure ((n, x) :: tl)

/-- what the operation behind the server is called with -/
structure Seen where
  op : Str
  ns : Str
  params : List (Str × PVal)

def serverSees (C : DecCodec) (depth : Nat) (sig : List Row) (t : Xml) : R (Str × Seen) := do
  let (msgid, op, ns, raws) ← decRequest C (embAt C depth) t
  let ps ← typeParams sig op raws
  pure (msgid, { op := op, ns := ns, params := ps })

/-- `params` with the None-valued ones omitted: what the caller supplied -/
def dropNone : Params → List (Str × PVal)
  | [] => []
  | (_, none) :: ps => dropNone ps
  | (n, some v) :: ps => (n, v) :: dropNone ps

/-! ### server: results and their DSP0200 encoding -/

/-- one entry of the result list of an operation executed on the repository -/
inductive RItem where
  | inst (i : Inst)
  | path (p : Path)
  | cls (c : Cls)
  | qdecl (q : QualDecl)
  | opInst (i : Inst)                 -- ('OBJECTPATH', {}, CIMInstance)
  | opPath (p : Path)                 -- ('OBJECTPATH', {}, CIMInstanceName | CIMClassName)
  | opCls (p : Path) (c : Cls)        -- ('OBJECTPATH', {}, (CIMClassName, CIMClass))
  deriving Inhabited

inductive OutP where
  | eos (s : Str)                     -- the seam hands the text ('TRUE' / 'FALSE'); the server writes `str(value).upper()`
  | ctx (s : Option Str)

/-- one item of the list an operation answers with: ("IRETURNVALUE", {}, objects) or an output parameter -/
inductive RChild where
  | iret (l : List RItem)
  | out (o : OutP)

/-- what the operation behind the server answers: a list of items in its own order (`[]` also stands
    for `None`), or a CIM error -/
inductive Result where
  | ok (items : List RChild)
  | err (code : Nat) (desc : Str)

inductive InstForm where | instance | named | withPath | valueObject
  deriving DecidableEq
inductive NameForm where | instanceName | instancePath
  deriving DecidableEq

/-- mirrors harness/facade.py: INSTANCE_AS (DSP0200 return types) -/
def instForm (op : Str) : InstForm :=
  if op = "EnumerateInstances".toList then .named
  else if op = "ExecQuery".toList then .valueObject
  else if op = "OpenEnumerateInstances".toList ∨ op = "PullInstancesWithPath".toList ∨
      op = "OpenReferenceInstances".toList ∨ op = "OpenAssociatorInstances".toList then .withPath
  else .instance

/-- mirrors harness/facade.py: INSTANCENAME_AS -/
def nameForm (op : Str) : NameForm :=
  if op = "OpenEnumerateInstancePaths".toList ∨ op = "PullInstancePaths".toList ∨
      op = "OpenReferenceInstancePaths".toList ∨ op = "OpenAssociatorInstancePaths".toList then .instancePath
  else .instanceName

def Path.withHostD (host : Str) : Path → Path
  | .inst c h ns ks => .inst c (some (h.getD host)) ns ks
  | .cls c h ns => .cls c (some (h.getD host)) ns

def Inst.pathD : Inst → Path
  | .mk c p _ _ => p.getD (.inst c none none [])

/-- scopes without `any: False` (a conforming server never sends the non-DTD attribute ANY="false") -/
def dropAnyFalse (q : QualDecl) : QualDecl :=
  { q with scopes := q.scopes.filter (fun p => !(lowerAscii p.1 == "any".toList && !p.2)) }

/-- mirrors harness/facade.py: FacadeAdapter._obj_xml -/
def ritemXml (C : Codec) (host op : Str) : RItem → Xml
  | .opInst i => E "VALUE.OBJECTWITHPATH" [] [encPath C (Path.withHostD host (Inst.pathD i)), encInstElem C i]
  | .opPath p => E "OBJECTPATH" [] [encPath C (Path.withHostD host p)]
  | .opCls p c => E "VALUE.OBJECTWITHPATH" [] [encPath C (Path.withHostD host p), encCls C c]
  | .inst i =>
    match instForm op with
    | .instance => encInstElem C i
    | .named => E "VALUE.NAMEDINSTANCE" [] [encPath C (Path.bare (Inst.pathD i)), encInstElem C i]
    | .withPath => E "VALUE.INSTANCEWITHPATH" [] [encPath C (Path.withHostD host (Inst.pathD i)), encInstElem C i]
    | .valueObject => E "VALUE.OBJECT" [] [encInstElem C i]
  | .path (.inst c h ns ks) =>
    match nameForm op with
    | .instanceName => encPath C (.inst c none none ks)
    | .instancePath => encPath C (Path.withHostD host (.inst c h ns ks))
  | .path (.cls c _ _) => encPath C (.cls c none none)
  | .cls c => encCls C c
  | .qdecl q => encQualDecl C (dropAnyFalse q)

def ritemsXml (C : Codec) (host op : Str) : List RItem → List Xml
  | [] => []
  | x :: xs => ritemXml C host op x :: ritemsXml C host op xs

def outXml : OutP → Xml
  | .eos s => E "PARAMVALUE" [("NAME".toList, "EndOfSequence".toList), ("PARAMTYPE".toList, "boolean".toList)]
      [valueElem (upperAscii s)]
  | .ctx none => E "PARAMVALUE" [("NAME".toList, "EnumerationContext".toList), ("PARAMTYPE".toList, "string".toList)] []
  | .ctx (some s) =>
    E "PARAMVALUE" [("NAME".toList, "EnumerationContext".toList), ("PARAMTYPE".toList, "string".toList)]
      [valueElem s]

def rchildXml (C : Codec) (host op : Str) : RChild → Xml
  | .iret l => E "IRETURNVALUE" [] (ritemsXml C host op l)
  | .out o => outXml o

def rchildrenXml (C : Codec) (host op : Str) : List RChild → List Xml
  | [] => []
  | x :: xs => rchildXml C host op x :: rchildrenXml C host op xs

/-- mirrors harness/facade.py: _imethod_response / the ERROR branch of send() -/
def responseXml (C : Codec) (host op msgid : Str) : Result → Xml
  | .err code desc =>
    messageXml (E "SIMPLERSP" [] [E "IMETHODRESPONSE" [("NAME".toList, op)]
      [E "ERROR" [("CODE".toList, natToStr code), ("DESCRIPTION".toList, desc)] []]]) msgid
  | .ok items =>
    messageXml (E "SIMPLERSP" [] [E "IMETHODRESPONSE" [("NAME".toList, op)] (rchildrenXml C host op items)]) msgid

/-! ### client: response unmarshalling -/

/-- an entry of a result list as the client code sees it -/
inductive CObj where
  | obj (o : Obj)
  | pair (p : Path) (c : Cls)         -- (CIMClassName, CIMClass)
  deriving Inhabited

/-- what `parse_any` returns for a child of IRETURNVALUE: an object or a tuple (name, attrs, object) -/
inductive CItem where
  | plain (o : Obj)
  | tagged (tag : Str) (x : CObj)
  | text (s : Str)                    -- VALUE
  | other                             -- VALUE.ARRAY / VALUE.REFERENCE results (no operation uses them)

/-- a child of IMETHODRESPONSE after parsing -/
inductive RspChild where
  | error (code : Str) (hasDesc : Bool)
  | iret (items : List CItem)
  | param (name : Str) (ty : Option Str) (val : Option Str) (isClass : Bool)   -- PARAMVALUE: VALUE text / CLASS child

def Inst.setPath (p : Path) : Inst → Inst
  | .mk c _ ps qs => .mk c (some p) ps qs

def Cls.setPath (p : Path) : Cls → Cls
  | .mk n s _ ps ms qs => .mk n s (some p) ps ms qs

section
variable (C : DecCodec) (emb : Str → R Atom)

/-- mirrors _tupleparse.py: parse_value_objectwithpath / parse_value_object / parse_objectpath and the
    element kinds of Model/CimXmlDec.lean, as dispatched by parse_any below IRETURNVALUE -/
def decRetItem (t : Xml) : R CItem :=
  match t with
  | .text _ => perr
  | .elem n as ks =>
    if n = "VALUE.OBJECTWITHPATH".toList then do
      let _ ← checkNode t "VALUE.OBJECTWITHPATH" [] [] none false
      match Xml.elemKids ks with
      | [p, o] =>
        if p.name = "CLASSPATH".toList then do
          let cp ← (if p.name = "CLASSPATH".toList then decPathAny C p else perr)
          let c ← decClass C emb o
          pure (.tagged n (.pair cp (Cls.setPath cp c)))
        else do
          let ip ← (if p.name = "INSTANCEPATH".toList then decPathAny C p else perr)
          let i ← decInstance C emb o
          pure (.tagged n (.obj (.inst (Inst.setPath ip i))))
      | _ => perr
    else if n = "VALUE.OBJECT".toList then do
      let _ ← checkNode t "VALUE.OBJECT" [] [] none false
      let k ← oneChild ks ["CLASS", "INSTANCE"]
      let o ← decodeTop C emb k
      pure (.tagged n (.obj o))
    else if n = "OBJECTPATH".toList then do
      let _ ← checkNode t "OBJECTPATH" [] [] none false
      let k ← oneChild ks ["INSTANCEPATH", "CLASSPATH"]
      let p ← decPathAny C k
      pure (.tagged n (.obj (.path p)))
    else if n = "VALUE".toList then do
      let s ← decValueText t
      pure (.text s)
    else if n = "VALUE.ARRAY".toList ∨ n = "VALUE.REFERENCE".toList then
      pure .other
    else if n = "VALUE.OBJECTWITHLOCALPATH".toList then do
      match (← decodeTop C emb (.elem n as ks)) with
      | o => pure (.tagged n (.obj o))
    else if nameIn t ["CLASSNAME", "INSTANCENAME", "QUALIFIER.DECLARATION", "CLASS", "INSTANCE", "INSTANCEPATH",
        "VALUE.NAMEDINSTANCE", "VALUE.INSTANCEWITHPATH"] then do
      let o ← decodeTop C emb t
      pure (.plain o)
    else perr

/-- `list_of_same`: every element child has the name of the first one -/
def decRetItems (first : Str) : List Xml → R (List CItem)
  | [] => pure []
  | .text _ :: ks => decRetItems first ks
  | k :: ks =>
    if k.name ≠ first then perr
    else do
      let x ← decRetItem C emb k
      let r ← decRetItems first ks
      pure (x :: r)

/-- mirrors _tupleparse.py: parse_ireturnvalue -/
def decIReturnValue (t : Xml) : R (List CItem) := do
  let (_, ks) ← checkNode t "IRETURNVALUE" [] [] none false
  match firstElem ks with
  | none => pure []
  | some k0 => decRetItems C emb k0.name ks

/-- mirrors _tupleparse.py: parse_paramvalue, restricted to VALUE children / no child (what the open
    and pull operations return); other children are parsed and dropped -/
def decParamValue (t : Xml) : R RspChild := do
  let (as, ks) ← checkNode t "PARAMVALUE" ["NAME"] ["TYPE", "PARAMTYPE", "EmbeddedObject", "EMBEDDEDOBJECT"] none false
  let ty := match Xml.attr as "PARAMTYPE".toList with
    | some x => some x
    | none => Xml.attr as "TYPE".toList
  match Xml.elemKids ks with
  | [] => pure (.param (getAttrD as "NAME" "") ty none false)
  | [k] =>
    if k.name = "VALUE".toList then do
      let s ← decValueText k
      pure (.param (getAttrD as "NAME" "") ty (some s) false)
    else if k.name = "CLASS".toList then do
      let _ ← decClass C emb k
      pure (.param (getAttrD as "NAME" "") ty none true)
    else if nameIn k ["VALUE.REFERENCE", "VALUE.ARRAY", "VALUE.REFARRAY", "CLASSNAME", "INSTANCENAME",
        "INSTANCE", "VALUE.NAMEDINSTANCE"] then
      pure (.param (getAttrD as "NAME" "") ty none false)
    else perr
  | _ => perr

/-- mirrors _tupleparse.py: parse_error (instances below ERROR are parsed and kept out of the model) -/
def decError (t : Xml) : R RspChild := do
  let (as, _) ← checkNode t "ERROR" ["CODE"] ["DESCRIPTION"] (some ["INSTANCE"]) false
  match pyInt (getAttrD as "CODE" "") with
  | none => perr                       -- `int(code)` raises ValueError: CIMXMLParseError
  | some _ => pure (.error (getAttrD as "CODE" "") (Xml.attr as "DESCRIPTION".toList).isSome)

/-- `list_of_various(tup_tree, ('ERROR', 'IRETURNVALUE', 'PARAMVALUE'))` -/
def decRspChildren : List Xml → R (List RspChild)
  | [] => pure []
  | .text _ :: ks => decRspChildren ks
  | k :: ks =>
    if k.name = "ERROR".toList then do
      let e ← decError k
      let r ← decRspChildren ks
      pure (e :: r)
    else if k.name = "IRETURNVALUE".toList then do
      let l ← decIReturnValue C emb k
      let r ← decRspChildren ks
      pure (.iret l :: r)
    else if k.name = "PARAMVALUE".toList then do
      let p ← decParamValue C emb k
      let r ← decRspChildren ks
      pure (p :: r)
    else perr

/-- the response half of `_imethodcall` up to the list of IMETHODRESPONSE children -/
def decResponse (op : Str) (t : Xml) : R (List RspChild) := do
  let (_, b) ← decEnvelope t "SIMPLERSP" ["METHODRESPONSE", "IMETHODRESPONSE"]
  if b.name ≠ "IMETHODRESPONSE".toList then perr
  else do
    let (as, ks) ← checkNode b "IMETHODRESPONSE" ["NAME"] [] none false
    let kids ← decRspChildren C emb ks
    if getAttrD as "NAME" "" ≠ op then perr else pure kids

end

def RspChild.isIret : RspChild → Bool
  | .iret _ => true
  | _ => false

def RspChild.isError : RspChild → Bool
  | .error _ _ => true
  | _ => false

/-- the checks of `_imethodcall` after parsing: ERROR first, then unexpected return value / output
    parameters; `none` = the empty child list (`tup_tree = None`) -/
def imethodResult (row : Row) (kids : List RspChild) : R (Option (List RspChild)) :=
  match kids with
  | .error code _ :: _ =>
    match pyInt code with
    | some n => .error (.cimError n.toNat)
    | none => .error .valueError
  | _ =>
    if kids.any RspChild.isError then perr          -- ERROR is allowed only as the first child
    else if !row.hasReturn && kids.any RspChild.isIret then perr
    else if !row.hasOut && kids.any (fun k => !k.isIret) then perr
    else if kids.isEmpty then pure none else pure (some kids)

/-! ### client: result post-processing of each operation -/

/-- what an operation method returns -/
inductive CVal where
  | none
  | list (l : List CObj)
  | one (o : CObj)
  | names (l : List Str)
  | pull (l : List CObj) (eos : Bool) (ctx : Option (Option Str × Str))

def Path.setNs (ns : Str) : Path → Path
  | .inst c h _ ks => .inst c h (some ns) ks
  | .cls c h _ => .cls c h (some ns)

/-- `result[0][2]` of a non-empty child list: the first child must be the IRETURNVALUE tuple (for any
    other first child the code indexes into a 3-tuple whose third entry is not a list: modelled as the
    TypeError / IndexError family by `.typeError`) -/
def firstIret : List RspChild → R (List CItem)
  | .iret l :: _ => pure l
  | _ => .error .typeError

def plainObjs : List CItem → R (List Obj)
  | [] => pure []
  | .plain o :: r => do
    let t ← plainObjs r
    pure (o :: t)
  | _ :: _ => perr

/-- mirrors _cim_operations.py: _unpack_object_elements (`item[2]` of every (name, attrs, object) tuple;
    an item that was not parsed into a tuple is a CIMXMLParseError) -/
def third : List CItem → R (List CObj)
  | [] => pure []
  | .tagged _ x :: r => do
    let t ← third r
    pure (x :: t)
  | _ :: _ => perr

/-- what `_get_rslt_params` is told to expect in IRETURNVALUE -/
inductive PullKind where
  | insts (withPath : Bool)          -- CIMInstance (with_path)
  | paths                            -- CIMInstanceName

def pullItemOk : PullKind → CItem → Bool
  | .insts wp, .plain (.inst (.mk _ p _ _)) => !wp || p.isSome
  | .paths, .plain (.path p) => Path.isInst p
  | _, _ => false

/-- one step of the loop of `_get_rslt_params` over the children of IMETHODRESPONSE -/
def rsltStep (acc : R (List CItem × Bool × Option Str × Bool × Bool)) (k : RspChild) :
    R (List CItem × Bool × Option Str × Bool × Bool) :=
  match acc with
  | .error e => Except.error e
  | .ok (objs, eos, ctx, eosFound, ctxFound) =>
    match k with
    | .param n _ v _ =>
      if n = "EndOfSequence".toList then
        match v with
        | some s =>
          if lowerAscii s = "true".toList then .ok (objs, true, ctx, true, ctxFound)
          else if lowerAscii s = "false".toList then .ok (objs, false, ctx, true, ctxFound)
          else perr
        | none => .ok (objs, eos, ctx, eosFound, ctxFound)
      else if n = "EnumerationContext".toList then
        match v with
        | some s => .ok (objs, eos, some s, eosFound, true)
        | none => .ok (objs, eos, ctx, eosFound, true)
      else .ok (objs, eos, ctx, eosFound, ctxFound)
    | .iret l => .ok (l, eos, ctx, eosFound, ctxFound)
    | .error _ _ => .ok (objs, eos, ctx, eosFound, ctxFound)

/-- mirrors _cim_operations.py: _get_rslt_params(result, namespace, object_type, with_path) -/
def rsltParams (kind : PullKind) (ns : Str) (kids : List RspChild) :
    R (List CItem × Bool × Option (Option Str × Str)) :=
  match kids.foldl rsltStep (.ok ([], false, none, false, false)) with
  | .error e => .error e
  | .ok (objs, eos, ctx, eosFound, ctxFound) =>
    if !objs.all (pullItemOk kind) then perr
    else if !eosFound && !ctxFound then perr
    else if !eos && ctx.isNone then perr
    else pure (objs, eos, if eos then none else some (ctx, ns))

def objsToC (l : List Obj) : List CObj := l.map CObj.obj

/-- the class-level loop of `_get_returned_objects`: every entry must be a tuple (CIMClassName, CIMClass) -/
def classLevelObjects (all : List CObj) : List CObj → R CVal
  | [] => pure (.list all)
  | .pair (.cls ..) _ :: r => classLevelObjects all r
  | _ :: _ => perr

/-- `instance.path.namespace = namespace` (EnumerateInstances) -/
def fixInstNs (ns : Str) : Obj → R CObj
  | .inst (.mk c (some p) pr q) => pure (.obj (.inst (.mk c (some (Path.setNs ns p)) pr q)))
  | _ => perr                         -- not a CIMInstance, or an instance without path

/-- `instancepath.namespace = namespace` (EnumerateInstanceNames) -/
def fixNameNs (ns : Str) : Obj → R CObj
  | .path (.inst c h _ ks) => pure (.obj (.path (.inst c h (some ns) ks)))
  | _ => perr

/-- ExecQuery: a missing path is created from the class name, the namespace is set -/
def fixQueryInst (ns : Str) : CObj → R CObj
  | .obj (.inst (.mk c (some p) pr q)) => pure (.obj (.inst (.mk c (some (Path.setNs ns p)) pr q)))
  | .obj (.inst (.mk c none pr q)) => pure (.obj (.inst (.mk c (some (.inst c none (some ns) [])) pr q)))
  | _ => perr                         -- not a CIMInstance

/-- `klass.path = CIMClassName(klass.classname, host=self.host, namespace=namespace)` -/
def fixClassPath (host ns : Str) : Obj → R CObj
  | .cls (.mk n s _ pr m q) => pure (.obj (.cls (.mk n s (some (.cls n (some host) (some ns))) pr m q)))
  | _ => perr

/-- `classpath.classname` of a CIMClassName -/
def classNameOf : Obj → R Str
  | .path (.cls c _ _) => pure c
  | _ => perr

/-- the statements of each operation method after `_imethodcall` (tag `post` of the signature row).
    `ns` = effective namespace, `host` = `conn.host`, `ps` = the parameters as sent (GetInstance copies
    its InstanceName into the result; the association operations look at the kind of ObjectName). -/
def clientPost (row : Row) (ns host : Str) (ps : Params) (res : Option (List RspChild)) : R CVal :=
  let isInstTarget : Bool := match ps.head? with
    | some (_, some (.obj (.path p))) => Path.isInst p
    | _ => false
  match row.post with
  | .none => pure .none
  | .enumInstances =>
    match res with
    | none => pure (.list [])
    | some kids => do
      let objs ← plainObjs (← firstIret kids)
      let fixed ← objs.mapM (fixInstNs ns)
      pure (.list fixed)
  | .enumNames =>
    match res with
    | none => pure (.list [])
    | some kids => do
      let objs ← plainObjs (← firstIret kids)
      let fixed ← objs.mapM (fixNameNs ns)
      pure (.list fixed)
  | .getInstance =>
    match res with
    | none => perr
    | some kids => do
      match (← firstIret kids) with
      | [] => perr
      | .plain (.inst (.mk c _ pr q)) :: _ =>
        match ps.head? with
        | some (_, some (.obj (.path p))) => pure (.one (.obj (.inst (.mk c (some (Path.setNs ns p)) pr q))))
        | _ => .error .attributeError
      | _ => perr
  | .createInstance =>
    match res with
    | none => perr
    | some kids => do
      match (← firstIret kids) with
      | [] => perr
      | .plain (.path (.inst c h _ ks)) :: _ => pure (.one (.obj (.path (.inst c h (some ns) ks))))
      | _ => perr
  | .assocObjects =>
    match res with
    | none => pure (.list [])
    | some kids => do
      let objs ← third (← firstIret kids)
      if isInstTarget then
        if objs.all (fun o => match o with | .obj (.inst (.mk _ (some _) _ _)) => true | _ => false) then
          pure (.list objs) else perr
      else
        -- `for classpath, klass in objects`: tuple unpacking of each entry, then the isinstance checks
        classLevelObjects objs objs
  | .assocNames =>
    match res with
    | none => pure (.list [])
    | some kids => do
      let objs ← third (← firstIret kids)
      if objs.all (fun o => match o with
          | .obj (.path p) => Path.isInst p == isInstTarget
          | _ => false) then pure (.list objs) else perr
  | .execQuery =>
    match res with
    | none => pure (.list [])
    | some kids => do
      let objs ← third (← firstIret kids)
      let fixed ← objs.mapM (fixQueryInst ns)
      pure (.list fixed)
  | .pullInstsPath | .pullInsts | .pullPaths | .openQuery => do
    let kind : PullKind := match row.post with
      | .pullInstsPath => .insts true
      | .pullPaths => .paths
      | _ => .insts false
    -- `for p in result or []`
    let (items, eos, ctx) ← rsltParams kind ns (res.getD [])
    let objs : List CObj := items.filterMap (fun x => match x with
      | .plain o => some (.obj o)
      | _ => none)
    -- OpenQueryInstances: `_GetQueryRsltClass(result) if ReturnQueryResultClass else None`
    let wantsClass : Bool := row.post == .openQuery && ps.any (fun p =>
      p.1 == "ReturnQueryResultClass".toList && (match p.2 with | some (.bool true) => true | _ => false))
    if wantsClass && !(match (res.getD []).find? (fun k => match k with
          | .param n _ _ _ => n == "QueryResultClass".toList
          | _ => false) with
        | some (.param _ _ _ true) => true
        | _ => false) then perr
    else pure (.pull objs eos ctx)
  | .enumClasses =>
    match res with
    | none => pure (.list [])
    | some kids => do
      let objs ← plainObjs (← firstIret kids)
      let fixed ← objs.mapM (fixClassPath host ns)
      pure (.list fixed)
  | .classNames =>
    match res with
    | none => pure (.names [])
    | some kids => do
      let objs ← plainObjs (← firstIret kids)
      let ns' ← objs.mapM classNameOf
      pure (.names ns')
  | .getClass =>
    match res with
    | none => perr
    | some kids => do
      match (← firstIret kids) with
      | [] => perr
      | .plain (.cls c) :: _ => do
        let c' ← fixClassPath host ns (.cls c)
        pure (.one c')
      | _ => perr
  | .qualifiers =>
    match res with
    | none => pure (.list [])
    | some kids => do
      let objs ← plainObjs (← firstIret kids)
      if objs.all (fun o => match o with | .qdecl _ => true | _ => false) then pure (.list (objsToC objs)) else perr
  | .getQualifier =>
    match res with
    | none => perr
    | some kids => do
      match (← firstIret kids) with
      | [] => perr
      | .plain (.qdecl q) :: _ => pure (.one (.obj (.qdecl q)))
      | _ => perr
  | .unknown => .error .assertionError

/-- the client side of one exchange after the reply arrived -/
def clientReceive (C : DecCodec) (depth : Nat) (row : Row) (ns host : Str) (ps : Params) (reply : Xml) : R CVal := do
  let kids ← decResponse C (embAt C depth) row.op.toList reply
  let res ← imethodResult row kids
  clientPost row ns host ps res

/-! ### the whole exchange -/

/-- one operation through the wire against a server behaviour `S` (any function of what it sees):
    marshal, wire, unmarshal, execute, marshal, wire, unmarshal, post-process -/
def exchange (C : DecCodec) (depth : Nat) (sig : List Row) (dflt host : Str) (S : Seen → Result)
    (row : Row) (c : Call) : R CVal := do
  let (ns, ps) ← prepare dflt row c
  match wireTree (requestXml C.toCodec row.op.toList ns ps) with
  | none => .error .xmlParseError                 -- the server cannot read the request
  | some t => do
    let (msgid, seen) ← serverSees C depth sig t
    match wireTree (responseXml C.toCodec host seen.op msgid (S seen)) with
    | none => .error .xmlParseError
    | some r => clientReceive C depth row ns host ps r

end Pywbem.Model.Ops
