/-
C03 — the vocabulary in which the argument handling of the operation methods of WBEMConnection is
tabulated (the table itself is `Pywbem/Generated/Ops.lean`, extracted from the source text of
pywbem/_cim_operations.py on every run; the meaning of each entry is in `Pywbem/Model/Request.lean`).
-/
namespace Pywbem.Model.Req

/-- one statement between `try:` and the `_imethodcall(...)` call of an operation method -/
inductive Check where
  | nsFromClassNameIfNone (p : String)   -- if namespace is None and isinstance(P, CIMClassName): namespace = P.namespace
  | nsFromNamespace                      -- namespace = self._iparam_namespace_from_namespace(namespace)
  | nsFromObjectName (p : String)        -- namespace = self._iparam_namespace_from_objectname(P, 'P')
  | nsFromInstancePath (p : String)      -- namespace = self._iparam_namespace_from_objectname(P.path, 'P.path')
  | nsFromPathIfNone (p : String)        -- if namespace is None and getattr(P.path, 'namespace', None) is not None: namespace = P.path.namespace
  | nsFromInstancePathIfNone (p : String)  -- if namespace is None and isinstance(P, CIMInstance) and getattr(P.path, 'namespace', None) is not None: namespace = P.path.namespace
  | nsFromContext (p : String)           -- namespace = P[1]
  | className (p : String) (req : Bool)  -- P = self._iparam_classname(P, 'P', required=req)
  | instanceName (p : String) (req : Bool)
  | objectName (p : String) (req : Bool)
  | string (p : String) (req : Bool)
  | qualDecl (p : String) (req : Bool)
  | instance (p : String)                -- P = self._iparam_instance(P, 'P', required=True)
  | klass (p : String)                   -- P = self._iparam_class(P, 'P')
  | bool (p : String)
  | posInt (p : String)
  | propertyList (p : String)
  | maxObjOpenPull (p : String)          -- _validate_MaxObjectCount_OpenPull(P)
  | context (p : String)                 -- _validate_context(P)
  | requirePath (p : String)             -- if P.path is None: raise ValueError
  | requireAttr (text : String)          -- if P.<attr chain> is None: raise ValueError, for attributes that are never None
  | clearPathNamespace (p : String)      -- P.path.namespace = None
  | clearPathHost (p : String)           -- P.path.host = None
  | clearPath (p : String)               -- P.path = None
  deriving Repr, Inhabited

/-- where an IPARAMVALUE takes its value from -/
inductive PSrc where
  | arg (p : String)                     -- X=P
  | item0 (p : String)                   -- X=P[0]
  deriving Repr, Inhabited

/-- the namespace argument of `_imethodcall` -/
inductive NsSrc where
  | var                                  -- the local variable `namespace`
  | item1 (p : String)                   -- P[1]
  deriving Repr, Inhabited

structure OpSpec where
  name : String                          -- method_name
  argNames : List String                 -- formal parameters of the Python method (without self)
  checks : List Check
  ns : NsSrc
  params : List (String × PSrc)          -- keyword arguments of `_imethodcall` in source order
  deriving Repr, Inhabited

end Pywbem.Model.Req
