/-
C02 — what a WBEMConnection operation does with the response of the server: HTTP layer, CIM-XML
envelope walk, and the per-operation result checks, on ARBITRARY responses.  Mirrors the code AFTER the
`fix:` commits of C02.

mirrors pywbem/_cim_http.py: wbem_request  (status / 401 / Content-type logic)
mirrors pywbem/_tupleparse.py: TupleParser.one_child, optional_child, list_of_various, list_of_same,
  parse_cim, parse_declaration, parse_declgroup, parse_message, parse_simplereq, parse_imethodcall,
  parse_methodcall, parse_iparamvalue, parse_simpleexpreq, parse_expmethodcall, parse_expparamvalue,
  parse_simplersp, parse_simpleexprsp, parse_methodresponse, parse_imethodresponse,
  parse_expmethodresponse, parse_error, parse_returnvalue, parse_ireturnvalue, parse_paramvalue,
  parse_value_array, parse_value_refarray, parse_value_object, parse_value_namedinstance,
  parse_value_instancewithpath, parse_value_objectwithlocalpath, parse_value_objectwithpath,
  parse_objectpath, parse_embeddedObject
mirrors pywbem/_cim_operations.py: WBEMConnection._imethodcall, _methodcall, _iexportcall,
  _get_rslt_params, _unpack_object_elements, _get_returned_objects, _get_returned_objectnames and the
  result handling of every public operation method (table `Post`)
mirrors pywbem/_cim_obj.py: cimvalue;  pywbem/_cim_types.py: cimtype
-/
import Pywbem.Model.RespDec

namespace Pywbem.Model.Envelope
open Pywbem.Model Pywbem.Model.XmlText Pywbem.Proto Pywbem.Model.Resp

/-- third-party / out-of-scope conversions of the response path: the C01 tables plus
    `CIMInstanceName.from_wbem_uri(s)` succeeding (pywbem code of property C07) -/
structure EnvCodec extends DecCodec where
  wbemUri : Str → Option Path          -- CIMInstanceName.from_wbem_uri(s); none = ValueError

/-- Python values the tuple parser hands to `_cim_operations` -/
inductive PV where
  | none
  | str (s : Str)                                  -- VALUE
  | strs (l : List (Option Str))                   -- VALUE.ARRAY
  | path (p : Path)                                -- INSTANCENAME, CLASSNAME, *PATH, VALUE.REFERENCE
  | paths (l : List (Option Path))                 -- VALUE.REFARRAY
  | inst (i : Inst)
  | cls (c : Cls)
  | qdecl (q : QualDecl)
  | tupObj (o : PV)                                -- (name, attrs, object) of VALUE.OBJECT*, OBJECTPATH
  | pair (p : Path) (c : Cls)                      -- (class_path, klass)
  | embs (l : List PV)                             -- parse_embeddedObject of a list

instance : Inhabited PV := ⟨.none⟩

section
variable (C : EnvCodec) (fuel : Nat)

def dInst (t : Xml) : R Inst := Resp.decInstance C.toDecCodec (Resp.embAt C.toDecCodec fuel) t
def dCls (t : Xml) : R Cls := Resp.decClass C.toDecCodec (Resp.embAt C.toDecCodec fuel) t
def dPath (t : Xml) : R Path := Resp.decPathAny C.toDecCodec t

/-- a path element whose name the caller's `check_node` fixes -/
def dPathNamed (nm : String) (t : Xml) : R Path :=
  if t.name = nm.toList then dPath C t else perr

def withPath (i : Inst) (p : Path) : Inst :=
  match i with
  | .mk c _ ps qs => .mk c (some p) ps qs

def clsWithPath (c : Cls) (p : Path) : Cls :=
  match c with
  | .mk n s _ ps ms qs => .mk n s (some p) ps ms qs

/-- mirrors parse_value_array / parse_value_refarray children -/
def decRefArray : List Xml → R (List (Option Path))
  | [] => pure []
  | .text _ :: ks => decRefArray ks
  | k :: ks =>
    if k.name = "VALUE.REFERENCE".toList then do
      let p ← Resp.decValueReference C.toDecCodec k
      let rest ← decRefArray ks
      pure (some p :: rest)
    else if k.name = "VALUE.NULL".toList then do
      let _ ← checkG "parse_value_null" k
      let rest ← decRefArray ks
      pure (none :: rest)
    else perr

/-- `one_child(tup_tree, acceptable)` up to the call of parse_any: the single element child -/
def oneChild (ks : List Xml) (acceptable : List String) : R Xml :=
  match Xml.elemKids ks with
  | [k] => if nameIn k acceptable then pure k else perr
  | _ => perr

/-- mirrors parse_value_objectwithpath / parse_value_objectwithlocalpath: two children, (class path,
    CLASS) when the first is named `cpName`, else (instance path named `ipName`, INSTANCE) -/
def decObjWithPath (fn cpName ipName : String) (t : Xml) : R PV := do
  let (_, ks) ← checkG fn t
  match Xml.elemKids ks with
  | [p, o] =>
    if p.name = cpName.toList then do
      let cp ← dPath C p
      let c ← dCls C fuel o
      pure (.tupObj (.pair cp (clsWithPath c cp)))
    else do
      let ip ← dPathNamed C ipName p
      let i ← dInst C fuel o
      pure (.tupObj (.inst (withPath i ip)))
  | _ => perr

/-- `parse_any` for the element kinds that occur below IRETURNVALUE / PARAMVALUE / RETURNVALUE /
    IPARAMVALUE / DECLGROUP (the caller has checked the name against its `acceptable` list) -/
def decValueElem (t : Xml) : R PV :=
  match t with
  | .text _ => perr
  | .elem n _ ks =>
    if n = "VALUE".toList then do
      let s ← decValueText t
      pure (.str s)
    else if n = "VALUE.ARRAY".toList then do
      let (_, aks) ← checkG "parse_value_array" t
      let l ← decArrayRaw aks
      pure (.strs l)
    else if n = "VALUE.REFERENCE".toList then do
      let p ← Resp.decValueReference C.toDecCodec t
      pure (.path p)
    else if n = "VALUE.REFARRAY".toList then do
      let (_, aks) ← checkG "parse_value_refarray" t
      let l ← decRefArray C aks
      pure (.paths l)
    else if n = "CLASSNAME".toList ∨ n = "INSTANCENAME".toList ∨ n = "INSTANCEPATH".toList then do
      let p ← dPath C t
      pure (.path p)
    else if n = "CLASS".toList then do
      let c ← dCls C fuel t
      pure (.cls c)
    else if n = "INSTANCE".toList then do
      let i ← dInst C fuel t
      pure (.inst i)
    else if n = "QUALIFIER.DECLARATION".toList then do
      let q ← Resp.decQualDecl C.toDecCodec t
      pure (.qdecl q)
    else if n = "VALUE.NAMEDINSTANCE".toList then do
      let _ ← checkG "parse_value_namedinstance" t
      match Xml.elemKids ks with
      | [p, i] => do
        let path ← Resp.decInstanceName C.toDecCodec p
        let inst ← dInst C fuel i
        pure (.inst (withPath inst path))
      | _ => perr
    else if n = "VALUE.INSTANCEWITHPATH".toList then do
      let _ ← checkG "parse_value_instancewithpath" t
      match Xml.elemKids ks with
      | [p, i] => do
        let path ← dPathNamed C "INSTANCEPATH" p
        let inst ← dInst C fuel i
        pure (.inst (withPath inst path))
      | _ => perr
    else if n = "VALUE.OBJECTWITHPATH".toList then
      decObjWithPath C fuel "parse_value_objectwithpath" "CLASSPATH" "INSTANCEPATH" t
    else if n = "VALUE.OBJECTWITHLOCALPATH".toList then
      decObjWithPath C fuel "parse_value_objectwithlocalpath" "LOCALCLASSPATH" "LOCALINSTANCEPATH" t
    else if n = "VALUE.OBJECT".toList then do
      let _ ← checkG "parse_value_object" t
      let k ← oneChild ks (kidsG "parse_value_object" "one_child")
      if k.name = "CLASS".toList then do
        let c ← dCls C fuel k
        pure (.tupObj (.cls c))
      else do
        let i ← dInst C fuel k
        pure (.tupObj (.inst i))
    else if n = "OBJECTPATH".toList then do
      let _ ← checkG "parse_objectpath" t
      let k ← oneChild ks (kidsG "parse_objectpath" "one_child")
      let p ← dPath C k
      pure (.tupObj (.path p))
    else perr

def iretKinds : List String := kidsG "parse_ireturnvalue" "list_of_same"

/-- `list_of_same`: every element child has the name of the first one, which must be acceptable -/
def listOfSame (first : Str) : List Xml → R (List PV)
  | [] => pure []
  | .text _ :: ks => listOfSame first ks
  | k :: ks =>
    if k.name ≠ first then perr
    else do
      let v ← decValueElem C fuel k
      let rest ← listOfSame first ks
      pure (v :: rest)

/-- mirrors parse_ireturnvalue -/
def decIReturnValue (t : Xml) : R (List PV) := do
  let (_, ks) ← checkG "parse_ireturnvalue" t
  match firstElem ks with
  | none => pure []
  | some k0 =>
    if !nameIn k0 iretKinds then perr
    else listOfSame C fuel k0.name ks

/-- mirrors parse_embeddedObject applied to the parsed child of PARAMVALUE / RETURNVALUE (after the
    fix: a value that is neither None nor a string nor a list of such is rejected) -/
def embStrs : List (Option Str) → R (List PV)
  | [] => pure []
  | none :: rest => do
    let r ← embStrs rest
    pure (.none :: r)
  | some s :: rest => do
    let a ← Resp.embAt C.toDecCodec fuel s
    let r ← embStrs rest
    match a with
    | .einst i => pure (.inst i :: r)
    | .ecls c => pure (.cls c :: r)
    | _ => pure (.none :: r)

def embPaths : List (Option Path) → R (List PV)
  | [] => pure []
  | none :: rest => do
    let r ← embPaths rest
    pure (.none :: r)
  | some _ :: _ => perr

def embPV (v : PV) : R PV :=
  match v with
  | .none => pure .none
  | .str s => do
    match (← Resp.embAt C.toDecCodec fuel s) with
    | .einst i => pure (.inst i)
    | .ecls c => pure (.cls c)
    | _ => pure .none
  | .strs l => do
    let r ← embStrs C fuel l
    pure (.embs r)
  | .paths l => do
    let r ← embPaths l
    pure (.embs r)
  | _ => perr

def hasEmbAttr (as : List (Str × Str)) : Bool :=
  (Xml.attr as "EmbeddedObject".toList).isSome || (Xml.attr as "EMBEDDEDOBJECT".toList).isSome

/-- `optional_child(tup_tree, allowed)` followed by parse_any -/
def optionalChild (ks : List Xml) (allowed : List String) : R PV :=
  match Xml.elemKids ks with
  | [] => pure .none
  | [k] => if nameIn k allowed then decValueElem C fuel k else perr
  | _ => perr

/-- children of METHODRESPONSE / IMETHODRESPONSE / EXPMETHODRESPONSE after parsing -/
inductive RspKid where
  | error (code : Str) (hasDesc : Bool) (insts : List Inst)     -- ('ERROR', attrs, instances)
  | iret (vals : List PV)                                       -- ('IRETURNVALUE', attrs, values)
  | retval (ptype : Option Str) (v : PV)                        -- ('RETURNVALUE', attrs, value)
  | param (name : Str) (ptype : Option Str) (v : PV)            -- (NAME, PARAMTYPE, value)

def decErrorInsts : List Xml → R (List Inst)
  | [] => pure []
  | .text _ :: ks => decErrorInsts ks
  | k :: ks =>
    if k.name ≠ "INSTANCE".toList then perr
    else do
      let i ← dInst C fuel k
      let rest ← decErrorInsts ks
      pure (i :: rest)

/-- mirrors parse_error (after the fix: CODE must convert with int()) -/
def decError (t : Xml) : R RspKid := do
  let (as, ks) ← checkG "parse_error" t
  let code := getAttrD as "CODE" ""
  let _ ← catchExc [.valueError] (pyIntE code)
  let insts ← decErrorInsts C fuel ks
  pure (.error code (Xml.attr as "DESCRIPTION".toList).isSome insts)

/-- mirrors parse_returnvalue -/
def decReturnValue (t : Xml) : R RspKid := do
  let (as, ks) ← checkG "parse_returnvalue" t
  let child ← optionalChild C fuel ks (kidsG "parse_returnvalue" "optional_child")
  let child ← if hasEmbAttr as then embPV C fuel child else pure child
  pure (.retval (Xml.attr as "PARAMTYPE".toList) child)

def paramKinds : List String := kidsG "parse_paramvalue" "optional_child"

/-- mirrors parse_paramvalue -/
def decParamValue (t : Xml) : R RspKid := do
  let (as, ks) ← checkG "parse_paramvalue" t
  let child ← optionalChild C fuel ks paramKinds
  let ptype := match Xml.attr as "PARAMTYPE".toList with
    | some p => some p
    | none => Xml.attr as "TYPE".toList
  let child ← if hasEmbAttr as then embPV C fuel child else pure child
  pure (.param (getAttrD as "NAME" "") ptype child)

/-- `list_of_various(tup_tree, acceptable)` over the response element's children -/
def decRspKids (acceptable : List String) : List Xml → R (List RspKid)
  | [] => pure []
  | .text _ :: ks => decRspKids acceptable ks
  | k :: ks =>
    if !nameIn k acceptable then perr
    else do
      let x ← (if k.name = "ERROR".toList then decError C fuel k
               else if k.name = "IRETURNVALUE".toList then do
                 let vs ← decIReturnValue C fuel k
                 pure (RspKid.iret vs)
               else if k.name = "RETURNVALUE".toList then decReturnValue C fuel k
               else decParamValue C fuel k)
      let rest ← decRspKids acceptable ks
      pure (x :: rest)

/-- the parsed response element: (element name, NAME attribute, children) -/
structure Rsp where
  elem : Str
  name : Str
  kids : List RspKid

/-- mirrors parse_methodresponse / parse_imethodresponse / parse_expmethodresponse -/
def decResponseElem (t : Xml) : R Rsp :=
  match t with
  | .text _ => perr
  | .elem n _ _ =>
    if n = "METHODRESPONSE".toList then do
      let (as, ks) ← checkG "parse_methodresponse" t
      let kids ← decRspKids C fuel (kidsG "parse_methodresponse" "list_of_various") ks
      pure ⟨n, getAttrD as "NAME" "", kids⟩
    else if n = "IMETHODRESPONSE".toList then do
      let (as, ks) ← checkG "parse_imethodresponse" t
      let kids ← decRspKids C fuel (kidsG "parse_imethodresponse" "list_of_various") ks
      pure ⟨n, getAttrD as "NAME" "", kids⟩
    else if n = "EXPMETHODRESPONSE".toList then do
      let (as, ks) ← checkG "parse_expmethodresponse" t
      let kids ← decRspKids C fuel (kidsG "parse_expmethodresponse" "list_of_various") ks
      pure ⟨n, getAttrD as "NAME" "", kids⟩
    else perr

/-! ### request-side elements (a server may echo them; they are parsed before being rejected) -/

def iparamKinds : List String := kidsG "parse_iparamvalue" "optional_child"

/-- mirrors parse_iparamvalue (called directly: the element name is checked by check_node) -/
def decIParamValues : List Xml → R Unit
  | [] => pure ()
  | k :: ks => do
    let (_, kk) ← checkG "parse_iparamvalue" k
    let _ ← optionalChild C fuel kk iparamKinds
    decIParamValues ks

def decParamValuesMatching : List Xml → R Unit
  | [] => pure ()
  | .text _ :: ks => decParamValuesMatching ks
  | k :: ks =>
    if k.name = "PARAMVALUE".toList then do
      let _ ← decParamValue C fuel k
      decParamValuesMatching ks
    else decParamValuesMatching ks

def decLocalPathsMatching : List Xml → R Nat
  | [] => pure 0
  | .text _ :: ks => decLocalPathsMatching ks
  | k :: ks =>
    if k.name = "LOCALCLASSPATH".toList ∨ k.name = "LOCALINSTANCEPATH".toList then do
      let _ ← dPath C k
      let n ← decLocalPathsMatching ks
      pure (n + 1)
    else decLocalPathsMatching ks

def decExpParamValues : List Xml → R Unit
  | [] => pure ()
  | .text _ :: ks => decExpParamValues ks
  | k :: ks =>
    if k.name = "EXPPARAMVALUE".toList then do
      let (_, kk) ← checkG "parse_expparamvalue" k
      let _ ← optionalChild C fuel kk (kidsG "parse_expparamvalue" "optional_child")
      decExpParamValues ks
    else decExpParamValues ks

/-- mirrors parse_simplereq / parse_imethodcall / parse_methodcall -/
def decSimpleReq (t : Xml) : R Unit := do
  let (_, ks) ← checkG "parse_simplereq" t
  let k ← oneChild ks (kidsG "parse_simplereq" "one_child")
  if k.name = "IMETHODCALL".toList then do
    let (_, kk) ← checkG "parse_imethodcall" k
    match Xml.elemKids kk with
    | [] => perr
    | k0 :: rest => do
      let _ ← decLocalNsPath k0
      decIParamValues C fuel rest
  else do
    let (_, kk) ← checkG "parse_methodcall" k
    let n ← decLocalPathsMatching C kk
    if n ≠ 1 then perr
    else decParamValuesMatching C fuel kk

/-- mirrors parse_simpleexpreq / parse_expmethodcall / parse_expparamvalue -/
def decSimpleExpReq (t : Xml) : R Unit := do
  let (_, ks) ← checkG "parse_simpleexpreq" t
  let k ← oneChild ks (kidsG "parse_simpleexpreq" "one_child")
  let (_, kk) ← checkG "parse_expmethodcall" k
  decExpParamValues C fuel kk

/-- what `parse_cim` returns below CIM, as far as the callers look at it -/
inductive Msg where
  | decl                                   -- ('DECLARATION', …)
  | request (name : Str)                   -- ('SIMPLEREQ' | 'SIMPLEEXPREQ', …)
  | simplersp (r : Rsp)
  | simpleexprsp (r : Rsp)

def startsWith (s : Str) (p : String) : Bool := p.toList.isPrefixOf s

def messageKinds : List String := kidsG "parse_message" "one_child"

/-- mirrors parse_message (returns the parsed child) -/
def decMessage (t : Xml) : R Msg := do
  let (as, ks) ← checkG "parse_message" t
  if !startsWith (getAttrD as "PROTOCOLVERSION" "") "1." then .error .versionError
  else do
    let k ← oneChild ks messageKinds
    if k.name = "SIMPLERSP".toList then do
      let (_, kk) ← checkG "parse_simplersp" k
      let c ← oneChild kk (kidsG "parse_simplersp" "one_child")
      let r ← decResponseElem C fuel c
      pure (.simplersp r)
    else if k.name = "SIMPLEEXPRSP".toList then do
      let (_, kk) ← checkG "parse_simpleexprsp" k
      let c ← oneChild kk (kidsG "parse_simpleexprsp" "one_child")
      let r ← decResponseElem C fuel c
      pure (.simpleexprsp r)
    else if k.name = "SIMPLEREQ".toList then do
      decSimpleReq C fuel k
      pure (.request k.name)
    else if k.name = "SIMPLEEXPREQ".toList then do
      decSimpleExpReq C fuel k
      pure (.request k.name)
    else perr          -- MULTIREQ, MULTIRSP, MULTIEXPREQ, MULTIEXPRSP: notimplemented()

/-- mirrors parse_declaration / parse_declgroup -/
def decDeclaration (t : Xml) : R Unit := do
  let (_, ks) ← checkG "parse_declaration" t
  let g ← oneChild ks (kidsG "parse_declaration" "one_child")
  let (_, gk) ← checkG "parse_declgroup" g
  let c ← oneChild gk (kidsG "parse_declgroup" "one_child")
  let _ ← decValueElem C fuel c
  pure ()

/-- mirrors parse_cim: CIMVersionError / DTDVersionError are `versionError` -/
def decCim (t : Xml) : R Msg := do
  let (as, ks) ← checkG "parse_cim" t
  if !startsWith (getAttrD as "CIMVERSION" "") "2." then .error .versionError
  else if !startsWith (getAttrD as "DTDVERSION" "") "2." then .error .versionError
  else do
    let k ← oneChild ks (kidsG "parse_cim" "one_child")
    if k.name = "MESSAGE".toList then decMessage C fuel k
    else do
      decDeclaration C fuel k
      pure .decl

/-! ### cimvalue -/

/-- Python class of a value, as far as cimvalue / cimtype distinguish -/
inductive CV where
  | none | str | strList | ipath | cpath | refList | inst | cls | embList | other
  deriving DecidableEq, Repr

/-- mirrors pywbem/_cim_types.py: cimtype(obj) for the values the parser produces: a string (also
    CIMInstance / CIMClass) is 'string', a CIMInstanceName 'reference'; an empty list ValueError;
    None, CIMClassName, tuples: TypeError -/
def cimtypeOf : PV → R Str
  | .str _ | .inst _ | .cls _ => pure "string".toList
  | .path (.inst ..) => pure "reference".toList
  | .strs [] | .paths [] | .embs [] => .error .valueError
  | .strs (some _ :: _) => pure "string".toList
  | .paths (some (.inst ..) :: _) => pure "reference".toList
  | .embs (.inst _ :: _) | .embs (.cls _ :: _) => pure "string".toList
  | _ => .error .typeError

/-- `bool(obj)` for the objects the parser produces: CIMInstanceName / CIMInstance define `__len__`
    (keybindings / properties), CIMClassName / CIMClass are always true, a string is true iff non-empty -/
def pvTruth : PV → Bool
  | .str s => !s.isEmpty
  | .path (.inst _ _ _ keys) => !keys.isEmpty
  | .inst (.mk _ _ props _) => !props.isEmpty
  | _ => true

/-- `type_obj(value)` for a scalar of a type other than boolean/string/char16/reference:
    numeric constructors on a string run `int(s)` / `float(s)`, CIMDateTime(s) parses; any other
    Python class of value: TypeError; unknown type name: ValueError -/
def convScalar (ty : Str) (v : PV) : R Atom :=
  match IntTy.ofName ty with
  | some t =>
    match v with
    | .str s => do
      let i ← pyIntE s
      if t.lo ≤ i ∧ i ≤ t.hi then pure (.int t i) else .error .valueError
    | _ => .error .typeError
  | none =>
    if ty = "real32".toList ∨ ty = "real64".toList then
      match v with
      | .str s => match C.parseFloat (strip s) with
        | some b => pure (.real (ty = "real64".toList) b)
        | none => .error .valueError
      | _ => .error .typeError
    else if ty = "datetime".toList then
      match v with
      | .str s => match C.parseDt s with
        | some d => pure (.dt d)
        | none => .error .valueError
      | _ => .error .typeError
    else .error .valueError          -- type_from_name: unknown CIM data type name

/-- `_ensure_unicode(value)` / the value itself, as an atom -/
def pvAtom : PV → Atom
  | .str s => .str s
  | .path p => .ref p
  | .inst i => .einst i
  | .cls c => .ecls c
  | _ => .null

/-- cimvalue(value, type) for one non-list value -/
def cimvalue1 (ty : Str) (v : PV) : R Atom :=
  match v with
  | .none => pure .null
  | v =>
    if ty = "boolean".toList then pure (.bool (pvTruth v))
    else if ty = "string".toList ∨ ty = "char16".toList then pure (pvAtom v)
    else if ty = "reference".toList then
      match v with
      | .path p => pure (.ref p)
      | .str s => match C.wbemUri s with
        | some p => pure (.ref p)
        | none => .error .valueError
      | _ => .error .typeError
    else convScalar C ty v

def cimvalueStrs (ty : Str) : List (Option Str) → R (List Atom)
  | [] => pure []
  | none :: rest => do
    let r ← cimvalueStrs ty rest
    pure (.null :: r)
  | some s :: rest => do
    let a ← cimvalue1 C ty (.str s)
    let r ← cimvalueStrs ty rest
    pure (a :: r)

def cimvaluePaths (ty : Str) : List (Option Path) → R (List Atom)
  | [] => pure []
  | none :: rest => do
    let r ← cimvaluePaths ty rest
    pure (.null :: r)
  | some p :: rest => do
    let a ← cimvalue1 C ty (.path p)
    let r ← cimvaluePaths ty rest
    pure (a :: r)

def cimvaluePVs (ty : Str) : List PV → R (List Atom)
  | [] => pure []
  | v :: rest => do
    let a ← cimvalue1 C ty v
    let r ← cimvaluePVs ty rest
    pure (a :: r)

def atomVal (a : Atom) : Val :=
  match a with
  | .null => .null
  | a => .scalar a

/-- mirrors pywbem/_cim_obj.py: cimvalue(value, type) -/
def cimvalue (v : PV) (ty : Option Str) : R Val :=
  match v with
  | .none => pure .null
  | v => do
    let ty ← (match ty with
      | some t => pure t
      | none => cimtypeOf v)
    match v with
    | .strs l => do
      let r ← cimvalueStrs C ty l
      pure (.array r)
    | .paths l => do
      let r ← cimvaluePaths C ty l
      pure (.array r)
    | .embs l => do
      let r ← cimvaluePVs C ty l
      pure (.array r)
    | v => do
      let a ← cimvalue1 C ty v
      pure (atomVal a)

/-- the value of a 'reference'-typed output parameter: stored as parsed -/
def pvVal : PV → Val
  | .none => .null
  | .strs l => .array (l.map (fun o => match o with | some s => Atom.str s | none => .null))
  | .paths l => .array (l.map (fun o => match o with | some p => Atom.ref p | none => .null))
  | .embs l => .array (l.map pvAtom)
  | v => atomVal (pvAtom v)

end

/-! ### operations -/

inductive OpKind where
  | imethod | method | export
  deriving DecidableEq, Repr

/-- the result handling of the public operation methods, by shape -/
inductive Post where
  | void
  | instList          -- EnumerateInstances
  | pathList          -- EnumerateInstanceNames
  | oneInst           -- GetInstance
  | onePath           -- CreateInstance
  | objs (instLevel : Bool)        -- Associators, References
  | objNames (instLevel : Bool)    -- AssociatorNames, ReferenceNames
  | query             -- ExecQuery
  | pullInst          -- Open…Instances (with path), PullInstancesWithPath
  | pullPath          -- Open…InstancePaths, PullInstancePaths
  | pullQuery (returnClass : Bool)   -- OpenQueryInstances, PullInstances
  | classList | classNameList | oneClass | qdeclList | oneQdecl
  | invoke            -- InvokeMethod
  deriving DecidableEq, Repr

structure OpSpec where
  kind : OpKind
  meth : Str
  hasRet : Bool := true
  hasOut : Bool := false
  post : Post
  ns : Str := []                                   -- effective target namespace of the call
  host : Str := []                                 -- conn.host
  reqPath : Path := .inst [] none none []          -- the InstanceName argument (GetInstance)

/-- `path.namespace = ns` -/
def setNs (ns : Str) : Path → Path
  | .inst c h _ k => .inst c h (some ns) k
  | .cls c h _ => .cls c h (some ns)

def instSetNs (ns : Str) : Inst → Inst
  | .mk c (some p) ps qs => .mk c (some (setNs ns p)) ps qs
  | .mk c none ps qs => .mk c none ps qs

/-- ExecQuery: an instance without path gets CIMInstanceName(classname, namespace=ns) -/
def instQueryPath (ns : Str) : Inst → Inst
  | .mk c (some p) ps qs => .mk c (some (setNs ns p)) ps qs
  | .mk c none ps qs => .mk c (some (.inst c none (some ns) [])) ps qs

def clsSetPath (host ns : Str) : Cls → Cls
  | .mk n sup _ ps ms qs => .mk n sup (some (.cls n (some host) (some ns))) ps ms qs

/-- the value an operation returns, as far as its documented type goes -/
inductive Res where
  | void
  | instances (l : List Inst)
  | paths (l : List Path)
  | inst (i : Inst)
  | path (p : Path)
  | classPairs (l : List (Path × Cls))
  | classes (l : List Cls)
  | classNames (l : List Str)
  | cls (c : Cls)
  | qdecls (l : List QualDecl)
  | qdecl (q : QualDecl)
  | pullI (l : List Inst) (eos : Bool) (ctx : Option Str) (qrc : Option Cls)
  | pullP (l : List Path) (eos : Bool) (ctx : Option Str)
  | invoke (rv : Val) (outs : List (Str × Val))     -- (ReturnValue, OutputParameters in response order)

def isInstPath : Path → Bool
  | .inst .. => true
  | .cls .. => false

def instPath : Inst → Option Path
  | .mk _ p _ _ => p

def instHasPath (i : Inst) : Bool :=
  match instPath i with
  | some p => isInstPath p
  | none => false

/-- the checks of `_imethodcall` / `_iexportcall` / `_methodcall` on the parsed message down to the
    list of children of the response element -/
def responseKids (elemWanted rspWanted : String) (meth : Str) (m : Msg) : R (List RspKid) :=
  match m with
  | .decl => perr                                    -- "Expecting MESSAGE element"
  | .request _ => perr                               -- "Expecting SIMPLERSP / SIMPLEEXPRSP element"
  | .simplersp r =>
    if rspWanted ≠ "SIMPLERSP" then perr
    else if r.elem ≠ elemWanted.toList then perr
    else if r.name ≠ meth then perr
    else pure r.kids
  | .simpleexprsp r =>
    if rspWanted ≠ "SIMPLEEXPRSP" then perr
    else if r.elem ≠ elemWanted.toList then perr
    else if r.name ≠ meth then perr
    else pure r.kids

/-- `raise CIMError(int(err[1]['CODE']), …)` for a first child ERROR -/
def raiseCimError (code : Str) : R (List RspKid) := do
  let c ← pyIntE code
  .error (.cimError c.toNat)

def isParam : RspKid → Bool
  | .param .. => true
  | _ => false

/-- mirrors _imethodcall after the envelope checks: ERROR first -> CIMError; ERROR elsewhere -> parse
    error; IRETURNVALUE / output parameters against the operation's signature -/
def imethodResult (op : OpSpec) (kids : List RspKid) : R (List RspKid) :=
  match kids with
  | .error code _ _ :: _ => raiseCimError code
  | _ =>
    if kids.any (fun k => match k with | .error .. => true | _ => false) then perr
    else if kids.any (fun k => match k with | .retval .. => true | _ => false) then perr   -- not produced: IMETHODRESPONSE has no RETURNVALUE
    else if !op.hasRet && kids.any (fun k => match k with | .iret _ => true | _ => false) then perr
    else if !op.hasOut && kids.any isParam then perr
    else pure kids

/-- first IRETURNVALUE's values when it is the first child (`result[0][2]`); callers use it only for
    operations without output parameters, where every child is an IRETURNVALUE -/
def firstIret (kids : List RspKid) : Option (List PV) :=
  match kids with
  | .iret vs :: _ => some vs
  | _ => none

def allInst : List PV → R (List Inst)
  | [] => pure []
  | .inst i :: rest => do
    let r ← allInst rest
    pure (i :: r)
  | _ :: _ => perr

def allInstWithPath : List PV → R (List Inst)
  | [] => pure []
  | .inst i :: rest => if instHasPath i then do
      let r ← allInstWithPath rest
      pure (i :: r)
    else perr
  | _ :: _ => perr

def allInstPaths : List PV → R (List Path)
  | [] => pure []
  | .path p :: rest => if isInstPath p then do
      let r ← allInstPaths rest
      pure (p :: r)
    else perr
  | _ :: _ => perr

def allClassPaths : List PV → R (List Path)
  | [] => pure []
  | .path p :: rest => if !isInstPath p then do
      let r ← allClassPaths rest
      pure (p :: r)
    else perr
  | _ :: _ => perr

def allClasses : List PV → R (List Cls)
  | [] => pure []
  | .cls c :: rest => do
    let r ← allClasses rest
    pure (c :: r)
  | _ :: _ => perr

def allQdecls : List PV → R (List QualDecl)
  | [] => pure []
  | .qdecl q :: rest => do
    let r ← allQdecls rest
    pure (q :: r)
  | _ :: _ => perr

/-- mirrors _unpack_object_elements: every item must be a (name, attrs, object) tuple -/
def unpackObjectElements : List PV → R (List PV)
  | [] => pure []
  | .tupObj o :: rest => do
    let r ← unpackObjectElements rest
    pure (o :: r)
  | _ :: _ => perr

def allPairs : List PV → R (List (Path × Cls))
  | [] => pure []
  | .pair p c :: rest => if !isInstPath p then do
      let r ← allPairs rest
      pure ((p, c) :: r)
    else perr
  | _ :: _ => perr

def pathClassName : Path → Str
  | .inst c .. => c
  | .cls c .. => c

/-- mirrors _get_rslt_params -/
structure PullParams where
  objs : List PV
  eos : Bool
  ctx : Option Str

def lowerStr (s : Str) : Str := lowerAscii s

/-- the loop of _get_rslt_params over the children; state = (objs, eos, eosFound, ctx, ctxFound) -/
def rsltLoop : List RspKid → (List PV × Bool × Bool × Option Str × Bool) → R (List PV × Bool × Bool × Option Str × Bool)
  | [], st => pure st
  | k :: rest, (objs, eos, eosF, ctx, ctxF) =>
    match k with
    | .param name _ v =>
      if name = "EndOfSequence".toList then
        match v with
        | .str s =>
          if lowerStr s = "true".toList then rsltLoop rest (objs, true, true, ctx, ctxF)
          else if lowerStr s = "false".toList then rsltLoop rest (objs, false, true, ctx, ctxF)
          else perr
        | _ => rsltLoop rest (objs, eos, eosF, ctx, ctxF)
      else if name = "EnumerationContext".toList then
        match v with
        | .str s => rsltLoop rest (objs, eos, eosF, some s, true)
        | _ => rsltLoop rest (objs, eos, eosF, ctx, true)
      else rsltLoop rest (objs, eos, eosF, ctx, ctxF)
    | .iret vs => rsltLoop rest (vs, eos, eosF, ctx, ctxF)
    | _ => rsltLoop rest (objs, eos, eosF, ctx, ctxF)

def getRsltParams (kids : List RspKid) (check : List PV → R Unit) : R PullParams := do
  let (objs, eos, eosF, ctx, ctxF) ← rsltLoop kids ([], false, false, none, false)
  check objs
  if !eosF && !ctxF then perr
  else if !eos && ctx.isNone then perr
  else pure ⟨objs, eos, if eos then none else ctx⟩

def findQueryResultClass : List RspKid → R Cls
  | [] => perr
  | .param name _ v :: rest =>
    if name = "QueryResultClass".toList then
      match v with
      | .cls c => pure c
      | _ => perr
    else findQueryResultClass rest
  | _ :: rest => findQueryResultClass rest

def unpackBoolStrs : List (Option Str) → R (List Atom)
  | [] => pure []
  | none :: rest => do
    let r ← unpackBoolStrs rest
    pure (.null :: r)
  | some s :: rest => do
    let b ← unpackBoolean s
    let r ← unpackBoolStrs rest
    pure ((match b with | some x => Atom.bool x | none => .null) :: r)

def pvIsNone : PV → Bool
  | .none => true
  | _ => false

/-- mirrors the local helper `xml_cimvalue` of _methodcall: for PARAMTYPE boolean the text of VALUE
    elements (a string, or the string items of a list) is converted with TupleParser.unpack_boolean
    (invalid text: CIMXMLParseError, empty text: None); everything else goes through cimvalue().
    Result: whether the converted value is None -/
def xmlCimvalue (C : EnvCodec) (v : PV) (ty : Option Str) : R Val :=
  if ty = some "boolean".toList then
    match v with
    | .strs l => do
      let r ← unpackBoolStrs l
      pure (.array r)
    | .paths l => pure (pvVal (.paths l))
    | .embs l => pure (pvVal (.embs l))
    | .str s => do
      let b ← unpackBoolean s
      pure (match b with | some x => .scalar (.bool x) | none => .null)
    | v => cimvalue C v ty
  else cimvalue C v ty

def valIsNull : Val → Bool
  | .null => true
  | _ => false

/-- mirrors _methodcall after the envelope checks -/
def methodResult (C : EnvCodec) (kids : List RspKid) : R Res :=
  match kids with
  | .error code _ _ :: _ => do
    let _ ← raiseCimError code
    perr
  | _ => do
    let (rv, rest) ← (match kids with
      | .retval pt v :: rest => do
        let x ← catchVT (xmlCimvalue C v pt)
        pure (x, rest)
      | _ => pure (Val.null, kids))
    let outs ← outLoop rest
    pure (.invoke rv outs)
where
  outLoop : List RspKid → R (List (Str × Val))
    | [] => pure []
    | .param name pt v :: rest => do
      let x ← (if pt = some "reference".toList then pure (pvVal v)
               else catchVT (xmlCimvalue C v pt))
      let r ← outLoop rest
      pure ((name, x) :: r)
    | _ :: _ => perr          -- ERROR / RETURNVALUE at an invalid position

/-- the per-operation result handling -/
def postProcess (C : EnvCodec) (op : OpSpec) (kids : List RspKid) : R Res :=
  let vals := (firstIret kids).getD []
  match op.post with
  | .void => pure .void
  | .instList => do
    let l ← allInst vals
    let l ← allInstWithPath (l.map PV.inst)
    pure (.instances (l.map (instSetNs op.ns)))
  | .pathList => do
    let l ← allInstPaths vals
    pure (.paths (l.map (setNs op.ns)))
  | .oneInst =>
    match kids, vals with
    | [], _ => perr
    | _, [] => perr
    | _, .inst i :: _ => pure (.inst (withPath i (setNs op.ns op.reqPath)))
    | _, _ => perr
  | .onePath =>
    match kids, vals with
    | [], _ => perr
    | _, [] => perr
    | _, .path p :: _ => if isInstPath p then pure (.path (setNs op.ns p)) else perr
    | _, _ => perr
  | .objs instLevel => do
    let objs ← unpackObjectElements vals
    if instLevel then do
      let l ← allInstWithPath objs
      pure (.instances l)
    else do
      let l ← allPairs objs
      pure (.classPairs l)
  | .objNames instLevel => do
    let objs ← unpackObjectElements vals
    if instLevel then do
      let l ← allInstPaths objs
      pure (.paths l)
    else do
      let l ← allClassPaths objs
      pure (.paths l)
  | .query => do
    let objs ← unpackObjectElements vals
    let l ← allInst objs
    pure (.instances (l.map (instQueryPath op.ns)))
  | .pullInst => do
    let p ← getRsltParams kids (fun o => do let _ ← allInstWithPath o; pure ())
    let l ← allInstWithPath p.objs
    pure (.pullI l p.eos p.ctx none)
  | .pullPath => do
    let p ← getRsltParams kids (fun o => do let _ ← allInstPaths o; pure ())
    let l ← allInstPaths p.objs
    pure (.pullP l p.eos p.ctx)
  | .pullQuery rc => do
    let p ← getRsltParams kids (fun o => do let _ ← allInst o; pure ())
    let l ← allInst p.objs
    if rc then do
      let c ← findQueryResultClass kids
      pure (.pullI l p.eos p.ctx (some c))
    else pure (.pullI l p.eos p.ctx none)
  | .classList => do
    let l ← allClasses vals
    pure (.classes (l.map (clsSetPath op.host op.ns)))
  | .classNameList => do
    let l ← allClassPaths vals
    pure (.classNames (l.map pathClassName))
  | .oneClass =>
    match kids, vals with
    | [], _ => perr
    | _, [] => perr
    | _, .cls c :: _ => pure (.cls (clsSetPath op.host op.ns c))
    | _, _ => perr
  | .qdeclList => do
    let l ← allQdecls vals
    pure (.qdecls l)
  | .oneQdecl =>
    match kids, vals with
    | [], _ => perr
    | _, [] => perr
    | _, .qdecl q :: _ => pure (.qdecl q)
    | _, _ => perr
  | .invoke => methodResult C kids

/-- everything an operation does with a parsed tupletree (`tp.parse_cim(tt_)` onwards) -/
def handleResponse (C : EnvCodec) (fuel : Nat) (op : OpSpec) (t : Xml) : R Res := do
  let m ← decCim C fuel t
  match op.kind with
  | .imethod => do
    let kids ← responseKids "IMETHODRESPONSE" "SIMPLERSP" op.meth m
    let kids ← imethodResult op kids
    postProcess C op kids
  | .method => do
    let kids ← responseKids "METHODRESPONSE" "SIMPLERSP" op.meth m
    methodResult C kids
  | .export => do
    let kids ← responseKids "EXPMETHODRESPONSE" "SIMPLEEXPRSP" op.meth m
    match kids with
    | .error code _ _ :: _ => do
      let _ ← raiseCimError code
      perr
    | [] => pure .void
    | _ => perr

/-! ### HTTP layer -/

structure HttpResp where
  status : Nat
  headers : List (Str × Str)

/-- `resp.headers.get(name)` on requests' CaseInsensitiveDict -/
def headerGet (hs : List (Str × Str)) (name : String) : Option Str :=
  match hs.find? (fun p => lowerAscii p.1 = lowerAscii name.toList) with
  | some p => some p.2
  | none => none

/-- mirrors pywbem/_cim_http.py: wbem_request after `session.post()` returned -/
def httpLayer (h : HttpResp) : R Unit :=
  if h.status ≠ 200 then
    if h.status = 401 then .error .authError else .error .httpError
  else
    match headerGet h.headers "Content-type" with
    | none => pure ()
    | some ct =>
      if !startsWith ct "application/xml" && !startsWith ct "text/xml" then .error .headerParseError
      else pure ()

/-- what the HTTPError raised for a status other than 200 / 401 carries: `status`, the `CIMError` header
    (`cimerror`) and whether `cimdetails` has a 'PGErrorDetail' entry (only looked at when the CIMError
    header is present).  mirrors pywbem/_cim_http.py: wbem_request -/
structure HttpErrorInfo where
  status : Nat
  cimerror : Option Str
  hasPGErrorDetail : Bool
  deriving DecidableEq

def httpErrorInfo (h : HttpResp) : HttpErrorInfo :=
  let ce := headerGet h.headers "CIMError"
  ⟨h.status, ce, ce.isSome && (headerGet h.headers "PGErrorDetail").isSome⟩

/-- the 401 branch: does the message name 'Basic' as unsupported by the server (the authentication
    schemes are the first words of the comma-separated WWW-Authenticate items) -/
def splitOn (sep : Char) : Str → List Str
  | [] => [[]]
  | c :: cs =>
    if c = sep then [] :: splitOn sep cs
    else match splitOn sep cs with
      | [] => [[c]]
      | p :: ps => (c :: p) :: ps

def serverAuthSchemes (h : HttpResp) : List Str :=
  match headerGet h.headers "WWW-Authenticate" with
  | none => []
  | some [] => []
  | some v => (splitOn ',' v).map (fun sa => (splitOn ' ' sa).headD [])

def basicOffered (h : HttpResp) : Bool := (serverAuthSchemes h).contains "Basic".toList

/-- mirrors wbem_request: the optional WBEMServerResponseTime header. `float(value) / 1000000`; a value
    `float()` rejects counts as if the header were absent (never passed on as a string).  Result: the bits
    of `float(value)` (before the division), `none` = `last_server_response_time` stays None -/
def serverResponseTime (C : EnvCodec) (h : HttpResp) : Option UInt64 :=
  match httpLayer h with
  | .error _ => none                       -- wbem_request raised: the attribute keeps its reset value None
  | .ok () =>
    match headerGet h.headers "WBEMServerResponseTime" with
    | none => none
    | some v => C.parseFloat (strip v)

/-- outcome of an operation with the data the exception carries -/
structure Outcome where
  res : R Res
  hasRequestData : Bool
  hasResponseData : Bool

def isParseError (e : PyExc) : Bool :=
  e = .cimXmlParseError || e = .xmlParseError || e = .headerParseError

/-- the `except (CIMXMLParseError, XMLParseError) as exce:` clause of every operation method attaches
    last_raw_request / last_raw_reply; a CIMError is created with request_data -/
def rspOutcome (r : R Res) : Outcome :=
  match r with
  | .ok v => ⟨.ok v, false, false⟩
  | .error e =>
    if e = .cimXmlParseError ∨ e = .xmlParseError then ⟨.error e, true, true⟩
    else ⟨.error e, (match e with | .cimError _ => true | _ => false), false⟩

/-- `xml_to_tupletree_sax` (`body = none`: the SAX parser rejected the bytes) and everything after -/
def parseAndHandle (C : EnvCodec) (fuel : Nat) (op : OpSpec) (body : Option Xml) : R Res :=
  match body with
  | none => .error .xmlParseError
  | some t => handleResponse C fuel op t

/-- the operation method: wbem_request (HeaderParseError is created with request and response data,
    HTTPError with request data), SAX parse, envelope, result handling -/
def client (C : EnvCodec) (fuel : Nat) (op : OpSpec) (h : HttpResp) (body : Option Xml) : Outcome :=
  match httpLayer h with
  | .error e => ⟨.error e, e = .headerParseError || e = .httpError, e = .headerParseError⟩
  | .ok () => rspOutcome (parseAndHandle C fuel op body)

def Outcome.isLeak (o : Outcome) : Bool :=
  match o.res with
  | .ok _ => false
  | .error e =>
    match e with
    | .cimError _ | .cimXmlParseError | .xmlParseError | .headerParseError | .versionError | .httpError
    | .authError | .connectionError | .timeoutError => false
    | _ => true

end Pywbem.Model.Envelope
