/-
C08 stage 1 (values): a token-level reader for the MOF text that tomof() produces, the value part of the
grammar actions of pywbem/_mof_compiler.py and the typing of initializers by `cimvalue`, and the value
side of `_scalar_value_tomof` / `_value_tomof` of pywbem/_cim_obj.py over typed CIM values.

NOT PLY: the token recognisers are the hand-modelled per-rule regexes of Model/MofLex.lean, dispatched in
PLY's rule order; PLY's LALR tables and driver are trusted/observed (K compares this reader with the real
compiler on the same texts).  The reader covers the sublanguage tomof() emits: no comments, no pragmas,
no aliases; identifiers are ASCII.  `none` = syntax error or text outside that sublanguage.
-/
import Pywbem.Model.MofStr
import Pywbem.Model.MofLex
import Pywbem.Generated.CimTypes

namespace Pywbem.Model.MofVal
open Pywbem.Proto Pywbem.Model.MofStr Pywbem.Model.MofLex

abbrev Str := List Nat

/-! ### tokens -/

inductive Tok where
  | id (s : Str)          -- IDENTIFIER or reserved word (raw spelling)
  | str (raw : Str)       -- stringValue token, quotes included
  | chr (raw : Str)       -- charValue token, quotes included
  | num (n : NumTok)
  | p (c : Nat)           -- one of the PLY `literals` #(){};[],$:=
  deriving Repr, DecidableEq

def isIdStart (c : Nat) : Bool := (65 ≤ c && c ≤ 90) || (97 ≤ c && c ≤ 122) || c == 95
def isIdChar (c : Nat) : Bool := isIdStart c || isDigit c
/-- mirrors _mof_compiler.py: literals = '#(){};[],$:=' -/
def isPunct (c : Nat) : Bool :=
  c == 35 || c == 40 || c == 41 || c == 123 || c == 125 || c == 59 || c == 91 || c == 93 || c == 44 ||
  c == 36 || c == 58 || c == 61

/-- the lexer on the tomof() sublanguage, PLY rule order: numbers, char, string, identifier, literals.
    The `≤` tests only guard the fuel argument (every recogniser consumes what it returns). -/
def lexToksF : Nat → Str → Option (List Tok)
  | 0, _ => none
  | _ + 1, [] => some []
  | f + 1, c :: cs =>
    if isWs c then lexToksF f cs
    else if isDigit c || c == 43 || c == 45 || c == 46 then
      match lexNumber (c :: cs) with
      | none => none
      | some r => if r.2.length ≤ cs.length then (lexToksF f r.2).map (Tok.num r.1 :: ·) else none
    else if c = 39 then
      match lexCharValue (c :: cs) with
      | none => none
      | some r => if r.2.length ≤ cs.length then (lexToksF f r.2).map (Tok.chr r.1 :: ·) else none
    else if c = 34 then
      match scanBody 34 cs with
      | none => none
      | some r => if r.2.length ≤ cs.length then (lexToksF f r.2).map (Tok.str (34 :: r.1 ++ [34]) :: ·) else none
    else if isIdStart c then
      let r := spanP isIdChar cs
      if r.2.length ≤ cs.length then (lexToksF f r.2).map (Tok.id (c :: r.1) :: ·) else none
    else if isPunct c then (lexToksF f cs).map (Tok.p c :: ·)
    else none

def lexToks (t : Str) : Option (List Tok) := lexToksF (t.length + 1) t

def asciiLower (c : Nat) : Nat := if 65 ≤ c ∧ c ≤ 90 then c + 32 else c
/-- reserved words are recognised case-insensitively (`reserved.get(t.value.lower())`) -/
def isKw (s : Str) (kw : String) : Bool := s.map asciiLower == kw.toList.map Char.toNat

/-! ### CIM types and typed values -/

inductive CimType where
  | boolean | string | char16 | datetime | real32 | real64
  | uint8 | sint8 | uint16 | sint16 | uint32 | sint32 | uint64 | sint64
  | reference
  deriving Repr, DecidableEq, Inhabited

def CimType.name : CimType → String
  | .boolean => "boolean" | .string => "string" | .char16 => "char16" | .datetime => "datetime"
  | .real32 => "real32" | .real64 => "real64" | .uint8 => "uint8" | .sint8 => "sint8"
  | .uint16 => "uint16" | .sint16 => "sint16" | .uint32 => "uint32" | .sint32 => "sint32"
  | .uint64 => "uint64" | .sint64 => "sint64" | .reference => "reference"

def allTypes : List CimType :=
  [.boolean, .string, .char16, .datetime, .real32, .real64, .uint8, .sint8, .uint16, .sint16, .uint32, .sint32,
   .uint64, .sint64, .reference]

def CimType.ofName (n : String) : Option CimType := allTypes.find? (fun t => t.name == n)

/-- (minvalue, maxvalue) of an integer type, from the table extracted from pywbem/_cim_types.py -/
def CimType.intRange (t : CimType) : Option (Int × Int) :=
  (Generated.intTypes.find? (fun e => e.2.1 == t.name)).map (fun e => e.2.2)

def CimType.isReal : CimType → Bool
  | .real32 | .real64 => true
  | _ => false

/-- Carriers and conversions the model does not look into: Python floats (`str(x)` = repr, `float(text)`),
    CIMDateTime (`str`, constructor from the string), CIMInstanceName (`to_wbem_uri()`, `from_wbem_uri`).
    Their round-trip laws are hypotheses of the theorems (`CodecLaws`), proved for the concrete functions by
    C06 (datetime) and C07 (WBEM URI); float text conversion is third-party (CPython). -/
structure Codec where
  F : Type
  D : Type
  R : Type
  realStr : F → Str
  realParse : Str → Option F
  dtStr : D → Str
  dtParse : Str → Option D
  refStr : R → Str
  refParse : Str → Option R

/-- the shape of Python's `repr` of a finite float: `[-]digits[.digits][e(+|-)digits]` with a fraction or an
    exponent (or both) -/
structure ReprText where
  neg : Bool
  ip : Str
  frac : Option Str
  exp : Option (Bool × Str)      -- (negative exponent, digits)
  deriving Repr

def ReprText.ok (g : ReprText) : Bool :=
  !g.ip.isEmpty && g.ip.all isDigit &&
  (match g.frac with | some f => !f.isEmpty && f.all isDigit | none => true) &&
  (match g.exp with | some e => !e.2.isEmpty && e.2.all isDigit | none => true) &&
  (g.frac.isSome || g.exp.isSome)

def ReprText.render (g : ReprText) : Str :=
  (if g.neg then [45] else []) ++ g.ip ++ (match g.frac with | some f => 46 :: f | none => []) ++
  (match g.exp with | some e => 101 :: (if e.1 then 45 else 43) :: e.2 | none => [])

/-- What the theorems assume about the conversions behind the `Codec` (never axioms: a hypothesis record).
    `realOk` / `dtOk` / `refOk` delimit the values the laws are claimed for (finite floats; datetimes; instance
    paths inside the domain where C07 proves the WBEM URI round trip). -/
structure CodecLaws (c : Codec) where
  realOk : c.F → Prop
  /-- `str(x)` of a finite float has the repr shape (given as data, so that the next law can refer to it) -/
  realShape : c.F → ReprText
  realShapeOk : ∀ x, realOk x → (realShape x).ok = true ∧ c.realStr x = (realShape x).render
  /-- `float(repr(x)) == x` -/
  realRt : ∀ x, realOk x → c.realParse (c.realStr x) = some x
  /-- `float("<int>.0e<exp>") == float("<int>e<exp>")` for the repr texts without a fraction -/
  realDot0 : ∀ x, realOk x → (realShape x).frac = none →
    c.realParse ({ realShape x with frac := some [48] } : ReprText).render = c.realParse (realShape x).render
  dtOk : c.D → Prop
  /-- `CIMDateTime(str(d)) == d` (C06) -/
  dtRt : ∀ d, dtOk d → c.dtParse (c.dtStr d) = some d
  refOk : c.R → Prop
  /-- `CIMInstanceName.from_wbem_uri(p.to_wbem_uri()) == p` (C07, inside its safe domain) -/
  refRt : ∀ r, refOk r → c.refParse (c.refStr r) = some r

inductive Scalar (c : Codec) where
  | null
  | str (s : Str)
  | char16 (s : Str)
  | bool (b : Bool)
  | int (v : Int)
  | real (x : c.F)
  | datetime (d : c.D)
  | ref (r : c.R)

inductive Value (c : Codec) where
  | scalar (s : Scalar c)
  | array (xs : List (Scalar c))

/-! ### generator side: _scalar_value_tomof / _value_tomof over typed values -/

/-- mirrors _cim_obj.py: _scalar_value_tomof, the numeric branch after the fix:
    `if isinstance(value, CIMFloat) and 'e' in val and '.' not in val: val = val.replace('e', '.0e')` -/
def realLit (t : Str) : Str :=
  if t.contains 101 ∧ ¬ t.contains 46 then replaceChar 101 [46, 48, 101] t else t

def litTrue : Str := [116, 114, 117, 101]
def litFalse : Str := [102, 97, 108, 115, 101]

/-- mirrors _cim_obj.py: _scalar_value_tomof — dispatch on the CIM *type*; a value whose Python type does not
    fit the type ends in TypeError / AssertionError / AttributeError there: all modelled as TypeError -/
def scalarItem (c : Codec) (ty : CimType) (s : Scalar c) : Except PyExc Item :=
  match s with
  | .null => .ok .null
  | s =>
    match ty, s with
    | .string, .str v => .ok (.str v)
    | .char16, .char16 v => .ok (.char16 v)
    | .char16, .str v => .ok (.char16 v)
    | .boolean, .bool b => .ok (.lit (if b then litTrue else litFalse))
    | .datetime, .datetime d => .ok (.str (c.dtStr d))
    | .reference, .ref r => .ok (.str (c.refStr r))
    | .real32, .real x => .ok (.lit (realLit (c.realStr x)))
    | .real64, .real x => .ok (.lit (realLit (c.realStr x)))
    | t, .int v => if (t.intRange).isSome then .ok (.lit (intStr v)) else .error .typeError
    | _, _ => .error .typeError

def scalarItems (c : Codec) (ty : CimType) : List (Scalar c) → Except PyExc (List Item)
  | [] => .ok []
  | s :: ss =>
    match scalarItem c ty s with
    | .error e => .error e
    | .ok i => (scalarItems c ty ss).map (i :: ·)

/-- mirrors _cim_obj.py: _value_tomof on a typed value -/
def valueToMof (c : Codec) (ty : CimType) (v : Value c) (indent maxline : Nat) (linePos : Int) (endSpace : Nat)
    (avoid : Bool) : Except PyExc (Str × Int) :=
  match v with
  | .scalar s =>
    match scalarItem c ty s with
    | .error e => .error e
    | .ok i => valueTomof (.inl i) indent maxline linePos endSpace avoid
  | .array xs =>
    match scalarItems c ty xs with
    | .error e => .error e
    | .ok is => valueTomof (.inr is) indent maxline linePos endSpace avoid

/-! ### compiler side: p_constantValue ... p_initializer and cimvalue -/

/-- what the value productions hand to the typing step (Python objects made by lexer and parser) -/
inductive Raw where
  | null
  | bool (b : Bool)
  | int (v : Int)
  | float (text : Str)      -- t_floatValue: `float(text)`, conversion left to the codec
  | str (s : Str)           -- p_stringValueList: un-escaped, concatenated
  | chr (raw : Str)         -- charValue token text, passed on unchanged (known finding C08-F1)
  deriving Repr, DecidableEq

/-- the string tokens at the head of the token list -/
def takeStrs : List Tok → List Str × List Tok
  | .str t :: r => let x := takeStrs r; (t :: x.1, x.2)
  | r => ([], r)

/-- mirrors _mof_compiler.py: p_constantValue (p_integerValue, floatValue, charValue, p_stringValueList,
    p_booleanValue, p_nullValue) -/
def parseConst : List Tok → Option (Raw × List Tok)
  | .num (.int v) :: r => some (.int v, r)
  | .num (.float t) :: r => some (.float t, r)
  | .num (.error _) :: _ => none
  | .chr raw :: r => some (.chr raw, r)
  | .str t :: r =>
    let x := takeStrs (.str t :: r)
    match stringValueList x.1 with
    | .ok s => some (.str s, x.2)
    | .error _ => none
  | .id s :: r =>
    if isKw s "true" then some (.bool true, r)
    else if isKw s "false" then some (.bool false, r)
    else if isKw s "null" then some (.null, r)
    else none
  | _ => none

/-- mirrors _mof_compiler.py: p_constantValueList — `constantValue (',' constantValue)*`; the fuel is the
    number of tokens -/
def parseConstListF : Nat → List Tok → Option (List Raw × List Tok)
  | 0, _ => none
  | f + 1, ts =>
    match parseConst ts with
    | none => none
    | some (v, .p 44 :: r) =>
      match parseConstListF f r with
      | none => none
      | some (vs, r') => some (v :: vs, r')
    | some (v, r) => some ([v], r)

def parseConstList (ts : List Tok) : Option (List Raw × List Tok) := parseConstListF (ts.length + 1) ts

/-- mirrors _cim_obj.py: cimvalue(raw, type) for the raw values the value productions can deliver.
    Combinations that tomof() output never leads to (a number for a string type, a string for an integer
    type, an integer for a real type, ...) are outside the model: `none`. An integer outside the range of
    its type is a ValueError in pywbem: `none` as well. -/
def typeRaw (c : Codec) (ty : CimType) : Raw → Option (Scalar c)
  | .null => some .null
  | .bool b => if ty = .boolean then some (.bool b) else none
  | .int v =>
    match ty.intRange with
    | some (lo, hi) => if lo ≤ v ∧ v ≤ hi then some (.int v) else none
    | none => none
  | .float t => if ty.isReal then (c.realParse t).map .real else none
  | .str s =>
    match ty with
    | .string => some (.str s)
    | .char16 => some (.char16 s)
    | .datetime => (c.dtParse s).map .datetime
    | .reference => (c.refParse s).map .ref
    | _ => none
  | .chr raw =>
    match ty with
    | .char16 => some (.char16 raw)
    | .string => some (.str raw)
    | _ => none

def typeRaws (c : Codec) (ty : CimType) : List Raw → Option (List (Scalar c))
  | [] => some []
  | r :: rs =>
    match typeRaw c ty r, typeRaws c ty rs with
    | some a, some as => some (a :: as)
    | _, _ => none

/-- the value part of an initializer as tomof() writes it (a scalar constant, or the inside of the braces of an
    array initializer; empty text = `{ }`), read and typed: mirrors p_initializer / p_arrayInitializer /
    p_constantValueList + cimvalue -/
def parseValue (c : Codec) (ty : CimType) (isArray : Bool) (text : Str) : Option (Value c) :=
  match lexToks text with
  | none => none
  | some ts =>
    if isArray then
      if ts = [] then some (.array [])
      else
        match parseConstList ts with
        | some (rs, []) => (typeRaws c ty rs).map .array
        | _ => none
    else
      match parseConst ts with
      | some (r, []) => (typeRaw c ty r).map .scalar
      | _ => none

end Pywbem.Model.MofVal
