/-
C01 — what an object looks like after one trip over the wire: DSP0201 defaults for attributes left
unspecified (None), plus the documented representational limits of CIM-XML:
  * PROPAGATED absent = false; OVERRIDABLE absent = true; TOSUBCLASS absent = true;
    TOINSTANCE absent = false; TRANSLATABLE absent = false  (DSP0201 attribute defaults)
  * a host without a namespace cannot be expressed (INSTANCENAME / CLASSNAME carry neither)
  * CIMClass.tocimxml() never writes the class path; an embedded instance is an INSTANCE element
    (no path); a parameter *declaration* carries neither value nor EmbeddedObject
  * a real value is what `float()` reads back from the DSP0201 text (`Codec.fmtReal`)
  * a qualifier declaration's scopes are written upper-cased, sorted, `any: True` expanded
The harness function `with_defaults` (harness/c01.py) is the same function on the JSON form and the
oracle compares real round-trip results against it.
-/
import Pywbem.Model.CimXmlDec

namespace Pywbem.Model
open Pywbem.Model.XmlText

/-- the double that comes back for a real written as DSP0201 text -/
def Codec.reparse (C : Codec) (w : Bool) (b : UInt64) : UInt64 :=
  (C.parseFloat (strip (C.fmtReal w b))).getD b

/-- the double that comes back for an untyped float keybinding (`str(float)`) -/
def Codec.reparseKey (C : Codec) (b : UInt64) : UInt64 :=
  (C.parseFloat (strip (C.strFloat b))).getD b

def dBool (d : Bool) : Option Bool → Option Bool
  | none => some d
  | some b => some b

mutual
def wdAtom (C : Codec) : Atom → Atom
  | .real w b => .real w (C.reparse w b)
  | .pyfloat b => .pyfloat (C.reparse true b)
  | .ref p => .ref (wdPath C p)
  | .einst i => .einst (wdInstNoPath C i)
  | .ecls c => .ecls (wdCls C c)
  | a => a
def wdAtoms (C : Codec) : List Atom → List Atom
  | [] => []
  | a :: as => wdAtom C a :: wdAtoms C as
/-- keybinding values: reals travel as `str(float)` -/
def wdKey (C : Codec) : Key → Key
  | .mk n (.real w b) => .mk n (.real w (C.reparseKey b))
  | .mk n (.pyfloat b) => .mk n (.pyfloat (C.reparseKey b))
  | .mk n (.ref p) => .mk n (.ref (wdPath C p))
  | .mk n a => .mk n a
def wdKeys (C : Codec) : List Key → List Key
  | [] => []
  | k :: ks => wdKey C k :: wdKeys C ks
def wdPath (C : Codec) : Path → Path
  | .inst c host ns keys => .inst c (match ns with | none => none | some _ => host) ns (wdKeys C keys)
  | .cls c host ns => .cls c (match ns with | none => none | some _ => host) ns
def wdVal (C : Codec) : Val → Val
  | .null => .null
  | .scalar a => .scalar (wdAtom C a)
  | .array l => .array (wdAtoms C l)
def wdQual (C : Codec) : Qual → Qual
  | .mk n ty v p o ts ti tr => .mk n ty (wdVal C v) (dBool false p) (dBool true o) (dBool true ts) (dBool false ti) (dBool false tr)
def wdQuals (C : Codec) : List Qual → List Qual
  | [] => []
  | q :: qs => wdQual C q :: wdQuals C qs
def wdProp (C : Codec) : Prop_ → Prop_
  | .mk n ty v isArr asz refCls origin prop emb quals =>
    .mk n ty (wdVal C v) isArr asz refCls origin (dBool false prop) emb (wdQuals C quals)
def wdProps (C : Codec) : List Prop_ → List Prop_
  | [] => []
  | p :: ps => wdProp C p :: wdProps C ps
def wdInst (C : Codec) : Inst → Inst
  | .mk c path props quals =>
    .mk c (match path with | none => none | some p => some (wdPath C p)) (wdProps C props) (wdQuals C quals)
def wdInstNoPath (C : Codec) : Inst → Inst
  | .mk c _ props quals => .mk c none (wdProps C props) (wdQuals C quals)
def wdParam (C : Codec) : Param → Param
  | .mk n ty refCls isArr asz quals _ _ => .mk n ty refCls isArr asz (wdQuals C quals) .null none
def wdParams (C : Codec) : List Param → List Param
  | [] => []
  | p :: ps => wdParam C p :: wdParams C ps
def wdMeth (C : Codec) : Meth → Meth
  | .mk n rt params origin prop quals => .mk n rt (wdParams C params) origin (dBool false prop) (wdQuals C quals)
def wdMeths (C : Codec) : List Meth → List Meth
  | [] => []
  | m :: ms => wdMeth C m :: wdMeths C ms
def wdCls (C : Codec) : Cls → Cls
  | .mk n sup _ props meths quals => .mk n sup none (wdProps C props) (wdMeths C meths) (wdQuals C quals)
end

end Pywbem.Model
