/-
C13 — association traversal of the mock WBEM server (pywbem_mock).

Model of the instance-level and class-level References / ReferenceNames / Associators /
AssociatorNames operations of `pywbem_mock/_mainprovider.py` (as reached through
`FakedWBEMConnection`), of the storing of association instances by
`pywbem_mock/_instancewriteprovider.py` (multi-namespace shadow instances) and of the small part of
the class hierarchy these operations use.

Representation decisions
* names are `List Char`; `lower` is `str.lower()` restricted to ASCII (K generates ASCII names only);
* a `CIMInstanceName` is a `Path`: class name, optional namespace, optional host and an id `key`
  standing for the equivalence class of its keybindings under `NocaseDict.__eq__` (assigned by the
  harness with the real `==`; keybinding equality itself is the subject of C05);
* a Python `set` of paths is a `List Path` read modulo `Path.eqv` and multiplicity (K compares the
  sorted duplicate-free normal forms; the oracle checks that the real lists have no duplicates);
* an instance store (a dict keyed by instance path) is the list of its values; iterating over the
  paths found by `_get_reference_instnames` and fetching each with `_get_bare_instance` is modelled as
  iterating over the matching stored instances themselves;
* the mirrored code is the code *after* the C13 fix commits (NULL reference ends are skipped, the
  class-level source-end test is case-insensitive, Associators fills in the host).
-/
import Pywbem.Proto
import Pywbem.Generated.AssocConsts

namespace Pywbem.Model.Assoc
open Pywbem.Proto

abbrev Name := List Char

/-! ### case-insensitive names -/

/-- `str.lower()` restricted to ASCII -/
def lowerChar (c : Char) : Char :=
  if 65 ≤ c.toNat ∧ c.toNat ≤ 90 then Char.ofNat (c.toNat + 32) else c

def lower (s : Name) : Name := s.map lowerChar

/-- `a.lower() == b.lower()`; also NocaseDict key equality -/
def ieq (a b : Name) : Bool := lower a == lower b

/-- mirrors pywbem/_utils.py: _eq_name -/
def eqOptName : Option Name → Option Name → Bool
  | none, none => true
  | some a, some b => ieq a b
  | _, _ => false

/-- Python truthiness of an optional string parameter (`if role:`): neither None nor '' -/
def truthy (o : Option Name) : Bool :=
  match o with
  | some n => !n.isEmpty
  | none => false

/-- `role = role.lower() if role else role` followed by `if role and …` tests: the lower-cased
    name when the filter is active, `none` when it is not -/
def lcOpt (o : Option Name) : Option Name :=
  match o with
  | some n => if n.isEmpty then none else some (lower n)
  | none => none

/-! ### data -/

structure Path where
  cls : Name
  ns : Option Name
  host : Option Name
  key : Nat
  deriving DecidableEq, Repr, Inhabited

/-- mirrors pywbem/_cim_obj.py: CIMInstanceName.__eq__ (keybindings abstracted to `key`) -/
def Path.eqv (a b : Path) : Bool :=
  eqOptName a.host b.host && eqOptName a.ns b.ns && ieq a.cls b.cls && a.key == b.key

/-- a property of a stored instance; only what the traversal looks at -/
structure IProp where
  name : Name
  isRef : Bool              -- `prop.type == 'reference'`
  value : Option Path       -- `none` = NULL
  deriving DecidableEq, Repr, Inhabited

structure Inst where
  cls : Name
  path : Path
  props : List IProp
  deriving DecidableEq, Repr, Inhabited

/-- a property declaration of a stored class -/
structure CProp where
  name : Name
  isRef : Bool
  refCls : Name             -- `prop.reference_class`
  deriving DecidableEq, Repr, Inhabited

structure Cls where
  name : Name
  super : Option Name
  isAssoc : Bool            -- `'Association' in cl.qualifiers`
  props : List CProp
  deriving DecidableEq, Repr, Inhabited

/-- class store and instance store of one namespace -/
structure NsStore where
  name : Name
  classes : List Cls
  insts : List Inst
  deriving DecidableEq, Repr, Inhabited

abbrev Repo := List NsStore

structure Server where
  host : Name               -- `self.host` of the provider ("FakedUrl:5988")
  repo : Repo
  deriving Repr, Inhabited

/-- the status codes are regenerated from the source text of the raise sites on every run
    (tools/extractors/assoc.py -> Generated/AssocConsts.lean) and pinned by `C13_status_codes_pinned` -/
def errNamespace : PyExc := .cimError Generated.Assoc.validateNamespaceStatus   -- CIM_ERR_INVALID_NAMESPACE
def errParam : PyExc := .cimError Generated.Assoc.validateClassStatus          -- CIM_ERR_INVALID_PARAMETER
def errClass : PyExc := .cimError Generated.Assoc.requiredClassStatus          -- CIM_ERR_INVALID_CLASS
def errNotFound : PyExc := .cimError Generated.Assoc.getInstanceStatus         -- CIM_ERR_NOT_FOUND
def errExists : PyExc := .cimError Generated.Assoc.instanceExistsStatus        -- CIM_ERR_ALREADY_EXISTS

/-- `InMemoryRepository` is a NocaseDict of namespaces -/
def findNs (r : Repo) (ns : Name) : Option NsStore := r.find? (fun s => ieq s.name ns)

def findClass (cs : List Cls) (n : Name) : Option Cls := cs.find? (fun c => ieq c.name n)

/-- `class_store.object_exists(name)` / `class_exists` -/
def classExists (cs : List Cls) (n : Name) : Bool := cs.any (fun c => ieq c.name n)

/-- `instance_store.object_exists(path)` / `instance_store.get(path)` -/
def findInst (is : List Inst) (p : Path) : Option Inst := is.find? (fun i => i.path.eqv p)

/-! ### class hierarchy (own small copy; the full treatment is C12's `Model/Resolve.lean`) -/

/-- the list comprehension of `_get_subclass_names` for a class name: direct subclasses, store order -/
def children (cs : List Cls) (n : Name) : List Name :=
  (cs.filter (fun c =>
    match c.super with
    | some s => !s.isEmpty && ieq s n
    | none => false)).map (·.name)

/-- mirrors pywbem_mock/_mainprovider.py: MainProvider._get_subclass_names (deep_inheritance=True).
    `fuel` bounds the recursion depth; the callers supply `classes.length + 1`, which suffices in any
    store whose superclass links have no cycle (C12). -/
def subNamesDeep : Nat → List Cls → Name → List Name
  | 0, _, _ => []
  | fuel + 1, cs, n =>
    let r := children cs n
    r ++ (r.map (fun c => subNamesDeep fuel cs c)).flatten

/-- mirrors pywbem_mock/_mainprovider.py: MainProvider._subclasses_lc -/
def subclassesLc (cs : List Cls) (cn : Option Name) : List Name :=
  match cn with
  | none => []
  | some n => if n.isEmpty then [] else (n :: subNamesDeep (cs.length + 1) cs n).map lower

/-- mirrors pywbem_mock/_mainprovider.py: MainProvider._get_superclass_names (before the reverse);
    a missing class is the KeyError of `class_store.get` -/
def superChain : Nat → List Cls → Name → Except PyExc (List Name)
  | 0, _, _ => .error .recursionError
  | fuel + 1, cs, n =>
    match findClass cs n with
    | none => .error .keyError
    | some c =>
      match c.super with
      | none => .ok []
      | some s =>
        if s.isEmpty then .ok []
        else
          match superChain fuel cs s with
          | .error e => .error e
          | .ok l => .ok (s :: l)

def superNames (cs : List Cls) (n : Name) : Except PyExc (List Name) :=
  match superChain (cs.length + 1) cs n with
  | .error e => .error e
  | .ok l => .ok l.reverse

/-- "class filter `f` admits class name `c`": the filter is inactive or `c.lower()` is in
    `_subclasses_lc(f)` -/
def classAdmits (cs : List Cls) (f : Option Name) (c : Name) : Bool :=
  !truthy f || (subclassesLc cs f).contains (lower c)

/-- "role filter `f` admits property name `p`" -/
def roleAdmits (f : Option Name) (p : Name) : Bool :=
  match lcOpt f with
  | none => true
  | some r => lower p == r

/-! ### instance level -/

/-- the test applied to one property in the loop of `_get_reference_instnames`
    (`x` already carries the request namespace) -/
def refPropHit (cs : List Cls) (x : Path) (resultClass role : Option Name) (instCls : Name)
    (p : IProp) : Bool :=
  p.isRef &&
    match p.value with
    | none => false                                   -- fix: NULL ends are skipped
    | some v => v.eqv x && classAdmits cs resultClass instCls && roleAdmits role p.name

/-- the stored instances whose paths `_get_reference_instnames` collects -/
def refInsts (S : NsStore) (x : Path) (resultClass role : Option Name) : List Inst :=
  S.insts.filter (fun a => a.props.any (refPropHit S.classes x resultClass role a.cls))

/-- `self._validate_class_exists(namespace, cln, …)` guarded by `if cln:` -/
def filterClassOk (cs : List Cls) (f : Option Name) : Bool :=
  match f with
  | some n => n.isEmpty || classExists cs n
  | none => true

/-- mirrors pywbem_mock/_mainprovider.py: MainProvider._get_reference_instnames, returning the
    referencing instances (their `.path`s are the Python result) -/
def refInstsE (S : NsStore) (x : Path) (resultClass role : Option Name) : Except PyExc (List Inst) :=
  if !classExists S.classes x.cls then .error errParam
  else if !filterClassOk S.classes resultClass then .error errParam
  else .ok (refInsts S x resultClass role)

def refInstNames (S : NsStore) (x : Path) (resultClass role : Option Name) : Except PyExc (List Path) :=
  match refInstsE S x resultClass role with
  | .error e => .error e
  | .ok l => .ok (l.map (·.path))

/-- the body of the property loop of `_get_associated_instancenames`: the other end contributed by
    property `p` of a referencing instance, if any.  In the `prop.value == inst_name` branch both
    tests end in `continue` and the branch adds nothing. -/
def otherEnd (cs : List Cls) (x : Path) (resultClass resultRole : Option Name) (p : IProp) : Option Path :=
  if p.isRef then
    match p.value with
    | none => none                                    -- fix: NULL ends are skipped
    | some v =>
      if v.eqv x then none
      else if !classAdmits cs resultClass v.cls then none
      else if !roleAdmits resultRole p.name then none
      else some v
  else none

structure AFilter where
  assocClass : Option Name := none
  resultClass : Option Name := none
  role : Option Name := none
  resultRole : Option Name := none
  deriving DecidableEq, Repr, Inhabited

/-- mirrors pywbem_mock/_mainprovider.py: MainProvider._get_associated_instancenames -/
def assocInstNames (S : NsStore) (x : Path) (f : AFilter) : Except PyExc (List Path) :=
  if !filterClassOk S.classes f.assocClass then .error errParam
  else if !filterClassOk S.classes f.resultClass then .error errParam
  else
    match refInstsE S x f.assocClass f.role with
    | .error e => .error e
    | .ok l => .ok (l.flatMap (fun a => a.props.filterMap (otherEnd S.classes x f.resultClass f.resultRole)))

/-- `if iname.host is None: iname.host = self.host` -/
def fillHost (h : Name) (p : Path) : Path :=
  match p.host with
  | none => { p with host := some h }
  | some _ => p

/-- the source object name as the provider sees it: the client strips host and namespace
    (`_iparam_objectname`), `_validate_instancename_namespace` sets the request namespace -/
def srcPath (ns : Name) (x : Path) : Path := { x with ns := some ns, host := none }

/-- mirrors pywbem_mock/_baseprovider.py: BaseProvider.validate_namespace + get_…_store -/
def withNs {α : Type} (sv : Server) (ns : Name) (k : NsStore → Except PyExc α) : Except PyExc α :=
  match findNs sv.repo ns with
  | none => .error errNamespace
  | some S => k S

/-- mirrors pywbem_mock/_mainprovider.py: MainProvider.ReferenceNames (instance level) -/
def referenceNamesI (sv : Server) (ns : Name) (x : Path) (resultClass role : Option Name) :
    Except PyExc (List Path) :=
  withNs sv ns fun S =>
    match refInstNames S (srcPath ns x) resultClass role with
    | .error e => .error e
    | .ok l => .ok (l.map (fillHost sv.host))

/-- `_get_instance(path, instance_store, …)` as far as the path is concerned: NOT_FOUND when absent,
    `rtn_inst.path.host = None` otherwise (property filtering is not modelled) -/
def getInstance (is : List Inst) (p : Path) : Except PyExc Inst :=
  match findInst is p with
  | none => .error errNotFound
  | some i => .ok { i with path := { i.path with host := none } }

def mapE {α β : Type} (f : α → Except PyExc β) : List α → Except PyExc (List β)
  | [] => .ok []
  | a :: as =>
    match f a with
    | .error e => .error e
    | .ok b =>
      match mapE f as with
      | .error e => .error e
      | .ok bs => .ok (b :: bs)

def setHost (h : Name) (i : Inst) : Inst := { i with path := fillHost h i.path }

/-- mirrors pywbem_mock/_mainprovider.py: MainProvider.References (instance level) -/
def referencesI (sv : Server) (ns : Name) (x : Path) (resultClass role : Option Name) :
    Except PyExc (List Inst) :=
  withNs sv ns fun S =>
    match refInstNames S (srcPath ns x) resultClass role with
    | .error e => .error e
    | .ok l =>
      match mapE (getInstance S.insts) l with
      | .error e => .error e
      | .ok is => .ok (is.map (setHost sv.host))

/-- mirrors pywbem_mock/_mainprovider.py: MainProvider.AssociatorNames (instance level) -/
def associatorNamesI (sv : Server) (ns : Name) (x : Path) (f : AFilter) : Except PyExc (List Path) :=
  withNs sv ns fun S =>
    match assocInstNames S (srcPath ns x) f with
    | .error e => .error e
    | .ok l => .ok (l.map (fillHost sv.host))

/-- `self.cimrepository.get_instance_store(obj_name.namespace)` inside Associators: ValueError for
    None, KeyError for an unknown namespace (neither is converted to a CIMError) -/
def endStore (sv : Server) (p : Path) : Except PyExc NsStore :=
  match p.ns with
  | none => .error .valueError
  | some n =>
    match findNs sv.repo n with
    | none => .error .keyError
    | some S => .ok S

def fetchEnd (sv : Server) (p : Path) : Except PyExc Inst :=
  match endStore sv p with
  | .error e => .error e
  | .ok S => getInstance S.insts p

/-- mirrors pywbem_mock/_mainprovider.py: MainProvider.Associators (instance level).  Unlike
    References, it does NOT fill in the host of the returned paths (open finding C13-KF4: the existing
    test TestAssociatorOperations::test_associator_instances pins `host=None`). -/
def associatorsI (sv : Server) (ns : Name) (x : Path) (f : AFilter) : Except PyExc (List Inst) :=
  withNs sv ns fun S =>
    match assocInstNames S (srcPath ns x) f with
    | .error e => .error e
    | .ok l => mapE (fetchEnd sv) l

/-! ### class level -/

/-- mirrors pywbem_mock/_mainprovider.py: MainProvider._ref_prop_matches (`role` already lower-cased
    or inactive, `refCls` = `assoc_cl.classname.lower()`) -/
def refPropMatches (p : CProp) (targets : List Name) (refCls : Name) (rcs : List Name)
    (role : Option Name) : Bool :=
  if targets.contains (lower p.refCls) then
    if !rcs.isEmpty && !rcs.contains refCls then false
    else
      match role with
      | some r => lower p.name == r
      | none => true
  else false

/-- mirrors pywbem_mock/_mainprovider.py: MainProvider._get_reference_classnames -/
def refClasses (S : NsStore) (cn : Name) (resultClass role : Option Name) : Except PyExc (List Cls) :=
  if !classExists S.classes cn then .error errParam
  else if !filterClassOk S.classes resultClass then .error errParam
  else
    match superNames S.classes cn with
    | .error e => .error e
    | .ok sup =>
      let targets := (sup ++ [cn]).map lower
      let rcs := subclassesLc S.classes resultClass
      .ok (S.classes.filter (fun c => c.isAssoc &&
            c.props.any (fun p => p.isRef && refPropMatches p targets (lower c.name) rcs (lcOpt role))))

def refClassNames (S : NsStore) (cn : Name) (resultClass role : Option Name) : Except PyExc (List Name) :=
  match refClasses S cn resultClass role with
  | .error e => .error e
  | .ok l => .ok (l.map (·.name))

/-- mirrors pywbem_mock/_mainprovider.py: MainProvider._assoc_prop_matches -/
def assocPropMatches (p : CProp) (refCls : Name) (acs rcs : List Name) (resultRole : Option Name) : Bool :=
  if !acs.isEmpty && !acs.contains (lower refCls) then false
  else if !rcs.isEmpty && !rcs.contains (lower p.refCls) then false
  else
    match resultRole with
    | some r => lower p.name == r
    | none => true

/-- `Counter(p.reference_class.lower() …)[n] == 1` (fix: lower-cased) -/
def singleUse (c : Cls) (n : Name) : Bool :=
  ((c.props.filter (fun p => p.isRef)).filter (fun p => lower p.refCls == n)).length == 1

/-- the names one referencing class contributes in `_get_associated_classnames` -/
def assocClassEnds (c : Cls) (cn : Name) (acs rcs : List Name) (resultRole : Option Name) : List Name :=
  (c.props.filter (fun p => p.isRef && assocPropMatches p c.name acs rcs resultRole &&
      !(lower p.refCls == lower cn && singleUse c (lower p.refCls)))).map (·.refCls)

/-- mirrors pywbem_mock/_mainprovider.py: MainProvider._get_associated_classnames -/
def assocClassNames (S : NsStore) (cn : Name) (f : AFilter) : Except PyExc (List Name) :=
  if !filterClassOk S.classes f.assocClass then .error errParam
  else if !filterClassOk S.classes f.resultClass then .error errParam
  else
    match refClasses S cn f.assocClass f.role with
    | .error e => .error e
    | .ok l =>
      let rcs := subclassesLc S.classes f.resultClass
      let acs := subclassesLc S.classes f.assocClass
      .ok (l.flatMap (fun c => assocClassEnds c cn acs rcs (lcOpt f.resultRole)))

/-- one tuple of `_return_assoc_class_tuples`: (name put into the CIMClassName, name of the class
    object that `get_class` returns); NOT_FOUND when the class is not in the store -/
def classTuple (cs : List Cls) (n : Name) : Except PyExc (Name × Name) :=
  match findClass cs n with
  | none => .error errNotFound
  | some c => .ok (n, c.name)

/-- mirrors MainProvider.ReferenceNames / References / AssociatorNames / Associators, class level -/
def referenceNamesC (sv : Server) (ns : Name) (cn : Name) (resultClass role : Option Name) :
    Except PyExc (List Name) :=
  withNs sv ns fun S => refClassNames S cn resultClass role

def referencesC (sv : Server) (ns : Name) (cn : Name) (resultClass role : Option Name) :
    Except PyExc (List (Name × Name)) :=
  withNs sv ns fun S =>
    match refClassNames S cn resultClass role with
    | .error e => .error e
    | .ok l => mapE (classTuple S.classes) l

def associatorNamesC (sv : Server) (ns : Name) (cn : Name) (f : AFilter) : Except PyExc (List Name) :=
  withNs sv ns fun S => assocClassNames S cn f

def associatorsC (sv : Server) (ns : Name) (cn : Name) (f : AFilter) : Except PyExc (List (Name × Name)) :=
  withNs sv ns fun S =>
    match assocClassNames S cn f with
    | .error e => .error e
    | .ok l => mapE (classTuple S.classes) l

/-! ### storing association instances (multi-namespace shadows) -/

/-- namespaces named by the non-NULL reference ends of `a` other than `target`
    (mirrors pywbem_mock/_instancewriteprovider.py: find_multins_association_ref_namespaces for ends
    that all carry a namespace; compared case-insensitively and duplicates dropped as after the C10 fix
    4b16b42 — K feeds namespaces in their stored spelling, where the older case-sensitive code agrees) -/
def otherNamespaces (a : Inst) (target : Name) : List Name :=
  (a.props.filterMap (fun p =>
    if p.isRef then
      match p.value with
      | some v => match v.ns with
                  | some n => if ieq n target then none else some n
                  | none => none
      | none => none
    else none)).foldl (fun acc n => if acc.any (fun m => ieq m n) then acc else acc ++ [n]) []

/-- the instance as stored in namespace `ns`: same properties, path re-based on `ns`
    (`CIMInstanceName.from_instance(..., namespace=ns)`) -/
def rebase (a : Inst) (ns : Name) : Inst := { a with path := { a.path with ns := some ns, host := none } }

def addInst (r : Repo) (ns : Name) (a : Inst) : Repo :=
  r.map (fun S => if ieq S.name ns then { S with insts := S.insts ++ [rebase a ns] } else S)

/-- mirrors pywbem_mock/_instancewriteprovider.py: CreateInstance for an association instance whose
    non-NULL ends all carry a namespace: every end must exist, the creation class must exist in every
    namespace involved, the instance must be new in every one of them; then one copy per namespace. -/
def createAssoc (sv : Server) (ns : Name) (a : Inst) : Except PyExc Server :=
  match findNs sv.repo ns with
  | none => .error errNamespace
  | some S =>
    if !classExists S.classes a.cls then .error errClass
    else
      let ends := a.props.filterMap (fun p => if p.isRef then p.value else none)
      if ends.any (fun v => v.host.isSome) then .error errParam
      else if ends.any (fun v =>
          match v.ns with
          | none => true
          | some n => match findNs sv.repo n with
                      | none => true
                      | some T => (findInst T.insts v).isNone) then .error errParam
      else
        let nss := otherNamespaces a ns ++ [ns]
        if nss.any (fun n => match findNs sv.repo n with
                             | none => true
                             | some T => !classExists T.classes a.cls) then .error errClass
        else if nss.any (fun n => match findNs sv.repo n with
                                  | none => true
                                  | some T => (findInst T.insts (rebase a n).path).isSome) then .error errExists
        else .ok { sv with repo := nss.foldl (fun r n => addInst r n a) sv.repo }

end Pywbem.Model.Assoc
