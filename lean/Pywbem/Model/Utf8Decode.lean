/-
C06: `bytes.decode('utf-8')` (strict), which pywbem's `_ensure_unicode` / `_to_unicode` apply to byte strings given for
string-typed values (cimvalue, atomic_to_cim_xml, CIMDateTime(bytes)).  Third-party (CPython) behaviour, modelled
concretely so that the driver does not need the harness to supply the decoded text; compared with CPython by K.
-/
namespace Pywbem.Model.Utf8Decode

def isCont (b : Nat) : Bool := 0x80 ≤ b && b ≤ 0xBF

/-- strict UTF-8 decoding (RFC 3629: no overlong forms, no surrogates, max U+10FFFF); none = UnicodeDecodeError -/
def utf8Decode : List Nat → Option (List Char)
  | [] => some []
  | b0 :: r =>
    if b0 < 0x80 then (utf8Decode r).map (Char.ofNat b0 :: ·)
    else if 0xC2 ≤ b0 && b0 ≤ 0xDF then
      match r with
      | b1 :: r' => if isCont b1 then (utf8Decode r').map (Char.ofNat ((b0 - 0xC0) * 64 + (b1 - 0x80)) :: ·) else none
      | _ => none
    else if 0xE0 ≤ b0 && b0 ≤ 0xEF then
      match r with
      | b1 :: b2 :: r' =>
        let lo := if b0 == 0xE0 then 0xA0 else 0x80
        let hi := if b0 == 0xED then 0x9F else 0xBF
        if lo ≤ b1 && b1 ≤ hi && isCont b2 then
          (utf8Decode r').map (Char.ofNat ((b0 - 0xE0) * 4096 + (b1 - 0x80) * 64 + (b2 - 0x80)) :: ·)
        else none
      | _ => none
    else if 0xF0 ≤ b0 && b0 ≤ 0xF4 then
      match r with
      | b1 :: b2 :: b3 :: r' =>
        let lo := if b0 == 0xF0 then 0x90 else 0x80
        let hi := if b0 == 0xF4 then 0x8F else 0xBF
        if lo ≤ b1 && b1 ≤ hi && isCont b2 && isCont b3 then
          (utf8Decode r').map (Char.ofNat ((b0 - 0xF0) * 262144 + (b1 - 0x80) * 4096 + (b2 - 0x80) * 64 + (b3 - 0x80)) :: ·)
        else none
      | _ => none
    else none

end Pywbem.Model.Utf8Decode
