/-
C19 — model of TestClientRecorder.toyaml (type dispatch) and of what the YAML
SafeDumper can represent.

mirrors pywbem/_recorder.py: TestClientRecorder.toyaml
The attribute names (and their order) of the CIM object branches are NOT written
here: they are regenerated from the source text of toyaml() into
`Pywbem.Generated.ObserverTables.toyamlObjects` on every run.

Python values are abstracted to `PyVal` by their *type class as seen by the
isinstance chain of toyaml*; the harness (harness/c19.py: to_pyval) maps real
objects to this type independently of the code under test.
-/
import Pywbem.Proto
import Pywbem.Model.Utf8
import Pywbem.Generated.ObserverTables

namespace Pywbem.Model.ToYaml
open Pywbem.Proto Pywbem.Model.Utf8

abbrev Str := List Char

/-- exceptions: the documented/leak classes of `PyExc`, plus classes known only by name
    (third-party ones like yaml's RepresenterError, and whatever the abstract core raises) -/
inductive Exc where
  | py (e : PyExc)
  | named (n : String)
  deriving Repr, DecidableEq, Inhabited

def Exc.name : Exc → String
  | .py e => e.name
  | .named n => n

inductive PyVal where
  | none
  | bool (b : Bool)
  | int (i : Int)                 -- type int exactly
  | cimInt (i : Int)              -- CIMInt subclasses (Uint8 …)
  | float (txt : Str)             -- plain Python float (text form; no arithmetic modelled)
  | cimFloat (txt : Str)          -- Real32 / Real64
  | str (s : Str)                 -- type str exactly
  | strSub (s : Str)              -- instance of a subclass of str (Char16)
  | bytes (b : Bytes)
  | cimDateTime (s : Str)         -- s = str(obj)
  | datetime (s : Str)            -- datetime.datetime;  s = str(CIMDateTime(obj))
  | timedelta (s : Str)           -- datetime.timedelta; s = str(CIMDateTime(obj))
  | list (xs : List PyVal)
  | tuple (xs : List PyVal)
  | namedtuple (keys : List Str) (vals : List PyVal)
  | dict (keys : List Str) (vals : List PyVal)        -- dict / NocaseDict: keys in original case and order
  | cimObj (kind : String) (attrs : List PyVal)       -- attribute values in the order of the generated table
  | other (typeName : Str)        -- any other Python type
  deriving Repr, Inhabited

inductive Yaml where
  | null
  | bool (b : Bool)
  | int (i : Int)
  | float (txt : Str)
  | str (s : Str)
  | seq (xs : List Yaml)
  | map (keys : List Str) (vals : List Yaml)
  | unrep (what : String)         -- an object yaml's SafeDumper has no representer for
  deriving Repr, Inhabited

/-- attribute names toyaml reads for an object of class `kind` (generated from the source) -/
def objAttrs (kind : String) : Option (List String) :=
  (Pywbem.Generated.ObserverTables.toyamlObjects.find? (fun p => p.1 == kind)).map (·.2)

mutual
/-- mirrors TestClientRecorder.toyaml -/
def toyaml : PyVal → Except Exc Yaml
  | .namedtuple keys vals => do            -- obj._asdict() → dict branch
      let ys ← toyamlList vals
      pure (.map keys ys)
  | .list xs => do let ys ← toyamlList xs; pure (.seq ys)
  | .tuple xs => do let ys ← toyamlList xs; pure (.seq ys)
  | .dict keys vals => do
      let ys ← toyamlList vals
      pure (.map keys ys)
  | .none => pure .null
  | .bytes b =>
      match decodeStrict b with
      | some s => pure (.str s)
      | none => throw (.named "UnicodeDecodeError")
  | .str s => pure (.str s)
  | .strSub s => pure (.str s)             -- `return str(obj)` (after the fix; before: the object itself)
  | .bool b => pure (.bool b)
  | .cimInt i => pure (.int i)
  | .int i => pure (.int i)
  | .cimFloat t => pure (.float t)
  | .cimDateTime s => pure (.str s)
  | .datetime _ => pure (.unrep "CIMDateTime")   -- `return CIMDateTime(obj)`: an object, not its string
  | .timedelta _ => pure (.unrep "CIMDateTime")
  | .cimObj kind attrs =>
      match objAttrs kind with
      | some names => do
          let ys ← toyamlList attrs
          pure (.map ("pywbem_object".toList :: names.map String.toList) (.str kind.toList :: ys))
      | none => throw (.py .typeError)
  | .float _ => throw (.py .typeError)     -- plain float has no branch: falls through to `raise TypeError`
  | .other _ => throw (.py .typeError)

def toyamlList : List PyVal → Except Exc (List Yaml)
  | [] => pure []
  | x :: xs => do
      let y ← toyaml x
      let ys ← toyamlList xs
      pure (y :: ys)
end

mutual
/-- what CSafeDumper can represent -/
def Yaml.representable : Yaml → Bool
  | .unrep _ => false
  | .seq xs => Yaml.representableList xs
  | .map _ vals => Yaml.representableList vals
  | _ => true
def Yaml.representableList : List Yaml → Bool
  | [] => true
  | y :: ys => y.representable && Yaml.representableList ys
end

/-- mirrors yaml.dump(..., Dumper=CSafeDumper) as far as raising is concerned -/
def dump (y : Yaml) : Except Exc Unit :=
  if y.representable then pure () else throw (.named "RepresenterError")

mutual
/-- values for which recording is total (see theorem C19_toyaml_total): everything except
    the classes of the open findings (plain float, datetime/timedelta), ill-formed bytes,
    unknown CIM object kinds and foreign types -/
def PyVal.recordable : PyVal → Bool
  | .float _ => false
  | .datetime _ => false
  | .timedelta _ => false
  | .other _ => false
  | .bytes b => (decodeStrict b).isSome
  | .list xs => PyVal.recordableList xs
  | .tuple xs => PyVal.recordableList xs
  | .namedtuple _ vals => PyVal.recordableList vals
  | .dict _ vals => PyVal.recordableList vals
  | .cimObj kind attrs => (objAttrs kind).isSome && PyVal.recordableList attrs
  | _ => true
def PyVal.recordableList : List PyVal → Bool
  | [] => true
  | x :: xs => x.recordable && PyVal.recordableList xs
end

end Pywbem.Model.ToYaml
