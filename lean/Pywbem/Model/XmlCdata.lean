/-
XmlSyntax, second text-escaping mode: CDATA-based escaping of character data.

mirrors pywbem/_cim_xml.py: _pcdata_nodes   (both branches; the module switch `_CDATA_ESCAPING` is the
  parameter `cdataMode`), _text
mirrors xml.dom.minidom: CDATASection.writexml  (`<![CDATA[` data `]]>`; raises ValueError when the data
  contains `]]>` — `Proofs.XmlCdata.cdataData_noEnd` shows that never happens), Text.writexml (`esc`)

`_check_xml_chars` (called on the whole string in `_text`, on every part in the CDATA branch) raises ValueError
locally for characters outside the XML Char production; the serialiser here is total and the theorems carry
"all characters are XML Chars" as a hypothesis (`WfTree`).
-/
import Pywbem.Model.XmlParse

namespace Pywbem.Model.XmlCdata
open Pywbem.Model Pywbem.Model.XmlText

/-- `pcdata.find("<") >= 0 or pcdata.find(">") >= 0 or pcdata.find("&") >= 0` -/
def hasSpecial (s : Str) : Bool := s.contains '<' || s.contains '>' || s.contains '&'

/-- put `c` in front of the first string of a non-empty list -/
def consHead (c : Char) : List Str → List Str
  | [] => [[c]]
  | p :: ps => (c :: p) :: ps

/-- `pcdata.split("]]>")`: leftmost, non-overlapping occurrences; always at least one part -/
def splitCd : Str → List Str
  | [] => [[]]
  | [c] => [[c]]
  | [c, d] => [[c, d]]
  | c :: d :: e :: rest =>
    if c = ']' ∧ d = ']' ∧ e = '>' then [] :: splitCd rest else consHead c (splitCd (d :: e :: rest))

/-- the loop over `pcdata_part_list`: `left + pcdata_part + right` for every part, where `left` is `]>` unless the
    part is the first and `right` is `]` unless it is the last -/
def cdataData (first : Bool) : List Str → List Str
  | [] => []
  | [p] => [(if first then [] else [']', '>']) ++ p]
  | p :: q :: ps => ((if first then [] else [']', '>']) ++ p ++ [']']) :: cdataData false (q :: ps)

/-- minidom `CDATASection.writexml` -/
def cdataSection (d : Str) : Str := "<![CDATA[".toList ++ d ++ "]]>".toList

/-- the CDATA branch of `_pcdata_nodes`, serialised -/
def cdataSer (s : Str) : Str := ((cdataData true (splitCd s)).map cdataSection).flatten

/-- `_pcdata_nodes(pcdata)` serialised: CDATA sections when the switch is on and the string contains `<`, `>` or `&`,
    the entity-escaped text node otherwise -/
def pcdataSer (cdataMode : Bool) (s : Str) : Str :=
  if cdataMode && hasSpecial s then cdataSer s else esc s

/-- a text child whose string ends in CR directly followed by another text child: on the wire the two are
    separate tokens when CDATA escaping is on, so a CR … LF pair split over them arrives as TWO line feeds, while
    entity escaping writes them as one run which arrives as one. Never produced by pywbem (one `_pcdata_nodes`
    call per element). -/
def endsCR : Str → Bool
  | [] => false
  | [c] => c == '\r'
  | _ :: d :: t => endsCR (d :: t)

mutual
def cdSafe : Xml → Bool
  | .text _ => true
  | .elem _ _ ks => cdSafeKids ks
def cdSafeKids : List Xml → Bool
  | [] => true
  | .text s :: ks => !(endsCR s && XmlParse.headIsText ks) && cdSafeKids ks
  | .elem n as kk :: ks => cdSafe (.elem n as kk) && cdSafeKids ks
end

/-- no text child ending in CR is directly followed by another text child -/
def CdSafe (t : Xml) : Prop := cdSafe t = true
instance (t : Xml) : Decidable (CdSafe t) := inferInstanceAs (Decidable (cdSafe t = true))

end Pywbem.Model.XmlCdata

namespace Pywbem.Model.Xml
open Pywbem.Model.XmlText Pywbem.Model.XmlCdata

mutual
/-- minidom `toxml()` of a tree whose text children were made by `_pcdata_nodes` under the given switch;
    attribute values are always entity-escaped -/
def serWith (cdataMode : Bool) : Xml → Str
  | .text s => pcdataSer cdataMode s
  | .elem n as ks =>
    match ks with
    | [] => '<' :: n ++ serAttrs as ++ "/>".toList
    | k :: ks' => '<' :: n ++ serAttrs as ++ '>' :: serListWith cdataMode (k :: ks') ++ '<' :: '/' :: n ++ ['>']
def serListWith (cdataMode : Bool) : List Xml → Str
  | [] => []
  | k :: ks => serWith cdataMode k ++ serListWith cdataMode ks
end

end Pywbem.Model.Xml
