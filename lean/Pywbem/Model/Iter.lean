/-
C15 — model of the seven `WBEMConnection.Iter…()` methods as a small-step machine, run against the
C14 model of the mock server's pull sessions (`Pywbem.Model.Pull`).

mirrors pywbem/_cim_operations.py: IterEnumerateInstances, IterEnumerateInstancePaths,
  IterAssociatorInstances, IterAssociatorInstancePaths, IterReferenceInstances,
  IterReferenceInstancePaths, IterQueryInstances, _validate_MaxObjectCount_Iter,
  _validate_OperationTimeout, WBEMConnection.__init__ (the seven `_use_*_pull_operations` flags)
mirrors pywbem_mock/_mainprovider.py: Open…() prologue (_validate_pull_operations_enabled,
  validate_namespace, _validate_open_params) in front of `_open_response`

The seven methods share one definition, parametrised by a row of the table
`Pywbem.Generated.IterOps.rows`, which tools/extractors/iterops.py regenerates from the source
text on every run (flag name, Open/Pull/traditional operation, status codes that switch an
undetermined flag, what the fallback rejects, path completion, generator or eager, `finally`).

Objects are `Nat` codes `4*id + 2*(path.namespace is set) + (path.host is set)`.  The result of the
traditional operation is an argument of the call (`tradErr`/`tradObjs`): the harness obtains it from
the real connection, exactly as C14 does for the Open operations.

A generator is a value of `Gen`; the consumer drives it with `next` / `close` / `throw`; a `World` is
one connection (server + 7 flags) with any number of generators alive at the same time.
-/
import Pywbem.Proto
import Pywbem.Model.Pull
import Pywbem.Generated.Config
import Pywbem.Generated.IterOps

namespace Pywbem.Model.Iter
open Pywbem.Proto Pywbem.Model.Pull
open Pywbem.Generated

/-! ### operation families and their table rows -/

inductive Family where
  | enumInst | enumPath | assocInst | assocPath | refInst | refPath | query
  deriving DecidableEq, Repr, Inhabited

def Family.idx : Family → Nat
  | .enumInst => 0 | .enumPath => 1 | .assocInst => 2 | .assocPath => 3
  | .refInst => 4 | .refPath => 5 | .query => 6

def Family.all : List Family :=
  [.enumInst, .enumPath, .assocInst, .assocPath, .refInst, .refPath, .query]

/-- only used when the generated table has fewer than seven rows (the extractor fails first) -/
def noRow : IterOps.Row :=
  { iterName := "", flagName := "", openName := "", pullName := "", tradName := "", learnCodes := [],
    rejectFilter := false, rejectCoe := false, rejectRqrc := false, completesPath := false,
    isLazy := true, closesInFinally := false, guardIsNoneOrTrue := false, learnsOnlyWhenNone := false,
    setsTrueAfterOpen := false, validatesFirst := false, openPullType := "", pullPullType := "",
    openKind := 0, pullKind := 0 }

def Family.row (f : Family) : IterOps.Row := IterOps.rows.getD f.idx noRow

def kindOfCode : Nat → Kind
  | 0 => .withPath
  | 1 => .paths
  | _ => .insts

/-- pull_type the mock's Open…() registers for the session -/
def openKind (f : Family) : Kind := kindOfCode f.row.openKind
/-- pull_type the Pull…() method called by the Iter method asks for -/
def pullKind (f : Family) : Kind := kindOfCode f.row.pullKind
/-- `ce.status_code in (CIM_ERR_NOT_SUPPORTED, CIM_ERR_FAILED)` -/
def isLearnCode (f : Family) (code : Nat) : Bool := f.row.learnCodes.contains code

/-! ### objects: identity + "namespace set" + "host set" -/

def ident (o : Nat) : Nat := o / 4
def hasNs (o : Nat) : Bool := (o / 2) % 2 == 1
def hasHost (o : Nat) : Bool := o % 2 == 1

/-- mirrors the fallback tail of IterEnumerateInstances / IterEnumerateInstancePaths:
    `if path.namespace is None: path.namespace = namespace; if path.host is None: path.host = self.host` -/
def complete (o : Nat) : Nat :=
  let o1 := if hasNs o then o else o + 2
  if hasHost o1 then o1 else o1 + 1

/-! ### arguments of an Iter call -/

/-- an argument that must be an integer: `None`, an `int`, or a value of another type -/
inductive IntArg where
  | none | int (k : Int) | other
  deriving DecidableEq, Repr, Inhabited

/-- the Python value a caller may hand over for an integer argument (MaxObjectCount, OperationTimeout): `None`, a plain
    `int`, one of pywbem's CIM integer types (subclasses of `int`: Uint32, Uint64 …), a `bool` (also a subclass of `int`
    in Python), or a value of another type -/
inductive PyInt where
  | none | int (k : Int) | uint32 (k : Int) | uint64 (k : Int) | bool (b : Bool) | other
  deriving DecidableEq, Repr, Inhabited

/-- what the validators make of it (`isinstance(x, int) and not isinstance(x, bool)`):
    mirrors _validate_MaxObjectCount_Iter, _validate_OperationTimeout (type tests) -/
def PyInt.canon : PyInt → IntArg
  | .none => .none
  | .int k => .int k
  | .uint32 k => .int k
  | .uint64 k => .int k
  | .bool _ => .other
  | .other => .other

/-- the integer an int-like value stands for -/
def PyInt.value? : PyInt → Option Int
  | .int k => some k
  | .uint32 k => some k
  | .uint64 k => some k
  | _ => Option.none

/-- FilterQueryLanguage: None, 'DMTF:FQL', any other string -/
inductive Lang where
  | none | fql | other
  deriving DecidableEq, Repr, Inhabited

structure Args where
  fam      : Family
  ns       : Nat
  tradErr  : Option Nat := none     -- CIM status the traditional operation answers with (if it fails)
  tradObjs : List Obj := []         -- its result otherwise
  max      : IntArg := .int 1       -- MaxObjectCount
  timeout  : IntArg := .none        -- OperationTimeout
  lang     : Lang := .none          -- FilterQueryLanguage
  query    : Bool := false          -- FilterQuery is not None
  coe      : Bool := false          -- ContinueOnError is not None
  rqrc     : Bool := false          -- ReturnQueryResultClass is not None (IterQueryInstances)
  coeType  : Bool := false          -- ContinueOnError is given with a non-bool type
  filterType : Bool := false        -- FilterQuery / FilterQueryLanguage is given with a non-string type
  srcIsClass : Bool := false        -- Associator/Reference methods: InstanceName is a class name (class-level request)
  deriving DecidableEq, Repr, Inhabited

/-- mirrors _validate_MaxObjectCount_Iter -/
def validateMax : IntArg → Option PyExc
  | .other => some .typeError
  | .none => some .valueError
  | .int k => if k ≤ 0 then some .valueError else none

/-- mirrors _validate_OperationTimeout -/
def validateTimeout : IntArg → Option PyExc
  | .other => some .typeError
  | .none => none
  | .int k => if k < 0 then some .valueError else none

/-- the two validations every Iter method starts with, in source order -/
def validate (a : Args) : Option PyExc :=
  match validateTimeout a.timeout with
  | some e => some e
  | none => validateMax a.max

/-- an Iter call as written by the caller: the integer arguments in whatever form they were given -/
def Args.withForms (a : Args) (max timeout : PyInt) : Args :=
  { a with max := max.canon, timeout := timeout.canon }

def maxOf : IntArg → Int
  | .int k => k
  | _ => 0

/-! ### the server side of Open and of the traditional operation -/


/-- mirrors the client part of the Open…() methods: `_iparam_bool(ContinueOnError)`, `_iparam_string(FilterQuery /
    FilterQueryLanguage)`, `_iparam_instancename(InstanceName)` raise TypeError before anything is sent (only for
    arguments that are given; the query strings of IterQueryInstances are not modelled).  The traditional
    Associators/References… operations accept a class name: the fallback then yields their class-level result. -/
def Family.hasSource : Family → Bool
  | .assocInst | .assocPath | .refInst | .refPath => true
  | _ => false

def typeBad (a : Args) : Bool :=
  (a.coe && a.coeType) ||
  (decide (a.fam ≠ .query) && (a.query || decide (a.lang ≠ .none)) && a.filterType) ||
  (a.fam.hasSource && a.srcIsClass)      -- `_iparam_instancename`: the Open…() methods take instance paths only

/-- mirrors _validate_open_params (empty strings not modelled) -/
def serverParamErr (a : Args) : Option Nat :=
  if a.lang = .none ∧ a.query = true then some CIM_ERR_INVALID_PARAMETER
  else if a.lang = .other then some CIM_ERR_QUERY_LANGUAGE_NOT_SUPPORTED
  else match a.timeout with
    | .int k => if k > (Pywbem.Generated.openMaxTimeout : Int) then some CIM_ERR_INVALID_PARAMETER else none
    | _ => none

/-- what is wrong with the session parameters of the Open request: a client-side TypeError, or the status the
    server's `_validate_open_params` answers -/
def openParamErr (a : Args) : Option PyExc :=
  if typeBad a then some .typeError else (serverParamErr a).map PyExc.cimError

/-- status of the traditional operation (None = it succeeds with `tradObjs`).  The harness observes it on the
    real connection; it is *not* derived from the namespace list, because the operations differ there
    (the mock's ExecQuery answers CIM_ERR_NOT_SUPPORTED before it looks at the namespace) -/
def tradErrOf (_s : Pull.State) (a : Args) : Option Nat := a.tradErr

/-- mirrors WBEMConnection.Open…() (parameter types) and MainProvider.Open…(): pull enabled?, namespace, open params, the traditional
    provider method, `_open_response` (= C14 `stepOpen`, called with default session parameters: the parameter
    checks have been made above, in front of the traditional provider method as in the code) -/
def srvOpen (s : Pull.State) (a : Args) : Pull.State × Out :=
  if typeBad a then (s, .err .typeError)        -- client side: nothing is sent
  else if s.disabled then (s, .err (.cimError CIM_ERR_NOT_SUPPORTED))
  else if !(s.nss.contains a.ns) then (s, .err (.cimError CIM_ERR_INVALID_NAMESPACE))
  else match serverParamErr a with
    | some e => (s, .err (.cimError e))
    | none => match a.tradErr with
      | some e => (s, .err (.cimError e))
      | none => stepOpen s {} (openKind a.fam) a.ns a.tradObjs (some (maxOf a.max))

/-! ### the connection -/

inductive SrvOp where
  | open (f : Family) | pull (f : Family) | close (ctx : Option Nat) | trad (f : Family)
  deriving DecidableEq, Repr

structure Conn where
  srv   : Pull.State
  flags : Family → Option Bool          -- the seven `_use_*_pull_operations` attributes
  log   : List (SrvOp × Option PyExc) := []   -- requests that reached `_imethodcall`, with their outcome (plus Open
                                              -- calls stopped by the client-side type check: outcome TypeError)

def setFlag (fl : Family → Option Bool) (f : Family) (v : Option Bool) : Family → Option Bool :=
  fun g => if g = f then v else fl g

def outErr : Out → Option PyExc
  | .err e => some e
  | _ => none

def doOpen (c : Conn) (a : Args) : Conn × Out :=
  let r := srvOpen c.srv a
  ({ c with srv := r.1, log := c.log ++ [(.open a.fam, outErr r.2)] }, r.2)

def doPull (c : Conn) (a : Args) (ctx : Option Nat) : Conn × Out :=
  let r := stepPull c.srv (pullKind a.fam) ctx (some (maxOf a.max))
  ({ c with srv := r.1, log := c.log ++ [(.pull a.fam, outErr r.2)] }, r.2)

def doClose (c : Conn) (ctx : Option Nat) : Conn × Out :=
  let r := stepClose c.srv ctx
  ({ c with srv := r.1, log := c.log ++ [(.close ctx, outErr r.2)] }, r.2)

/-! ### generators -/

inductive Gen where
  | notStarted (a : Args)
  /-- suspended at a `yield` of the pull path: rest of the current batch, `pull_result.eos`,
      `pull_result.context` -/
  | pulling (a : Args) (pending : List Obj) (eos : Bool) (ctx : Option Nat)
  /-- suspended at a `yield` of the traditional tail -/
  | fallback (pending : List Obj)
  | finished
  deriving DecidableEq, Repr, Inhabited

inductive Res where
  | yield (o : Obj)
  | stop                      -- StopIteration
  | raise (e : PyExc)
  | ok                        -- close() / call returned
  | value (objs : List Obj)   -- IterQueryInstances (not a generator) returned this list
  | diverge                   -- model only: the `while not eos` loop would go on (see next_never_diverges)
  deriving DecidableEq, Repr, Inhabited

/-- the `finally:` clause:
    `if pull_result is not None and not pull_result.eos: self.CloseEnumeration(pull_result.context)`;
    `eos = true` also stands for `pull_result is None` -/
def finallyClose (c : Conn) (f : Family) (eos : Bool) (ctx : Option Nat) : Conn × Option PyExc :=
  if eos = true ∨ f.row.closesInFinally = false then (c, none)
  else
    let r := doClose c ctx
    (r.1, outErr r.2)

/-- what the traditional tail yields: the result, with namespace and host completed where the
    method does that -/
def fallbackItems (a : Args) : List Obj :=
  if a.fam.row.completesPath then a.tradObjs.map complete else a.tradObjs

/-- the `raise ValueError(...)` tests in front of the traditional call -/
def fallbackReject (a : Args) : Bool :=
  (a.fam.row.rejectFilter && (a.query || decide (a.lang ≠ .none))) ||
  (a.fam.row.rejectRqrc && a.rqrc) ||
  (a.fam.row.rejectCoe && a.coe)

def yieldFrom (c : Conn) (items : List Obj) : Conn × Gen × Res :=
  match items with
  | [] => (c, .finished, .stop)
  | o :: rest => (c, .fallback rest, .yield o)

/-- the part of an Iter method after the pull block: `assert flag is False`, argument
    rejection, traditional operation, completion, yield -/
def fallbackStart (c : Conn) (a : Args) : Conn × Gen × Res :=
  if c.flags a.fam ≠ some false then (c, .finished, .raise .assertionError)
  else if fallbackReject a then (c, .finished, .raise .valueError)
  else
    let e := tradErrOf c.srv a
    let c' : Conn := { c with log := c.log ++ [(.trad a.fam, e.map PyExc.cimError)] }
    match e with
    | some code => (c', .finished, .raise (.cimError code))
    | none => yieldFrom c' (fallbackItems a)

/-- does the `except CIMError` clause switch the flag to False? (`flag is None and code in (…)`) -/
def learns (c : Conn) (f : Family) (e : PyExc) : Bool :=
  match e with
  | .cimError code => decide (c.flags f = none) && isLearnCode f code
  | _ => false

/-- an exception `e` surfaced inside the operation try block while `pull_result` was (eos, ctx):
    `except CIMError` clause, then the `finally` clause, then either the traditional tail
    (flag just learned False) or the exception propagates (the one of the `finally` clause wins) -/
def handleErr (c : Conn) (a : Args) (e : PyExc) (eos : Bool) (ctx : Option Nat) : Conn × Gen × Res :=
  if learns c a.fam e then
    let c1 : Conn := { c with flags := setFlag c.flags a.fam (some false) }
    let r := finallyClose c1 a.fam eos ctx
    match r.2 with
    | some e2 => (r.1, .finished, .raise e2)
    | none => fallbackStart r.1 a
  else
    let r := finallyClose c a.fam eos ctx
    match r.2 with
    | some e2 => (r.1, .finished, .raise e2)
    | none => (r.1, .finished, .raise e)

/-- resume the pull path: yield the next object of the current batch, or pull the next batch -/
def advance (c : Conn) (a : Args) (pending : List Obj) (eos : Bool) (ctx : Option Nat) : Conn × Gen × Res :=
  match pending with
  | o :: rest => (c, .pulling a rest eos ctx, .yield o)
  | [] =>
    if eos then (c, .finished, .stop)       -- `pull_result = None; return`
    else
      let r := doPull c a ctx
      match r.2 with
      | .batch (o :: rest) eos' ctx' => (r.1, .pulling a rest eos' ctx', .yield o)
      | .batch [] true _ => (r.1, .finished, .stop)
      | .batch [] false _ => (r.1, .finished, .diverge)
      | .err e => handleErr r.1 a e eos ctx
      | .done => (r.1, .finished, .diverge)

/-- `flag is None or flag` -/
def usePull (fl : Option Bool) : Bool := decide (fl = none) || decide (fl = some true)

/-- first `next()`: validation, pull block or traditional tail -/
def start (c : Conn) (a : Args) : Conn × Gen × Res :=
  match validate a with
  | some e => (c, .finished, .raise e)
  | none =>
    if usePull (c.flags a.fam) then
      let r := doOpen c a
      match r.2 with
      | .batch objs eos ctx =>
        let c1 : Conn := { r.1 with flags := setFlag r.1.flags a.fam (some true) }
        advance c1 a objs eos ctx
      | .err e => handleErr r.1 a e true none
      | .done => (r.1, .finished, .diverge)
    else fallbackStart c a

/-- `next(gen)` -/
def next (c : Conn) (g : Gen) : Conn × Gen × Res :=
  match g with
  | .notStarted a => start c a
  | .pulling a pending eos ctx => advance c a pending eos ctx
  | .fallback pending => yieldFrom c pending
  | .finished => (c, .finished, .stop)

/-- `gen.close()` (also what dropping the last reference does): GeneratorExit at the `yield`, so
    only the `finally` clause runs; a generator that never started runs nothing -/
def close (c : Conn) (g : Gen) : Conn × Gen × Res :=
  match g with
  | .pulling a _ eos ctx =>
    let r := finallyClose c a.fam eos ctx
    match r.2 with
    | some e => (r.1, .finished, .raise e)
    | none => (r.1, .finished, .ok)
  | _ => (c, .finished, .ok)

/-- `gen.throw(e)`: the exception is raised at the `yield` -/
def throwAt (c : Conn) (g : Gen) (e : PyExc) : Conn × Gen × Res :=
  match g with
  | .pulling a _ eos ctx => handleErr c a e eos ctx
  | _ => (c, .finished, .raise e)

/-- run `next` until it no longer yields (at most `fuel` times) -/
def drain (c : Conn) (g : Gen) : Nat → Conn × List Obj × Res
  | 0 => (c, [], .diverge)
  | k + 1 =>
    match next c g with
    | (c', g', .yield o) =>
      let r := drain c' g' k
      (r.1, o :: r.2.1, r.2.2)
    | (c', _, r) => (c', [], r)

/-- IterQueryInstances is not a generator: the whole open/pull loop runs inside the call -/
def callEager (c : Conn) (a : Args) : Conn × Res :=
  let r := drain c (.notStarted a) (a.tradObjs.length + 1)
  match r.2.2 with
  | .stop => (r.1, .value r.2.1)
  | x => (r.1, x)

/-- `k` times `next`, stopping early when the generator stops or raises:
    (connection, generator, objects yielded, the non-yield result if there was one) -/
def takeN (c : Conn) (g : Gen) : Nat → Conn × Gen × List Obj × Option Res
  | 0 => (c, g, [], none)
  | k + 1 =>
    match next c g with
    | (c', g', .yield o) =>
      let r := takeN c' g' k
      (r.1, r.2.1, o :: r.2.2.1, r.2.2.2)
    | (c', g', r) => (c', g', [], some r)

/-! ### one connection, many generators, a history of consumer events -/

structure World where
  conn : Conn
  gens : Nat → Gen := fun _ => .finished
  n    : Nat := 0

inductive Ev where
  | call (a : Args)            -- conn.Iter…(…): a new generator (index = creation order)
  | next (g : Nat)
  | close (g : Nat)            -- gen.close()
  | drop (g : Nat)             -- del gen; gc.collect(): as close(), exceptions are swallowed
  | throw (g : Nat) (e : PyExc)
  | setDisabled (b : Bool)     -- the server's pull capability changes
  | removeNs (ns : Nat)        -- a namespace is removed on the server (its open enumerations stay in the table)
  deriving Repr

def setAt {α} (f : Nat → α) (i : Nat) (v : α) : Nat → α := fun j => if j = i then v else f j

/-- a namespace disappears: for a generator that has not started yet the traditional operation (and the Open) of its
    call will now answer CIM_ERR_INVALID_NAMESPACE — except ExecQuery, which the mock refuses before it looks at the
    namespace.  Running generators keep their state (their next Pull is refused by the server model). -/
def nsGone (ns : Nat) (g : Gen) : Gen :=
  match g with
  | .notStarted a =>
    if a.ns = ns ∧ a.fam ≠ .query then .notStarted { a with tradErr := some CIM_ERR_INVALID_NAMESPACE, tradObjs := [] }
    else g
  | g => g

def stepW (w : World) (ev : Ev) : World × Res :=
  match ev with
  | .call a =>
    if a.fam.row.isLazy then
      ({ w with gens := setAt w.gens w.n (.notStarted a), n := w.n + 1 }, .ok)
    else
      let r := callEager w.conn a
      ({ w with conn := r.1, gens := setAt w.gens w.n .finished, n := w.n + 1 }, r.2)
  | .next g =>
    let r := next w.conn (w.gens g)
    ({ w with conn := r.1, gens := setAt w.gens g r.2.1 }, r.2.2)
  | .close g =>
    let r := close w.conn (w.gens g)
    ({ w with conn := r.1, gens := setAt w.gens g r.2.1 }, r.2.2)
  | .drop g =>
    let r := close w.conn (w.gens g)
    ({ w with conn := r.1, gens := setAt w.gens g r.2.1 }, .ok)
  | .throw g e =>
    let r := throwAt w.conn (w.gens g) e
    ({ w with conn := r.1, gens := setAt w.gens g r.2.1 }, r.2.2)
  | .setDisabled b =>
    ({ w with conn := { w.conn with srv := { w.conn.srv with disabled := b } } }, .ok)
  | .removeNs ns =>
    ({ w with conn := { w.conn with srv := { w.conn.srv with nss := w.conn.srv.nss.filter (· != ns) } },
              gens := fun j => nsGone ns (w.gens j) }, .ok)

def runW (w : World) : List Ev → World × List Res
  | [] => (w, [])
  | ev :: evs =>
    let r := stepW w ev
    let rr := runW r.1 evs
    (rr.1, r.2 :: rr.2)

/-- a fresh connection created with `use_pull_operations = u` to a server in state `s` -/
def fresh (s : Pull.State) (u : Option Bool) : World :=
  { conn := { srv := s, flags := fun _ => u } }

end Pywbem.Model.Iter
