/-
C19 — model of configure_logger.

mirrors pywbem/_logging.py: configure_logger (delegates to WBEMConnection._configure_logger)
mirrors pywbem/_cim_operations.py: WBEMConnection._configure_logger ('all' = 'api' then 'http', name check,
  log_dest 'off'), _configure_detail_level, _configure_logger_handler, _activate_logger (handler replacement,
  level DEBUG, propagate; connection = None | bool | WBEMConnection), _reset_logging_config, and the use of
  _activate_logging/_log_detail_levels in WBEMConnection.__init__

The Python `logging` package is third party: of a logger only its handler list (kinds), its level and the
propagate flag are kept; "is enabled for DEBUG" is derived from the level, for an unset level from the parent
('pywbem' / root: a parameter).  The loop `for hdlr in logger.handlers: logger.removeHandler(hdlr)` is
modelled as it behaves (it mutates the list it iterates over: every second handler survives).
-/
import Pywbem.Model.Observer

namespace Pywbem.Model.LogConfig
open Pywbem.Proto Pywbem.Model.ToYaml Pywbem.Model.Observer

inductive NameArg where
  | api | http | all
  | other                          -- any other simple_name
  deriving Repr, DecidableEq, Inhabited

inductive DestArg where
  | none | stderr | file | off
  | other                          -- any other log_dest string
  deriving Repr, DecidableEq, Inhabited

inductive DetailArg where
  | none
  | str (s : Str)
  | int (i : Int)
  | other                          -- float, list, …
  deriving Repr, DecidableEq, Inhabited

inductive ConnArg where
  | none
  | flag (b : Bool)                -- True: activate future connections / False: reset
  | conn                           -- the WBEMConnection object of the model state
  deriving Repr, DecidableEq, Inhabited

inductive HandlerKind where
  | stderr | file
  | user                           -- a handler somebody else attached
  deriving Repr, DecidableEq, Inhabited

inductive Level where
  | notset | debug | error
  deriving Repr, DecidableEq, Inhabited

structure LoggerSt where
  handlers : List HandlerKind := []
  level : Level := .notset
  propagate : Bool := true
  deriving Repr, DecidableEq, Inhabited

/-- process-global logging state + the class variables of WBEMConnection -/
structure Global where
  api : LoggerSt := {}
  http : LoggerSt := {}
  parentDebug : Bool := false      -- the parent logger ('pywbem' or root) is enabled for DEBUG
  activate : Bool := false         -- WBEMConnection._activate_logging
  apiDetail : Option Detail := none    -- WBEMConnection._log_detail_levels['api']
  httpDetail : Option Detail := none
  deriving Repr, DecidableEq, Inhabited

def sAll : Str := "all".toList
def sPaths : Str := "paths".toList
def sSummary : Str := "summary".toList

/-- mirrors _configure_detail_level -/
def configureDetail : DetailArg → Except Exc Detail
  | .none => pure .all                                   -- DEFAULT_LOG_DETAIL_LEVEL
  | .str s =>
    if s = sAll then pure .all
    else if s = sPaths then pure .paths
    else if s = sSummary then pure .summary
    else throw (.py .valueError)
  | .int i => if i < 0 then throw (.py .valueError) else pure (.maxLen i.toNat)
  | .other => throw (.py .valueError)

/-- mirrors _configure_logger_handler (log_dest ≠ 'off') -/
def handlerFor (dest : DestArg) (filenameGiven : Bool) : Except Exc (Option HandlerKind) :=
  match dest with
  | .none => pure none
  | .stderr => pure (some .stderr)
  | .file => if filenameGiven then pure (some .file) else throw (.py .valueError)
  | .off => throw (.py .valueError)                      -- not reached: 'off' is handled before
  | .other => throw (.py .valueError)

/-- `for hdlr in logger.handlers: logger.removeHandler(hdlr)` -/
def pyRemoveLoop {α : Type} : List α → List α
  | [] => []
  | [_] => []
  | _ :: b :: rest => b :: pyRemoveLoop rest

def loggerOn (g : Global) (isApi : Bool) : Bool :=
  match (if isApi then g.api else g.http).level with
  | .debug => true
  | .error => false
  | .notset => g.parentDebug

def setLogger (g : Global) (isApi : Bool) (l : LoggerSt) : Global :=
  if isApi then { g with api := l } else { g with http := l }

def getLogger (g : Global) (isApi : Bool) : LoggerSt := if isApi then g.api else g.http

/-- the log recorders of a connection look the enabledness of their loggers up when they log -/
def syncOn (g : Global) (c : Conn) : Conn :=
  { c with recorders := c.recorders.map (fun r => match r with
      | .log l => .log { l with apiOn := loggerOn g true, httpOn := loggerOn g false }
      | x => x) }

def isLog : Recorder → Bool
  | .log _ => true
  | .tcr _ => false

def setDetailFirstLog (api : Bool) (d : Detail) : List Recorder → List Recorder
  | [] => []
  | .log l :: rs => .log (l.setDetail api d) :: rs
  | r :: rs => r :: setDetailFirstLog api d rs

structure Result where
  g : Global
  c : Conn
  events : List Event := []
  exc : Option Exc := none
  deriving Inhabited

/-- mirrors _activate_logger -/
def activate (g : Global) (c : Conn) (isApi : Bool) (d : Detail) (handler : Option HandlerKind) (conn : ConnArg)
    (propagate : Bool) : Result :=
  let g1 := match handler with
    | some h =>
      let l := getLogger g isApi
      setLogger g isApi { handlers := pyRemoveLoop l.handlers ++ [h], level := .debug, propagate := propagate }
    | none => g
  match conn with
  | .none => ⟨g1, syncOn g1 c, [], none⟩
  | .flag true =>
    let g2 := if isApi then { g1 with activate := true, apiDetail := some d }
              else { g1 with activate := true, httpDetail := some d }
    ⟨g2, syncOn g2 c, [], none⟩
  | .flag false =>
    let g2 := { g1 with activate := false, apiDetail := none, httpDetail := none }
    ⟨g2, syncOn g2 c, [], none⟩
  | .conn =>
    if c.recorders.any isLog then
      ⟨g1, syncOn g1 { c with recorders := setDetailFirstLog isApi d c.recorders }, [], none⟩
    else
      let l : LogRec := ({ apiOn := loggerOn g1 true, httpOn := loggerOn g1 false } : LogRec).setDetail isApi d
      let (c1, ev) := (syncOn g1 c).addRecorder (.log l)
      ⟨g1, c1, ev, none⟩

/-- mirrors _configure_logger for one of 'api' / 'http' -/
def configureOne (g : Global) (c : Conn) (isApi : Bool) (dest : DestArg) (detail : DetailArg) (filenameGiven : Bool)
    (conn : ConnArg) (propagate : Bool) : Result :=
  if dest = .off then
    let l := getLogger g isApi
    let g1 := setLogger g isApi { handlers := pyRemoveLoop l.handlers, level := .error, propagate := false }
    let g2 := { g1 with activate := false, apiDetail := none, httpDetail := none }
    ⟨g2, syncOn g2 c, [], none⟩
  else
    match configureDetail detail with
    | .error e => ⟨g, c, [], some e⟩
    | .ok d =>
      match handlerFor dest filenameGiven with
      | .error e => ⟨g, c, [], some e⟩
      | .ok h => activate g c isApi d h conn propagate

/-- mirrors configure_logger / _configure_logger -/
def configure (g : Global) (c : Conn) (name : NameArg) (dest : DestArg) (detail : DetailArg) (filenameGiven : Bool)
    (conn : ConnArg) (propagate : Bool) : Result :=
  match name with
  | .other => ⟨g, c, [], some (.py .valueError)⟩
  | .api => configureOne g c true dest detail filenameGiven conn propagate
  | .http => configureOne g c false dest detail filenameGiven conn propagate
  | .all =>
    let r1 := configureOne g c true dest detail filenameGiven conn propagate
    match r1.exc with
    | some e => ⟨r1.g, r1.c, r1.events, some e⟩
    | none =>
      let r2 := configureOne r1.g r1.c false dest detail filenameGiven conn propagate
      ⟨r2.g, r2.c, r1.events ++ r2.events, r2.exc⟩

/-- mirrors the end of WBEMConnection.__init__: a log recorder with the class-level detail levels when logging was
    activated for future connections -/
def newConn (g : Global) (info : ConnInfo) (statsEnabled : Bool) : Conn × List Event :=
  let c := Conn.new info statsEnabled
  if g.activate then
    let l0 : LogRec := { apiOn := loggerOn g true, httpOn := loggerOn g false }
    let l1 := match g.apiDetail with | some d => l0.setDetail true d | none => l0
    let l2 := match g.httpDetail with | some d => l1.setDetail false d | none => l1
    c.addRecorder (.log l2)
  else (c, [])

/-- mirrors LogOperationRecorder.copy / TestClientRecorder.copy: the user-specifiable attributes (detail levels; the
    file) are kept, everything else is as after __init__ (enabled, nothing staged, maximum lengths recomputed) -/
def copyRec (g : Global) : Recorder → Recorder
  | .log l =>
    let l0 : LogRec := { apiOn := loggerOn g true, httpOn := loggerOn g false }
    let l1 := match l.apiLevel with | some d => l0.setDetail true d | none => l0
    let l2 := match l.httpLevel with | some d => l1.setDetail false d | none => l1
    .log l2
  | .tcr _ => .tcr {}

/-- one iteration of the loop of copy(): a recorder of the same class (added by __init__) makes room, then the copy
    is added (add_operation_recorder: stage_wbem_connection logs the connection for a log recorder) -/
def addCopies (g : Global) (c : Conn) : List Recorder → Conn × List Event
  | [] => (c, [])
  | r :: rs =>
    let c0 := { c with recorders := c.recorders.filter (fun x => !sameClass r x) }
    let (c1, ev1) := c0.addRecorder (copyRec g r)
    let (c2, ev2) := addCopies g c1 rs
    (c2, ev1 ++ ev2)

/-- mirrors WBEMConnection.copy() (as fixed): a new connection with the same parameters; copies of the recorders of
    the original take the place of a recorder of the same class that __init__ added (logging activated for future
    connections) -/
def copyConn (g : Global) (c : Conn) : Conn × List Event :=
  let (c0, ev0) := newConn g c.info c.stats.enabled
  let (c1, ev1) := addCopies g c0 c.recorders
  (c1, ev0 ++ ev1)

end Pywbem.Model.LogConfig
