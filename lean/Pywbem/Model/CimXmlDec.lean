/-
C01/C02 — the CIM-XML tupletree parser, function for function.

mirrors pywbem/_tupleparse.py: TupleParser.check_node, one_child, list_of_various, list_of_matching,
  parse_value, parse_value_array, parse_value_reference, parse_value_refarray, parse_value_null,
  parse_value_namedinstance, parse_value_instancewithpath, parse_value_objectwithlocalpath,
  parse_value_objectwithpath, parse_namespacepath, parse_localnamespacepath, parse_host,
  parse_namespace, parse_classpath, parse_localclasspath, parse_classname, parse_instancepath,
  parse_localinstancepath, parse_instancename, parse_keybinding, parse_keyvalue, parse_class,
  parse_instance, parse_scope, parse_qualifier_declaration, parse_qualifier, parse_property,
  parse_property_array, parse_property_reference, parse_method, parse_parameter,
  parse_parameter_reference, parse_parameter_array, parse_parameter_refarray, parse_any,
  parse_embeddedObject, unpack_value, unpack_single_value, unpack_boolean, unpack_numeric,
  unpack_datetime, unpack_char16

All functions are structurally recursive over `Xml`; the one non-structural step of the code —
re-parsing the text of an embedded object — is the parameter `emb` (tied off by `embAt` below,
which counts embedded nesting depth).
Every error the code raises as CIMXMLParseError is `.error .cimXmlParseError`; the places where the
code lets another exception class escape are modelled with that class.

Constructor side.  The parse_* functions build the result with the constructors of pywbem/_cim_obj.py and turn
their ValueError / TypeError into CIMXMLParseError; the checks and normalisations reachable from a tupletree are
modelled where the constructor is called:
  mirrors pywbem/_cim_obj.py: CIMInstanceName.keybindings setter + _cim_keybinding (a None value and a
    CIMClassName value are rejected; `kbs.update` by exact key, then NocaseDict by case-insensitive key),
    CIMInstanceName / CIMClassName namespace setter (`strip('/')`), CIMProperty / CIMParameter type setter
    (ALL_CIMTYPES), CIMQualifier / CIMQualifierDeclaration type setter (QUALIFIER_CIMTYPES), CIMMethod
    return_type setter (ALL_CIMTYPES without 'reference'), _check_embedded_object (value 'instance'/'object',
    type 'string'), CIMQualifierDeclaration.__init__ (_check_array_parms / _infer_is_array)
  not reachable from a tupletree (check_node admits only VALUE under PROPERTY and only VALUE.ARRAY under
    PROPERTY.ARRAY; parse_embeddedObject has made every string an object): _check_array_parms of CIMProperty,
    the value checks of _check_embedded_object, reference_class on an array property.

Value-space limit: an array size is a `Nat` (CimObj.lean); `ARRAYSIZE="-1"` (int() accepts it, pywbem stores -1)
is outside the model — the correspondence streams skip trees with a negative ARRAYSIZE.
`decodeTop` covers the element kinds `tocimxml()` produces at top level; other top-level elements that
`parse_any` accepts (VALUE, KEYVALUE, HOST, NAMESPACE, VALUE.OBJECT, message elements …) are outside the model.
-/
import Pywbem.Model.CimXmlEnc
import Pywbem.Proto
import Pywbem.Generated.CimTypes

namespace Pywbem.Model
open Pywbem.Model.XmlText Pywbem.Proto

abbrev R := Except PyExc
def perr {α} : R α := .error .cimXmlParseError

/-- additional third-party conversions needed only on the receiving side -/
structure DecCodec extends Codec where
  truncFloat : UInt64 → Except PyExc Int      -- int(x): OverflowError for inf, ValueError for nan
  floatOfInt : Int → Option UInt64            -- float(i): none = OverflowError

/-- Python `str.isspace` characters that `str.strip()` removes -/
def isPySpace (c : Char) : Bool :=
  let n := c.toNat
  (9 ≤ n && n ≤ 13) || (28 ≤ n && n ≤ 32) || n == 0x85 || n == 0xA0 || n == 0x1680 ||
  (0x2000 ≤ n && n ≤ 0x200A) || n == 0x2028 || n == 0x2029 || n == 0x202F || n == 0x205F || n == 0x3000

def lstrip (s : Str) : Str := s.dropWhile isPySpace
def strip (s : Str) : Str := (lstrip (lstrip s).reverse).reverse

def lowerAscii (s : Str) : Str := s.map Char.toLower

/-- decimal value of a character Python's `int()` accepts as a digit (ASCII and the Nd ranges the
    correspondence alphabet contains) -/
def pyDigit (c : Char) : Option Nat :=
  let n := c.toNat
  if 0x30 ≤ n ∧ n ≤ 0x39 then some (n - 0x30)
  else if 0x660 ≤ n ∧ n ≤ 0x669 then some (n - 0x660)
  else if 0x6F0 ≤ n ∧ n ≤ 0x6F9 then some (n - 0x6F0)
  else if 0x966 ≤ n ∧ n ≤ 0x96F then some (n - 0x966)
  else if 0xFF10 ≤ n ∧ n ≤ 0xFF19 then some (n - 0xFF10)
  else none

/-- digits with single underscores between them (PEP 515), value in `base` 10 -/
def pyDigits : Str → Option Nat → Bool → Option Nat
  | [], acc, lastUnderscore => if lastUnderscore then none else acc
  | c :: cs, acc, lastUnderscore =>
    if c = '_' then
      (if lastUnderscore || acc.isNone then none else pyDigits cs acc true)
    else match pyDigit c with
      | some d => pyDigits cs (some (acc.getD 0 * 10 + d)) false
      | none => none

/-- Python `int(s)` for base 10 (whitespace stripped, optional sign); none = ValueError -/
def pyInt (s : Str) : Option Int :=
  match strip s with
  | '-' :: r => (pyDigits r none false).map (fun n => -(n : Int))
  | '+' :: r => (pyDigits r none false).map (fun n => (n : Int))
  | r => (pyDigits r none false).map (fun n => (n : Int))

def hexDigits : Str → Option Nat → Option Nat
  | [], acc => acc
  | c :: cs, acc => match hexVal c with
    | some d => hexDigits cs (some (acc.getD 0 * 16 + d))
    | none => none

/-- `CIMXML_HEX_PATTERN` = `^(\+|\-)?0[xX][0-9a-fA-F]+$` and `int(data, 16)` -/
def cimxmlHex (s : Str) : Option Int :=
  let body (r : Str) : Option Nat :=
    match r with
    | '0' :: x :: hs => if (x = 'x' ∨ x = 'X') ∧ hs ≠ [] then hexDigits hs none else none
    | _ => none
  match s with
  | '-' :: r => (body r).map (fun n => -(n : Int))
  | '+' :: r => (body r).map (fun n => (n : Int))
  | r => (body r).map (fun n => (n : Int))

inductive Num where
  | int (v : Int)
  | float (bits : UInt64)

/-- first half of `unpack_numeric`: text to Python int or float -/
def parseNum (C : DecCodec) (data : Str) : R Num :=
  let d := strip data
  match cimxmlHex d with
  | some v => .ok (.int v)
  | none =>
    match pyInt d with
    | some v => .ok (.int v)
    | none =>
      match C.parseFloat d with
      | some b => .ok (.float b)
      | none => perr

/-- `unpack_numeric(data, cimtype)`; `cimtype = none` gives the untyped Python number -/
def unpackNumeric (C : DecCodec) (data : Str) (cimtype : Option Str) : R Atom := do
  let n ← parseNum C data
  match cimtype with
  | none => match n with
    | .int v => pure (.pyint v)
    | .float b => pure (.pyfloat b)
  | some ty =>
    match IntTy.ofName ty with
    | some t =>
      let v ← (match n with
        | .int v => pure v
        | .float b => match C.truncFloat b with
          | .ok v => pure v
          | .error _ => perr)                    -- `except (ValueError, OverflowError)` around CIMType(value)
      if t.lo ≤ v ∧ v ≤ t.hi then pure (.int t v) else perr
    | none =>
      if ty = "real32".toList ∨ ty = "real64".toList then
        let w := ty = "real64".toList
        match n with
        | .float b => pure (.real w b)
        | .int v => match C.floatOfInt v with
          | some b => pure (.real w b)
          | none => perr                        -- float(int) of a huge int: OverflowError, caught
      else perr

def unpackBoolean (data : Str) : R (Option Bool) :=
  let d := lowerAscii (strip data)
  if d = "true".toList then pure (some true)
  else if d = "false".toList then pure (some false)
  else if d = [] then pure none
  else perr

def unpackChar16 (data : Str) : R Atom :=
  match data with
  | [c] => if c.toNat > 0xFFFF then perr else pure (.char16 [c])
  | _ => perr

def numericTypeName (ty : Str) : Bool :=
  (IntTy.ofName ty).isSome || ty = "real32".toList || ty = "real64".toList

/-- `type in ALL_CIMTYPES` (type setter of CIMProperty / CIMParameter) -/
def cimTypeOk (ty : Str) : Bool := Pywbem.Generated.allCimTypes.any (fun t => t.toList == ty)

/-- `type in QUALIFIER_CIMTYPES` (type setter of CIMQualifier / CIMQualifierDeclaration) -/
def qualTypeOk (ty : Str) : Bool := Pywbem.Generated.qualifierCimTypes.any (fun t => t.toList == ty)

/-- `unpack_single_value(data, cimtype)` for `data` not None -/
def unpackSingle (C : DecCodec) (data : Str) (cimtype : Option Str) : R Atom :=
  match cimtype with
  | none => unpackNumeric C data none
  | some ty =>
    if ty = "string".toList then pure (.str data)
    else if ty = "boolean".toList then do
      match (← unpackBoolean data) with
      | some b => pure (.bool b)
      | none => pure .null
    else if numericTypeName ty then unpackNumeric C data (some ty)
    else if ty = "datetime".toList then
      match C.parseDt data with
      | some s => pure (.dt s)
      | none => perr
    else if ty = "char16".toList then unpackChar16 data
    else perr

/-! ### check_node and child helpers -/

def attrKeysOk (as : List (Str × Str)) (req opt : List String) : Bool :=
  req.all (fun k => (Xml.attr as k.toList).isSome) &&
  as.all (fun p => req.any (fun k => k.toList == p.1) || opt.any (fun k => k.toList == p.1))

def kidsOk (ks : List Xml) (allowed : List String) : Bool :=
  (Xml.elemKids ks).all (fun k => allowed.any (fun a => a.toList == k.name))

def textBlank (s : Str) : Bool := s.all (fun c => c = ' ' || c = '\t' || c = '\n')

def noText (ks : List Xml) : Bool :=
  ks.all (fun k => match k with | .text s => textBlank s | .elem .. => true)

/-- `check_node(tup_tree, nodename, required, optional, allowed_children, allow_pcdata)`;
    `allowed = none` means children are not validated -/
def checkNode (t : Xml) (nodename : String) (req opt : List String) (allowed : Option (List String))
    (allowPcdata : Bool) : R (List (Str × Str) × List Xml) :=
  match t with
  | .text _ => perr
  | .elem n as ks =>
    if n ≠ nodename.toList then perr
    else if !attrKeysOk as req opt then perr
    else if !(match allowed with | some a => kidsOk ks a | none => true) then perr
    else if !allowPcdata && !noText ks then perr
    else pure (as, ks)

def nameIn (t : Xml) (names : List String) : Bool := names.any (fun a => a.toList == t.name)

def getAttrD (as : List (Str × Str)) (k : String) (d : String) : Str := (Xml.attr as k.toList).getD d.toList

/-- defaulted boolean attribute (`unpack_boolean(attrl.get(K, default))`) -/
def boolAttrOf (as : List (Str × Str)) (k : String) (d : String) : R (Option Bool) :=
  unpackBoolean (getAttrD as k d)

/-- `unpack_arraysize`: `int(array_size)`, ValueError -> CIMXMLParseError -/
def arraySizeOf (as : List (Str × Str)) : R (Option Nat) :=
  match Xml.attr as "ARRAYSIZE".toList with
  | none => pure none
  | some s => match pyInt s with
    | some v => pure (some v.toNat)
    | none => perr

def embAttrOf (as : List (Str × Str)) : Option Str :=
  match Xml.attr as "EmbeddedObject".toList with
  | some v => some v
  | none => Xml.attr as "EMBEDDEDOBJECT".toList

def nsJoin : List Str → Str
  | [] => []
  | [a] => a
  | a :: rest => a ++ '/' :: nsJoin rest

section
variable (C : DecCodec) (emb : Str → R Atom)

/-- parse_namespace over the children of LOCALNAMESPACEPATH -/
def decNamespaces : List Xml → R (List Str)
  | [] => pure []
  | .text _ :: ks => decNamespaces ks
  | k :: ks => do
    let (as, _) ← checkNode k "NAMESPACE" ["NAME"] [] (some []) false
    let rest ← decNamespaces ks
    pure (getAttrD as "NAME" "" :: rest)

def decLocalNsPath (t : Xml) : R Str := do
  let (_, ks) ← checkNode t "LOCALNAMESPACEPATH" [] [] (some ["NAMESPACE"]) false
  if (Xml.elemKids ks).isEmpty then perr
  else do
    let l ← decNamespaces ks
    pure (nsJoin l)

def decHost (t : Xml) : R Str := do
  let (_, ks) ← checkNode t "HOST" [] [] (some []) true
  pure (Xml.pcdata ks)

def decNsPath (t : Xml) : R (Str × Str) := do
  let (_, ks) ← checkNode t "NAMESPACEPATH" [] [] none false
  match Xml.elemKids ks with
  | [h, l] => do
    let host ← decHost h
    let ns ← decLocalNsPath l
    pure (host, ns)
  | _ => perr

def decClassName (t : Xml) : R Str := do
  let (as, _) ← checkNode t "CLASSNAME" ["NAME"] [] (some []) false
  pure (getAttrD as "NAME" "")

/-- the raw value of a VALUE child: its text -/
def decValueText (t : Xml) : R Str := do
  let (_, ks) ← checkNode t "VALUE" [] [] (some []) true
  pure (Xml.pcdata ks)

/-- `kbs.update(key_bind)` of parse_instancename: a plain dict, exact key; the value is replaced in place -/
def kbUpdate (k : Key) : List Key → List Key
  | [] => [k]
  | (.mk n v) :: rest =>
    match k with
    | .mk n' v' => if n = n' then .mk n v' :: rest else .mk n v :: kbUpdate k rest

/-- NocaseDict insertion of the CIMInstanceName keybindings setter: case-insensitive key; key and value are
    replaced in place -/
def kbInsert (k : Key) : List Key → List Key
  | [] => [k]
  | (.mk n v) :: rest =>
    match k with
    | .mk n' v' =>
      if (n.map lowerAscii) = (n'.map lowerAscii) then .mk n' v' :: rest else .mk n v :: kbInsert k rest

/-- `namespace.strip('/')` of the CIMInstanceName / CIMClassName namespace setters -/
def nsStrip (s : Str) : Str :=
  ((s.dropWhile (fun c => c = '/')).reverse.dropWhile (fun c => c = '/')).reverse

/-- what the keybindings setter and `_cim_keybinding` accept of the values the parser can produce: not None
    (ValueError, IGNORE_NULL_KEY_VALUE is False), not a CIMClassName (TypeError) -/
def keyValueOk : Atom → Bool
  | .null => false
  | .ref (.cls ..) => false
  | _ => true

def keysOk : List Key → Bool
  | [] => true
  | .mk _ v :: rest => keyValueOk v && keysOk rest

/-- `CIMInstanceName(classname, kbs)` as called by parse_instancename -/
def mkInstanceName (cls : Str) (kbs : List Key) : R Path :=
  if keysOk kbs then pure (.inst cls none none (kbs.foldl (fun acc k => kbInsert k acc) [])) else perr

/-- parse_keyvalue -/
def decKeyValue (t : Xml) : R Atom := do
  let (as, ks) ← checkNode t "KEYVALUE" [] ["VALUETYPE", "TYPE"] (some []) true
  let data := Xml.pcdata ks
  let valuetype := Xml.attr as "VALUETYPE".toList
  let cimtype0 := Xml.attr as "TYPE".toList
  let cimtype := if cimtype0 = some [] then none else cimtype0
  match cimtype with
  | some ty => unpackSingle C data (some ty)
  | none =>
    if valuetype = none ∨ valuetype = some "string".toList then unpackSingle C data (some "string".toList)
    else if valuetype = some "boolean".toList then unpackSingle C data (some "boolean".toList)
    else if valuetype = some "numeric".toList then unpackSingle C data none
    else perr

def firstElem : List Xml → Option Xml
  | [] => none
  | .text _ :: ks => firstElem ks
  | k :: _ => some k

def elemCount (ks : List Xml) : Nat := (Xml.elemKids ks).length

/-- with (host, namespace) applied to a parsed INSTANCENAME / CLASSNAME -/
def Path.withNs (p : Path) (host : Option Str) (ns : Option Str) : Path :=
  match p with
  | .inst c _ _ kb => .inst c host ns kb
  | .cls c _ _ => .cls c host ns

mutual
/-- parse_value_reference: exactly one child out of the six path element kinds -/
def decValueReference (t : Xml) : R Path := do
  match t with
  | .text _ => perr
  | .elem n as ks =>
    if n ≠ "VALUE.REFERENCE".toList then perr
    else if !attrKeysOk as [] [] then perr
    else if !noText ks then perr
    else if elemCount ks ≠ 1 then perr
    else do
      match (← decPathKids ks) with
      | [p] => pure p
      | _ => perr

/-- parse every element child as a path element -/
def decPathKids : List Xml → R (List Path)
  | [] => pure []
  | .text _ :: ks => decPathKids ks
  | .elem n as kk :: ks => do
    let p ← decPathAny (.elem n as kk)
    let rest ← decPathKids ks
    pure (p :: rest)

/-- parse every VALUE.REFERENCE element child (other children skipped) -/
def decValueRefKids : List Xml → R (List Path)
  | [] => pure []
  | .text _ :: ks => decValueRefKids ks
  | .elem n as kk :: ks =>
    if n = "VALUE.REFERENCE".toList then do
      let p ← decValueReference (.elem n as kk)
      let rest ← decValueRefKids ks
      pure (p :: rest)
    else decValueRefKids ks

/-- parse_keybinding: one_child(KEYVALUE | VALUE.REFERENCE) -/
def decKeybinding (t : Xml) : R Key := do
  match t with
  | .text _ => perr
  | .elem n as ks =>
    if n ≠ "KEYBINDING".toList then perr
    else if !attrKeysOk as ["NAME"] [] then perr
    else if !noText ks then perr
    else if elemCount ks ≠ 1 then perr
    else
      match firstElem ks with
      | none => perr
      | some k =>
        if k.name = "KEYVALUE".toList then do
          let v ← decKeyValue C k
          pure (.mk (some (getAttrD as "NAME" "")) v)
        else if k.name = "VALUE.REFERENCE".toList then do
          match (← decValueRefKids ks) with
          | [p] => pure (.mk (some (getAttrD as "NAME" "")) (.ref p))
          | _ => perr
        else perr

/-- list_of_various(tup_tree, ('KEYBINDING',)) -/
def decKeybindings : List Xml → R (List Key)
  | [] => pure []
  | .text _ :: ks => decKeybindings ks
  | .elem n as kk :: ks =>
    if n ≠ "KEYBINDING".toList then perr
    else do
      let kb ← decKeybinding (.elem n as kk)
      let rest ← decKeybindings ks
      pure (kb :: rest)

/-- parse_instancename -/
def decInstanceName (t : Xml) : R Path := do
  match t with
  | .text _ => perr
  | .elem n as ks =>
    if n ≠ "INSTANCENAME".toList then perr
    else if !attrKeysOk as ["CLASSNAME"] [] then perr
    else if !noText ks then perr
    else
      let cls := getAttrD as "CLASSNAME" ""
      match firstElem ks with
      | none => pure (.inst cls none none [])
      | some k0 =>
        if k0.name = "KEYVALUE".toList then
          (if elemCount ks ≠ 1 then perr else do
            let v ← decKeyValue C k0
            mkInstanceName cls [.mk none v])
        else if k0.name = "VALUE.REFERENCE".toList then
          (if elemCount ks ≠ 1 then perr else do
            match (← decValueRefKids ks) with
            | [p] => mkInstanceName cls [.mk none (.ref p)]
            | _ => perr)
        else if k0.name = "KEYBINDING".toList then do
          let kbs ← decKeybindings ks
          mkInstanceName cls (kbs.foldl (fun acc k => kbUpdate k acc) [])
        else perr

/-- parse every INSTANCENAME element child (other children skipped) -/
def decInstNameKids : List Xml → R (List Path)
  | [] => pure []
  | .text _ :: ks => decInstNameKids ks
  | .elem n as kk :: ks =>
    if n = "INSTANCENAME".toList then do
      let p ← decInstanceName (.elem n as kk)
      let rest ← decInstNameKids ks
      pure (p :: rest)
    else decInstNameKids ks

/-- the six element kinds a VALUE.REFERENCE may hold (parse_instancename, parse_classname,
    parse_localinstancepath, parse_instancepath, parse_localclasspath, parse_classpath) -/
def decPathAny (t : Xml) : R Path := do
  match t with
  | .text _ => perr
  | .elem n as ks =>
    if n = "INSTANCENAME".toList then decInstanceName (.elem n as ks)
    else if n = "CLASSNAME".toList then do
      let c ← decClassName (.elem n as ks)
      pure (.cls c none none)
    else if !attrKeysOk as [] [] then perr
    else if !noText ks then perr
    else if n = "LOCALINSTANCEPATH".toList then
      match Xml.elemKids ks with
      | [l, i] => do
        let ns ← decLocalNsPath l
        if i.name ≠ "INSTANCENAME".toList then perr
        else match (← decInstNameKids ks) with
          | [p] => pure (p.withNs none (some (nsStrip ns)))
          | _ => perr
      | _ => perr
    else if n = "INSTANCEPATH".toList then
      match Xml.elemKids ks with
      | [l, i] => do
        let (host, ns) ← decNsPath l
        if i.name ≠ "INSTANCENAME".toList then perr
        else match (← decInstNameKids ks) with
          | [p] => pure (p.withNs (some host) (some (nsStrip ns)))
          | _ => perr
      | _ => perr
    else if n = "LOCALCLASSPATH".toList then
      match Xml.elemKids ks with
      | [l, c] => do
        let ns ← decLocalNsPath l
        let cn ← decClassName c
        pure (.cls cn none (some (nsStrip ns)))
      | _ => perr
    else if n = "CLASSPATH".toList then
      match Xml.elemKids ks with
      | [l, c] => do
        let (host, ns) ← decNsPath l
        let cn ← decClassName c
        pure (.cls cn (some host) (some (nsStrip ns)))
      | _ => perr
    else perr
end

/-! ### values -/

/-- children of VALUE.ARRAY, phase 1: list_of_various(VALUE | VALUE.NULL) giving raw texts / None -/
def decArrayRaw : List Xml → R (List (Option Str))
  | [] => pure []
  | .text _ :: ks => decArrayRaw ks
  | k :: ks =>
    if k.name = "VALUE".toList then do
      let s ← decValueText k
      let rest ← decArrayRaw ks
      pure (some s :: rest)
    else if k.name = "VALUE.NULL".toList then do
      let _ ← checkNode k "VALUE.NULL" [] [] (some []) false
      let rest ← decArrayRaw ks
      pure (none :: rest)
    else perr

inductive RawVal where
  | scalar (s : Str)
  | array (l : List (Option Str))

/-- `list_of_matching(tup_tree, ('VALUE', 'VALUE.ARRAY'))` -/
def decRawVals : List Xml → R (List RawVal)
  | [] => pure []
  | .text _ :: ks => decRawVals ks
  | k :: ks =>
    if k.name = "VALUE".toList then do
      let s ← decValueText k
      let rest ← decRawVals ks
      pure (.scalar s :: rest)
    else if k.name = "VALUE.ARRAY".toList then do
      let (_, aks) ← checkNode k "VALUE.ARRAY" [] [] none false
      let l ← decArrayRaw aks
      let rest ← decRawVals ks
      pure (.array l :: rest)
    else decRawVals ks

def unpackItems (ty : Str) : List (Option Str) → R (List Atom)
  | [] => pure []
  | none :: rest => do
    let r ← unpackItems ty rest
    pure (.null :: r)
  | some s :: rest => do
    let a ← unpackSingle C s (some ty)
    let r ← unpackItems ty rest
    pure (a :: r)

/-- `unpack_value(tup_tree)`: the typed value under an element with a TYPE attribute -/
def unpackValue (ty : Str) (ks : List Xml) : R Val := do
  match (← decRawVals ks) with
  | [] => pure .null
  | [.scalar s] => do
    let a ← unpackSingle C s (some ty)
    match a with
    | .null => pure .null                       -- empty boolean value: None
    | a => pure (.scalar a)
  | [.array l] => do
    let items ← unpackItems C ty l
    pure (.array items)
  | _ => perr

/-- `parse_embeddedObject(val)` for one non-list value: None stays None, a string (Char16 is a `str`) is
    parsed, anything else is rejected ('Embedded object value must be a string') -/
def embOne : Atom → R Atom
  | .null => pure .null
  | .str s => emb s
  | .char16 s => emb s
  | _ => perr

/-- `parse_embeddedObject(val)` applied to an unpacked string value / list -/
def embItems : List Atom → R (List Atom)
  | [] => pure []
  | a :: rest => do
    let x ← embOne emb a
    let r ← embItems rest
    pure (x :: r)

def embVal (v : Val) : R Val :=
  match v with
  | .null => pure .null
  | .scalar a => do
    let x ← embOne emb a
    pure (.scalar x)
  | .array l => do
    let r ← embItems emb l
    pure (.array r)

/-- `_check_embedded_object` as far as a tupletree can fail it: the attribute value, when the attribute is present,
    must be 'instance' or 'object' and the type 'string'.  An EMPTY value is rejected too since /repo ef0170b
    (`if embedded_object is not False:` in the constructors; before, `''` slipped through the truth test and was
    stored) - the embedded-object parse is still skipped for it, as in `parse_property` (`if embedded_object:`). -/
def embAttrOk (embA : Option Str) (ty : Str) : Bool :=
  match embA with
  | some v => (v = "instance".toList || v = "object".toList) && ty = "string".toList
  | none => true

/-- NocaseDict insertion of a named element: replace in place on a case-insensitively equal name -/
def dictInsert {α} (nameOf : α → Str) (x : α) : List α → List α
  | [] => [x]
  | y :: rest => if lowerAscii (nameOf y) = lowerAscii (nameOf x) then x :: rest else y :: dictInsert nameOf x rest

def dictOfList {α} (nameOf : α → Str) (l : List α) : List α := l.foldl (fun acc x => dictInsert nameOf x acc) []

def Qual.name : Qual → Str | .mk n .. => n
def Prop_.name : Prop_ → Str | .mk n .. => n
def Param.name : Param → Str | .mk n .. => n
def Meth.name : Meth → Str | .mk n .. => n

/-- parse_qualifier -/
def decQualifier (t : Xml) : R Qual := do
  let (as, ks) ← checkNode t "QUALIFIER" ["NAME", "TYPE"]
    ["OVERRIDABLE", "TOSUBCLASS", "TOINSTANCE", "TRANSLATABLE", "PROPAGATED", "xml:lang"]
    (some ["VALUE", "VALUE.ARRAY"]) false
  let ty := getAttrD as "TYPE" ""
  let value ← unpackValue C ty ks
  let propagated ← boolAttrOf as "PROPAGATED" "false"
  let overridable ← boolAttrOf as "OVERRIDABLE" "true"
  let tosubclass ← boolAttrOf as "TOSUBCLASS" "true"
  let toinstance ← boolAttrOf as "TOINSTANCE" "false"
  let translatable ← boolAttrOf as "TRANSLATABLE" "false"
  if !qualTypeOk ty then perr              -- CIMQualifier type setter
  else pure (.mk (getAttrD as "NAME" "") ty value propagated overridable tosubclass toinstance translatable)

/-- `list_of_matching(tup_tree, ('QUALIFIER',))` -/
def decQualifiers : List Xml → R (List Qual)
  | [] => pure []
  | .text _ :: ks => decQualifiers ks
  | k :: ks =>
    if k.name = "QUALIFIER".toList then do
      let q ← decQualifier C k
      let rest ← decQualifiers ks
      pure (q :: rest)
    else decQualifiers ks

/-- parse_property -/
def decProperty (t : Xml) : R Prop_ := do
  let (as, ks) ← checkNode t "PROPERTY" ["TYPE", "NAME"]
    ["CLASSORIGIN", "PROPAGATED", "EmbeddedObject", "EMBEDDEDOBJECT", "xml:lang"]
    (some ["QUALIFIER", "VALUE"]) false
  let ty := getAttrD as "TYPE" ""
  let val ← unpackValue C ty ks
  let origin := Xml.attr as "CLASSORIGIN".toList
  let propagated ← boolAttrOf as "PROPAGATED" "false"
  let quals ← decQualifiers C ks
  let embA := embAttrOf as
  let embOn := match embA with | some (_ :: _) => true | _ => false
  let val ← if embOn then embVal emb val else pure val
  if !embAttrOk embA ty then perr               -- _check_embedded_object
  else if !cimTypeOk ty then perr               -- CIMProperty type setter
  else pure (.mk (getAttrD as "NAME" "") ty val false none none origin propagated embA (dictOfList Qual.name quals))

/-- parse_property_array -/
def decPropertyArray (t : Xml) : R Prop_ := do
  let (as, ks) ← checkNode t "PROPERTY.ARRAY" ["NAME", "TYPE"]
    ["CLASSORIGIN", "PROPAGATED", "ARRAYSIZE", "EmbeddedObject", "EMBEDDEDOBJECT", "xml:lang"]
    (some ["QUALIFIER", "VALUE.ARRAY"]) false
  let ty := getAttrD as "TYPE" ""
  let val ← unpackValue C ty ks
  let origin := Xml.attr as "CLASSORIGIN".toList
  let propagated ← boolAttrOf as "PROPAGATED" "false"
  let quals ← decQualifiers C ks
  let asz ← arraySizeOf as
  let embA := embAttrOf as
  let embOn := match embA with | some (_ :: _) => true | _ => false
  let val ← if embOn then embVal emb val else pure val
  if !embAttrOk embA ty then perr               -- _check_embedded_object
  else if !cimTypeOk ty then perr               -- CIMProperty type setter
  else pure (.mk (getAttrD as "NAME" "") ty val true asz none origin propagated embA (dictOfList Qual.name quals))

/-- `list_of_matching(tup_tree, ('VALUE.REFERENCE',))` -/
def decValueRefs : List Xml → R (List Path)
  | [] => pure []
  | .text _ :: ks => decValueRefs ks
  | k :: ks =>
    if k.name = "VALUE.REFERENCE".toList then do
      let p ← decValueReference C k
      let rest ← decValueRefs ks
      pure (p :: rest)
    else decValueRefs ks

/-- parse_property_reference -/
def decPropertyReference (t : Xml) : R Prop_ := do
  let (as, ks) ← checkNode t "PROPERTY.REFERENCE" ["NAME"] ["REFERENCECLASS", "CLASSORIGIN", "PROPAGATED"]
    (some ["QUALIFIER", "VALUE.REFERENCE"]) false
  let refCls := Xml.attr as "REFERENCECLASS".toList
  let val ← (do
    match (← decValueRefs C ks) with
    | [] => pure Val.null
    | [p] => pure (Val.scalar (.ref p))
    | _ => perr)
  let origin := Xml.attr as "CLASSORIGIN".toList
  let propagated ← boolAttrOf as "PROPAGATED" "false"
  let quals ← decQualifiers C ks
  pure (.mk (getAttrD as "NAME" "") "reference".toList val false none refCls origin propagated none
    (dictOfList Qual.name quals))

/-- `list_of_matching(tup_tree, ('PROPERTY.REFERENCE', 'PROPERTY', 'PROPERTY.ARRAY'))` -/
def decProperties : List Xml → R (List Prop_)
  | [] => pure []
  | .text _ :: ks => decProperties ks
  | k :: ks =>
    if k.name = "PROPERTY".toList then do
      let p ← decProperty C emb k
      let rest ← decProperties ks
      pure (p :: rest)
    else if k.name = "PROPERTY.ARRAY".toList then do
      let p ← decPropertyArray C emb k
      let rest ← decProperties ks
      pure (p :: rest)
    else if k.name = "PROPERTY.REFERENCE".toList then do
      let p ← decPropertyReference C k
      let rest ← decProperties ks
      pure (p :: rest)
    else decProperties ks

/-- parse_instance -/
def decInstance (t : Xml) : R Inst := do
  let (as, ks) ← checkNode t "INSTANCE" ["CLASSNAME"] ["xml:lang"]
    (some ["QUALIFIER", "PROPERTY", "PROPERTY.ARRAY", "PROPERTY.REFERENCE"]) false
  let quals ← decQualifiers C ks
  let props ← decProperties C emb ks
  pure (.mk (getAttrD as "CLASSNAME" "") none (dictOfList Prop_.name props) (dictOfList Qual.name quals))

/-- the four parameter declaration elements (parse_parameter, _reference, _array, _refarray) -/
def decParameter (t : Xml) : R Param := do
  match t with
  | .text _ => perr
  | .elem n _ _ =>
    if n = "PARAMETER".toList then do
      let (as, ks) ← checkNode t "PARAMETER" ["NAME", "TYPE"] [] (some ["QUALIFIER"]) false
      let quals ← decQualifiers C ks
      if !cimTypeOk (getAttrD as "TYPE" "") then perr      -- CIMParameter type setter
      else pure (.mk (getAttrD as "NAME" "") (getAttrD as "TYPE" "") none false none (dictOfList Qual.name quals) .null none)
    else if n = "PARAMETER.REFERENCE".toList then do
      let (as, ks) ← checkNode t "PARAMETER.REFERENCE" ["NAME"] ["REFERENCECLASS"] (some ["QUALIFIER"]) false
      let quals ← decQualifiers C ks
      pure (.mk (getAttrD as "NAME" "") "reference".toList (Xml.attr as "REFERENCECLASS".toList) false none
        (dictOfList Qual.name quals) .null none)
    else if n = "PARAMETER.ARRAY".toList then do
      let (as, ks) ← checkNode t "PARAMETER.ARRAY" ["NAME", "TYPE"] ["ARRAYSIZE"] (some ["QUALIFIER"]) false
      let asz ← arraySizeOf as
      let quals ← decQualifiers C ks
      if !cimTypeOk (getAttrD as "TYPE" "") then perr      -- CIMParameter type setter
      else pure (.mk (getAttrD as "NAME" "") (getAttrD as "TYPE" "") none true asz (dictOfList Qual.name quals) .null none)
    else if n = "PARAMETER.REFARRAY".toList then do
      let (as, ks) ← checkNode t "PARAMETER.REFARRAY" ["NAME"] ["REFERENCECLASS", "ARRAYSIZE"] (some ["QUALIFIER"]) false
      let asz ← arraySizeOf as
      let quals ← decQualifiers C ks
      pure (.mk (getAttrD as "NAME" "") "reference".toList (Xml.attr as "REFERENCECLASS".toList) true asz
        (dictOfList Qual.name quals) .null none)
    else perr

def decParameters : List Xml → R (List Param)
  | [] => pure []
  | .text _ :: ks => decParameters ks
  | k :: ks =>
    if nameIn k ["PARAMETER", "PARAMETER.REFERENCE", "PARAMETER.ARRAY", "PARAMETER.REFARRAY"] then do
      let p ← decParameter C k
      let rest ← decParameters ks
      pure (p :: rest)
    else decParameters ks

/-- parse_method -/
def decMethod (t : Xml) : R Meth := do
  let (as, ks) ← checkNode t "METHOD" ["NAME"] ["TYPE", "CLASSORIGIN", "PROPAGATED"]
    (some ["QUALIFIER", "PARAMETER", "PARAMETER.REFERENCE", "PARAMETER.ARRAY", "PARAMETER.REFARRAY"]) false
  let params ← decParameters C ks
  let origin := Xml.attr as "CLASSORIGIN".toList
  let propagated ← boolAttrOf as "PROPAGATED" "false"
  let quals ← decQualifiers C ks
  match Xml.attr as "TYPE".toList with
  | some (c :: cs) =>
    if !cimTypeOk (c :: cs) || (c :: cs) = "reference".toList then perr     -- CIMMethod return_type setter
    else pure (.mk (getAttrD as "NAME" "") (some (c :: cs)) (dictOfList Param.name params) origin propagated
      (dictOfList Qual.name quals))
  | _ => perr

def decMethods : List Xml → R (List Meth)
  | [] => pure []
  | .text _ :: ks => decMethods ks
  | k :: ks =>
    if k.name = "METHOD".toList then do
      let m ← decMethod C k
      let rest ← decMethods ks
      pure (m :: rest)
    else decMethods ks

/-- parse_class -/
def decClass (t : Xml) : R Cls := do
  let (as, ks) ← checkNode t "CLASS" ["NAME"] ["SUPERCLASS"]
    (some ["QUALIFIER", "PROPERTY", "PROPERTY.REFERENCE", "PROPERTY.ARRAY", "METHOD"]) false
  let props ← decProperties C emb ks
  let quals ← decQualifiers C ks
  let meths ← decMethods C ks
  pure (.mk (getAttrD as "NAME" "") (Xml.attr as "SUPERCLASS".toList) none (dictOfList Prop_.name props)
    (dictOfList Meth.name meths) (dictOfList Qual.name quals))

/-- parse_scope: attributes to a NocaseDict of booleans -/
def decScopeAttrs : List (Str × Str) → R (List (Str × Bool))
  | [] => pure []
  | (k, v) :: rest => do
    match (← unpackBoolean v) with
    | none => perr
    | some b => do
      let r ← decScopeAttrs rest
      pure ((k, b) :: r)

/-- `_check_array_parms(is_array, …, value)`: only when ISARRAY gave a boolean (an empty ISARRAY gives None) -/
def qdArrayOk (isArray : Option Bool) (v : Val) : Bool :=
  match isArray, v with
  | some true, .scalar _ => false
  | some false, .array _ => false
  | _, _ => true

/-- `is_array`, inferred from the value (`_infer_is_array`) when ISARRAY gave None -/
def qdIsArray (isArray : Option Bool) (v : Val) : Bool :=
  match isArray with
  | some b => b
  | none => match v with | .array _ => true | _ => false

/-- parse_qualifier_declaration -/
def decQualDecl (t : Xml) : R QualDecl := do
  let (as, ks) ← checkNode t "QUALIFIER.DECLARATION" ["NAME", "TYPE"]
    ["ISARRAY", "ARRAYSIZE", "OVERRIDABLE", "TOSUBCLASS", "TOINSTANCE", "TRANSLATABLE"]
    (some ["SCOPE", "VALUE", "VALUE.ARRAY"]) false
  let ty := getAttrD as "TYPE" ""
  let isArray ← boolAttrOf as "ISARRAY" "false"
  let asz ← arraySizeOf as
  let scopeKids := (Xml.elemKids ks).filter (fun k => k.name = "SCOPE".toList)
  let scopes ← (match scopeKids with
    | [] => pure []
    | [sc] => do
      let (sas, _) ← checkNode sc "SCOPE" []
        ["CLASS", "ASSOCIATION", "REFERENCE", "PROPERTY", "METHOD", "PARAMETER", "INDICATION"] (some []) false
      decScopeAttrs sas
    | _ => perr)
  let hasVal := (Xml.elemKids ks).any (fun k => k.name ≠ "SCOPE".toList)
  let value ← if hasVal then unpackValue C ty ks else pure Val.null
  let overridable ← boolAttrOf as "OVERRIDABLE" "true"
  let tosubclass ← boolAttrOf as "TOSUBCLASS" "true"
  let toinstance ← boolAttrOf as "TOINSTANCE" "false"
  let translatable ← boolAttrOf as "TRANSLATABLE" "false"
  if !qdArrayOk isArray value then perr         -- CIMQualifierDeclaration.__init__: _check_array_parms
  else if !qualTypeOk ty then perr         -- CIMQualifierDeclaration type setter
  else pure { name := getAttrD as "NAME" "", ty := ty, val := value, isArray := qdIsArray isArray value,
              arraySize := asz, scopes := scopes, overridable := overridable, tosubclass := tosubclass,
              toinstance := toinstance, translatable := translatable }

/-- `parse_any` restricted to the element kinds `tocimxml()` produces at top level; the tuple
    `(name, attrs, object)` returned for VALUE.OBJECTWITHLOCALPATH is unwrapped to its object -/
def decodeTop (t : Xml) : R Obj := do
  match t with
  | .text _ => perr
  | .elem n _ ks =>
    if nameIn t ["INSTANCENAME", "LOCALINSTANCEPATH", "INSTANCEPATH", "CLASSNAME", "LOCALCLASSPATH", "CLASSPATH"] then do
      let p ← decPathAny C t
      pure (.path p)
    else if n = "INSTANCE".toList then do
      let i ← decInstance C emb t
      pure (.inst i)
    else if n = "CLASS".toList then do
      let c ← decClass C emb t
      pure (.cls c)
    else if nameIn t ["VALUE.NAMEDINSTANCE", "VALUE.INSTANCEWITHPATH", "VALUE.OBJECTWITHLOCALPATH"] then do
      let _ ← checkNode t (String.ofList n) [] [] none false
      match Xml.elemKids ks with
      | [p, i] => do
        let path ← (if n = "VALUE.NAMEDINSTANCE".toList then decInstanceName C p
                    else if n = "VALUE.INSTANCEWITHPATH".toList then
                      (if p.name = "INSTANCEPATH".toList then decPathAny C p else perr)
                    else (if p.name = "LOCALINSTANCEPATH".toList then decPathAny C p else perr))
        match (← decInstance C emb i) with
        | .mk c _ ps qs => pure (.inst (.mk c (some path) ps qs))
      | _ => perr
    else if n = "PROPERTY".toList then do
      let p ← decProperty C emb t
      pure (.prop p)
    else if n = "PROPERTY.ARRAY".toList then do
      let p ← decPropertyArray C emb t
      pure (.prop p)
    else if n = "PROPERTY.REFERENCE".toList then do
      let p ← decPropertyReference C t
      pure (.prop p)
    else if n = "METHOD".toList then do
      let m ← decMethod C t
      pure (.meth m)
    else if nameIn t ["PARAMETER", "PARAMETER.REFERENCE", "PARAMETER.ARRAY", "PARAMETER.REFARRAY"] then do
      let p ← decParameter C t
      pure (.param p)
    else if n = "QUALIFIER".toList then do
      let q ← decQualifier C t
      pure (.qual q)
    else if n = "QUALIFIER.DECLARATION".toList then do
      let q ← decQualDecl C t
      pure (.qdecl q)
    else perr

end

/-- `parse_embeddedObject` for one string, with `n` levels of embedded nesting still allowed
    (Python's recursion limit stands behind the real code; depth exhausted = RecursionError) -/
def embAt (C : DecCodec) : Nat → Str → R Atom
  | 0, _ => .error .recursionError
  | n + 1, s =>
    match C.par s with
    | none => .error .xmlParseError
    | some t =>
      if t.name = "INSTANCE".toList then do
        let i ← decInstance C (embAt C n) t
        pure (.einst i)
      else if t.name = "CLASS".toList then do
        let c ← decClass C (embAt C n) t
        pure (.ecls c)
      else perr

/-- decode a received tree (embedded nesting bounded by `depth`) -/
def decode (C : DecCodec) (depth : Nat) (t : Xml) : R Obj := decodeTop C (embAt C depth) t

end Pywbem.Model
