/-
Model of the string/char literal part of the pywbem MOF lexer and of the un-escaping done by the
parser (pywbem/_mof_compiler.py).  Strings are lists of code points (`Nat`), so that lone
surrogates produced by `\xD800` stay representable.  Lean core only.

Reused by C09.  What is *not* here: PLY's master-regex dispatch between token rules (the
recognisers below are the per-rule regexes, hand-modelled), comments, identifiers, keywords.
-/
import Pywbem.Proto

namespace Pywbem.Model.MofLex
open Pywbem.Proto

abbrev Str := List Nat

def isDigit (c : Nat) : Bool := 48 ≤ c && c ≤ 57
/-- `[0-9a-fA-F]` -/
def isHexDigit (c : Nat) : Bool := (48 ≤ c && c ≤ 57) || (65 ≤ c && c ≤ 70) || (97 ≤ c && c ≤ 102)
/-- value of an ASCII hex digit (mirrors `ord(c) - ord('0')` / `ord(c) - ord('A') + 0xA` after `upper()`) -/
def hexVal (c : Nat) : Nat :=
  if c ≤ 57 then c - 48 else if c ≤ 70 then c - 65 + 10 else c - 97 + 10
/-- mirrors _mof_compiler.py: simpleEscape = [bfnrt'"\\] -/
def isSimpleEscape (c : Nat) : Bool :=
  c == 98 || c == 102 || c == 110 || c == 114 || c == 116 || c == 39 || c == 34 || c == 92
/-- mirrors _mof_compiler.py: t_ignore = ' \r\t' plus t_newline -/
def isWs (c : Nat) : Bool := c == 32 || c == 13 || c == 9 || c == 10

/-- mirrors _mof_compiler.py: the body of `stringvalue_re` / `charvalue_re` after the opening quote `q`:
    `([^q\\\n\r]|\\([bfnrt'"\\]|[xX][0-9a-fA-F]{1,4}))*q`.  Returns (body, text after the closing quote).
    The regex is deterministic up to where the hex digits of `\x` end (further hex digits are
    ordinary characters), so a left-to-right scan decides it. -/
def scanBody (q : Nat) : Str → Option (Str × Str)
  | [] => none
  | c :: cs =>
    if c = q then some ([], cs)
    else if c = 92 then
      match cs with
      | [] => none
      | d :: ds =>
        if isSimpleEscape d then (scanBody q ds).map (fun r => (92 :: d :: r.1, r.2))
        else if d = 120 ∨ d = 88 then
          match ds with
          | [] => none
          | h :: hs =>
            if isHexDigit h then (scanBody q hs).map (fun r => (92 :: d :: h :: r.1, r.2)) else none
        else none
    else if c = 10 ∨ c = 13 then none
    else (scanBody q cs).map (fun r => (c :: r.1, r.2))

/-- mirrors _mof_compiler.py: t_stringValue — the token text (quotes included) and the remaining input -/
def lexStringValue : Str → Option (Str × Str)
  | 34 :: cs => (scanBody 34 cs).map (fun r => (34 :: r.1 ++ [34], r.2))
  | _ => none

/-- mirrors _mof_compiler.py: t_charValue — `'(cChar)'` with exactly one cChar -/
def lexCharValue : Str → Option (Str × Str)
  | 39 :: c :: cs =>
    if c = 92 then
      match cs with
      | d :: 39 :: r => if isSimpleEscape d then some ([39, 92, d, 39], r) else none
      | d :: h1 :: r =>
        if (d = 120 ∨ d = 88) ∧ isHexDigit h1 then
          match r with
          | 39 :: r' => some ([39, 92, d, h1, 39], r')
          | h2 :: 39 :: r' => if isHexDigit h2 then some ([39, 92, d, h1, h2, 39], r') else none
          | h2 :: h3 :: 39 :: r' =>
            if isHexDigit h2 ∧ isHexDigit h3 then some ([39, 92, d, h1, h2, h3, 39], r') else none
          | h2 :: h3 :: h4 :: 39 :: r' =>
            if isHexDigit h2 ∧ isHexDigit h3 ∧ isHexDigit h4 then some ([39, 92, d, h1, h2, h3, h4, 39], r')
            else none
          | _ => none
        else none
      | _ => none
    else if c = 39 ∨ c = 10 ∨ c = 13 then none
    else match cs with
      | 39 :: r => some ([39, c, 39], r)
      | _ => none
  | _ => none

/-- parser state of `_fixStringValue`: outside an escape, after a backslash, or inside the `\x` hex loop
    with `j` digits read and value `acc` -/
inductive Mode where
  | normal
  | esc
  | hex (j : Nat) (acc : Nat)
  deriving Repr, DecidableEq

/-- mirrors _mof_compiler.py: _fixStringValue (the `while` loop over the text between the quotes).
    The index arithmetic of the Python loop is replaced by list destructuring; the result for the
    remaining input in a given mode is returned (what Python appends to `rv`).
    * unknown escape letter: nothing is appended (the Python `if/elif` chain falls through);
    * `\x`: up to 4 ASCII hex digits, stops at the end of the string (after the bounds fix);
      zero digits => MOFParseError. -/
def fixFrom : Mode → Str → Except PyExc Str
  | .normal, [] => .ok []
  | .esc, [] => .ok []
  | .hex j acc, [] => if j = 0 then .error .mofParseError else .ok [acc]
  | .normal, c :: cs =>
    if c = 92 then fixFrom .esc cs else (fixFrom .normal cs).map (c :: ·)
  | .esc, c :: cs =>
    if c = 34 then (fixFrom .normal cs).map (34 :: ·)
    else if c = 110 then (fixFrom .normal cs).map (10 :: ·)
    else if c = 116 then (fixFrom .normal cs).map (9 :: ·)
    else if c = 98 then (fixFrom .normal cs).map (8 :: ·)
    else if c = 102 then (fixFrom .normal cs).map (12 :: ·)
    else if c = 114 then (fixFrom .normal cs).map (13 :: ·)
    else if c = 92 then (fixFrom .normal cs).map (92 :: ·)
    else if c = 39 then (fixFrom .normal cs).map (39 :: ·)
    else if c = 120 ∨ c = 88 then fixFrom (.hex 0 0) cs
    else fixFrom .normal cs
  | .hex j acc, c :: cs =>
    if isHexDigit c then
      if j + 1 = 4 then (fixFrom .normal cs).map ((acc * 16 + hexVal c) :: ·)
      else fixFrom (.hex (j + 1) (acc * 16 + hexVal c)) cs
    else if j = 0 then .error .mofParseError
    else
      -- `rv += chr(hexc)`, then the outer loop continues with `c` outside an escape
      (if c = 92 then fixFrom .esc cs else (fixFrom .normal cs).map (c :: ·)).map (acc :: ·)

/-- mirrors _mof_compiler.py: _fixStringValue — `s[1:-1]` then the loop -/
def fixStringValue (tok : Str) : Except PyExc Str := fixFrom .normal (tok.drop 1).dropLast

/-- mirrors _mof_compiler.py: p_stringValueList — adjacent string tokens are concatenated -/
def stringValueList : List Str → Except PyExc Str
  | [] => .ok []
  | t :: ts =>
    match fixStringValue t with
    | .error e => .error e
    | .ok a => (stringValueList ts).map (a ++ ·)

/-- a text consisting of string tokens and white space only -> the raw tokens (fuelled; `lexStringList`
    supplies enough fuel) -/
def lexStringListF : Nat → Str → Option (List Str)
  | 0, _ => none
  | _ + 1, [] => some []
  | f + 1, c :: cs =>
    if isWs c then lexStringListF f cs
    else if c = 34 then
      match scanBody 34 cs with
      | none => none
      | some r => (lexStringListF f r.2).map ((34 :: r.1 ++ [34]) :: ·)
    else none

def lexStringList (t : Str) : Option (List Str) := lexStringListF (t.length + 1) t

/-- lexer + parser on a text that is a `stringValueList`: `none` = not in the language -/
def compileStringList (t : Str) : Option (Except PyExc Str) :=
  (lexStringList t).map stringValueList

/-- tokens of an array initializer of strings -/
inductive ATok where
  | str (t : Str)
  | comma
  deriving Repr, DecidableEq

/-- a text consisting of string tokens, commas and white space -> tokens (fuelled like `lexStringListF`) -/
def lexArrayF : Nat → Str → Option (List ATok)
  | 0, _ => none
  | _ + 1, [] => some []
  | f + 1, c :: cs =>
    if isWs c then lexArrayF f cs
    else if c = 44 then (lexArrayF f cs).map (ATok.comma :: ·)
    else if c = 34 then
      match scanBody 34 cs with
      | none => none
      | some r => (lexArrayF f r.2).map (ATok.str (34 :: r.1 ++ [34]) :: ·)
    else none

def lexArray (t : Str) : Option (List ATok) := lexArrayF (t.length + 1) t

/-- mirrors p_constantValueList with stringValueList items: the string tokens between commas form one item;
    an empty item is a syntax error (`none`); `cur` = tokens of the item being collected -/
def groupToks : List ATok → List Str → Option (List (List Str))
  | [], cur => if cur = [] then none else some [cur]
  | .str t :: ts, cur => groupToks ts (cur ++ [t])
  | .comma :: ts, cur => if cur = [] then none else (groupToks ts []).map (cur :: ·)

/-- every item through p_stringValueList -/
def stringValueLists : List (List Str) → Except PyExc (List Str)
  | [] => .ok []
  | g :: gs =>
    match stringValueList g with
    | .error e => .error e
    | .ok a => (stringValueLists gs).map (a :: ·)

/-- lexer + parser on the inside of `{ ... }` of a string array initializer: `none` = not in the language -/
def compileStringArray (t : Str) : Option (Except PyExc (List Str)) :=
  ((lexArray t).bind (fun ts => groupToks ts [])).map stringValueLists

/-- mirrors _mof_compiler.py: charValue as used by p_constantValue: the token text is passed on
    *unchanged* (quotes and escape sequences included) — known finding C08-F1 -/
def charConstantValue (tok : Str) : Str := tok

/-! ### numeric tokens (t_floatValue, t_hexValue, t_binaryValue, t_octalValue, t_decimalValue) -/

/-- longest prefix of characters satisfying `p`, and the rest -/
def spanP (p : Nat → Bool) : Str → Str × Str
  | [] => ([], [])
  | c :: cs => if p c then let r := spanP p cs; (c :: r.1, r.2) else ([], c :: cs)

/-- `[+-]?` : (sign text, rest) -/
def optSign : Str → Str × Str
  | 43 :: cs => ([43], cs)
  | 45 :: cs => ([45], cs)
  | s => ([], s)

/-- value of a digit string in base `b` (digits already validated; hex letters either case) -/
def digitsVal (b : Nat) (ds : Str) : Nat := ds.foldl (fun a d => a * b + hexVal d) 0

/-- mirrors Python `int(text, base)` for `[+-]?digits` -/
def signedVal (sign : Str) (n : Nat) : Int := if sign = [45] then -(n : Int) else (n : Int)

inductive NumTok where
  | float (text : Str)        -- value = float(text): the decimal -> double conversion is not modelled
  | int (v : Int)
  | error (text : Str)        -- "Invalid binary/octal number": token type 'error'
  deriving Repr, DecidableEq

/-- mirrors t_floatValue: `[+-]?[0-9]*\.[0-9]+([eE][+-]?[0-9]+)?` -/
def lexFloat (s : Str) : Option (Str × Str) :=
  let sg := optSign s
  let ip := spanP isDigit sg.2
  match ip.2 with
  | 46 :: r =>
    let fp := spanP isDigit r
    if fp.1 = [] then none
    else
      let base := sg.1 ++ ip.1 ++ 46 :: fp.1
      match fp.2 with
      | e :: r2 =>
        if e = 101 ∨ e = 69 then
          let es := optSign r2
          let ed := spanP isDigit es.2
          if ed.1 = [] then some (base, fp.2) else some (base ++ e :: es.1 ++ ed.1, ed.2)
        else some (base, fp.2)
      | [] => some (base, [])
  | _ => none

/-- mirrors t_hexValue: `[+-]?0[xX][0-9a-fA-F]+`, value int(text, 16) -/
def lexHex (s : Str) : Option (Int × Str) :=
  let sg := optSign s
  match sg.2 with
  | 48 :: x :: r =>
    if x = 120 ∨ x = 88 then
      let hd := spanP isHexDigit r
      if hd.1 = [] then none else some (signedVal sg.1 (digitsVal 16 hd.1), hd.2)
    else none
  | _ => none

/-- mirrors t_binaryValue: `[+-]?[0-9]+[bB]`; digits 2-9 make it an error token -/
def lexBinary (s : Str) : Option (NumTok × Str) :=
  let sg := optSign s
  let ds := spanP isDigit sg.2
  if ds.1 = [] then none
  else match ds.2 with
    | b :: r =>
      if b = 98 ∨ b = 66 then
        if ds.1.any (fun d => decide (50 ≤ d)) then some (.error (sg.1 ++ ds.1 ++ [b]), r)
        else some (.int (signedVal sg.1 (digitsVal 2 ds.1)), r)
      else none
    | [] => none

/-- mirrors t_octalValue: `[+-]?0[0-9]+`; digits 8-9 make it an error token -/
def lexOctal (s : Str) : Option (NumTok × Str) :=
  let sg := optSign s
  match sg.2 with
  | 48 :: r =>
    let ds := spanP isDigit r
    if ds.1 = [] then none
    else if ds.1.any (fun d => decide (56 ≤ d)) then some (.error (sg.1 ++ 48 :: ds.1), ds.2)
    else some (.int (signedVal sg.1 (digitsVal 8 ds.1)), ds.2)
  | _ => none

/-- mirrors t_decimalValue: `[+-]?([1-9][0-9]*|0)`, value int(text) -/
def lexDecimal (s : Str) : Option (Int × Str) :=
  let sg := optSign s
  match sg.2 with
  | c :: r =>
    if 49 ≤ c ∧ c ≤ 57 then
      let ds := spanP isDigit r
      some (signedVal sg.1 (digitsVal 10 (c :: ds.1)), ds.2)
    else if c = 48 then some (0, r)
    else none
  | [] => none

/-- the numeric token at the head of the input, in PLY's rule order (the order of the function definitions):
    float, hex, binary, octal, decimal; first rule that matches wins -/
def lexNumber (s : Str) : Option (NumTok × Str) :=
  match lexFloat s with
  | some (t, r) => some (.float t, r)
  | none =>
    match lexHex s with
    | some (v, r) => some (.int v, r)
    | none =>
      match lexBinary s with
      | some x => some x
      | none =>
        match lexOctal s with
        | some x => some x
        | none =>
          match lexDecimal s with
          | some (v, r) => some (.int v, r)
          | none => none

/-- decimal digits of `n`, most significant first (`fuel` > number of digits) -/
def decDigits : Nat → Nat → Str
  | 0, _ => []
  | f + 1, n => if n < 10 then [48 + n] else decDigits f (n / 10) ++ [48 + n % 10]

/-- mirrors Python `str(n)` for a non-negative int -/
def natStr (n : Nat) : Str := decDigits (n + 1) n

/-- mirrors Python `str(v)` for an int (what `_scalar_value_tomof` prints for CIM integer values) -/
def intStr (v : Int) : Str := if v < 0 then 45 :: natStr v.natAbs else natStr v.natAbs

end Pywbem.Model.MofLex
