/-
C13 — the Open… variants of the traversal operations, by composition with C14's pull model.

mirrors pywbem_mock/_mainprovider.py: MainProvider.OpenReferenceInstancePaths / OpenReferenceInstances /
OpenAssociatorInstancePaths / OpenAssociatorInstances: each calls the traditional operation
(ReferenceNames / References / AssociatorNames / Associators) and hands the resulting list to
`_open_response`, which starts an enumeration session on it (`Pywbem.Model.Pull`, owned by C14; imported,
not edited).  The Iter… variants of the client are either this session pulled to its end or the
traditional call itself (C15).

Objects travel through the pull model as numbers: an object is identified by its position in the
result list of the traditional operation (`sessionObjs`); `decodeObjs` maps delivered numbers back.
-/
import Pywbem.Model.AssocSet
import Pywbem.Model.Pull

namespace Pywbem.Model.Assoc
open Pywbem.Proto

/-- the result set of a session opened on the list `l`: the positions of its elements -/
def sessionObjs {α : Type} (l : List α) : List Pull.Obj := List.range l.length

/-- what the client receives for delivered object numbers -/
def decodeObjs {α : Type} (l : List α) (ids : List Pull.Obj) : List (Option α) := ids.map (fun i => l[i]?)

/-- `_open_response(namespace, objects, pull_type, …)` on the result of the traditional operation;
    an error of the traditional operation is the error of the Open operation (no session) -/
def openOn {α : Type} (res : Except PyExc (List α)) (p : Pull.OpenParams) (kind : Pull.Kind) (nsId : Nat)
    (max : Option Int) : Except PyExc Pull.Op :=
  match res with
  | .error e => .error e
  | .ok l => .ok (.open p kind nsId (sessionObjs l) max)

/-- OpenAssociatorInstancePaths / OpenReferenceInstancePaths / OpenAssociatorInstances /
    OpenReferenceInstances (`nsId` = the number the pull model uses for the request namespace) -/
def openAssociatorPaths (sv : Server) (ns : Name) (x : Path) (f : AFilter) (p : Pull.OpenParams) (nsId : Nat)
    (max : Option Int) : Except PyExc Pull.Op :=
  openOn (associatorNamesSetI sv ns x f) p .paths nsId max

def openReferencePaths (sv : Server) (ns : Name) (x : Path) (rc role : Option Name) (p : Pull.OpenParams)
    (nsId : Nat) (max : Option Int) : Except PyExc Pull.Op :=
  openOn (referenceNamesSetI sv ns x rc role) p .paths nsId max

def openAssociators (sv : Server) (ns : Name) (x : Path) (f : AFilter) (p : Pull.OpenParams) (nsId : Nat)
    (max : Option Int) : Except PyExc Pull.Op :=
  openOn (associatorsSetI sv ns x f) p .withPath nsId max

def openReferences (sv : Server) (ns : Name) (x : Path) (rc role : Option Name) (p : Pull.OpenParams)
    (nsId : Nat) (max : Option Int) : Except PyExc Pull.Op :=
  openOn (referencesI sv ns x rc role) p .withPath nsId max

end Pywbem.Model.Assoc
