/-
C06, the typed element classes and every public way of giving them a value.
Mirrors pywbem/_cim_obj.py: CIMProperty / CIMParameter / CIMQualifier / CIMQualifierDeclaration `__init__`
(`_infer_type`, `_infer_is_array`, `_check_array_parms`, `_infer_embedded_object`, `_check_embedded_object`, the
`type` setter with ALL_CIMTYPES / QUALIFIER_CIMTYPES, the `value` setter = cimvalue(value, self.type)) and
CIMInstance: `__setitem__` (`_cim_property_value`), `update()`, `update_existing()` (every argument form is a
sequence of (name, value) items), `properties[name].value = v`.

Property names are abstract keys (`Nat`): two names are the same key iff NocaseDict treats them as the same
(case-insensitive comparison is the subject of C05/C10, not of C06).
Not modelled: array_size, qualifiers / class_origin / propagated attributes, the deprecated
propagation of key property values into `CIMInstance.path`, changing `type` after a value was stored.
-/
import Pywbem.Model.CimValue

namespace Pywbem.Model.TypedElems
open Pywbem.Proto Pywbem.Model.CimTypes Pywbem.Model.CimValue

inductive Emb where
  | instance | object
  deriving DecidableEq, Repr

inductive ElemKind where
  | property | parameter | qualifier | qualifierDecl
  deriving DecidableEq, Repr

/-- a typed element object (the attributes C06 is about) -/
structure Elem where
  kind : ElemKind
  type : Ty
  value : Val
  isArray : Bool
  embedded : Option Emb
  deriving Repr

/-- the `embedded_object` init argument: None (infer) | False | 'instance' | 'object' | any other value -/
inductive EmbArg where
  | infer | no | emb (e : Emb) | bad
  deriving Repr

/-- init arguments of the four classes (the ones that matter for the stored value) -/
structure Args where
  value : Val := .sc .none
  type : Option Ty := none            -- none = `type=None`
  isArray : Option Bool := none
  emb : EmbArg := .infer
  refClass : Bool := false            -- `reference_class is not None`
  deriving Repr

def valIsNone : Val → Bool
  | .sc .none => true
  | _ => false

def valIsList : Val → Bool
  | .list _ => true
  | _ => false

/-- mirrors _cim_obj.py: _infer_type -/
def inferType (v : Val) : Except PyExc Ty :=
  if valIsNone v then .error .valueError
  else match cimtypeVal v with
    | .ok t => .ok t
    | .error _ => .error .valueError        -- TypeError of cimtype() is re-raised as ValueError; ValueError stays

/-- mirrors _cim_obj.py: _infer_is_array -/
def inferIsArray (v : Val) : Bool := valIsList v

/-- isinstance(value, (list, tuple)) -/
def valIsSeq : Val → Bool
  | .list _ => true
  | .sc (.tuple _) => true
  | _ => false

/-- mirrors _cim_obj.py: _check_array_parms -/
def checkArrayParms (isArray : Bool) (v : Val) : Except PyExc Unit :=
  if valIsNone v then .ok ()
  else if !isArray && valIsSeq v then .error .valueError
  else if isArray && !valIsSeq v then .error .valueError
  else .ok ()

def embOfSc : Sc → Option Emb
  | .instance _ => some .instance
  | .cimClass => some .object
  | _ => none

/-- mirrors _cim_obj.py: _infer_embedded_object (none = False) -/
def inferEmb : Val → Option Emb
  | .sc s => embOfSc s
  | .list [] => none
  | .list (s :: _) => embOfSc s

def isEmbObj : Sc → Bool
  | .instance _ => true
  | .cimClass => true
  | _ => false

/-- mirrors _cim_obj.py: _check_embedded_object (called `if embedded_object is not False:` since /repo ef0170b, i.e. for
    'instance' / 'object' and for every other given value such as '' or 0, which it rejects) -/
def checkEmb (bad : Bool) (t : Option Ty) (v : Val) : Except PyExc Unit :=
  if bad then .error .valueError
  else if t != some .string then .error .valueError
  else match v with
    | .sc .none => .ok ()
    | .sc s => if isEmbObj s then .ok () else .error .valueError
    | .list [] => .ok ()
    | .list (s :: _) => if s == .none || isEmbObj s then .ok () else .error .valueError

/-- the `type` setter: ALL_CIMTYPES for properties and parameters, QUALIFIER_CIMTYPES for the qualifier classes
    (tables extracted from the source) -/
def typeAllowed (k : ElemKind) (t : Ty) : Bool :=
  match k with
  | .property | .parameter => Pywbem.Generated.allCimTypes.contains t.name
  | .qualifier | .qualifierDecl => Pywbem.Generated.qualifierCimTypes.contains t.name

def setType (k : ElemKind) (t : Option Ty) : Except PyExc Ty :=
  match t with
  | none => .error .valueError                -- None is not in the set
  | some ty => if typeAllowed k ty then .ok ty else .error .valueError

/-- resolve the embedded_object argument: (effective value, whether a truthy-but-invalid value was given) -/
def resolveEmb (a : EmbArg) (v : Val) : Option Emb × Bool :=
  match a with
  | .infer => (inferEmb v, false)
  | .no => (none, false)
  | .emb e => (some e, false)
  | .bad => (none, true)

/-- mirrors _cim_obj.py: CIMProperty.__init__ -/
def mkProperty (env : Env) (a : Args) : Except PyExc Elem := do
  let ty ← match a.type with
    | some t => pure (some t)
    | none => (inferType a.value).map some
  let isArr ← match a.isArray with
    | none => pure (inferIsArray a.value)
    | some b => do checkArrayParms b a.value; pure b
  let (emb, bad) := resolveEmb a.emb a.value
  if emb.isSome || bad then checkEmb bad ty a.value
  if a.refClass && isArr then throw .valueError
  let ty' ← setType .property ty
  let v ← cimvalue env a.value (some ty')
  pure { kind := .property, type := ty', value := v, isArray := isArr, embedded := emb }

/-- mirrors _cim_obj.py: CIMParameter.__init__ (`type` is a required argument; passing None fails in the setter) -/
def mkParameter (env : Env) (a : Args) : Except PyExc Elem := do
  let isArr ← match a.isArray with
    | none => pure (inferIsArray a.value)
    | some b => do checkArrayParms b a.value; pure b
  let (emb, bad) := resolveEmb a.emb a.value
  if emb.isSome || bad then checkEmb bad a.type a.value
  let ty' ← setType .parameter a.type
  let v ← cimvalue env a.value (some ty')
  pure { kind := .parameter, type := ty', value := v, isArray := isArr, embedded := emb }

/-- mirrors _cim_obj.py: CIMQualifier.__init__ -/
def mkQualifier (env : Env) (a : Args) : Except PyExc Elem := do
  let ty ← match a.type with
    | some t => pure (some t)
    | none => (inferType a.value).map some
  let ty' ← setType .qualifier ty
  let v ← cimvalue env a.value (some ty')
  pure { kind := .qualifier, type := ty', value := v, isArray := false, embedded := none }   -- no is_array attribute

/-- mirrors _cim_obj.py: CIMQualifierDeclaration.__init__ -/
def mkQualifierDecl (env : Env) (a : Args) : Except PyExc Elem := do
  let isArr ← match a.isArray with
    | none => pure (inferIsArray a.value)
    | some b => do checkArrayParms b a.value; pure b
  let ty' ← setType .qualifierDecl a.type
  let v ← cimvalue env a.value (some ty')
  pure { kind := .qualifierDecl, type := ty', value := v, isArray := isArr, embedded := none }

def mkElem (env : Env) (k : ElemKind) (a : Args) : Except PyExc Elem :=
  match k with
  | .property => mkProperty env a
  | .parameter => mkParameter env a
  | .qualifier => mkQualifier env a
  | .qualifierDecl => mkQualifierDecl env a

/-- mirrors the `value` setter of all four classes: `self._value = cimvalue(value, self.type)` -/
def setValue (env : Env) (e : Elem) (v : Val) : Except PyExc Elem := do
  let r ← cimvalue env v (some e.type)
  pure { e with value := r }

/-! ## CIMInstance -/

/-- `CIMInstance.properties`: NocaseDict as an association list in insertion order -/
structure Inst where
  props : List (Nat × Elem) := []
  deriving Repr

def Inst.get? (i : Inst) (k : Nat) : Option Elem := (i.props.find? (fun p => p.1 == k)).map (·.2)

/-- dict item assignment: replace in place or append -/
def putProp : List (Nat × Elem) → Nat → Elem → List (Nat × Elem)
  | [], k, e => [(k, e)]
  | (k', e') :: r, k, e => if k' == k then (k, e) :: r else (k', e') :: putProp r k e

/-- what is assigned with `inst[key] = …` -/
inductive Given where
  /-- a plain value: `_cim_property_value` builds `CIMProperty(key, value)` (type inferred) -/
  | value (v : Val)
  /-- a CIMProperty object built on the spot with these init arguments, whose name is the key `name` -/
  | prop (name : Nat) (a : Args)
  deriving Repr

/-- mirrors _cim_obj.py: CIMInstance.__setitem__ / _cim_property_value -/
def setItem (env : Env) (i : Inst) (k : Nat) (g : Given) : Except PyExc Inst := do
  let p ← match g with
    | .value v => mkProperty env { value := v }
    | .prop name a => do
      let p ← mkProperty env a                 -- the caller builds the object first
      if name != k then throw .valueError      -- CIMProperty.name must be the dictionary key
      pure p
  pure { props := putProp i.props k p }

/-- apply a step function over items; stops at the first exception keeping what was done before (Python loop) -/
def foldItems {α} (f : Inst → α → Except PyExc Inst) : Inst → List α → Inst × Option PyExc
  | i, [] => (i, none)
  | i, a :: r =>
    match f i a with
    | .error e => (i, some e)
    | .ok i' => foldItems f i' r

/-- mirrors _cim_obj.py: CIMInstance.update(*args, **kwargs): `self[key] = value` for every item -/
def update (env : Env) (i : Inst) (items : List (Nat × Given)) : Inst × Option PyExc :=
  foldItems (fun i kv => setItem env i kv.1 kv.2) i items

def setExisting (env : Env) (i : Inst) (k : Nat) (v : Val) : Except PyExc Inst :=
  match i.get? k with
  | none => .ok i                                   -- KeyError → continue
  | some e => do
    let e' ← setValue env e v
    pure { props := putProp i.props k e' }

/-- mirrors _cim_obj.py: CIMInstance.update_existing(*args, **kwargs): `prop.value = value` for existing names -/
def updateExisting (env : Env) (i : Inst) (items : List (Nat × Val)) : Inst × Option PyExc :=
  foldItems (fun i kv => setExisting env i kv.1 kv.2) i items

/-- `inst.properties[key].value = v` (KeyError for an unknown name) -/
def propValue (env : Env) (i : Inst) (k : Nat) (v : Val) : Except PyExc Inst :=
  match i.get? k with
  | none => .error .keyError
  | some e => do
    let e' ← setValue env e v
    pure { props := putProp i.props k e' }

/-- one step of a history on an instance -/
inductive Op where
  | update (items : List (Nat × Given))
  | updateExisting (items : List (Nat × Val))
  | setItem (k : Nat) (g : Given)
  | propValue (k : Nat) (v : Val)
  deriving Repr

def step (env : Env) (i : Inst) : Op → Inst × Option PyExc
  | .update items => update env i items
  | .updateExisting items => updateExisting env i items
  | .setItem k g => match setItem env i k g with | .ok i' => (i', none) | .error e => (i, some e)
  | .propValue k v => match propValue env i k v with | .ok i' => (i', none) | .error e => (i, some e)

/-- run a history; collects the exception (if any) of every step -/
def run (env : Env) : Inst → List Op → Inst × List (Option PyExc)
  | i, [] => (i, [])
  | i, o :: r =>
    let (i', e) := step env i o
    let (i'', es) := run env i' r
    (i'', e :: es)

/-! ## specification predicates -/

/-- every given CIMInt object satisfies its class invariant -/
def valInv : Val → Bool
  | .sc s => scInv s
  | .list l => l.all scInv

/-- "stored as exactly that CIM type", up to known finding C06-KF1: for the CIM types string / char16 the branch of
    cimvalue() passes non-string objects through, so nothing is claimed there; for every other type the stored value
    (each array item) is an object of exactly that type, in range -/
def Typed (e : Elem) : Bool :=
  e.type == .string || e.type == .char16 || hasType e.value e.type

def Inst.typed (i : Inst) : Bool := i.props.all (fun p => Typed p.2)

def givenInv : Given → Bool
  | .value v => valInv v
  | .prop _ a => valInv a.value

def opInv : Op → Bool
  | .update items => items.all (fun kv => givenInv kv.2)
  | .updateExisting items => items.all (fun kv => valInv kv.2)
  | .setItem _ g => givenInv g
  | .propValue _ v => valInv v

end Pywbem.Model.TypedElems
