/-
C11 — model of every repository-changing entry point of the mock WBEM server, written as the
*statement sequences* they are in the code (checks and writes in their real order), so that
"a failed operation changes nothing" is something to prove and not something built in.

mirrors (after the `fix:` commits of C11, see design.d/C11.md)
  pywbem_mock/_inmemoryrepository.py   InMemoryObjectStore.create/update/delete/object_exists,
                                       InMemoryRepository.add_namespace/remove_namespace/validate_namespace/
                                       get_*_store/snapshot/restore
  pywbem_mock/_baseprovider.py         BaseProvider.validate_namespace/add_namespace/remove_namespace
  pywbem_mock/_mainprovider.py         MainProvider.CreateClass/ModifyClass/DeleteClass/SetQualifier/
                                       DeleteQualifier/_validate_dependencies_exist/_get_subclass_names
  pywbem_mock/_resolvermixin.py        ResolverMixin._resolve_class (the checks and the exposed property list)
  pywbem_mock/_providerdispatcher.py   ProviderDispatcher.CreateInstance/ModifyInstance/DeleteInstance
  pywbem_mock/_instancewriteprovider.py InstanceWriteProvider.* (incl. multi-namespace associations)
  pywbem_mock/_wbemconnection_mock.py  FakedWBEMConnection.add_cimobjects/compile_mof_string/add_namespace/
                                       remove_namespace
  pywbem_mock/_mockmofwbemconnection.py + pywbem/_mof_compiler.py: p_mp_createClass/p_mp_createInstance/
                                       p_mp_setQualifier (what one MOF production does to the repository and
                                       which MOFCompileError subclass a CIMError is turned into)

The monad `M` is "state + exception where the state SURVIVES the exception" (Python semantics): a `raise`
after a write leaves the write in the repository.  `withRollback` is the `snapshot … except: restore; raise`
block of the fixes.

Abstractions (K compares at exactly this level; the oracle compares full-fidelity dumps):
  * names are `List Char`, `lower` is ASCII lower-casing (generators use ASCII names);
  * a class = name, superclass, class-level qualifiers, properties (name, type, is_array, reference class,
    qualifiers, class_origin, propagated); methods, `Override`, qualifier flavors are NOT modelled
    (generators never produce them);
  * a qualifier declaration = name, type, scopes, an opaque body id (its default value variant);
  * instance property values: null / string / integer / reference (path with scalar keys);
  * not modelled: user-defined providers, the CIM_Namespace provider (covered by oracle-only probes),
    `#pragma` directives / include files of MOF, PropertyList of ModifyInstance, the class cache of
    `_MockMOFWBEMConnection` (K empties it before every compile call).
-/
import Pywbem.Proto
import Pywbem.Generated.Atomic

namespace Pywbem.Model.Atomic
open Pywbem.Proto
open Pywbem.Generated.Atomic

abbrev Name := List Char

/-- `str.lower()` restricted to ASCII -/
def lower (s : Name) : Name := s.map Char.toLower

def nameEq (a b : Name) : Bool := lower a == lower b

/-- `name in NocaseList/NocaseDict` -/
def nmem (n : Name) (l : List Name) : Bool := l.any (fun x => nameEq x n)

/-! ### data -/

inductive Scalar where
  | str (s : Name)
  | int (v : Int)
  deriving DecidableEq, Repr, Inhabited

/-- target of a reference: CIMInstanceName with scalar keybindings -/
structure Path0 where
  cls  : Name
  ns   : Option Name
  host : Option Name
  keys : List (Name × Scalar)
  deriving DecidableEq, Repr, Inhabited

inductive Val where
  | null
  | sc (s : Scalar)
  | ref (p : Path0)
  deriving DecidableEq, Repr, Inhabited

/-- CIMProperty of an instance -/
structure PropV where
  name  : Name
  ty    : Name
  isArr : Bool
  val   : Val
  deriving DecidableEq, Repr, Inhabited

/-- CIMInstanceName as given by a client (DeleteInstance, ModifyInstance, add_cimobjects) -/
structure Path where
  cls  : Name
  ns   : Option Name
  keys : List (Name × Val)
  deriving DecidableEq, Repr, Inhabited

structure Inst where
  cls   : Name
  props : List PropV
  deriving DecidableEq, Repr, Inhabited

/-- lexicographic order by code point (only to pick the canonical keybinding order) -/
def leName : Name → Name → Bool
  | [], _ => true
  | _ :: _, [] => false
  | a :: as, b :: bs => a.toNat < b.toNat || (a.toNat == b.toNat && leName as bs)

def insertKey {α} (e : Name × α) : List (Name × α) → List (Name × α)
  | [] => [e]
  | x :: xs => if leName e.1 x.1 then e :: x :: xs else x :: insertKey e xs

def sortKeys {α} (l : List (Name × α)) : List (Name × α) := l.foldr insertKey []

def normPath0 (p : Path0) : Path0 :=
  { cls := lower p.cls, ns := p.ns.map lower, host := p.host.map lower,
    keys := sortKeys (p.keys.map (fun e => (lower e.1, e.2))) }

def normVal : Val → Val
  | .ref p => .ref (normPath0 p)
  | v => v

/-- what `CIMInstanceName.__hash__/__eq__` depend on = the key of the instance store's dict -/
structure PKey where
  ns   : Name
  cls  : Name
  keys : List (Name × Val)
  deriving DecidableEq, Repr, Inhabited

def mkKey (ns cls : Name) (keys : List (Name × Val)) : PKey :=
  { ns := lower ns, cls := lower cls, keys := sortKeys (keys.map (fun e => (lower e.1, normVal e.2))) }

def path0Key (p : Path0) (ns : Name) : PKey := mkKey ns p.cls (p.keys.map (fun e => (e.1, Val.sc e.2)))

structure QualUse where
  name : Name
  ty   : Name
  val  : Option Name        -- string value (EmbeddedInstance: class name, Override: element name), else none
  propagated : Bool := false   -- `CIMQualifier.propagated` of a stored class element (None counts as false)
  deriving DecidableEq, Repr, Inhabited

structure QualDecl where
  name   : Name
  ty     : Name
  scopes : List Name        -- scopes that are true, incl. "any"
  body   : Nat
  deriving DecidableEq, Repr, Inhabited

structure PropDef where
  name  : Name
  ty    : Name
  isArr : Bool
  ref   : Option Name       -- reference_class
  quals : List QualUse
  deriving DecidableEq, Repr, Inhabited

/-- CIMMethod (parameters are CIMParameter: name, type, is_array, reference_class, qualifiers) -/
structure MethodDef where
  name   : Name
  retTy  : Name
  quals  : List QualUse
  params : List PropDef
  deriving DecidableEq, Repr, Inhabited

/-- CIMClass as given by a client -/
structure ClassDef where
  name  : Name
  super : Option Name
  quals : List QualUse
  props : List PropDef
  methods : List MethodDef := []
  deriving DecidableEq, Repr, Inhabited

/-- method of a stored (resolved) class -/
structure MethodRec where
  d          : MethodDef
  origin     : Name
  propagated : Bool
  deriving DecidableEq, Repr, Inhabited

/-- property of a stored (resolved) class -/
structure PropRec where
  d          : PropDef
  origin     : Name
  propagated : Bool
  deriving DecidableEq, Repr, Inhabited

structure ClassRec where
  name  : Name
  super : Option Name
  quals : List QualUse
  props : List PropRec
  methods : List MethodRec := []
  deriving DecidableEq, Repr, Inhabited

structure InstRec where
  key   : PKey
  path  : Path              -- inst.path as stored (namespace always set)
  cls   : Name              -- inst.classname
  props : List PropV
  deriving DecidableEq, Repr, Inhabited

structure NsRec where
  name    : Name
  classes : List ClassRec := []
  quals   : List QualDecl := []
  insts   : List InstRec := []
  deriving DecidableEq, Repr, Inhabited

/-- a user-defined instance-write provider (subclass of InstanceWriteProvider registered for one class in one
    namespace) of the kind that validates and then delegates to the default implementation: it rejects a request
    with `exc` when the value of the property / keybinding `trigger` is one of the listed strings, BEFORE calling
    `super()`.  (A provider that changes the repository and then raises is outside what the mock can promise.) -/
structure UserProv where
  ns        : Name
  cls       : Name
  trigger   : Name
  rejCreate : List Name
  rejModify : List Name
  rejDelete : List Name
  exc       : PyExc
  deriving DecidableEq, Repr, Inhabited

/-- `InMemoryRepository._repository` -/
structure State where
  nss : List NsRec
  /-- namespaces for which the CIM_Namespace provider is registered (provider registry: not repository content,
      never changed by the operations of the property; set by `Cmd.installNsProvider`) -/
  nsProv : List Name := []
  /-- registered user-defined instance-write providers (provider registry) -/
  userProvs : List UserProv := []
  deriving DecidableEq, Repr, Inhabited

/-! ### the monad: state survives exceptions -/

def M (α : Type) := State → State × Except PyExc α

namespace M
def pure {α} (a : α) : M α := fun s => (s, .ok a)
def bind {α β} (m : M α) (f : α → M β) : M β := fun s =>
  match m s with
  | (s', .ok a) => f a s'
  | (s', .error e) => (s', .error e)
end M

instance : Monad M where
  pure := M.pure
  bind := M.bind

def raise {α} (e : PyExc) : M α := fun s => (s, .error e)
def getS : M State := fun s => (s, .ok s)
def setS (s' : State) : M Unit := fun _ => (s', .ok ())
def cim (c : Nat) : PyExc := .cimError c

/-- `snapshot = repo.snapshot(); try: m  except Exception: repo.restore(snapshot); raise` -/
def withRollback {α} (m : M α) : M α := fun s =>
  match m s with
  | (s', .ok a) => (s', .ok a)
  | (_, .error e) => (s, .error e)

/-- `try: m  except …: h e` (the handler sees the state at the raise) -/
def tryCatch {α} (m : M α) (h : PyExc → M α) : M α := fun s =>
  match m s with
  | (s', .ok a) => (s', .ok a)
  | (s', .error e) => h e s'

def forM_ {α} (f : α → M Unit) : List α → M Unit
  | [] => pure ()
  | x :: xs => do f x; forM_ f xs

/-! ### repository primitives -/

def findNs (s : State) (ns : Name) : Option NsRec := s.nss.find? (fun r => nameEq r.name ns)

/-- replace the record of namespace `ns` (the namespace dict entry keeps its position) -/
def putNs (s : State) (ns : Name) (r : NsRec) : State :=
  { s with nss := s.nss.map (fun x => if nameEq x.name ns then r else x) }

/-- mirrors _baseprovider.py: BaseProvider.validate_namespace -/
def validateNs (ns : Name) : M Unit := fun s =>
  match findNs s ns with
  | some _ => (s, .ok ())
  | none => (s, .error (cim cimErrInvalidNamespace))

/-- mirrors _inmemoryrepository.py: InMemoryRepository.get_*_store (KeyError when the namespace is missing) -/
def getNs (ns : Name) : M NsRec := fun s =>
  match findNs s ns with
  | some r => (s, .ok r)
  | none => (s, .error .keyError)

def findClass (r : NsRec) (n : Name) : Option ClassRec := r.classes.find? (fun c => nameEq c.name n)
def hasClass (r : NsRec) (n : Name) : Bool := (findClass r n).isSome
def findQual (r : NsRec) (n : Name) : Option QualDecl := r.quals.find? (fun q => nameEq q.name n)
def findInst (r : NsRec) (k : PKey) : Option InstRec := r.insts.find? (fun i => i.key == k)
def hasInst (r : NsRec) (k : PKey) : Bool := (findInst r k).isSome

/-- `class_store.create` -/
def classCreate (ns : Name) (c : ClassRec) : M Unit := do
  let r ← getNs ns
  if hasClass r c.name then raise .valueError
  else fun s => (putNs s ns { r with classes := r.classes ++ [c] }, .ok ())

/-- `class_store.update` -/
def classUpdate (ns : Name) (c : ClassRec) : M Unit := do
  let r ← getNs ns
  if !hasClass r c.name then raise .keyError
  else fun s => (putNs s ns { r with classes := r.classes.map (fun x => if nameEq x.name c.name then c else x) }, .ok ())

/-- `class_store.delete` -/
def classDelete (ns : Name) (n : Name) : M Unit := do
  let r ← getNs ns
  if !hasClass r n then raise .keyError
  else fun s => (putNs s ns { r with classes := r.classes.filter (fun x => !nameEq x.name n) }, .ok ())

def qualCreate (ns : Name) (q : QualDecl) : M Unit := do
  let r ← getNs ns
  if (findQual r q.name).isSome then raise .valueError
  else fun s => (putNs s ns { r with quals := r.quals ++ [q] }, .ok ())

def qualUpdate (ns : Name) (q : QualDecl) : M Unit := do
  let r ← getNs ns
  if (findQual r q.name).isNone then raise .keyError
  else fun s => (putNs s ns { r with quals := r.quals.map (fun x => if nameEq x.name q.name then q else x) }, .ok ())

def qualDelete (ns : Name) (n : Name) : M Unit := do
  let r ← getNs ns
  if (findQual r n).isNone then raise .keyError
  else fun s => (putNs s ns { r with quals := r.quals.filter (fun x => !nameEq x.name n) }, .ok ())

/-- the three instance-store writes as pure functions on one namespace record
    (`instance_store.create/update/delete`: ValueError / KeyError / KeyError) -/
def instCreateR (i : InstRec) (r : NsRec) : Except PyExc NsRec :=
  if hasInst r i.key then .error .valueError else .ok { r with insts := r.insts ++ [i] }

def instUpdateR (i : InstRec) (r : NsRec) : Except PyExc NsRec :=
  if !hasInst r i.key then .error .keyError
  else .ok { r with insts := r.insts.map (fun x => if x.key == i.key then { i with key := x.key } else x) }

def instDeleteR (k : PKey) (r : NsRec) : Except PyExc NsRec :=
  if !hasInst r k then .error .keyError
  else .ok { r with insts := r.insts.filter (fun x => !(x.key == k)) }

/-- apply a store write in namespace `ns` -/
def inNs (ns : Name) (w : NsRec → Except PyExc NsRec) : M Unit := fun s =>
  match findNs s ns with
  | none => (s, .error .keyError)
  | some r =>
    match w r with
    | .error e => (s, .error e)
    | .ok r' => (putNs s ns r', .ok ())

/-! ### namespaces -/

def interopNames : List Name := interopNamespaces.map String.toList

def isInterop (ns : Name) : Bool := nmem ns interopNames

def stripSlashes (n : Name) : Name :=
  ((n.dropWhile (· == '/')).reverse.dropWhile (· == '/')).reverse

/-- mirrors _baseprovider.py: BaseProvider.add_namespace (argument not None) -/
def addNamespace (ns0 : Name) : M Unit := do
  let ns := stripSlashes ns0
  let s ← getS
  if isInterop ns && s.nss.any (fun r => isInterop r.name) then raise (cim cimErrAlreadyExists)
  else if (findNs s ns).isSome then raise (cim cimErrAlreadyExists)
  else setS { s with nss := s.nss ++ [{ name := ns }] }

/-- mirrors _baseprovider.py: BaseProvider.remove_namespace -/
def removeNamespace (ns0 : Name) : M Unit := do
  let ns := stripSlashes ns0
  let s ← getS
  match findNs s ns with
  | none => raise (cim cimErrNotFound)
  | some r =>
    if isInterop ns then raise (cim cimErrInvalidNamespace)
    else if !(r.classes.isEmpty && r.quals.isEmpty && r.insts.isEmpty) then raise (cim cimErrNamespaceNotEmpty)
    else setS { s with nss := s.nss.filter (fun x => !nameEq x.name ns) }

/-! ### classes -/

def tyReference : Name := "reference".toList
def tyString : Name := "string".toList
def qAssociation : Name := "association".toList
def qIndication : Name := "indication".toList
def qKey : Name := "key".toList
def qEmbeddedInstance : Name := "embeddedinstance".toList
def scopeAny : Name := "any".toList

def hasQual (qs : List QualUse) (n : Name) : Bool := qs.any (fun q => nameEq q.name n)

def isAssocDef (c : ClassDef) : Bool := hasQual c.quals qAssociation
def isAssoc (c : ClassRec) : Bool := hasQual c.quals qAssociation

/-- the classes a property depends on: reference class, EmbeddedInstance class -/
def propDep (p : PropDef) : Option Name :=
  if p.ty == tyReference then p.ref
  else if p.ty == tyString then
    match p.quals.find? (fun q => nameEq q.name qEmbeddedInstance) with
    | some q => q.val
    | none => none
  else none

/-- mirrors _mainprovider.py: MainProvider._validate_dependencies_exist: the properties and the parameters of
    all methods -/
def depsOk (r : NsRec) (c : ClassDef) : Bool :=
  (c.props ++ c.methods.flatMap (·.params)).all (fun p =>
    match propDep p with
    | none => true
    | some d => nameEq d c.name || hasClass r d)

/-- mirrors _resolvermixin.py: _validate_qualifiers for one qualifier -/
def qualUseOk (r : NsRec) (scope : Name) (q : QualUse) : Bool :=
  match findQual r q.name with
  | none => false
  | some d => d.ty == q.ty && (nmem scope d.scopes || nmem scopeAny d.scopes)

def classScope (c : ClassDef) : Name :=
  if hasQual c.quals qAssociation then qAssociation
  else if hasQual c.quals qIndication then qIndication
  else "class".toList

def propScope (p : PropDef) : Name := if p.ty == tyReference then tyReference else "property".toList

def qOverride : Name := "override".toList

/-- value of the Override qualifier of a class element, if it has one -/
def overrideName (qs : List QualUse) : Option Name :=
  match qs.find? (fun q => nameEq q.name qOverride) with
  | some q => some (q.val.getD [])
  | none => none

def ownQuals (qs : List QualUse) : List QualUse := qs.map (fun q => { q with propagated := false })
def inheritedQuals (qs : List QualUse) : List QualUse := qs.map (fun q => { q with propagated := true })

/-- mirrors _resolvermixin.py: _resolve_qualifiers(propagate=True) for qualifier declarations with the default
    flavors (ToSubclass, EnableOverride - the only ones generated): the qualifiers of the overriding element stay,
    those of the overridden element that it does not repeat are copied as propagated -/
def mergeQuals (new inh : List QualUse) : List QualUse :=
  ownQuals new ++ inheritedQuals (inh.filter (fun iq => !hasQual new iq.name))

/-- mirrors _resolvermixin.py: _resolve_objects for one property of the new class -/
def resolveProp (cname : Name) (inherited : List PropRec) (p : PropDef) : Except PyExc PropRec :=
  match inherited.find? (fun ip => nameEq ip.d.name p.name) with
  | none => .ok { d := { p with quals := ownQuals p.quals }, origin := cname, propagated := false }
  | some _ =>
    match overrideName p.quals with
    | none => .error (cim cimErrInvalidParameter)      -- duplicates a superclass property without Override
    | some ovn =>
      if p.ty == tyReference && ovn != p.name then .error (cim cimErrInvalidParameter)
      else
        match inherited.find? (fun ip => nameEq ip.d.name ovn) with
        | none => .error (cim cimErrInvalidParameter)
        | some sp =>
          if sp.d.ty != p.ty || sp.d.isArr != p.isArr then .error (cim cimErrInvalidParameter)
          else .ok { d := { p with quals := mergeQuals p.quals sp.d.quals }, origin := sp.origin, propagated := true }

/-- the parameters of an overriding method after `_resolve_objects(new_obj.parameters, <parameters of the method of
    the same name in the superclass>)`: its own parameters (a parameter has no Override concept, no `propagated` and
    no `class_origin`; the generated ones carry no Override qualifier), followed by copies of the parameters of the
    overridden method that it omits, their qualifiers marked propagated -/
def mergeParams (new inh : List PropDef) : List PropDef :=
  new ++ (inh.filter (fun sp => !new.any (fun p => nameEq p.name sp.name))).map (fun sp =>
    { sp with quals := inheritedQuals sp.quals })

/-- mirrors _resolvermixin.py: _resolve_objects for one method of the new class -/
def resolveMethod (cname : Name) (inherited : List MethodRec) (m : MethodDef) : Except PyExc MethodRec :=
  match inherited.find? (fun im => nameEq im.d.name m.name) with
  | none => .ok { d := { m with quals := ownQuals m.quals }, origin := cname, propagated := false }
  | some same =>
    match overrideName m.quals with
    | none => .error (cim cimErrInvalidParameter)
    | some ovn =>
      match inherited.find? (fun im => nameEq im.d.name ovn) with
      | none => .error (cim cimErrInvalidParameter)
      | some sm =>
        if sm.d.retTy != m.retTy then .error (cim cimErrInvalidParameter)
        else .ok { d := { m with quals := mergeQuals m.quals sm.d.quals, params := mergeParams m.params same.d.params },
                   origin := sm.origin, propagated := true }

/-- mirrors _resolvermixin.py: ResolverMixin._resolve_class — the rejections in their order and the exposed
    properties and methods (those of the new class, then the inherited ones it does not redefine) -/
def resolveClass (r : NsRec) (c : ClassDef) : Except PyExc ClassRec :=
  let sup : Except PyExc (Option ClassRec) :=
    match c.super with
    | none => .ok none
    | some sn =>
      match findClass r sn with
      | none => .error (cim cimErrInvalidSuperclass)
      | some sc => .ok (some sc)
  match sup with
  | .error e => .error e
  | .ok sc =>
    if isAssocDef c && (match sc with | some k => !isAssoc k | none => false) then .error (cim cimErrInvalidParameter)
    else if !isAssocDef c && c.props.any (fun p => p.ty == tyReference) then .error (cim cimErrInvalidParameter)
    else if !(c.quals.all (qualUseOk r (classScope c))) then .error (cim cimErrInvalidParameter)
    else if !(c.props.all (fun p => p.quals.all (qualUseOk r (propScope p)))) then .error (cim cimErrInvalidParameter)
    else if !(c.methods.all (fun m => m.quals.all (qualUseOk r "method".toList) &&
                m.params.all (fun p => p.quals.all (qualUseOk r "parameter".toList)))) then
      .error (cim cimErrInvalidParameter)
    else
      let inhP : List PropRec := match sc with | some k => k.props | none => []
      let inhM : List MethodRec := match sc with | some k => k.methods | none => []
      match c.props.mapM (resolveProp c.name inhP) with
      | .error e => .error e
      | .ok own =>
        match c.methods.mapM (resolveMethod c.name inhM) with
        | .error e => .error e
        | .ok ownM =>
          let restP := (inhP.filter (fun ip => !c.props.any (fun p => nameEq p.name ip.d.name))).map (fun ip =>
            { ip with propagated := true, d := { ip.d with quals := inheritedQuals ip.d.quals } })
          let restM := (inhM.filter (fun im => !c.methods.any (fun m => nameEq m.name im.d.name))).map (fun im =>
            { im with propagated := true, d := { im.d with quals := inheritedQuals im.d.quals } })
          .ok { name := c.name, super := c.super, quals := ownQuals c.quals, props := own ++ restP,
                methods := ownM ++ restM }

def liftE {α} (x : Except PyExc α) : M α := fun s => (s, x)

/-- mirrors _mainprovider.py: MainProvider.CreateClass -/
def createClass (ns : Name) (c : ClassDef) : M Unit := do
  validateNs ns
  let r ← getNs ns
  if hasClass r c.name then raise (cim cimErrAlreadyExists)
  else if !depsOk r c then raise (cim cimErrInvalidParameter)
  else do
    let rc ← liftE (resolveClass r c)
    classCreate ns rc

/-- direct subclasses in store order: mirrors _get_subclass_names (deep_inheritance=False) -/
def directSubs (r : NsRec) (n : Name) : List Name :=
  (r.classes.filter (fun c => match c.super with | some s => nameEq s n | none => false)).map (·.name)

/-- mirrors _mainprovider.py: MainProvider._get_subclass_names (deep_inheritance=True): this level first,
    then the deeper levels (fuel = number of classes + 1 suffices for a forest) -/
def deepSubs (r : NsRec) : Nat → Name → List Name
  | 0, _ => []
  | fuel + 1, n =>
    let d := directSubs r n
    d ++ d.flatMap (deepSubs r fuel)

def subtree (r : NsRec) (n : Name) : List Name := deepSubs r (r.classes.length + 1) n ++ [n]

/-- mirrors _mainprovider.py: MainProvider.ModifyClass -/
def modifyClass (ns : Name) (c : ClassDef) : M Unit := do
  validateNs ns
  let r ← getNs ns
  match findClass r c.name with
  | none => raise (cim cimErrNotFound)
  | some orig =>
    if !(directSubs r c.name).isEmpty then raise (cim cimErrClassHasChildren)
    else if r.insts.any (fun i => nameEq i.path.cls c.name) then raise (cim cimErrClassHasInstances)
    else if (match c.super with | some sn => !hasClass r sn | none => false) then raise (cim cimErrInvalidSuperclass)
    else if c.super.isSome != orig.super.isSome then raise (cim cimErrInvalidSuperclass)
    else if (match c.super, orig.super with | some a, some b => !nameEq a b | _, _ => false) then
      raise (cim cimErrInvalidSuperclass)
    else if !depsOk r c then raise (cim cimErrInvalidParameter)
    else do
      let rc ← liftE (resolveClass r c)
      classUpdate ns rc

/-! ### instances -/

def findPropDecl (c : ClassRec) (n : Name) : Option PropRec := c.props.find? (fun p => nameEq p.d.name n)
def findPropV (ps : List PropV) (n : Name) : Option PropV := ps.find? (fun p => nameEq p.name n)

def isKeyProp (p : PropRec) : Bool := hasQual p.d.quals qKey

/-- mirrors _providerdispatcher.py: ProviderDispatcher._validate_property (no embedded objects) -/
def validProp (c : ClassRec) (p : PropV) : Bool :=
  match findPropDecl c p.name with
  | none => false
  | some d => d.d.ty == p.ty && d.d.isArr == p.isArr

def adjustNames (c : ClassRec) (ps : List PropV) : List PropV :=
  ps.map (fun p => match findPropDecl c p.name with | some d => { p with name := d.d.name } | none => p)

/-- mirrors _cim_obj.py: CIMInstanceName.from_instance(strict=True) wrapped as in create_new_instance_path /
    create_multi_namespace_instance: ValueError (missing key property, NULL key value) → CIM_ERR_INVALID_PARAMETER.
    The result is the keybinding list (class property order, class lexical case). -/
def keyBindings (c : ClassRec) (ps : List PropV) : Except PyExc (List (Name × Val)) :=
  (c.props.filter isKeyProp).mapM (fun d =>
    match findPropV ps d.d.name with
    | none => .error (cim cimErrInvalidParameter)
    | some p => if p.val == .null then .error (cim cimErrInvalidParameter) else .ok (d.d.name, p.val))

def refProps (ps : List PropV) : List PropV := ps.filter (fun p => p.ty == tyReference)

/-- mirrors _instancewriteprovider.py: validate_reference_property_endpoint_exists (value not None) -/
def endpointOk (p : Path0) : M Unit := do
  if p.host.isSome then raise (cim cimErrInvalidParameter)
  else match p.ns with
    | none => raise (cim cimErrInvalidParameter)    -- "does not specify a namespace"
    | some ns =>
      let s ← getS
      match findNs s ns with
      | none => raise (cim cimErrInvalidParameter)
      | some r => if hasInst r (path0Key p ns) then pure () else raise (cim cimErrInvalidParameter)

/-- mirrors _instancewriteprovider.py: find_multins_association_ref_namespaces (after the fixes: namespace names
    compare case-insensitively, first occurrence kept; a NULL reference names no namespace). -/
def multiNsAux (target : Name) : List PropV → List Name → Except PyExc (List Name)
  | [], acc => .ok acc
  | p :: ps, acc =>
    match p.val with
    | .ref q =>
      match q.ns with
      | none => .error .assertionError
      | some n =>
        if !n.isEmpty && !nameEq n target && !nmem n acc then multiNsAux target ps (acc ++ [n])
        else multiNsAux target ps acc
    | .null => multiNsAux target ps acc
    | .sc _ => .error .attributeError

def multiNs (ps : List PropV) (target : Name) : Except PyExc (List Name) := multiNsAux target (refProps ps) []

/-- the ORIGINAL find_multins_association_ref_namespaces: a Python `set` of the namespace strings that differ
    (case-sensitively) from the target namespace.  Kept to state what the fix repairs
    (`C11.case_sensitive_multins_not_atomic`). -/
def multiNsOrigAux (target : Name) : List PropV → List Name → Except PyExc (List Name)
  | [], acc => .ok acc
  | p :: ps, acc =>
    match p.val with
    | .ref q =>
      match q.ns with
      | none => .error .assertionError
      | some n =>
        if !n.isEmpty && n != target && !acc.contains n then multiNsOrigAux target ps (acc ++ [n])
        else multiNsOrigAux target ps acc
    | _ => .error .attributeError

def mkInstRec (ns : Name) (cls : Name) (keys : List (Name × Val)) (icls : Name) (props : List PropV) : InstRec :=
  { key := mkKey ns cls keys, path := { cls := cls, ns := some ns, keys := keys }, cls := icls, props := props }

/-- `for ns in assoc_namespaces: get_required_class(instance, ns)`: KeyError for a namespace that does not
    exist (get_class_store), CIM_ERR_INVALID_CLASS for a namespace without the class; first failure wins -/
def requireClassAll (s : State) (cls : Name) : List Name → Option PyExc
  | [] => none
  | n :: rest =>
    match findNs s n with
    | none => some .keyError
    | some r => if hasClass r cls then requireClassAll s cls rest else some (cim cimErrInvalidClass)

/-- mirrors _instancewriteprovider.py: create_multi_namespace_instance (nss = other namespaces ++ [orig]) -/
def createMulti (nss : List Name) (orig : Name) (i : Inst) : M Unit := do
  let s ← getS
  -- the class must exist in every namespace
  match requireClassAll s i.cls nss with
  | some e => raise e
  | none =>
    let ro ← getNs orig
    match findClass ro i.cls with
    | none => raise (cim cimErrInvalidClass)
    | some cc => do
      let keys ← liftE (keyBindings cc i.props)
      -- the new instance must not exist in any of the namespaces
      if nss.any (fun n => match findNs s n with | some r => hasInst r (mkKey n cc.name keys) | none => false) then
        raise (cim cimErrAlreadyExists)
      else
        forM_ (fun n => inNs n (instCreateR (mkInstRec n cc.name keys i.cls i.props))) nss

/-- `create_new_instance_path` + `add_new_instance` (ValueError of the store → CIM_ERR_ALREADY_EXISTS) -/
def createSingle (ns : Name) (cc : ClassRec) (i : Inst) : M Unit := do
  let keys ← liftE (keyBindings cc i.props)
  inNs ns (fun r => match instCreateR (mkInstRec ns cc.name keys i.cls i.props) r with
                    | .error .valueError => .error (cim cimErrAlreadyExists) | x => x)

/-- mirrors _instancewriteprovider.py: InstanceWriteProvider.CreateInstance -/
def createProvider (ns : Name) (cc : ClassRec) (i : Inst) : M Unit :=
  if isAssoc cc then do
    forM_ (fun p => match p.val with | .ref q => endpointOk q | _ => pure ()) (refProps i.props)
    let others ← liftE (multiNs i.props ns)
    if !others.isEmpty then createMulti (others ++ [ns]) ns i
    else createSingle ns cc i
  else createSingle ns cc i

/-! ### the CIM_Namespace provider (namespaces as instances of CIM_Namespace in the Interop namespace) -/

def nsClassName : Name := namespaceClassname.toList
def pnName : Name := "Name".toList
def pnCreationClassName : Name := "CreationClassName".toList

/-- mirrors _providerregistry.py: ProviderRegistry.get_registered_provider for 'instance-write': the
    CIM_Namespace provider answers for class CIM_Namespace in the namespaces it was registered for -/
def usesNsProvider (s : State) (ns cls : Name) : Bool := nmem ns s.nsProv && nameEq cls nsClassName

/-- the `else` branch of CIMNamespaceProvider.CreateInstance: an instance of CIM_Namespace (this class only) in the
    Interop namespace whose `Name` keybinding names the namespace (after the fix of `_get_instances`) -/
def nsInstExists (r : NsRec) (newNs : Name) : Bool :=
  r.insts.any (fun x => nameEq x.path.cls nsClassName &&
    (match x.path.keys.find? (fun e => nameEq e.1 pnName) with
     | some (_, .sc (.str v)) => nameEq v newNs
     | _ => false))

/-- `self.cimrepository.remove_namespace(new_namespace)` of the compensation (the namespace was just added) -/
def dropNamespace (ns : Name) : M Unit := fun s =>
  ({ s with nss := s.nss.filter (fun x => !nameEq x.name ns) }, .ok ())

/-- "Create the new namespace in the CIM repository, if needed", else reject a second CIM_Namespace instance for
    an existing namespace -/
def nsProvPrepare (ns newNs : Name) (added : Bool) : M Unit :=
  if added then addNamespace newNs
  else getNs ns >>= fun r => if nsInstExists r newNs then raise (cim cimErrInvalidParameter) else pure ()

/-- `try: return super().CreateInstance(...) except Exception: if namespace_added: remove it; raise` -/
def nsProvFinish (ns : Name) (cc : ClassRec) (i : Inst) (newNs : Name) (added : Bool) : M Unit :=
  tryCatch (createProvider ns cc i) (fun e =>
    (if added then dropNamespace newNs else pure ()) >>= fun _ => raise e)

/-- mirrors _namespaceprovider.py: CIMNamespaceProvider.CreateInstance (after the fixes: the namespace added is
    removed again when the creation of the instance fails with ANY exception).  `i` has passed the dispatcher. -/
def nsProvCreate (ns : Name) (cc : ClassRec) (i : Inst) : M Unit := do
  if !isInterop ns then raise (cim cimErrInvalidParameter)
  else
    match findPropV i.props pnName, findPropV i.props pnCreationClassName with
    | none, _ => raise (cim cimErrInvalidParameter)
    | _, none => raise (cim cimErrInvalidParameter)
    | some pn, some pc =>
      match pn.val with
      | .sc (.str raw) =>
        let newNs := stripSlashes raw
        -- `new_instance['Name'] = new_namespace`: a new string property under the literal name 'Name'
        let props := i.props.map (fun p =>
          if nameEq p.name pnName then ({ name := pnName, ty := tyString, isArr := false, val := .sc (.str newNs) } : PropV)
          else p)
        match pc.val with
        | .sc (.str ccn) =>
          if !nameEq ccn i.cls then raise (cim cimErrInvalidParameter)
          else
            getS >>= fun s =>
              nsProvPrepare ns newNs (findNs s newNs).isNone >>= fun _ =>
                nsProvFinish ns cc { i with props := props } newNs (findNs s newNs).isNone
        | _ => raise .attributeError                -- `None.lower()` / `Uint32.lower()`
      | _ => raise .attributeError                  -- `None.strip('/')`

/-- mirrors _namespaceprovider.py: CIMNamespaceProvider.DeleteInstance (`k` = dict key of the stored instance,
    `p` = the request path whose `Name` keybinding names the namespace) -/
def nsProvDelete (ns : Name) (p : Path) (k : PKey) : M Unit := do
  match p.keys.find? (fun e => nameEq e.1 pnName) with
  | some (_, .sc (.str target)) =>
    if isInterop target then raise (cim cimErrInvalidParameter)
    else removeNamespace target >>= fun _ => inNs ns (instDeleteR k)
  | some _ => raise .typeError                      -- `namespace in NocaseList` / `.strip` on a non-string
  | none => raise .keyError

/-! ### user-defined providers -/

def findUserProv (s : State) (ns cls : Name) : Option UserProv :=
  s.userProvs.find? (fun u => nameEq u.ns ns && nameEq u.cls cls)

def strOf : Val → Option Name
  | .sc (.str v) => some v
  | _ => none

def triggered (rej : List Name) (v : Option Val) : Bool :=
  match v.bind strOf with
  | some x => rej.contains x
  | none => false

/-- the provider's CreateInstance: reject, else `super().CreateInstance(namespace, new_instance)` -/
def userProvCreate (u : UserProv) (ns : Name) (cc : ClassRec) (i : Inst) : M Unit :=
  if triggered u.rejCreate ((findPropV i.props u.trigger).map (·.val)) then raise u.exc
  else createProvider ns cc i

def keyOf (keys : List (Name × Val)) (n : Name) : Option Val := (keys.find? (fun e => nameEq e.1 n)).map (·.2)

/-- mirrors _providerdispatcher.py: ProviderDispatcher.CreateInstance (then the registered or the default provider) -/
def createInstance (ns : Name) (i0 : Inst) : M Unit := do
  validateNs ns
  let r ← getNs ns
  match findClass r i0.cls with
  | none => raise (cim cimErrInvalidClass)
  | some cc =>
    if !(i0.props.all (validProp cc)) then raise (cim cimErrInvalidParameter)
    else do
      let s ← getS
      if usesNsProvider s ns i0.cls then nsProvCreate ns cc { i0 with props := adjustNames cc i0.props }
      else match findUserProv s ns i0.cls with
        | some u => userProvCreate u ns cc { i0 with props := adjustNames cc i0.props }
        | none => createProvider ns cc { i0 with props := adjustNames cc i0.props }

/-- `CIMInstance.update(properties)`: replace existing (NocaseDict keeps the old key's position, new name),
    append new -/
def updateProps (old new : List PropV) : List PropV :=
  new.foldl (fun acc p =>
    if (findPropV acc p.name).isSome then acc.map (fun x => if nameEq x.name p.name then p else x)
    else acc ++ [p]) old

/-- mirrors _instancewriteprovider.py: modify_multi_namespace_instance (every namespace gets its own copy of the
    instance with the path of that namespace; the dict keys keep theirs) -/
def modifyMulti (nss : List Name) (rec : InstRec) : M Unit := do
  let s ← getS
  match requireClassAll s rec.cls nss with
  | some e => raise e
  | none =>
  if nss.any (fun n => match findNs s n with
                            | some r => !hasInst r { rec.key with ns := lower n } | none => true) then
    raise (cim cimErrNotFound)
  else
    forM_ (fun n => inNs n (instUpdateR { rec with key := { rec.key with ns := lower n },
                                                   path := { rec.path with ns := some n } })) nss

/-- does the modified value differ from the stored one (`prop.value != original_instance[pn]`) -/
def valueChanged (stored : InstRec) (pv : PropV) : Bool :=
  match findPropV stored.props pv.name with
  | some sp => normVal sp.val != normVal pv.val
  | none => true

/-- the reference checks of InstanceWriteProvider.ModifyInstance for one reference property -/
def modifyRefCheck (stored : InstRec) (pv : PropV) : M Unit :=
  match pv.val with
  | .null => raise (cim cimErrInvalidParameter)
  | .ref q => if valueChanged stored pv then endpointOk q else pure ()
  | _ => pure ()

/-- delete the copy of the instance in one namespace if it is (still) there -/
def instDeleteIfPresentR (k : PKey) (r : NsRec) : Except PyExc NsRec :=
  if hasInst r k then instDeleteR k r else .ok r

/-- the write phase of ModifyInstance for an association: update in all (new) namespaces, or in the request
    namespace only -/
def modifyWrite (ns : Name) (stored rec' : InstRec) (others : List Name) : M Unit :=
  if !others.isEmpty then
    -- the namespace appended last is the one of the STORED path (`original_instance.path.namespace`)
    modifyMulti (others ++ [stored.path.ns.getD ns]) rec'
  else inNs ns (instUpdateR rec')

/-- "Remove the copies of the instance in the namespaces that its reference properties no longer name" -/
def dropStale (stored : InstRec) (stale : List Name) : M Unit :=
  forM_ (fun n => inNs n (instDeleteIfPresentR { stored.key with ns := lower n })) stale

/-- mirrors _instancewriteprovider.py: InstanceWriteProvider.ModifyInstance (after the fixes: the copies in
    namespaces that the modified reference properties no longer name are removed, and the stores of those
    namespaces are looked up - KeyError - before anything is modified) -/
def modifyProvider (ns : Name) (cc : ClassRec) (stored : InstRec) (props : List PropV) : M Unit :=
  let rec' : InstRec := { stored with props := updateProps stored.props props }
  if isAssoc cc then
    forM_ (modifyRefCheck stored) (refProps props) >>= fun _ =>
    liftE (multiNs stored.props ns) >>= fun old =>
    liftE (multiNs rec'.props ns) >>= fun others =>
    getS >>= fun s =>
      if (old.filter (fun n => !nmem n others)).any (fun n => (findNs s n).isNone) then raise .keyError
      else modifyWrite ns stored rec' others >>= fun _ => dropStale stored (old.filter (fun n => !nmem n others))
  else inNs ns (instUpdateR rec')

/-- `property_list`: the names of PropertyList without (case-insensitive) duplicates, first occurrence kept -/
def dedupNames : List Name → List Name → List Name
  | [], acc => acc
  | n :: rest, acc => if nmem n acc then dedupNames rest acc else dedupNames rest (acc ++ [n])

/-- "Add class default values for properties not specified in ModifiedInstance": for each name of the property
    list that the modified instance lacks, a property built from the class declaration with value NULL (the
    modelled classes declare no default values).  A key property cannot be defaulted: NULL differs from the stored
    key value (CIM_ERR_INVALID_PARAMETER); KeyError when the stored instance lacks the property (`instance[pn]`). -/
def addDefaults (cc : ClassRec) (stored : InstRec) : List Name → List PropV → Except PyExc (List PropV)
  | [], acc => .ok acc
  | pn :: rest, acc =>
    if (findPropV acc pn).isSome then addDefaults cc stored rest acc
    else
      match findPropDecl cc pn with
      | none => .error .keyError
      | some d =>
        if isKeyProp d then
          match findPropV stored.props pn with
          | none => .error .keyError
          | some sp => if sp.val == .null then
                         addDefaults cc stored rest (acc ++ [{ name := d.d.name, ty := d.d.ty, isArr := d.d.isArr, val := .null }])
                       else .error (cim cimErrInvalidParameter)
        else addDefaults cc stored rest (acc ++ [{ name := d.d.name, ty := d.d.ty, isArr := d.d.isArr, val := .null }])

/-- "Reduce modified_instance to have just the properties to be modified" -/
def applyPropertyList (cc : ClassRec) (stored : InstRec) (pl : Option (List Name)) (props : List PropV) :
    Except PyExc (List PropV) :=
  match pl with
  | none => .ok props
  | some l =>
    match addDefaults cc stored (dedupNames l []) props with
    | .error e => .error e
    | .ok ps => .ok (ps.filter (fun p => nmem p.name l))

/-- mirrors ProviderDispatcher.ModifyInstance (with PropertyList), then the registered or the default provider -/
def modifyInstance (ns : Name) (p : Path) (i0 : Inst) (pl : Option (List Name) := none) : M Unit := do
  if !nameEq i0.cls p.cls then raise (cim cimErrInvalidParameter)
  else do
    validateNs ns
    let r ← getNs ns
    match findClass r i0.cls with
    | none => raise (cim cimErrInvalidClass)
    | some cc =>
      match findInst r (mkKey ns p.cls p.keys) with
      | none => raise (cim cimErrNotFound)
      | some stored =>
        if (match pl with | some l => l.any (fun pn => (findPropDecl cc pn).isNone) | none => false) then
          raise (cim cimErrInvalidParameter)
        else if !(i0.props.all (fun pv => validProp cc pv &&
              !((match findPropDecl cc pv.name with | some d => isKeyProp d | none => false) &&
                valueChanged stored pv))) then
          raise (cim cimErrInvalidParameter)
        else do
          let props ← liftE (applyPropertyList cc stored pl i0.props)
          let s ← getS
          if usesNsProvider s ns i0.cls then raise (cim cimErrNotSupported)   -- CIMNamespaceProvider.ModifyInstance
          else match findUserProv s ns i0.cls with
            | some u =>
              if triggered u.rejModify (keyOf p.keys u.trigger) then raise u.exc
              else modifyProvider ns cc stored (adjustNames cc props)
            | none => modifyProvider ns cc stored (adjustNames cc props)

/-- the multi-namespace branch of InstanceWriteProvider.DeleteInstance (after the fixes: the instance stores of
    ALL namespaces are looked up first - KeyError for a namespace that does not exist - and a copy that is already
    gone is skipped) -/
def deleteMulti (nss : List Name) (k : PKey) : M Unit := do
  let s ← getS
  if nss.any (fun n => (findNs s n).isNone) then raise .keyError
  else forM_ (fun n => inNs n (instDeleteIfPresentR { k with ns := lower n })) nss

/-- mirrors _instancewriteprovider.py: InstanceWriteProvider.DeleteInstance -/
def deleteProvider (ns : Name) (cc : ClassRec) (stored : InstRec) (k : PKey) : M Unit :=
  if !isAssoc cc then inNs ns (instDeleteR k)
  else do
    let others ← liftE (multiNs stored.props ns)
    if others.isEmpty then inNs ns (instDeleteR k)
    else deleteMulti (others ++ [ns]) k

/-- mirrors ProviderDispatcher.DeleteInstance, then the default provider -/
def deleteInstance (ns : Name) (p : Path) : M Unit := do
  validateNs ns
  let r ← getNs ns
  match findClass r p.cls with
  | none => raise (cim cimErrInvalidClass)
  | some cc =>
    match findInst r (mkKey ns p.cls p.keys) with
    | none => raise (cim cimErrNotFound)
    | some stored => do
      let s ← getS
      if usesNsProvider s ns p.cls then nsProvDelete ns p (mkKey ns p.cls p.keys)
      else match findUserProv s ns p.cls with
        | some u =>
          if triggered u.rejDelete (keyOf p.keys u.trigger) then raise u.exc
          else deleteProvider ns cc stored (mkKey ns p.cls p.keys)
        | none => deleteProvider ns cc stored (mkKey ns p.cls p.keys)

/-- mirrors _mainprovider.py: MainProvider.DeleteClass (after the fix: the deletion loop is guarded by
    snapshot/restore) -/
def deleteClass (ns : Name) (n : Name) : M Unit := do
  validateNs ns
  let r ← getNs ns
  if !hasClass r n then raise (cim cimErrNotFound)
  else
    withRollback (forM_ (fun cl => do
      let rc ← getNs ns
      if !hasClass rc n then raise (cim cimErrInvalidClass)
      else do
        let sub := subtree rc n
        let paths := (rc.insts.filter (fun i => nmem i.path.cls sub)).map (·.path)
        forM_ (fun (p : Path) => deleteInstance (p.ns.getD ns) p) paths
        classDelete ns cl) (subtree r n))

/-- the ORIGINAL MainProvider.DeleteClass: the same loop without snapshot/restore (kept to state what the fix repairs:
    `C11.deleteClass_without_restore_not_atomic`) -/
def deleteClassNoRestore (ns : Name) (n : Name) : M Unit := do
  validateNs ns
  let r ← getNs ns
  if !hasClass r n then raise (cim cimErrNotFound)
  else
    forM_ (fun cl => do
      let rc ← getNs ns
      if !hasClass rc n then raise (cim cimErrInvalidClass)
      else do
        let sub := subtree rc n
        let paths := (rc.insts.filter (fun i => nmem i.path.cls sub)).map (·.path)
        forM_ (fun (p : Path) => deleteInstance (p.ns.getD ns) p) paths
        classDelete ns cl) (subtree r n)

/-! ### qualifier declarations -/

/-- mirrors _mainprovider.py: MainProvider.SetQualifier -/
def setQualifier (ns : Name) (q : QualDecl) : M Unit := do
  validateNs ns
  tryCatch (qualCreate ns q) (fun e => if e = .valueError then qualUpdate ns q else raise e)

def classUsesQual (c : ClassRec) (n : Name) : Bool :=
  hasQual c.quals n || c.props.any (fun p => hasQual p.d.quals n) ||
    c.methods.any (fun m => hasQual m.d.quals n || m.d.params.any (fun p => hasQual p.quals n))

/-- mirrors _mainprovider.py: MainProvider.DeleteQualifier -/
def deleteQualifier (ns : Name) (n : Name) : M Unit := do
  validateNs ns
  let r ← getNs ns
  if (findQual r n).isSome then
    if r.classes.any (fun c => classUsesQual c n) then raise (cim cimErrFailed)
    else qualDelete ns n
  else raise (cim cimErrNotFound)

/-! ### batches -/

inductive Obj where
  | cls (c : ClassDef)
  | inst (p : Option Path) (i : Inst)
  | qual (q : QualDecl)
  | bad                               -- an object of another type: `assert False`
  deriving Repr, Inhabited

/-- mirrors _wbemconnection_mock.py: FakedWBEMConnection.add_cimobjects for ONE object (namespace validated) -/
def addObject (ns : Name) : Obj → M Unit
  | .cls c => do
    let r ← getNs ns
    if (match c.super with | some sn => !hasClass r sn | none => false) then raise .valueError
    else do
      let rc ← liftE (resolveClass r c)
      classCreate ns rc
  | .inst p i =>
    match p with
    | none => raise .valueError
    | some p =>
      let pns := p.ns.getD ns
      inNs ns (instCreateR { key := mkKey pns p.cls p.keys, path := { p with ns := some pns },
                             cls := i.cls, props := i.props })
  | .qual q => qualCreate ns q
  | .bad => raise .assertionError

/-- the list form WITHOUT the snapshot/restore of the fix: the plain fold of the original code
    (kept to state what the fix repairs: `C11.fold_without_restore_not_atomic`) -/
def addObjectsNoRestore (ns : Name) (objs : List Obj) : M Unit := do
  validateNs ns
  forM_ (addObject ns) objs

/-- mirrors FakedWBEMConnection.add_cimobjects(list) -/
def addObjects (ns : Name) (objs : List Obj) : M Unit := do
  validateNs ns
  withRollback (forM_ (fun o => do validateNs ns; addObject ns o) objs)

inductive Prod where
  | cls (c : ClassDef)
  | inst (i : Inst)
  | qual (q : QualDecl)
  | syntaxError                       -- MOF text the parser rejects at this production
  | missingInclude                    -- `#pragma include ("file")` naming a file that does not exist: OSError,
                                      -- an exception that is NOT a pywbem.Error
  deriving Repr, Inhabited

def isDepCode (c : Nat) : Bool :=
  c == cimErrInvalidSuperclass || c == cimErrInvalidParameter || c == cimErrNotFound || c == cimErrFailed

/-- mirrors _mof_compiler.py: p_mp_createClass over _MockMOFWBEMConnection.CreateClass (no search path):
    missing superclass / dependency → MOFDependencyError; ALREADY_EXISTS → ModifyClass; other CIMError →
    MOFRepositoryError -/
def mofClass (ns : Name) (c : ClassDef) : M Unit := do
  let r ← getNs ns
  if (match c.super with | some sn => !hasClass r sn | none => false) then raise .mofDependencyError
  else if !depsOk r c then raise .mofDependencyError
  else
    tryCatch (createClass ns c) (fun e =>
      match e with
      | .cimError code =>
        if code == cimErrAlreadyExists then
          tryCatch (modifyClass ns c) (fun e2 =>
            match e2 with
            | .cimError _ => raise .mofRepositoryError
            | x => raise x)
        else if isDepCode code then raise .mofDependencyError
        else raise .mofRepositoryError
      | x => raise x)

/-- mirrors p_instanceDeclaration + p_mp_createInstance over _MockMOFWBEMConnection.CreateInstance -/
def mofInst (ns : Name) (i : Inst) : M Unit := do
  let r ← getNs ns
  match findClass r i.cls with
  | none => raise .mofDependencyError
  | some cc =>
    if !(i.props.all (fun p => (findPropDecl cc p.name).isSome)) then raise .mofDependencyError
    else if (cc.props.filter isKeyProp).any (fun d => (findPropV i.props d.d.name).isNone) then
      raise .mofRepositoryError
    else
      tryCatch (createInstance ns i) (fun e =>
        match e with
        | .cimError code =>
          if code == cimErrAlreadyExists then
            match keyBindings cc i.props with
            | .error _ => raise .mofRepositoryError
            | .ok keys =>
              tryCatch (modifyInstance ns { cls := cc.name, ns := some ns, keys := keys } i) (fun e2 =>
                match e2 with
                | .cimError _ => raise .mofRepositoryError
                | x => raise x)
          else raise .mofRepositoryError
        | x => raise x)

def mofProd (ns : Name) : Prod → M Unit
  | .cls c => mofClass ns c
  | .inst i => mofInst ns i
  | .qual q => setQualifier ns q
  | .syntaxError => raise .mofParseError
  | .missingInclude => raise .osError

/-- the compile WITHOUT the snapshot/restore of the fix (original code) -/
def compileMofNoRestore (ns : Name) (ps : List Prod) : M Unit := do
  validateNs ns
  forM_ (mofProd ns) ps

/-! #### compiler directives: `#pragma namespace`, `#pragma include`

mirrors _mof_compiler.py: p_compilerDirective, MOFCompiler.compile_file / compile_string (the target namespace is a
field of the parser: an include file starts in the current target namespace and a `#pragma namespace` inside it stays in
effect after the include returns). -/

inductive MofItem where
  | prod (p : Prod)
  | pragmaNamespace (ns : Name)       -- `#pragma namespace ("ns")`
  | badPragmaNamespace                -- `#pragma namespace ("//host/ns")`: MOFParseError
  | otherPragma                       -- any other pragma: ignored
  | include (items : List MofItem)    -- `#pragma include ("file")` of an existing file with these productions
  deriving Inhabited

/-- one production in the current target namespace.  When that namespace does not exist the compiler asks
    `WBEMServer.create_namespace` to create it, which fails with ModelError on a mock without the server classes
    (K only generates this when there is no Interop namespace; a full mock server is covered by probes); an instance
    production fails earlier with MOFRepositoryError (GetClass answers CIM_ERR_INVALID_NAMESPACE). -/
def mofProdIn (ns : Name) (p : Prod) : M Unit := fun s =>
  match findNs s ns with
  | some _ => mofProd ns p s
  | none =>
    match p with
    | .cls _ => (s, .error .modelError)
    | .qual _ => (s, .error .modelError)
    | .inst _ => (s, .error .mofRepositoryError)
    | .syntaxError => (s, .error .mofParseError)
    | .missingInclude => (s, .error .osError)

mutual
/-- result: the target namespace after the item -/
def mofItem (ns : Name) : MofItem → M Name
  | .prod p => mofProdIn ns p >>= fun _ => pure ns
  | .pragmaNamespace n => pure n
  | .badPragmaNamespace => raise .mofParseError
  | .otherPragma => pure ns
  | .include items => mofItems ns items
def mofItems (ns : Name) : List MofItem → M Name
  | [] => pure ns
  | x :: xs => mofItem ns x >>= fun ns' => mofItems ns' xs
end

/-- compile with directives WITHOUT the snapshot/restore of the fix (original code) -/
def compileMofItemsNoRestore (ns : Name) (items : List MofItem) : M Unit :=
  validateNs ns >>= fun _ => mofItems ns items >>= fun _ => pure ()

/-- mirrors FakedWBEMConnection.compile_mof_string / compile_mof_file for MOF with compiler directives -/
def compileMofItems (ns : Name) (items : List MofItem) : M Unit :=
  validateNs ns >>= fun _ => withRollback (mofItems ns items >>= fun _ => pure ())

/-! #### compile_schema_classes: a list of schema pragma files -/

/-- one schema pragma file as far as `compile_schema_classes(class_names, [files…])` looks at it: either it does not
    list one of the requested classes (`build_schema_mof` raises ValueError before anything is compiled), or the
    include pragmas it lists for them pull in class files with these productions -/
inductive SchemaFile where
  | notListed
  | items (is : List MofItem)
  deriving Inhabited

/-- the body of the loop: `build_schema_mof(...)`, then `self.compile_mof_string(compile_pragma, namespace, …)`
    (which validates the namespace and restores its own snapshot when it fails) -/
def compileSchemaFile (ns : Name) : SchemaFile → M Unit
  | .notListed => raise .valueError
  | .items is => compileMofItems ns is

/-- mirrors FakedWBEMConnection.compile_schema_classes: ONE snapshot around the loop over the pragma files (in
    addition to the one each compile_mof_string call takes) -/
def compileSchemaClasses (ns : Name) (files : List SchemaFile) : M Unit :=
  withRollback (forM_ (compileSchemaFile ns) files)

/-- compile_schema_classes with only the per-file restore (what a snapshot taken INSIDE the loop amounts to): kept to
    state why the outer snapshot is needed (`C11.compileSchemaClasses_per_file_restore_not_atomic`) -/
def compileSchemaClassesPerFileRestore (ns : Name) (files : List SchemaFile) : M Unit :=
  forM_ (compileSchemaFile ns) files

/-- mirrors FakedWBEMConnection.compile_mof_string (MOF without compiler directives) -/
def compileMof (ns : Name) (ps : List Prod) : M Unit := compileMofItems ns (ps.map MofItem.prod)

/-! ### operations and histories -/

inductive Op where
  | createClass (ns : Name) (c : ClassDef)
  | modifyClass (ns : Name) (c : ClassDef)
  | deleteClass (ns : Name) (n : Name)
  | setQualifier (ns : Name) (q : QualDecl)
  | deleteQualifier (ns : Name) (n : Name)
  | createInstance (ns : Name) (i : Inst)
  | modifyInstance (ns : Name) (p : Path) (i : Inst) (pl : Option (List Name))
  | deleteInstance (ns : Name) (p : Path)
  | addNamespace (ns : Name)
  | removeNamespace (ns : Name)
  | addObjects (ns : Name) (objs : List Obj)
  | addObject (ns : Name) (o : Obj)
  | compileMof (ns : Name) (ps : List Prod)
  | compileMofItems (ns : Name) (items : List MofItem)
  | compileSchemaClasses (ns : Name) (files : List SchemaFile)
  deriving Inhabited

def Op.run : Op → M Unit
  | .createClass ns c => Atomic.createClass ns c
  | .modifyClass ns c => Atomic.modifyClass ns c
  | .deleteClass ns n => Atomic.deleteClass ns n
  | .setQualifier ns q => Atomic.setQualifier ns q
  | .deleteQualifier ns n => Atomic.deleteQualifier ns n
  | .createInstance ns i => Atomic.createInstance ns i
  | .modifyInstance ns p i pl => Atomic.modifyInstance ns p i pl
  | .deleteInstance ns p => Atomic.deleteInstance ns p
  | .addNamespace ns => Atomic.addNamespace ns
  | .removeNamespace ns => Atomic.removeNamespace ns
  | .addObjects ns objs => Atomic.addObjects ns objs
  | .addObject ns o => do validateNs ns; Atomic.addObject ns o
  | .compileMof ns ps => Atomic.compileMof ns ps
  | .compileMofItems ns items => Atomic.compileMofItems ns items
  | .compileSchemaClasses ns files => Atomic.compileSchemaClasses ns files

/-- one step of a history: new state and the outcome (`none` = returned normally) -/
def step (s : State) (op : Op) : State × Option PyExc :=
  match op.run s with
  | (s', .ok _) => (s', none)
  | (s', .error e) => (s', some e)

def runOps (s : State) : List Op → List (State × Option PyExc)
  | [] => []
  | op :: ops => let r := step s op; r :: runOps r.1 ops

/-! ### histories with set-up commands that are not entry points of the property -/

def fixedNsProps : List (Name × Name) :=
  [(pnName, []), (pnCreationClassName, nsClassName),
   ("ObjectManagerName".toList, objectManagerName.toList),
   ("ObjectManagerCreationClassName".toList, objectManagerCreationClassName.toList),
   ("SystemName".toList, systemName.toList),
   ("SystemCreationClassName".toList, systemCreationClassName.toList)]

/-- mirrors _namespaceprovider.py: CIMNamespaceProvider.create_cimnamespace_instance: `CIMInstance.from_class` with
    the fixed property values (pywbem_mock/config.py), every other property of the class NULL -/
def nsInstanceFor (cc : ClassRec) (target : Name) : Inst :=
  { cls := cc.name,
    props := cc.props.map (fun d =>
      { name := d.d.name, ty := d.d.ty, isArr := d.d.isArr,
        val := if nameEq d.d.name pnName then .sc (.str target)
               else match fixedNsProps.find? (fun e => nameEq e.1 d.d.name) with
                    | some (_, v) => .sc (.str v)
                    | none => .null }) }

/-- mirrors FakedWBEMConnection.register_provider(CIMNamespaceProvider(...), namespaces=[interop]) incl.
    post_register_setup: a CIM_Namespace instance is created (through CreateInstance, i.e. through the provider) for
    every namespace of the repository that has none.  Not an entry point of the property: no atomicity is claimed. -/
def installNsProvider (interop : Name) : M Unit := do
  validateNs interop
  let r ← getNs interop
  match findClass r nsClassName with
  | none => raise .valueError
  | some cc => do
    let s ← getS
    setS { s with nsProv := s.nsProv ++ [interop] }
    let have_ := (r.insts.filter (fun x => nameEq x.path.cls nsClassName)).filterMap (fun x =>
      match findPropV x.props pnName with | some { val := .sc (.str v), .. } => some v | _ => none)
    -- `conn.find_interop_namespace()`: the name under which the namespace is stored
    forM_ (fun n => createInstance r.name (nsInstanceFor cc n))
      ((s.nss.map (·.name)).filter (fun n => !nmem n have_))

/-- mirrors FakedWBEMConnection.register_provider for a user-defined instance-write provider (the class must
    exist in the namespace) -/
def installUserProvider (u : UserProv) : M Unit := do
  validateNs u.ns
  let r ← getNs u.ns
  if !hasClass r u.cls then raise .valueError
  else do
    let s ← getS
    setS { s with userProvs := s.userProvs ++ [u] }

inductive Cmd where
  | op (o : Op)
  | installNsProvider (interop : Name)
  | installUserProvider (u : UserProv)
  deriving Inhabited

def Cmd.run : Cmd → M Unit
  | .op o => o.run
  | .installNsProvider ns => Atomic.installNsProvider ns
  | .installUserProvider u => Atomic.installUserProvider u

def stepCmd (s : State) (c : Cmd) : State × Option PyExc :=
  match c.run s with
  | (s', .ok _) => (s', none)
  | (s', .error e) => (s', some e)

def runCmds (s : State) : List Cmd → List (State × Option PyExc)
  | [] => []
  | c :: cs => let r := stepCmd s c; r :: runCmds r.1 cs

end Pywbem.Model.Atomic

/-! ### check/write skeletons extracted from the source (Generated/Atomic.lean) -/
namespace Pywbem.Generated.Atomic

def joinW : Option Bool → Option Bool → Option Bool
  | none, x => x
  | x, none => x
  | some a, some b => some (a || b)

def Skel.isEvent : Skel → Bool
  | .chk => true | .wr => true | .ret => true | _ => false

mutual
/-- does the skeleton contain a write (anywhere, also inside guarded blocks) -/
def Skel.containsWr : Skel → Bool
  | .chk => false | .ret => false | .wr => true
  | .seq xs => Skel.containsWrL xs
  | .alt xs => Skel.containsWrL xs
  | .loop b => Skel.containsWr b
  | .guarded b => Skel.containsWr b
  | .tryalt b hs => Skel.containsWr b || Skel.containsWrL hs
def Skel.containsWrL : List Skel → Bool
  | [] => false
  | x :: xs => Skel.containsWr x || Skel.containsWrL xs
end

/-- may a statement of a `try` body fail AFTER the body has written?  (a store write fails before it writes;
    `return f(...)` is one statement) -/
def Skel.prefixHasWr : List Skel → Bool
  | [] => false
  | [x] => !x.isEvent && x.containsWr
  | [x, .ret] => !x.isEvent && x.containsWr
  | x :: xs => x.containsWr || Skel.prefixHasWr xs

def Skel.handlerEntry (b : Skel) (w : Bool) : Bool :=
  w || (match b with
        | .seq xs => Skel.prefixHasWr xs
        | x => !x.isEvent && x.containsWr)

mutual
/-- abstract run from a reachable state `w` = "the repository may have been changed"; output state `none` =
    unreachable (after `return`).  First component: no `chk` is reached with `w = true` outside a guarded block. -/
def Skel.run : Skel → Bool → Bool × Option Bool
  | .chk, w => (!w, some w)
  | .wr, _ => (true, some true)
  | .ret, _ => (true, none)
  | .seq xs, w => Skel.runSeq xs w
  | .alt xs, w => Skel.runAlt xs w
  | .loop b, w =>
    let r1 := Skel.run b w
    let w2 := w || r1.2.getD false
    let r2 := Skel.run b w2
    (r1.1 && r2.1, some (w2 || r2.2.getD false))
  | .guarded b, w =>
    -- the snapshot is taken at the entry of the block: a rejection inside is harmless only if nothing had been
    -- written BEFORE the block
    let r := Skel.run b w
    (if w then r.1 else true, r.2)
  | .tryalt b hs, w =>
    let rb := Skel.run b w
    let rh := Skel.runAlt hs (Skel.handlerEntry b w)
    (rb.1 && rh.1, joinW rb.2 rh.2)
def Skel.runSeq : List Skel → Bool → Bool × Option Bool
  | [], w => (true, some w)
  | x :: xs, w =>
    let r := Skel.run x w
    match r.2 with
    | none => (r.1, none)
    | some w' =>
      let rs := Skel.runSeq xs w'
      (r.1 && rs.1, rs.2)
def Skel.runAlt : List Skel → Bool → Bool × Option Bool
  | [], _ => (true, none)
  | x :: xs, w =>
    let r := Skel.run x w
    let rs := Skel.runAlt xs w
    (r.1 && rs.1, joinW r.2 rs.2)
end

/-- on no path a check follows a write, outside guarded (snapshot/restore) blocks -/
def Skel.safe (k : Skel) : Bool := (k.run false).1

mutual
/-- maximal number of unguarded writes on a path (loops count twice = "more than one") -/
def Skel.maxWrites : Skel → Nat
  | .chk => 0 | .ret => 0 | .wr => 1
  | .seq xs => Skel.sumWrites xs
  | .alt xs => Skel.maxWritesL xs
  | .loop b => 2 * Skel.maxWrites b
  | .guarded _ => 0
  | .tryalt b hs => Skel.maxWrites b + Skel.maxWritesL hs
def Skel.sumWrites : List Skel → Nat
  | [] => 0
  | x :: xs => Skel.maxWrites x + Skel.sumWrites xs
def Skel.maxWritesL : List Skel → Nat
  | [] => 0
  | x :: xs => max (Skel.maxWrites x) (Skel.maxWritesL xs)
end

end Pywbem.Generated.Atomic
