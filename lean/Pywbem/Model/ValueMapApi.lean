/-
C20 — the public surface of pywbem.ValueMapping around `_create_for_element`:
the factory methods for_property / for_method / for_parameter (class retrieval, case-insensitive
element and qualifier lookup, which attribute carries the type) and the argument handling of
tovalues() / tobinary() (None, list/tuple, bool, CIMInt, wrong types).  Mathlib-free.
-/
import Pywbem.Model.ValueMap

namespace Pywbem.Model.ValueMap.Api
open Pywbem.Proto Pywbem.Model.IntLit Pywbem.Model.ValueMap

/-! ## NocaseDict lookups (keys compared by `str.casefold()`; ASCII names only in the model) -/

/-- `str.casefold()` on an ASCII character -/
def foldChar (c : Char) : Char :=
  if 65 ≤ c.toNat ∧ c.toNat ≤ 90 then Char.ofNat (c.toNat + 32) else c

def fold (s : Str) : Str := s.map foldChar

/-- mirrors pywbem/_vendor/nocasedict: `d[key]` / `d.get(key)`; none = KeyError / default -/
def ncGet {α} (d : List (Str × α)) (k : Str) : Option α :=
  match d.find? (fun p => fold p.1 = fold k) with
  | some p => some p.2
  | none => none

/-! ## CIM objects as far as ValueMapping looks at them -/

/-- the `.value` of a CIMQualifier -/
inductive QVal where
  | null                           -- qualifier present, value None
  | arr (items : List Str)         -- array of strings
  | scalar (s : Str)               -- a single string (list()/len()/indexing see its characters)
  deriving Repr, DecidableEq

/-- what `list(q.value)`, `len(q.value)`, `q.value[i]` see; none = NULL (TypeError on use) -/
def QVal.items : QVal → Option (List Str)
  | .null => none
  | .arr xs => some xs
  | .scalar s => some (s.map (fun c => [c]))

/-- a CIMProperty / CIMParameter (`type`) or the return value side of a CIMMethod (`return_type`) with
    its `qualifiers` NocaseDict -/
structure ElemG where
  typ : String
  quals : List (Str × QVal)

/-- the qualifier names `_create_for_element` asks for -/
def kValues : Str := ['V', 'a', 'l', 'u', 'e', 's']
def kValueMap : Str := ['V', 'a', 'l', 'u', 'e', 'M', 'a', 'p']

/-- mirrors _create_for_element: `element_obj.qualifiers.get('Values')` / `.get('ValueMap')` -/
def ElemG.toQ (e : ElemG) : ElemQ :=
  { typ := e.typ,
    values := (ncGet e.quals kValues).map QVal.items,
    valuemap := (ncGet e.quals kValueMap).map QVal.items }

/-- mirrors `cls._create_for_element(element_obj, …)` on a CIM object -/
def createG (e : ElemG) (vd : Option Str) : Except PyExc VM := createQ e.toQ vd

structure MethodG where
  ret : ElemG                          -- return_type + the method's own qualifiers
  params : List (Str × ElemG)          -- method_obj.parameters

structure ClassG where
  props : List (Str × ElemG)           -- class_obj.properties
  methods : List (Str × MethodG)       -- class_obj.methods

/-- mirrors pywbem/_valuemapping.py: ValueMapping.for_property.  `getClass` = outcome of
    `conn.GetClass(ClassName=…, namespace=…, LocalOnly=False, IncludeQualifiers=True)` (any exception of
    the connection passes through) -/
def forProperty (getClass : Except PyExc ClassG) (propname : Str) (vd : Option Str) : Except PyExc VM :=
  match getClass with
  | .error x => .error x
  | .ok c =>
    match ncGet c.props propname with
    | none => .error .keyError
    | some el => createG el vd

/-- mirrors pywbem/_valuemapping.py: ValueMapping.for_method -/
def forMethod (getClass : Except PyExc ClassG) (methodname : Str) (vd : Option Str) : Except PyExc VM :=
  match getClass with
  | .error x => .error x
  | .ok c =>
    match ncGet c.methods methodname with
    | none => .error .keyError
    | some m => createG m.ret vd

/-- mirrors pywbem/_valuemapping.py: ValueMapping.for_parameter -/
def forParameter (getClass : Except PyExc ClassG) (methodname parametername : Str) (vd : Option Str) :
    Except PyExc VM :=
  match getClass with
  | .error x => .error x
  | .ok c =>
    match ncGet c.methods methodname with
    | none => .error .keyError
    | some m =>
      match ncGet m.params parametername with
      | none => .error .keyError
      | some el => createG el vd

/-! ## Arguments of tovalues() / tobinary() -/

/-- a Python value passed as (an item of) `element_value` -/
inductive Scalar where
  | none                     -- None
  | int (v : Int)            -- int
  | cimint (v : Int)         -- pywbem.CIMInt subclass instance (is an int)
  | bool (b : Bool)          -- bool is a subclass of int
  | str (s : Str)
  | other                    -- float, list inside a list, any other object
  deriving Repr, DecidableEq

inductive Arg where
  | scalar (x : Scalar)
  | list (xs : List Scalar)  -- list or tuple
  deriving Repr, DecidableEq

/-- what tovalues() returns -/
inductive Ret where
  | none
  | str (s : Str)
  | list (xs : List Str)
  deriving Repr, DecidableEq

/-- mirrors pywbem/_valuemapping.py: ValueMapping._tovalues_single including the isinstance check -/
def tovaluesSingle (vm : VM) : Scalar → Except PyExc Str
  | .int v => tovalues vm v
  | .cimint v => tovalues vm v
  | .bool b => tovalues vm (if b then 1 else 0)
  | _ => .error .typeError

/-- `[self._tovalues_single(ev) for ev in element_value]`: the first failing item decides -/
def tovaluesList (vm : VM) : List Scalar → Except PyExc (List Str)
  | [] => .ok []
  | x :: xs =>
    match tovaluesSingle vm x with
    | .error e => .error e
    | .ok s =>
      match tovaluesList vm xs with
      | .error e => .error e
      | .ok ss => .ok (s :: ss)

/-- mirrors pywbem/_valuemapping.py: ValueMapping.tovalues -/
def tovaluesArg (vm : VM) : Arg → Except PyExc Ret
  | .scalar .none => .ok .none
  | .list xs =>
    match tovaluesList vm xs with
    | .error e => .error e
    | .ok ss => .ok (.list ss)
  | .scalar x =>
    match tovaluesSingle vm x with
    | .error e => .error e
    | .ok s => .ok (.str s)

/-- mirrors pywbem/_valuemapping.py: ValueMapping.tobinary including the isinstance check -/
def tobinaryArg (vm : VM) : Scalar → Except PyExc Bin
  | .str s => tobinary vm s
  | _ => .error .typeError

end Pywbem.Model.ValueMap.Api
