/-
C17 — the HTTP side of the WBEM listener: what `ListenerRequestHandler` answers to one request.

mirrors pywbem/_listener.py: ListenerRequestHandler.do_POST, invalid_method (do_GET, do_HEAD, do_PUT, …),
  send_http_error, send_error_response, send_success_response, parse_export_request,
  TOKEN_QUALITY_FINDALL_PATTERN, TOKEN_CHARSET_FINDALL_PATTERN, HEADER_VALUE_SAFE_CHARS,
  WBEMListener._handle_indication (queue put / queue.Full only)
mirrors pywbem/_tupleparse.py: parse_cim, parse_message, parse_simpleexpreq, parse_expmethodcall,
  parse_expparamvalue, one_child, optional_child, list_of_matching (check_node = shared `checkNode`)
mirrors pywbem/_utils.py: _ascii2 (str and dict_keys branch), _format("{0!A}")
mirrors CPython: ascii(str), int(str), urllib.parse.quote, BaseHTTPRequestHandler.send_header (latin-1, strict)

The model is of the code AFTER the four C17 fixes (Content-Length validation, %-escaped
CIMErrorDetails, catch-all 500, duplicate parameter names rejected).  `Cfg` switches each fix off again so that the defect each one
repairs has a checked witness (Proofs/Props/C17.lean); every property theorem is about `Cfg.fixed`.

Outside the model, as parameters of `Env` (never axioms): expat + CIMContentHandler (`xmlParse`),
the message text of structural parse errors (`parserMsg`), TupleParser on the INSTANCE subtree
(`instParse`; the driver plugs in the shared `decInstance`), TupleParser on subtrees that are not part
of an export request (`foreign`), the allocation limit of `rfile.read` and the text of unexpected
exceptions.  http.server's request-line / header parsing and its own 4xx/5xx answers are stdlib:
the model starts from the parsed (method, header list) and answers `none` for methods that have no
do_<METHOD>.
-/
import Pywbem.Proto
import Pywbem.Model.CimXmlDec
import Pywbem.Model.XmlParse
import Pywbem.Generated.ListenerConsts

namespace Pywbem.Model.ListenerHttp
open Pywbem.Proto Pywbem.Model Pywbem.Model.XmlText
open Pywbem.Generated.ListenerConsts

/-- a Python exception escaping from a call, identified by its class name
    (`Proto.PyExc` has no MemoryError; the handler only ever looks at the class) -/
structure Exc where
  name : String
  deriving Repr, DecidableEq

def Exc.ofPy (e : PyExc) : Exc := ⟨e.name⟩
def Exc.valueError : Exc := ⟨"ValueError"⟩
def Exc.overflowError : Exc := ⟨"OverflowError"⟩
def Exc.memoryError : Exc := ⟨"MemoryError"⟩
def Exc.unicodeEncodeError : Exc := ⟨"UnicodeEncodeError"⟩

abbrev X := Except Exc

/-- HEADER_VALUE_SAFE_CHARS = printable US-ASCII (0x20 … 0x7E) except `%`; tied to the source by a
    constants case of K (the constant does not exist before the fix, so it is not extracted) -/
def safeLo : Nat := 0x20
def safeHi : Nat := 0x7F
def pctByte : Nat := 0x25

/-- `http.client.responses` (stdlib) for the status codes pywbem sends -/
def reasons : List (Nat × String) :=
  [(200, "OK"), (400, "Bad Request"), (405, "Method Not Allowed"), (406, "Not Acceptable"),
   (500, "Internal Server Error")]

/-! ## Python / CPython text primitives -/

def hexDigitL (n : Nat) : Char := if n < 10 then Char.ofNat (48 + n) else Char.ofNat (87 + n)
def hexDigitU (n : Nat) : Char := if n < 10 then Char.ofNat (48 + n) else Char.ofNat (55 + n)

/-- fixed-width lower-case hex (`%02x`, `%04x`, `%08x`) -/
def hexL : Nat → Nat → Str
  | 0, _ => []
  | w + 1, n => hexDigitL ((n / 16 ^ w) % 16) :: hexL w n

/-- CPython `unicode_repr`: the quote is `"` only when the string has a `'` and no `"` -/
def reprQuote (s : Str) : Char := if s.contains '\'' && !s.contains '"' then '"' else '\''

/-- CPython `ascii()` for one character of a str -/
def asciiChar (q : Char) (c : Char) : Str :=
  let n := c.toNat
  if c == q || c == '\\' then ['\\', c]
  else if c == '\t' then ['\\', 't']
  else if c == '\n' then ['\\', 'n']
  else if c == '\r' then ['\\', 'r']
  else if n < 0x20 || n == 0x7f then '\\' :: 'x' :: hexL 2 n
  else if n < 0x7f then [c]
  else if n < 0x100 then '\\' :: 'x' :: hexL 2 n
  else if n < 0x10000 then '\\' :: 'u' :: hexL 4 n
  else '\\' :: 'U' :: hexL 8 n

def asciiBody (q : Char) : Str → Str
  | [] => []
  | c :: cs => asciiChar q c ++ asciiBody q cs

/-- CPython `ascii(s)` for a str -/
def pyAscii (s : Str) : Str := let q := reprQuote s; q :: asciiBody q s ++ [q]

def isHexChar (c : Char) : Bool :=
  ('0' ≤ c && c ≤ '9') || ('a' ≤ c && c ≤ 'f') || ('A' ≤ c && c ≤ 'F')

/-- look-behind `(?<![^\\]\\)` fails: exactly "non-backslash, backslash" before the match -/
def lb1 (prevRev : Str) : Bool :=
  match prevRev with
  | a :: b :: _ => a == '\\' && b != '\\'
  | _ => false

/-- look-behind `(?<![^\\]\\\\\\)` fails: "non-backslash, 3 backslashes" before the match -/
def lb3 (prevRev : Str) : Bool :=
  match prevRev with
  | a :: b :: c :: d :: _ => a == '\\' && b == '\\' && c == '\\' && d != '\\'
  | _ => false

/-- `re.sub(r'(?<![^\\]\\)(?<![^\\]\\\\\\)\\x([0-9a-fA-F]{2})', r'\\u00\1', ret)` of `_ascii2`;
    `prevRev` = the already scanned part of `ret`, reversed; `fuel` ≥ length of the rest -/
def fixHex : Nat → Str → Str → Str
  | 0, _, _ => []
  | _, _, [] => []
  | fuel + 1, prevRev, c :: rest =>
    match c, rest with
    | '\\', 'x' :: h1 :: h2 :: rest' =>
      if isHexChar h1 && isHexChar h2 && !lb1 prevRev && !lb3 prevRev then
        '\\' :: 'u' :: '0' :: '0' :: h1 :: h2 :: fixHex fuel (h2 :: h1 :: 'x' :: '\\' :: prevRev) rest'
      else '\\' :: fixHex fuel ('\\' :: prevRev) rest
    | _, _ => c :: fixHex fuel (c :: prevRev) rest

/-- `_ascii2(value)` for a str -/
def ascii2 (s : Str) : Str := let r := pyAscii s; fixHex (r.length + 1) [] r

def joinComma : List Str → Str
  | [] => []
  | [x] => x
  | x :: xs => x ++ ',' :: ' ' :: joinComma xs

/-- `_ascii2(d.keys())`: dict_keys is a `Set`, class name ≠ 'set' -/
def ascii2Keys (ks : List Str) : Str :=
  "dict_keys({".toList ++ joinComma (ks.map ascii2) ++ "})".toList

/-- UTF-8 octets of one character -/
def utf8 (c : Char) : List Nat :=
  let n := c.toNat
  if n < 0x80 then [n]
  else if n < 0x800 then [0xC0 + n / 64, 0x80 + n % 64]
  else if n < 0x10000 then [0xE0 + n / 4096, 0x80 + (n / 64) % 64, 0x80 + n % 64]
  else [0xF0 + n / 262144, 0x80 + (n / 4096) % 64, 0x80 + (n / 64) % 64, 0x80 + n % 64]

def utf8Bytes : Str → List Nat
  | [] => []
  | c :: cs => utf8 c ++ utf8Bytes cs

/-- octet that `quote(…, safe=HEADER_VALUE_SAFE_CHARS)` leaves alone: printable US-ASCII except `%`
    (`_ALWAYS_SAFE` is a subset of it) -/
def isSafeByte (b : Nat) : Bool := safeLo ≤ b && b < safeHi && b != pctByte

def quoteByte (b : Nat) : Str :=
  if isSafeByte b then [Char.ofNat b] else ['%', hexDigitU ((b / 16) % 16), hexDigitU (b % 16)]

def quoteBytes : List Nat → Str
  | [] => []
  | b :: bs => quoteByte b ++ quoteBytes bs

/-- `urllib.parse.quote(s, safe=HEADER_VALUE_SAFE_CHARS, errors='replace')` -/
def quoteDetails (s : Str) : Str := quoteBytes (utf8Bytes s)

/-- inverse used by the client side (`urllib.parse.unquote_to_bytes`), for the round-trip theorem -/
def hexValU (c : Char) : Option Nat :=
  if '0' ≤ c ∧ c ≤ '9' then some (c.toNat - 48)
  else if 'A' ≤ c ∧ c ≤ 'F' then some (c.toNat - 55)
  else if 'a' ≤ c ∧ c ≤ 'f' then some (c.toNat - 87)
  else none

def unquoteBytes : Str → List Nat
  | '%' :: a :: b :: rest =>
    match hexValU a, hexValU b with
    | some x, some y => (16 * x + y) :: unquoteBytes rest
    | _, _ => 0x25 :: unquoteBytes (a :: b :: rest)
  | c :: rest => c.toNat :: unquoteBytes rest
  | [] => []

/-- decimal digits, most significant first (`fuel` > number of digits) -/
def natDigits : Nat → Nat → Str
  | 0, _ => []
  | fuel + 1, n => if n < 10 then [Char.ofNat (48 + n)] else natDigits fuel (n / 10) ++ [Char.ofNat (48 + n % 10)]

/-- `str(n)` for a non-negative int -/
def natStr (n : Nat) : Str := natDigits (n + 1) n

def startsWith (s p : Str) : Bool := p.isPrefixOf s

/-! ## HTTP header value recognisers (the two `findall` patterns) -/

/-- email.message.Message.get(name): first header with that name, names compared case-insensitively -/
def hget (hs : List (Str × Str)) (name : String) : Option Str :=
  match hs.find? (fun p => lowerAscii p.1 == lowerAscii name.toList) with
  | some p => some p.2
  | none => none

def isSep (c : Char) : Bool := c == ';' || c == ',' || c == ' '
def notSep (c : Char) : Bool := !isSep c
def dropSpaces (s : Str) : Str := s.dropWhile (· == ' ')
def isDigitC (c : Char) : Bool := '0' ≤ c && c ≤ '9'

/-- `(?:; *q=([01](?:\.[0-9]*)?))?` : what is left after the optional group -/
def skipQ (s : Str) : Str :=
  match s with
  | ';' :: r =>
    match dropSpaces r with
    | 'q' :: '=' :: d :: r2 =>
      if d == '0' || d == '1' then
        match r2 with
        | '.' :: r3 => r3.dropWhile isDigitC
        | _ => r2
      else s
    | _ => s
  | _ => s

/-- `(?:, *)?` -/
def skipComma (s : Str) : Str :=
  match s with
  | ',' :: r => dropSpaces r
  | _ => s

/-- group 1 of every match of `re.findall(TOKEN_QUALITY_FINDALL_PATTERN, s)` -/
def tokensQ : Nat → Str → List Str
  | 0, _ => []
  | _, [] => []
  | fuel + 1, c :: cs =>
    if isSep c then tokensQ fuel cs
    else (c :: cs).takeWhile notSep :: tokensQ fuel (skipComma (skipQ ((c :: cs).dropWhile notSep)))

def isCsStop (c : Char) : Bool := c == '"' || c == ';' || c == ',' || c == ' '
def notCsStop (c : Char) : Bool := !isCsStop c

def stripPrefix (p s : Str) : Option Str := if p.isPrefixOf s then some (s.drop p.length) else none

/-- `"?` -/
def dropQuote (s : Str) : Str :=
  match s with
  | '"' :: x => x
  | _ => s

/-- `(?:; *charset="?([^";, ]*)"?)?` : (group 2, what is left) -/
def takeCharset (s : Str) : Str × Str :=
  match s with
  | ';' :: r =>
    match stripPrefix "charset=".toList (dropSpaces r) with
    | some r1 => ((dropQuote r1).takeWhile notCsStop, dropQuote ((dropQuote r1).dropWhile notCsStop))
    | none => ([], s)
  | _ => ([], s)

/-- `re.findall(TOKEN_CHARSET_FINDALL_PATTERN, s)` -/
def tokensC : Nat → Str → List (Str × Str)
  | 0, _ => []
  | _, [] => []
  | fuel + 1, c :: cs =>
    if isSep c then tokensC fuel cs
    else
      let r := takeCharset ((c :: cs).dropWhile notSep)
      ((c :: cs).takeWhile notSep, r.1) :: tokensC fuel (skipComma r.2)

def inList (s : Str) (l : List String) : Bool := l.any (fun a => a.toList == s)

def acceptOk (v : Str) : Bool := inList v acceptValues
def acceptCharsetOk (v : Str) : Bool :=
  (tokensQ (v.length + 1) v).any (fun t => inList (lowerAscii t) charsetTokens)
def contentTypeOk (v : Str) : Bool :=
  (tokensC (v.length + 1) v).any (fun p =>
    inList (lowerAscii p.1) contentTypeTokens && (p.2 == [] || lowerAscii p.2 == contentCharset.toList))
def contentEncodingOk (v : Str) : Bool := lowerAscii v == contentEncodingValue.toList

/-! ## Responses -/

structure Response where
  status : Nat
  reason : Str
  headers : List (Str × Str)   -- what pywbem passes to send_header, in order (Server, Date come from http.server)
  body : Str                   -- sent UTF-8 encoded
  deriving Repr, DecidableEq

/-- which of the three C17 fixes are present -/
structure Cfg where
  validateLen : Bool     -- Content-Length checked (ValueError / negative ⇒ 400)
  encodeDetails : Bool   -- CIMErrorDetails %-escaped
  catchAll : Bool        -- unexpected exception ⇒ 500
  rejectDup : Bool       -- duplicate parameter names ⇒ CIMXMLParseError
  deriving Repr, DecidableEq

def Cfg.fixed : Cfg := ⟨true, true, true, true⟩
def Cfg.original : Cfg := ⟨false, false, false, false⟩

/-- `http.client.responses.get(code, '')` for the codes pywbem sends -/
def reasonOf (code : Nat) : Str :=
  match reasons.find? (fun p => p.1 == code) with
  | some p => p.2.toList
  | none => []

/-- `send_header(k, v)`: the header line is encoded latin-1/strict -/
def sendHeader (k v : Str) : X (Str × Str) :=
  if (k ++ v).all (fun c => c.toNat < 256) then .ok (k, v) else .error .unicodeEncodeError

def sendHeaders : List (Str × Str) → X (List (Str × Str))
  | [] => .ok []
  | (k, v) :: rest => do
    let h ← sendHeader k v
    let t ← sendHeaders rest
    pure (h :: t)

def detailsValue (cfg : Cfg) (d : Str) : Str := if cfg.encodeDetails then quoteDetails d else d

/-- send_http_error(code, cim_error, cim_error_details, headers) -/
def sendHttpError (cfg : Cfg) (code : Nat) (cimError : Option String) (details : Option Str)
    (extra : List (Str × Str)) : X Response := do
  let hs := [("CIMExport".toList, "MethodResponse".toList)]
    ++ (match cimError with | some e => [("CIMError".toList, e.toList)] | none => [])
    ++ (match details with | some d => [("CIMErrorDetails".toList, detailsValue cfg d)] | none => [])
    ++ extra
  let sent ← sendHeaders hs
  pure { status := code, reason := reasonOf code, headers := sent, body := [] }

def xmlDecl : Str := "<?xml version=\"1.0\" encoding=\"utf-8\" ?>\n".toList

/-- the `_cim_xml.CIM(MESSAGE(SIMPLEEXPRSP(EXPMETHODRESPONSE(name[, ERROR]))))` tree -/
def rspTree (msgid methodname : Str) (err : Option (Nat × Str)) : Xml :=
  .elem "CIM".toList [("CIMVERSION".toList, implCimVersion.toList), ("DTDVERSION".toList, implDtdVersion.toList)] [
    .elem "MESSAGE".toList [("ID".toList, msgid), ("PROTOCOLVERSION".toList, implProtocolVersion.toList)] [
      .elem "SIMPLEEXPRSP".toList [] [
        .elem "EXPMETHODRESPONSE".toList [("NAME".toList, methodname)]
          (match err with
           | none => []
           | some (c, d) => [.elem "ERROR".toList [("CODE".toList, natStr c), ("DESCRIPTION".toList, d)] []])]]]

def rspBody (msgid methodname : Str) (err : Option (Nat × Str)) : Str :=
  xmlDecl ++ (rspTree msgid methodname err).ser

/-- send_success_response / send_error_response: HTTP 200 with the export response message -/
def sendExportResponse (msgid methodname : Str) (err : Option (Nat × Str)) : X Response := do
  let body := rspBody msgid methodname err
  let sent ← sendHeaders [("Content-Type".toList, "text/xml".toList),
    ("Content-Length".toList, natStr (utf8Bytes body).length),
    ("CIMExport".toList, "MethodResponse".toList)]
  pure { status := 200, reason := reasonOf 200, headers := sent, body := body }

/-- invalid_method(): do_OPTIONS, do_HEAD, do_GET, do_PUT, do_PATCH, do_DELETE, do_TRACE, do_CONNECT, do_M_POST -/
def invalidMethod (cfg : Cfg) : X Response :=
  sendHttpError cfg 405 none none [("Allow".toList, "POST".toList)]

/-! ## the response on the wire (BaseHTTPRequestHandler.send_response / send_header / end_headers) -/

def crlf : Str := ['\r', '\n']

def headerLine (kv : Str × Str) : Str := kv.1 ++ ':' :: ' ' :: kv.2

/-- the lines http.server buffers: status line, Server, Date (values from outside), then pywbem's headers -/
def headLines (server date : Str) (r : Response) : List Str :=
  ("HTTP/1.0 ".toList ++ natStr r.status ++ ' ' :: r.reason) ::
    headerLine ("Server".toList, server) :: headerLine ("Date".toList, date) :: r.headers.map headerLine

def joinCRLF : List Str → Str
  | [] => []
  | l :: ls => l ++ crlf ++ joinCRLF ls

/-- octets (as Latin-1 text) written to the socket: header section, empty line, body -/
def wireHead (server date : Str) (r : Response) : Str := joinCRLF (headLines server date r) ++ crlf

/-- what a receiver does with a header section: cut it at every CR LF
    (`cr`: the previous character was a CR not yet accounted for; `acc`: current line, reversed) -/
def splitCRLF : Bool → Str → Str → List Str
  | cr, acc, [] => [(if cr then '\r' :: acc else acc).reverse]
  | cr, acc, c :: rest =>
    if cr && c == '\n' then acc.reverse :: splitCRLF false [] rest
    else if c == '\r' then splitCRLF true (if cr then '\r' :: acc else acc) rest
    else splitCRLF false (c :: (if cr then '\r' :: acc else acc)) rest

/-- `%0wd` -/
def padNat (w n : Nat) : Str := List.replicate (w - (natStr n).length) '0' ++ natStr n

def weekdayNames : List String := ["Mon", "Tue", "Wed", "Thu", "Fri", "Sat", "Sun"]
def monthNames : List String := ["Jan", "Feb", "Mar", "Apr", "May", "Jun", "Jul", "Aug", "Sep", "Oct", "Nov", "Dec"]

/-- mirrors BaseHTTPRequestHandler.date_time_string = email.utils.formatdate(timestamp, usegmt=True):
    `'%s, %02d %s %04d %02d:%02d:%02d GMT'` (weekday 0 = Monday, month 1 = January) -/
def dateString (wd d mon y hh mm ss : Nat) : Str :=
  (weekdayNames.getD wd "???").toList ++ ", ".toList ++ padNat 2 d ++ ' ' :: (monthNames.getD (mon - 1) "???").toList ++
  ' ' :: padNat 4 y ++ ' ' :: padNat 2 hh ++ ':' :: padNat 2 mm ++ ':' :: padNat 2 ss ++ " GMT".toList

/-- mirrors pywbem/_listener.py: ListenerRequestHandler.version_string:
    `"pywbem-listener/{0} {1} {2} "` with pywbem's version, `server_version` and `sys_version` of http.server -/
def versionString (pywbemVersion serverVersion sysVersion : Str) : Str :=
  "pywbem-listener/".toList ++ pywbemVersion ++ ' ' :: serverVersion ++ ' ' :: sysVersion ++ [' ']

/-! ## parse_export_request -/

/-- what do_POST distinguishes about a failed parse -/
inductive PErr where
  | notWellFormed                 -- CIMXMLParseError / XMLParseError (message text = Env.parserMsg)
  | cimVersion (v : Str)          -- CIMVersionError
  | dtdVersion (v : Str)          -- DTDVersionError
  | protoVersion (v : Str)        -- ProtocolVersionError
  | other (e : Exc)               -- anything else
  deriving Repr, DecidableEq

abbrev P := Except PErr

/-- the world outside the model -/
structure Env where
  xmlParse : List Nat → Except (Option Exc) Xml   -- error none = XMLParseError; error (some e) = e escapes (e.g. LookupError)
  parserMsg : Str
  instParse : Xml → Except PyExc Unit
  foreign : Xml → Option Exc
  allocLimit : Nat
  excText : Exc → Str

def liftR {α} (r : Except PyExc α) : P α :=
  match r with
  | .ok a => .ok a
  | .error .cimXmlParseError => .error .notWellFormed
  | .error .xmlParseError => .error .notWellFormed
  | .error e => .error (.other (Exc.ofPy e))

def attrD (as : List (Str × Str)) (k : String) : Str := (Xml.attr as k.toList).getD []

/-- one_child(t, acceptable) up to (not including) parse_any(child) -/
def oneChild (ks : List Xml) (acceptable : List String) : P Xml :=
  match Xml.elemKids ks with
  | [c] => if nameIn c acceptable then .ok c else .error .notWellFormed
  | _ => .error .notWellFormed

/-- a subtree the export-request grammar has no place for: TupleParser parses it (may leak), and
    parse_export_request then raises CIMXMLParseError ("Expecting … element") -/
def foreignChild {α} (E : Env) (t : Xml) : P α :=
  match E.foreign t with
  | some e => if e.name = "CIMXMLParseError" || e.name = "XMLParseError" then .error .notWellFormed else .error (.other e)
  | none => .error .notWellFormed

/-- parse_expparamvalue -/
def parseExpParamValue (E : Env) (t : Xml) : P (Str × Option Xml) := do
  let (as, ks) ← liftR (checkNode t "EXPPARAMVALUE" ["NAME"] [] (some ["INSTANCE"]) false)
  match Xml.elemKids ks with
  | [] => pure (attrD as "NAME", none)
  | [c] =>
    if nameIn c ["INSTANCE"] then do
      liftR (E.instParse c)
      pure (attrD as "NAME", some c)
    else .error .notWellFormed
  | _ => .error .notWellFormed

/-- list_of_matching(t, ('EXPPARAMVALUE',)) -/
def parseExpParams (E : Env) : List Xml → P (List (Str × Option Xml))
  | [] => pure []
  | k :: ks =>
    if k.name = "EXPPARAMVALUE".toList then do
      let p ← parseExpParamValue E k
      let rest ← parseExpParams E ks
      pure (p :: rest)
    else parseExpParams E ks

/-- parse_expmethodcall -/
def parseExpMethodCall (E : Env) (t : Xml) : P (Str × List (Str × Option Xml)) := do
  let (as, ks) ← liftR (checkNode t "EXPMETHODCALL" ["NAME"] [] (some ["EXPPARAMVALUE"]) false)
  let ps ← parseExpParams E (Xml.elemKids ks)
  pure (attrD as "NAME", ps)

/-- parse_simpleexpreq -/
def parseSimpleExpReq (E : Env) (t : Xml) : P (Str × List (Str × Option Xml)) := do
  let (_, ks) ← liftR (checkNode t "SIMPLEEXPREQ" [] [] (some ["EXPMETHODCALL"]) false)
  let c ← oneChild ks ["EXPMETHODCALL"]
  parseExpMethodCall E c

def messageChildren : List String :=
  ["SIMPLEREQ", "MULTIREQ", "SIMPLERSP", "MULTIRSP", "SIMPLEEXPREQ", "MULTIEXPREQ", "SIMPLEEXPRSP", "MULTIEXPRSP"]

/-- parse_message -/
def parseMessage (E : Env) (t : Xml) : P (Str × Str × List (Str × Option Xml)) := do
  let (as, ks) ← liftR (checkNode t "MESSAGE" ["ID", "PROTOCOLVERSION"] [] none false)
  if !startsWith (attrD as "PROTOCOLVERSION") protoPrefix.toList then
    .error (.protoVersion (attrD as "PROTOCOLVERSION"))
  else do
    let c ← oneChild ks messageChildren
    if c.name = "SIMPLEEXPREQ".toList then do
      let (m, ps) ← parseSimpleExpReq E c
      pure (attrD as "ID", m, ps)
    else foreignChild E c

/-- parse_cim followed by the checks of parse_export_request -/
def parseCim (E : Env) (t : Xml) : P (Str × Str × List (Str × Option Xml)) := do
  let (as, ks) ← liftR (checkNode t "CIM" ["CIMVERSION", "DTDVERSION"] [] none false)
  if !startsWith (attrD as "CIMVERSION") cimPrefix.toList then .error (.cimVersion (attrD as "CIMVERSION"))
  else if !startsWith (attrD as "DTDVERSION") dtdPrefix.toList then .error (.dtdVersion (attrD as "DTDVERSION"))
  else do
    let c ← oneChild ks ["MESSAGE", "DECLARATION"]
    if c.name = "MESSAGE".toList then parseMessage E c
    else foreignChild E c

/-- `params[name] = obj` over the list: first-occurrence position, last value -/
def dictSet (d : List (Str × Option Xml)) (k : Str) (v : Option Xml) : List (Str × Option Xml) :=
  match d with
  | [] => [(k, v)]
  | (k', v') :: rest => if k' = k then (k, v) :: rest else (k', v') :: dictSet rest k v

def toDict (ps : List (Str × Option Xml)) : List (Str × Option Xml) :=
  ps.foldl (fun d p => dictSet d p.1 p.2) []

def hasDupName : List (Str × Option Xml) → Bool
  | [] => false
  | p :: rest => rest.any (fun q => q.1 = p.1) || hasDupName rest

/-- parse_export_request(body) -/
def parseExportRequest (cfg : Cfg) (E : Env) (body : List Nat) : P (Str × Str × List (Str × Option Xml)) :=
  match E.xmlParse body with
  | .error none => .error .notWellFormed
  | .error (some e) => .error (.other e)
  | .ok t => do
    let (msgid, m, ps) ← parseCim E t
    if cfg.rejectDup && hasDupName ps then .error .notWellFormed
    else pure (msgid, m, toDict ps)

/-! ## the XML parser of the request, concretely: strict UTF-8 decoding + the proved parser `XmlParse.par`

`Env.xmlParse` stays a parameter of the general theorems; `parseBytes` is the instance for documents in the
scope of `par` (UTF-8, no DOCTYPE / processing instructions, ASCII names): `par` under-approximates expat, so
for a document outside that scope `parseBytes` answers "not well-formed" where expat may accept. -/

def isCont (b : Nat) : Bool := 0x80 ≤ b && b < 0xC0

/-- strict UTF-8 (no overlong forms, no surrogates, at most U+10FFFF), as expat applies it to a document whose
    encoding is UTF-8; `none` = ill-formed octet sequence -/
def utf8Decode : List Nat → Option Str
  | [] => some []
  | b0 :: rest =>
    if b0 < 0x80 then (utf8Decode rest).map (Char.ofNat b0 :: ·)
    else if b0 < 0xC2 then none
    else if b0 < 0xE0 then
      match rest with
      | b1 :: r =>
        if isCont b1 then (utf8Decode r).map (Char.ofNat ((b0 - 0xC0) * 64 + (b1 - 0x80)) :: ·) else none
      | [] => none
    else if b0 < 0xF0 then
      match rest with
      | b1 :: b2 :: r =>
        if isCont b1 && isCont b2 && 0x800 ≤ (b0 - 0xE0) * 4096 + (b1 - 0x80) * 64 + (b2 - 0x80) &&
            !(0xD800 ≤ (b0 - 0xE0) * 4096 + (b1 - 0x80) * 64 + (b2 - 0x80) &&
              (b0 - 0xE0) * 4096 + (b1 - 0x80) * 64 + (b2 - 0x80) < 0xE000) then
          (utf8Decode r).map (Char.ofNat ((b0 - 0xE0) * 4096 + (b1 - 0x80) * 64 + (b2 - 0x80)) :: ·)
        else none
      | _ => none
    else if b0 < 0xF5 then
      match rest with
      | b1 :: b2 :: b3 :: r =>
        if isCont b1 && isCont b2 && isCont b3 &&
            0x10000 ≤ (b0 - 0xF0) * 262144 + (b1 - 0x80) * 4096 + (b2 - 0x80) * 64 + (b3 - 0x80) &&
            (b0 - 0xF0) * 262144 + (b1 - 0x80) * 4096 + (b2 - 0x80) * 64 + (b3 - 0x80) < 0x110000 then
          (utf8Decode r).map (Char.ofNat ((b0 - 0xF0) * 262144 + (b1 - 0x80) * 4096 + (b2 - 0x80) * 64 + (b3 - 0x80)) :: ·)
        else none
      | _ => none
    else none

/-- expat skips a UTF-8 byte order mark in front of the document -/
def dropBOM (s : Str) : Str :=
  match s with
  | c :: rest => if c.toNat = 0xFEFF then rest else s
  | [] => s

/-- mirrors pywbem/_tupletree.py: xml_to_tupletree_sax on the octets read, for documents in the scope of `par` -/
def parseBytes (bs : List Nat) : Except (Option Exc) Xml :=
  match utf8Decode bs with
  | none => .error none
  | some s =>
    match XmlParse.par (dropBOM s) with
    | none => .error none
    | some t => .ok t

/-! ## Listener state seen by the handler -/

/-- an accepted indication: (message id, INSTANCE subtree) -/
abbrev Item := Str × Xml

structure LState where
  queue : List Item        -- WBEMListener._ind_queue
  cap : Nat                -- max_ind_queue_size; 0 = unbounded
  delivered : List Item    -- what the callback thread has taken out (ghost)
  accepted : List Item     -- every indication answered with a success response (ghost)

def LState.full (s : LState) : Bool := s.cap != 0 && s.queue.length ≥ s.cap

/-! ## do_POST -/

structure Req where
  method : Str
  headers : List (Str × Str)
  body : List Nat          -- octets the peer sends after the header section before it stops sending
  deriving Repr

def maxSsize : Nat := 2 ^ 63 - 1

/-- `self.rfile.read(n)`: OverflowError beyond Py_ssize_t, MemoryError beyond what can be allocated,
    else the first n octets (all of them when the peer stops earlier) -/
def readBody (E : Env) (n : Nat) (sent : List Nat) : X (List Nat) :=
  if n > maxSsize then .error .overflowError
  else if n > E.allocLimit then .error .memoryError
  else .ok (sent.take n)

def fmt1 (pre : String) (v : Str) (post : String) : Str := pre.toList ++ v ++ post.toList

/-- the header checks of do_POST: `some (code, details)` = rejected -/
def headerCheck (hs : List (Str × Str)) : Option Str :=
  let accept := (hget hs "Accept").getD "text/xml".toList
  if !acceptOk accept then
    some (fmt1 "Invalid Accept header value: " accept " (need text/xml, application/xml or */*)")
  else
    let ac := (hget hs "Accept-Charset").getD "UTF-8".toList
    if !acceptCharsetOk ac then
      some (fmt1 "Invalid Accept-Charset header value: " ac " (need UTF-8 or *)")
    else
      match hget hs "Accept-Range" with
      | some ar => some (fmt1 "Accept-Range header is not permitted " ar "")
      | none =>
        match hget hs "Content-Type" with
        | none => some "Content-Type header is required".toList
        | some ct =>
          if !contentTypeOk ct then
            some (fmt1 "Invalid Content-Type header value: " ct
              " (need text/xml or application/xml with charset=utf-8 or empty)")
          else
            let ce := (hget hs "Content-Encoding").getD "identity".toList
            if !contentEncodingOk ce then
              some (fmt1 "Invalid Content-Encoding header value: " ce "(listener supports only identity)")
            else none

/-- `int(self.headers.get('Content-Length', 0))`; none = ValueError -/
def contentLen (hs : List (Str × Str)) : Option Int :=
  match hget hs "Content-Length" with
  | none => some 0
  | some v => pyInt v

def clText (hs : List (Str × Str)) : Str := (hget hs "Content-Length").getD "0".toList

/-- the part of do_POST after a successful parse_export_request -/
def dispatch (s : LState) (msgid methodname : Str) (params : List (Str × Option Xml)) :
    X (LState × Response) :=
  if methodname = "ExportIndication".toList then
    match params with
    | [(k, v)] =>
      if k = "NewIndication".toList then
        match v with
        | some inst =>
          if s.full then do
            let r ← sendExportResponse msgid methodname
              (some (cimErrFailed, fmt1 "Indication queue is full (size " (natStr s.cap) ")"))
            pure (s, r)
          else do
            let r ← sendExportResponse msgid methodname none
            pure ({ s with queue := s.queue ++ [(msgid, inst)], accepted := s.accepted ++ [(msgid, inst)] }, r)
        | none => do
          let r ← sendExportResponse msgid methodname
            (some (cimErrInvalidParameter, "NewIndication parameter is not a CIM instance, but None".toList))
          pure (s, r)
      else do
        let r ← sendExportResponse msgid methodname
          (some (cimErrInvalidParameter, fmt1 "Expecting one parameter NewIndication, got " (ascii2Keys (params.map (·.1))) ""))
        pure (s, r)
    | _ => do
      let r ← sendExportResponse msgid methodname
        (some (cimErrInvalidParameter, fmt1 "Expecting one parameter NewIndication, got " (ascii2Keys (params.map (·.1))) ""))
      pure (s, r)
  else do
    let r ← sendExportResponse msgid methodname
      (some (cimErrNotSupported, fmt1 "Unknown export method: " (ascii2 methodname) ""))
    pure (s, r)

/-- the `except` clauses of do_POST around read + parse_export_request -/
def parseFailure (cfg : Cfg) (E : Env) (e : PErr) : X Response :=
  match e with
  | .notWellFormed => sendHttpError cfg 400 (some "request-not-well-formed") (some E.parserMsg) []
  | .dtdVersion v => sendHttpError cfg 400 (some "unsupported-dtd-version")
      (some (fmt1 "DTDVERSION is " v ", expected 2.x.y")) []
  | .protoVersion v => sendHttpError cfg 400 (some "unsupported-protocol-version")
      (some (fmt1 "PROTOCOLVERSION is " v ", expected 1.x.y")) []
  | .cimVersion v => sendHttpError cfg 400 (some "unsupported-version")
      (some (fmt1 "CIMVERSION is " v ", expected 2.x.y")) []
  | .other x =>
    if cfg.catchAll then
      sendHttpError cfg 500 none (some (fmt1 "Error processing the export request: " (E.excText x) "")) []
    else .error x

/-- `content_len` of do_POST: the integer value, -1 standing for "int() raised ValueError" -/
def clValue (hs : List (Str × Str)) : Int :=
  match contentLen hs with
  | some n => n
  | none => -1

/-- `self.rfile.read(content_len)`; a negative length (only without the fix) means read-until-EOF -/
def readFor (E : Env) (cl : Int) (sent : List Nat) : X (List Nat) :=
  if cl < 0 then .ok sent else readBody E cl.toNat sent

/-- do_POST from the Content-Length check on -/
def postBody (cfg : Cfg) (E : Env) (s : LState) (r : Req) : X (LState × Response) :=
  if cfg.validateLen && clValue r.headers < 0 then do
    let rsp ← sendHttpError cfg 400 (some "header-mismatch")
      (some (fmt1 "Invalid Content-Length header value: " (ascii2 (clText r.headers)) " (need a non-negative integer)")) []
    pure (s, rsp)
  else if !cfg.validateLen && (contentLen r.headers).isNone then .error .valueError
  else
    match readFor E (clValue r.headers) r.body with
    | .error x => do
      let rsp ← parseFailure cfg E (.other x)
      pure (s, rsp)
    | .ok bytes =>
      match parseExportRequest cfg E bytes with
      | .error e => do
        let rsp ← parseFailure cfg E e
        pure (s, rsp)
      | .ok (msgid, m, params) => dispatch s msgid m params

/-- number of body octets do_POST consumes from the connection (`none`: it answers without reading) -/
def bytesRead (cfg : Cfg) (E : Env) (r : Req) : Option Nat :=
  match headerCheck r.headers with
  | some _ => none
  | none =>
    if cfg.validateLen && clValue r.headers < 0 then none
    else if !cfg.validateLen && (contentLen r.headers).isNone then none
    else match readFor E (clValue r.headers) r.body with
      | .ok b => some b.length
      | .error _ => none

/-- do_POST -/
def doPost (cfg : Cfg) (E : Env) (s : LState) (r : Req) : X (LState × Response) :=
  match headerCheck r.headers with
  | some details => do
    let rsp ← sendHttpError cfg 406 (some "header-mismatch") (some details) []
    pure (s, rsp)
  | none => postBody cfg E s r

/-- the methods that have a do_<METHOD> answering 405 -/
def isInvalidMethod (m : Str) : Bool := inList m invalidMethods

/-- one request as dispatched by BaseHTTPRequestHandler.handle_one_request:
    `none` = no do_<METHOD> (http.server itself answers 501, not modelled) -/
def handle (cfg : Cfg) (E : Env) (s : LState) (r : Req) : Option (X (LState × Response)) :=
  if r.method = "POST".toList then some (doPost cfg E s r)
  else if isInvalidMethod r.method then some ((invalidMethod cfg).map (fun rsp => (s, rsp)))
  else none

/-! ## histories -/

inductive Ev where
  | request (E : Env) (r : Req)
  | deliver                       -- the callback thread takes one indication out of the queue

/-- an observable outcome of one event -/
inductive Obs where
  | response (r : Response)
  | stdlib                        -- answered by http.server (501)
  | dropped (e : Exc)             -- handler exception: connection closed without a response
  | none
  deriving Repr, DecidableEq

def step (cfg : Cfg) (s : LState) : Ev → LState × Obs
  | .request E r =>
    match handle cfg E s r with
    | some (.ok (s', rsp)) => (s', .response rsp)
    | some (.error e) => (s, .dropped e)
    | none => (s, .stdlib)
  | .deliver =>
    match s.queue with
    | [] => (s, .none)
    | x :: rest => ({ s with queue := rest, delivered := s.delivered ++ [x] }, .none)

def run (cfg : Cfg) (s : LState) : List Ev → LState × List Obs
  | [] => (s, [])
  | e :: es =>
    let (s1, o) := step cfg s e
    let (s2, os) := run cfg s1 es
    (s2, o :: os)

/-! ## the request line (http.server.BaseHTTPRequestHandler.handle_one_request / parse_request, CPython 3.12)

mirrors CPython Lib/http/server.py: handle_one_request (readline(65537), 414, empty line, `do_` + command lookup, 501),
  parse_request (rstrip CR LF, str.split(), version syntax and range, word count, HTTP/0.9 rules),
  send_response_only / send_header / end_headers (nothing is written while request_version == 'HTTP/0.9'),
  send_error (the HTML body is written regardless).
Header-section limits (LineTooLong / too many headers ⇒ 431) are the parameter `hdrFault`. -/

/-- `str.split()` on a Latin-1 decoded line: maximal runs of non-whitespace -/
def pySplitAux : Str → Str → List Str
  | cur, [] => if cur = [] then [] else [cur.reverse]
  | cur, c :: cs =>
    if isPySpace c then (if cur = [] then pySplitAux [] cs else cur.reverse :: pySplitAux [] cs)
    else pySplitAux (c :: cur) cs

def pySplit (s : Str) : List Str := pySplitAux [] s

/-- `s.rstrip('\r\n')` -/
def rstripCRLF (s : Str) : Str := (s.reverse.dropWhile (fun c => c == '\r' || c == '\n')).reverse

/-- `s.split(sep)` for a one-character separator -/
def splitOn1 (sep : Char) : Str → Str → List Str
  | cur, [] => [cur.reverse]
  | cur, c :: cs => if c == sep then cur.reverse :: splitOn1 sep [] cs else splitOn1 sep (c :: cur) cs

def digitsVal (s : Str) : Nat := s.foldl (fun a c => a * 10 + (c.toNat - 48)) 0

/-- the `try:` block of parse_request: `some (major, minor)` or `none` = ValueError ⇒ 400.
    (`str.isdigit` also accepts ² ³ ¹, for which `int()` then raises ValueError: same outcome) -/
def parseVersion (v : Str) : Option (Nat × Nat) :=
  match stripPrefix "HTTP/".toList v with
  | none => none
  | some base =>
    -- version.split('/', 1)[1]: everything after the first '/'
    match splitOn1 '.' [] base with
    | [a, b] =>
      if a ≠ [] ∧ b ≠ [] ∧ a.all isDigitC ∧ b.all isDigitC ∧ a.length ≤ 10 ∧ b.length ≤ 10 then
        some (digitsVal a, digitsVal b)
      else none
    | _ => none

/-- what reaches the peer -/
inductive Wire where
  | silent                       -- the connection is closed without a single octet
  | bare (code : Nat)            -- HTTP/0.9 style: send_error's HTML body only, no status line, no headers
  | bareBody                     -- HTTP/0.9 style: the 200 body only
  | status (rsp : Response)      -- pywbem's response
  | stdlib (code : Nat)          -- http.server's own error response (status line + headers + HTML)
  | dropped (e : Exc)
  deriving Repr, DecidableEq

/-- `send_error(code)` under the current `request_version` -/
def emitError (reqVersion : Str) (code : Nat) : Wire :=
  if reqVersion = "HTTP/0.9".toList then .bare code else .stdlib code

inductive ReqLine where
  | silent
  | reject (w : Wire)
  | dispatch (command path version : Str)
  deriving Repr, DecidableEq

/-- handle_one_request up to the method lookup, for one raw request line (Latin-1 decoded, with its line end) -/
def parseRequestLine (raw : Str) : ReqLine :=
  if raw.length > 65536 then .reject (.stdlib 414)         -- request_version = '' at that point
  else if raw = [] then .silent
  else
    let words := pySplit (rstripCRLF raw)
    match words with
    | [] => .silent
    | _ =>
      -- len(words) >= 3: the last word must be a valid version below 2.0; it becomes request_version
      let verdict : Except Wire Str :=
        if words.length ≥ 3 then
          match parseVersion (words.getLast?.getD []) with
          | none => .error (.bare 400)
          | some (maj, _) => if maj ≥ 2 then .error (.bare 505) else .ok (words.getLast?.getD [])
        else .ok "HTTP/0.9".toList
      match verdict with
      | .error w => .reject w
      | .ok reqVersion =>
        match words with
        | [command, path] =>
          if command ≠ "GET".toList then .reject (.bare 400) else .dispatch command path reqVersion
        | [command, path, _] => .dispatch command path reqVersion
        | _ => .reject (emitError reqVersion 400)

/-- what the peer sees of a pywbem response under `request_version` -/
def render (reqVersion : Str) (rsp : Response) : Wire :=
  if reqVersion = "HTTP/0.9".toList then (if rsp.body = [] then .silent else .bareBody) else .status rsp

/-- one connection, from the raw request line on: handle_one_request.
    `hdrFault`: http.client.parse_headers raised LineTooLong / HTTPException (⇒ 431) -/
def serve (cfg : Cfg) (E : Env) (s : LState) (rawLine : Str) (hdrFault : Bool) (headers : List (Str × Str))
    (body : List Nat) : LState × Wire :=
  match parseRequestLine rawLine with
  | .silent => (s, .silent)
  | .reject w => (s, w)
  | .dispatch command _ ver =>
    if hdrFault then (s, emitError ver 431)
    else
      match handle cfg E s { method := command, headers := headers, body := body } with
      | none => (s, emitError ver 501)
      | some (.error e) => (s, .dropped e)
      | some (.ok (s', rsp)) => (s', render ver rsp)

/-! ## the header section (http.client.parse_headers = _read_headers + email.feedparser, compat32 policy)

mirrors CPython 3.12 Lib/http/client.py: _read_headers (readline up to the blank line, _MAXLINE, _MAXHEADERS), parse_headers;
  Lib/email/feedparser.py: BufferedSubFile.push (str.splitlines(True)), FeedParser._parsegen (header lines = the
  longest prefix of lines matching headerRE), _parse_headers (continuation lines, `From ` lines, empty names);
  Lib/email/_policybase.py: Compat32.header_source_parse (value = text after the first colon, blanks stripped on
  the left, continuation lines appended unchanged, trailing CR/LF removed). -/

/-- `fp.readline()` pieces of `_read_headers`: lines ending in LF, up to and including the blank line -/
def readHeaderLines : Str → Str → List Str
  | cur, [] => if cur = [] then [] else [cur.reverse]
  | cur, c :: cs =>
    if c == '\n' then
      let line := ('\n' :: cur).reverse
      if line = ['\r', '\n'] ∨ line = ['\n'] then [line] else line :: readHeaderLines [] cs
    else readHeaderLines (c :: cur) cs

/-- LineTooLong / "got more than 100 headers" ⇒ parse_request answers 431 -/
def headerFault (lines : List Str) : Bool := lines.any (fun l => l.length > 65536) || lines.length > 100

/-- line ends the feed parser cracks at (CPython 3.12 BufferedSubFile.push: universal newlines CR, LF, CR LF only;
    VT, FF, FS, GS, RS, NEL stay inside the line — found by K) -/
def isLineBreak (c : Char) : Bool := c.toNat == 0x0A || c.toNat == 0x0D

/-- `str.splitlines(keepends=True)` on Latin-1 text; `cr`: the current line already ends in a CR that may still
    be followed by its LF -/
def splitLines : Bool → Str → Str → List Str
  | _, cur, [] => if cur = [] then [] else [cur.reverse]
  | cr, cur, c :: cs =>
    if cr then
      if c == '\n' then ('\n' :: cur).reverse :: splitLines false [] cs
      else if c == '\r' then cur.reverse :: splitLines true ['\r'] cs
      else if isLineBreak c then cur.reverse :: [c] :: splitLines false [] cs
      else cur.reverse :: splitLines false [c] cs
    else if c == '\r' then splitLines true ('\r' :: cur) cs
    else if isLineBreak c then (c :: cur).reverse :: splitLines false [] cs
    else splitLines false (c :: cur) cs

def isHdrNameChar (c : Char) : Bool :=
  let n := c.toNat
  (0x21 ≤ n && n ≤ 0x39) || (0x3B ≤ n && n ≤ 0x7E)

/-- feedparser `headerRE`: `From `, or name characters then a colon, or a leading blank/TAB -/
def isHeaderLine (l : Str) : Bool :=
  "From ".toList.isPrefixOf l ||
  (match l.dropWhile isHdrNameChar with | ':' :: _ => true | _ => false) ||
  (match l with | c :: _ => c == ' ' || c == '\t' | [] => false)

def rstripCRLFs (s : Str) : Str := rstripCRLF s

/-- Compat32.header_source_parse on the collected source lines of one header -/
def headerOf (name : Str) (first : Str) (conts : List Str) : Str × Str :=
  (name, rstripCRLFs (((first.drop (name.length + 1)).dropWhile (fun c => c == ' ' || c == '\t')) ++ conts.flatten))

/-- FeedParser._parse_headers: (current header name, its first line, its continuation lines reversed) -/
def parseHeaderLines : Option (Str × Str × List Str) → List Str → List (Str × Str)
  | cur, [] => match cur with | some (n, f, cs) => [headerOf n f cs.reverse] | none => []
  | cur, l :: ls =>
    match l with
    | c :: _ =>
      if c == ' ' || c == '\t' then
        match cur with
        | some (n, f, cs) => parseHeaderLines (some (n, f, l :: cs)) ls
        | none => parseHeaderLines none ls                       -- defect: continuation without a header
      else
        let flushed := match cur with | some (n, f, cs) => [headerOf n f cs.reverse] | none => []
        if "From ".toList.isPrefixOf l then flushed ++ parseHeaderLines none ls
        else
          let name := l.takeWhile (fun x => x != ':')
          if name = [] then flushed ++ parseHeaderLines none ls  -- defect: empty header name
          else flushed ++ parseHeaderLines (some (name, l, [])) ls
    | [] => parseHeaderLines cur ls

/-- http.client.parse_headers on the text behind the request line: `none` = 431 -/
def parseHeaders (text : Str) : Option (List (Str × Str)) :=
  let raw := readHeaderLines [] text
  if headerFault raw then none
  else some (parseHeaderLines none ((splitLines false [] raw.flatten).takeWhile isHeaderLine))

/-- one connection from the raw octets behind the request line on (header section, then body) -/
def serveRaw (cfg : Cfg) (E : Env) (s : LState) (rawLine : Str) (rest : Str) (body : List Nat) : LState × Wire :=
  match parseHeaders rest with
  | none => serve cfg E s rawLine true [] body
  | some hs => serve cfg E s rawLine false hs body

/-! ## handler threads: one thread per connection (socketserver.ThreadingMixIn.process_request)

mirrors pywbem/_listener.py: class ThreadedHTTPServer(socketserver.ThreadingMixIn, HTTPServer) — the order of the
bases (pinned in Generated/ListenerConsts.serverBases) is what makes process_request start a thread per connection.
A connection whose peer has announced more body octets than it has sent so far keeps ITS handler thread inside
`rfile.read`; nothing else waits for it.  The listener state is touched only by the non-blocking queue put. -/

structure Conn where
  id : Nat
  E : Env
  method : Str
  headers : List (Str × Str)
  got : List Nat          -- body octets received so far
  eof : Bool              -- the peer has stopped sending

/-- is the handler thread of this connection still blocked in `rfile.read(content_len)`? -/
def Conn.waits (cfg : Cfg) (c : Conn) : Bool :=
  c.method == "POST".toList && (headerCheck c.headers).isNone && !c.eof &&
  (if clValue c.headers < 0 then !cfg.validateLen && (contentLen c.headers).isSome
   else decide ((clValue c.headers).toNat ≤ maxSsize) && decide ((clValue c.headers).toNat ≤ c.E.allocLimit) &&
        decide (c.got.length < (clValue c.headers).toNat))

def Conn.req (c : Conn) : Req := { method := c.method, headers := c.headers, body := c.got }

inductive CEv where
  | connect (c : Conn)                    -- request line + headers (+ possibly body octets) have arrived
  | send (id : Nat) (octets : List Nat)   -- more body octets on a pending connection
  | shut (id : Nat)                       -- the peer stops sending on a pending connection
  | deliver                               -- the callback thread takes one indication out of the queue

structure CState where
  ls : LState
  pending : List Conn

/-- result of one event: new state, observations (in order), and the sequential events they amount to -/
structure COut where
  st : CState
  obs : List Obs
  trace : List Ev

/-- the handler thread of `c` runs as far as it can: it answers unless it must wait for octets -/
def advance (cfg : Cfg) (cs : CState) (c : Conn) : COut :=
  if c.waits cfg then { st := { cs with pending := cs.pending ++ [c] }, obs := [], trace := [] }
  else
    { st := { cs with ls := (step cfg cs.ls (.request c.E c.req)).1 },
      obs := [(step cfg cs.ls (.request c.E c.req)).2], trace := [.request c.E c.req] }

def removeConn (id : Nat) (l : List Conn) : List Conn := l.filter (fun c => c.id != id)

def cstep (cfg : Cfg) (cs : CState) : CEv → COut
  | .connect c => advance cfg cs c
  | .send id octets =>
    match cs.pending.find? (fun c => c.id == id) with
    | none => { st := cs, obs := [], trace := [] }
    | some c => advance cfg { cs with pending := removeConn id cs.pending } { c with got := c.got ++ octets }
  | .shut id =>
    match cs.pending.find? (fun c => c.id == id) with
    | none => { st := cs, obs := [], trace := [] }
    | some c => advance cfg { cs with pending := removeConn id cs.pending } { c with eof := true }
  | .deliver => { st := { cs with ls := (step cfg cs.ls .deliver).1 }, obs := [(step cfg cs.ls .deliver).2], trace := [.deliver] }

def crun (cfg : Cfg) (cs : CState) : List CEv → COut
  | [] => { st := cs, obs := [], trace := [] }
  | e :: es =>
    let o1 := cstep cfg cs e
    let o2 := crun cfg o1.st es
    { st := o2.st, obs := o1.obs ++ o2.obs, trace := o1.trace ++ o2.trace }

/-- the same connections served by ONE thread (HTTPServer.process_request without the mixin): a connection is
    only looked at when nothing is pending; everything else queues behind the pending one -/
def sstepConnect (cfg : Cfg) (cs : CState) (c : Conn) : COut :=
  match cs.pending with
  | [] => advance cfg cs c
  | _ => { st := { cs with pending := cs.pending ++ [c] }, obs := [], trace := [] }

def LState.init (cap : Nat) : LState := { queue := [], cap := cap, delivered := [], accepted := [] }

end Pywbem.Model.ListenerHttp
