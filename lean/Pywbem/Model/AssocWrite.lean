/-
C13 — the write path of association instances in the mock WBEM server: how CreateInstance,
ModifyInstance and DeleteInstance keep the copies ("shadow instances") of a multi-namespace
association instance in step.

mirrors pywbem_mock/_instancewriteprovider.py: InstanceWriteProvider.CreateInstance / ModifyInstance /
DeleteInstance, find_multins_association_ref_namespaces, create_multi_namespace_instance,
modify_multi_namespace_instance (code of /repo after the fix commits e0cdfd9 "remove the copy from a
namespace the ends no longer name" and d0bb8f8), and the checks of
pywbem_mock/_providerdispatcher.py that precede them (namespace, creation class, instance exists).

Representation: the Python loops `for ns in namespaces: store(ns).create/update/delete(path_in(ns))`
are one `List.map` over the repository that touches every store whose name is in the namespace list
(`inNss`, case-insensitive): the same thing for a NocaseDict of namespaces (names unique up to case;
`createAssoc_repo_eq_addInsts` proves it for the fold that `createAssoc` uses).  A dict lookup with
the path re-based on the store's own namespace and without host compares class name and keybindings
(`pkEq`); `findInst_eq_pk` proves that this is `findInst` under the store invariant.
-/
import Pywbem.Model.Assoc

namespace Pywbem.Model.Assoc
open Pywbem.Proto

/-- the non-NULL reference values of an instance -/
def ends (a : Inst) : List Path := a.props.filterMap (fun p => if p.isRef then p.value else none)

/-- the namespaces named by the ends -/
def endNss (a : Inst) : List Name := (ends a).filterMap (·.ns)

/-- the instance has a reference property (it is an instance of an association class) -/
def hasRef (a : Inst) : Bool := a.props.any (·.isRef)

/-- equality of instance paths inside one instance store: class name (any case) and keybindings -/
def pkEq (p q : Path) : Bool := ieq p.cls q.cls && p.key == q.key

/-- `ns in NocaseList(namespaces)` -/
def inNss (nss : List Name) (n : Name) : Bool := nss.any (fun m => ieq m n)

/-- `for ns in nss: store(ns).create(path_in(ns), inst)` -/
def addInsts (r : Repo) (nss : List Name) (a : Inst) : Repo :=
  r.map (fun S => if inNss nss S.name then { S with insts := S.insts ++ [rebase a S.name] } else S)

/-- `for ns in nss: store(ns).update(path_in(ns), copy_of(inst))` (a dict assignment to an existing key
    keeps the position) -/
def setInsts (r : Repo) (nss : List Name) (a : Inst) : Repo :=
  r.map (fun S => if inNss nss S.name then
      { S with insts := S.insts.map (fun i => if pkEq i.path a.path then rebase a S.name else i) } else S)

/-- `for ns in nss: if store(ns).object_exists(path_in(ns)): store(ns).delete(path_in(ns))` -/
def delInsts (r : Repo) (nss : List Name) (p : Path) : Repo :=
  r.map (fun S => if inNss nss S.name then
      { S with insts := S.insts.filter (fun i => !pkEq i.path p) } else S)

/-- `CIMInstance.update(properties)` on the NocaseDict of properties: an existing name is replaced in
    place (the dispatcher has already given the new property the lexical case of the class, i.e. of the
    stored one), a new name is appended -/
def mergeProp (old : List IProp) (c : IProp) : List IProp :=
  if old.any (fun o => ieq o.name c.name) then
    old.map (fun o => if ieq o.name c.name then { c with name := o.name } else o)
  else old ++ [c]

def mergeProps (old chg : List IProp) : List IProp := chg.foldl mergeProp old

/-- mirrors validate_reference_property_endpoint_exists + validate_instance_exists: no host, a
    namespace that exists, the instance exists there -/
def endOk (sv : Server) (v : Path) : Bool :=
  v.host.isNone &&
    match v.ns with
    | none => false
    | some n =>
      match findNs sv.repo n with
      | none => false
      | some T => (findInst T.insts v).isSome

/-- `pn not in original_instance or not _eq_item(prop.value, original_instance[pn])` -/
def refChanged (orig : Inst) (c : IProp) : Bool :=
  match orig.props.find? (fun o => ieq o.name c.name) with
  | none => true
  | some o =>
    match o.value, c.value with
    | some a, some b => !a.eqv b
    | none, none => false
    | _, _ => true

/-- class exists in every namespace of the list (get_required_class) -/
def classInAll (sv : Server) (nss : List Name) (cls : Name) : Bool :=
  nss.all (fun n => match findNs sv.repo n with
                    | none => false
                    | some T => classExists T.classes cls)

/-- an instance with this path exists in every namespace of the list -/
def instInAll (sv : Server) (nss : List Name) (p : Path) : Bool :=
  nss.all (fun n => match findNs sv.repo n with
                    | none => false
                    | some T => T.insts.any (fun i => pkEq i.path p))

/-- mirrors ProviderDispatcher.ModifyInstance (namespace, class, instance checks) +
    InstanceWriteProvider.ModifyInstance for an instance of an association class.  `chg` = the
    properties the provider receives (ModifiedInstance reduced by PropertyList).
    NULL for a reference is refused; a changed reference must name an existing instance; the merged
    instance is written to the request namespace and to every other namespace its ends name (each must
    hold a copy already: NOT_FOUND otherwise, nothing changed); copies in namespaces the ends no longer
    name are removed (fix e0cdfd9). -/
def modifyAssoc (sv : Server) (ns : Name) (p : Path) (chg : List IProp) : Except PyExc Server :=
  match findNs sv.repo ns with
  | none => .error errNamespace
  | some S =>
    if !classExists S.classes p.cls then .error errClass
    else
      match findInst S.insts (srcPath ns p) with
      | none => .error errNotFound
      | some orig =>
        if chg.any (fun c => c.isRef && c.value.isNone) then .error errParam
        else if chg.any (fun c => c.isRef && refChanged orig c &&
                  !(match c.value with | some v => endOk sv v | none => true)) then .error errParam
        else
          let merged : Inst := { orig with props := mergeProps orig.props chg }
          let old := otherNamespaces orig ns
          let new := otherNamespaces merged ns
          let stale := old.filter (fun n => !inNss new n)
          if stale.any (fun n => (findNs sv.repo n).isNone) then .error .keyError
          else if new.isEmpty then
            .ok { sv with repo := delInsts (setInsts sv.repo [ns] merged) stale merged.path }
          else if !classInAll sv (new ++ [ns]) merged.cls then .error errClass
          else if !instInAll sv (new ++ [ns]) merged.path then .error errNotFound
          else .ok { sv with repo := delInsts (setInsts sv.repo (new ++ [ns]) merged) stale merged.path }

/-- mirrors ProviderDispatcher.DeleteInstance + InstanceWriteProvider.DeleteInstance for an instance of
    an association class: the instance is removed from the request namespace and from every other
    namespace its ends name (where it exists). -/
def deleteAssoc (sv : Server) (ns : Name) (p : Path) : Except PyExc Server :=
  match findNs sv.repo ns with
  | none => .error errNamespace
  | some S =>
    if !classExists S.classes p.cls then .error errClass
    else
      match findInst S.insts (srcPath ns p) with
      | none => .error errNotFound
      | some orig =>
        let multi := otherNamespaces orig ns
        if multi.any (fun n => (findNs sv.repo n).isNone) then .error .keyError
        else .ok { sv with repo := delInsts sv.repo (multi ++ [ns]) orig.path }

/-- `for ipath in inst_paths: self.providerdispatcher.DeleteInstance(ipath)`: the first failure aborts
    (the caller then restores its snapshot: nothing changed) -/
def deleteAll (sv : Server) (ns : Name) : List Path → Except PyExc Server
  | [] => .ok sv
  | p :: ps =>
    match deleteAssoc sv ns p with
    | .error e => .error e
    | .ok sv' => deleteAll sv' ns ps

/-- `class_store.delete(clname)` for every class of the list, in the store of namespace `ns` -/
def removeClasses (r : Repo) (ns : Name) (names : List Name) : Repo :=
  r.map (fun S => if ieq S.name ns then
      { S with classes := S.classes.filter (fun c => !names.any (fun n => ieq n c.name)) } else S)

/-- mirrors pywbem_mock/_mainprovider.py: MainProvider.DeleteClass for an association class: the class
    and its subclasses are removed from the class store of the request namespace; before that every
    instance of them stored in that namespace is deleted THROUGH DeleteInstance, i.e. together with its
    copies in the other namespaces its ends name. -/
def deleteClassAssoc (sv : Server) (ns : Name) (cn : Name) : Except PyExc Server :=
  match findNs sv.repo ns with
  | none => .error errNamespace
  | some S =>
    if !classExists S.classes cn then .error errNotFound
    else
      let sub := subNamesDeep (S.classes.length + 1) S.classes cn ++ [cn]
      let victims := (S.insts.filter (fun i => sub.any (fun c => ieq c i.path.cls))).map (·.path)
      match deleteAll sv ns victims with
      | .error e => .error e
      | .ok sv' => .ok { sv' with repo := removeClasses sv'.repo ns sub }

/-- write requests for association instances and association classes -/
inductive WOp where
  | create (ns : Name) (a : Inst)
  | modify (ns : Name) (p : Path) (chg : List IProp)
  | delete (ns : Name) (p : Path)
  | deleteClass (ns : Name) (cn : Name)
  deriving Repr, Inhabited

def applyW (sv : Server) : WOp → Except PyExc Server
  | .create ns a => createAssoc sv ns a
  | .modify ns p chg => modifyAssoc sv ns p chg
  | .delete ns p => deleteAssoc sv ns p
  | .deleteClass ns cn => deleteClassAssoc sv ns cn

/-- a failed request leaves the repository as it was; the history goes on -/
def stepW (sv : Server) (op : WOp) : Server :=
  match applyW sv op with
  | .ok sv' => sv'
  | .error _ => sv

def runW (sv : Server) (ops : List WOp) : Server := ops.foldl stepW sv

end Pywbem.Model.Assoc

namespace Pywbem.Model.Assoc

/-! ### the shadow-copy discipline and the request conditions as executable checks
(the `Prop` versions `WInv`, `CreateOk`, `ModifyOk`, `HistOk` are in `Proofs/Lemmas/AssocWrite*.lean`;
`disciplineB_iff` etc. prove that these decide them; the driver reports them for every write history of K) -/

def disciplineB (r : Repo) : Bool :=
  r.all (fun S => r.all (fun T => !ieq S.name T.name || S == T)) &&
  r.all (fun S => S.insts.all (fun a => a.path.host.isNone &&
      match a.path.ns with | some m => ieq m S.name | none => false)) &&
  r.all (fun S => S.insts.all (fun a => S.insts.all (fun b => !pkEq a.path b.path || a == b))) &&
  r.all (fun S => S.insts.all (fun a => (endNss a).isEmpty || inNss (endNss a) S.name)) &&
  r.all (fun S => r.all (fun T => S.insts.all (fun a => T.insts.all (fun b =>
      !(pkEq a.path b.path && hasRef a && (endNss a).isEmpty) || S == T)))) &&
  r.all (fun S => S.insts.all (fun a => (endNss a).all (fun n =>
      r.any (fun T => ieq T.name n && T.insts.any (fun a' => pkEq a'.path a.path))))) &&
  r.all (fun S => r.all (fun T => S.insts.all (fun a => T.insts.all (fun b =>
      !(pkEq a.path b.path && hasRef a) || (a.props == b.props && a.cls == b.cls)))))

def createOkB (r : Repo) (ns : Name) (a : Inst) : Bool :=
  ((endNss a).isEmpty || inNss (endNss a) ns) &&
  r.all (fun S => S.insts.all (fun b => !pkEq b.path a.path))

def modifyOkB (sv : Server) (ns : Name) (p : Path) (chg : List IProp) : Bool :=
  match findNs sv.repo ns with
  | none => true
  | some S =>
    match findInst S.insts (srcPath ns p) with
    | none => true
    | some orig =>
      let m : Inst := { orig with props := mergeProps orig.props chg }
      hasRef orig && ((endNss m).isEmpty || inNss (endNss m) ns)

def reqOkB (sv : Server) : WOp → Bool
  | .create ns a => createOkB sv.repo ns a
  | .modify ns p chg => modifyOkB sv ns p chg
  | .delete _ _ => true
  | .deleteClass _ _ => true

def histOkB : Server → List WOp → Bool
  | _, [] => true
  | sv, op :: ops => reqOkB sv op && histOkB (stepW sv op) ops

end Pywbem.Model.Assoc
