/-
C13 — the Python `set` of result paths made explicit.

`_get_reference_instnames` and `_get_associated_instancenames` collect their results in a Python set of
CIMInstanceName objects (hash and equality = `CIMInstanceName.__eq__`, here `Path.eqv`).  `Model/Assoc.lean`
represents such a set as a list read modulo `eqv` and multiplicity; this file adds the duplicate-free
normal form (first inserted representative kept, as `set.add` does) and the operations as the client
sees them (one entry per distinct path).  `C13_set_semantics*` prove that nothing but multiplicity
changes.
-/
import Pywbem.Model.Assoc

namespace Pywbem.Model.Assoc
open Pywbem.Proto

/-- successive `set.add`: the first inserted of several equal paths stays -/
def dedupPaths : List Path → List Path
  | [] => []
  | p :: ps => p :: (dedupPaths ps).filter (fun q => !q.eqv p)

/-- AssociatorNames / ReferenceNames (instance level) as lists without duplicates: the set is built from
    the stored values, the host is filled in afterwards (so a value stored with the server's host and one
    stored without both survive: finding C13-KF3) -/
def associatorNamesSetI (sv : Server) (ns : Name) (x : Path) (f : AFilter) : Except PyExc (List Path) :=
  withNs sv ns fun S =>
    match assocInstNames S (srcPath ns x) f with
    | .error e => .error e
    | .ok l => .ok ((dedupPaths l).map (fillHost sv.host))

def referenceNamesSetI (sv : Server) (ns : Name) (x : Path) (rc role : Option Name) : Except PyExc (List Path) :=
  withNs sv ns fun S =>
    match refInstNames S (srcPath ns x) rc role with
    | .error e => .error e
    | .ok l => .ok ((dedupPaths l).map (fillHost sv.host))

/-- Associators iterates over the set: one fetched instance per distinct path -/
def associatorsSetI (sv : Server) (ns : Name) (x : Path) (f : AFilter) : Except PyExc (List Inst) :=
  withNs sv ns fun S =>
    match assocInstNames S (srcPath ns x) f with
    | .error e => .error e
    | .ok l => mapE (fetchEnd sv) (dedupPaths l)

end Pywbem.Model.Assoc
