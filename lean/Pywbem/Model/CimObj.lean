/-
C01 — the CIM object family (public attributes of pywbem's CIM object classes, after the
normalisation their constructors apply) as one nested inductive family.

mirrors pywbem/_cim_obj.py: CIMInstanceName, CIMClassName, CIMInstance, CIMClass, CIMProperty,
  CIMMethod, CIMParameter, CIMQualifier, CIMQualifierDeclaration (attribute sets = `__slots__`)
-/
import Pywbem.Model.Xml

namespace Pywbem.Model
open Pywbem.Model.XmlText

inductive IntTy where
  | u8 | s8 | u16 | s16 | u32 | s32 | u64 | s64
  deriving DecidableEq, Repr, Inhabited

def IntTy.name : IntTy → Str
  | .u8 => "uint8".toList | .s8 => "sint8".toList | .u16 => "uint16".toList | .s16 => "sint16".toList
  | .u32 => "uint32".toList | .s32 => "sint32".toList | .u64 => "uint64".toList | .s64 => "sint64".toList

def IntTy.all : List IntTy := [.u8, .s8, .u16, .s16, .u32, .s32, .u64, .s64]

def IntTy.ofName (s : Str) : Option IntTy := IntTy.all.find? (fun t => t.name == s)

def IntTy.lo : IntTy → Int
  | .u8 | .u16 | .u32 | .u64 => 0
  | .s8 => -128 | .s16 => -32768 | .s32 => -2147483648 | .s64 => -9223372036854775808
def IntTy.hi : IntTy → Int
  | .u8 => 255 | .u16 => 65535 | .u32 => 4294967295 | .u64 => 18446744073709551615
  | .s8 => 127 | .s16 => 32767 | .s32 => 2147483647 | .s64 => 9223372036854775807

mutual
/-- a scalar CIM value (or a NULL array entry) -/
inductive Atom where
  | null                                   -- only as an array entry
  | str (s : Str)
  | char16 (s : Str)
  | bool (b : Bool)
  | int (t : IntTy) (v : Int)
  | real (is64 : Bool) (bits : UInt64)     -- Real32 / Real64, IEEE bits of the Python float
  | dt (s : Str)                           -- CIMDateTime, identified with its canonical 25-char string
  | pyint (v : Int)                        -- untyped Python int (keybindings)
  | pyfloat (bits : UInt64)                -- untyped Python float (keybindings)
  | ref (p : Path)
  | einst (i : Inst)                       -- embedded instance
  | ecls (c : Cls)                         -- embedded class
inductive Key where
  | mk (name : Option Str) (val : Atom)
inductive Path where
  | inst (cls : Str) (host ns : Option Str) (keys : List Key)
  | cls (cls : Str) (host ns : Option Str)
inductive Val where
  | null
  | scalar (a : Atom)
  | array (l : List Atom)
inductive Qual where
  | mk (name ty : Str) (val : Val) (propagated overridable tosubclass toinstance translatable : Option Bool)
inductive Prop_ where
  | mk (name ty : Str) (val : Val) (isArray : Bool) (arraySize : Option Nat)
       (refCls origin : Option Str) (propagated : Option Bool) (emb : Option Str) (quals : List Qual)
inductive Inst where
  | mk (cls : Str) (path : Option Path) (props : List Prop_) (quals : List Qual)
inductive Param where
  | mk (name ty : Str) (refCls : Option Str) (isArray : Bool) (arraySize : Option Nat)
       (quals : List Qual) (val : Val) (emb : Option Str)
inductive Meth where
  | mk (name : Str) (retTy : Option Str) (params : List Param) (origin : Option Str)
       (propagated : Option Bool) (quals : List Qual)
inductive Cls where
  | mk (name : Str) (super : Option Str) (path : Option Path) (props : List Prop_)
       (meths : List Meth) (quals : List Qual)
end

/-- CIMQualifierDeclaration (its value holds atomic values only) -/
structure QualDecl where
  name : Str
  ty : Str
  val : Val
  isArray : Bool
  arraySize : Option Nat
  scopes : List (Str × Bool)         -- NocaseDict, insertion order
  overridable : Option Bool
  tosubclass : Option Bool
  toinstance : Option Bool
  translatable : Option Bool

/-- anything `tocimxml()` / `parse_any` produce at top level -/
inductive Obj where
  | path (p : Path)
  | inst (i : Inst)
  | cls (c : Cls)
  | prop (p : Prop_)
  | meth (m : Meth)
  | param (p : Param)
  | qual (q : Qual)
  | qdecl (q : QualDecl)

instance : Inhabited Atom := ⟨.null⟩
instance : Inhabited Val := ⟨.null⟩
instance : Inhabited Path := ⟨.cls [] none none⟩
instance : Inhabited Inst := ⟨.mk [] none [] []⟩
instance : Inhabited Cls := ⟨.mk [] none none [] [] []⟩
instance : Inhabited Key := ⟨.mk none .null⟩
instance : Inhabited Qual := ⟨.mk [] [] .null none none none none none⟩
instance : Inhabited Prop_ := ⟨.mk [] [] .null false none none none none none []⟩
instance : Inhabited Param := ⟨.mk [] [] none false none [] .null none⟩
instance : Inhabited Meth := ⟨.mk [] none [] none none []⟩

end Pywbem.Model
