/-
C10 — the client-side part of the six instance operations: argument validation and conversion before the request
reaches the (mock) server.

mirrors pywbem/_cim_operations.py: WBEMConnection.CreateInstance / ModifyInstance / DeleteInstance / GetInstance /
  EnumerateInstances / EnumerateInstanceNames (the statements before `_imethodcall`),
  WBEMConnection._iparam_namespace_from_namespace, _iparam_namespace_from_objectname, _iparam_instancename,
  _iparam_classname, _iparam_instance, _iparam_bool, and the module function _iparam_propertylist

A `Call` is what the user writes; `callToOp` is the sequence of `_iparam_*` calls of the method (in its order, so
that the right exception wins) and yields the request `Op` of Model/Store.lean, or the TypeError / ValueError the
method raises before anything is sent.  Python values of a wrong type are represented by the constructor `other`
of each argument type (the generators of K use None, ints, strings where an object is expected, lists with a
non-string item, …).
-/
import Pywbem.Model.StoreSpec

namespace Pywbem.Model.Store
open Pywbem.Proto

/-- `s.strip('/')` -/
def stripSlashes (s : Name) : Name :=
  ((s.dropWhile (· == '/')).reverse.dropWhile (· == '/')).reverse

/-- a namespace argument: None / str / a value of another type -/
inductive NsArg where
  | none | str (n : Name) | other
  deriving DecidableEq, Repr, Inhabited

/-- a boolean option: None / bool / a value of another type -/
inductive BoolArg where
  | none | bool (b : Bool) | other
  deriving DecidableEq, Repr, Inhabited

/-- PropertyList: None / one string / list or tuple of strings / list with an item that is no string / other type -/
inductive PlArg where
  | none | str (n : Name) | list (l : List Name) | listBadItem | other
  deriving DecidableEq, Repr, Inhabited

/-- InstanceName: a CIMInstanceName / anything else (None, str, CIMClassName, …) -/
inductive NameArg where
  | path (p : Path) | other
  deriving DecidableEq, Repr, Inhabited

/-- ClassName: str / CIMClassName (with its namespace attribute) / anything else (None included: it is required) -/
inductive ClsArg where
  | str (n : Name) | clsName (n : Name) (ns : Option Name) | other
  deriving DecidableEq, Repr, Inhabited

/-- NewInstance / ModifiedInstance: a CIMInstance (with its path attribute) / anything else -/
inductive InstArg where
  | inst (i : Inst) (path : Option Path) | other
  deriving DecidableEq, Repr, Inhabited

inductive Call where
  | createInstance (ni : InstArg) (ns : NsArg)
  | modifyInstance (mi : InstArg) (iq : BoolArg) (pl : PlArg)
  | deleteInstance (n : NameArg)
  | getInstance (n : NameArg) (lo iq ico : BoolArg) (pl : PlArg)
  | enumerateInstances (cls : ClsArg) (ns : NsArg) (lo di iq ico : BoolArg) (pl : PlArg)
  | enumerateInstanceNames (cls : ClsArg) (ns : NsArg)
  deriving Repr, Inhabited

/-- mirrors pywbem/_cim_operations.py: WBEMConnection._iparam_namespace_from_namespace (the default namespace is
    filled in by `effNs` of the request) -/
def nsOfArg : NsArg → Except PyExc (Option Name)
  | .none => .ok none
  | .str n => .ok (some (stripSlashes n))
  | .other => .error .typeError

/-- mirrors pywbem/_cim_operations.py: WBEMConnection._iparam_bool -/
def boolOfArg : BoolArg → Except PyExc (Option Bool)
  | .none => .ok none
  | .bool b => .ok (some b)
  | .other => .error .typeError

/-- mirrors pywbem/_cim_operations.py: _iparam_propertylist (after the fix: items must be strings) -/
def plOfArg : PlArg → Except PyExc (Option (List Name))
  | .none => .ok none
  | .str n => .ok (some [n])
  | .list l => .ok (some l)
  | .listBadItem => .error .typeError
  | .other => .error .typeError

/-- mirrors pywbem/_cim_operations.py: WBEMConnection._iparam_classname (required=True) -/
def clsOfArg : ClsArg → Except PyExc Name
  | .str n => .ok n
  | .clsName n _ => .ok n
  | .other => .error .typeError

/-- `if namespace is None and isinstance(ClassName, CIMClassName): namespace = ClassName.namespace` -/
def enumNsArg (cls : ClsArg) (ns : NsArg) : NsArg :=
  match ns, cls with
  | .none, .clsName _ (some n) => .str n
  | a, _ => a

/-- `if namespace is None and isinstance(NewInstance, CIMInstance) and NewInstance.path.namespace is not None` -/
def createNsArg (ni : InstArg) (ns : NsArg) : NsArg :=
  match ns, ni with
  | .none, .inst _ (some p) => (match p.ns with | some n => .str n | none => .none)
  | a, _ => a

/-- the request a call sends, or the exception it raises before sending anything -/
def callToOp : Call → Except PyExc Op
  | .createInstance ni ns =>
    match nsOfArg (createNsArg ni ns) with
    | .error e => .error e
    | .ok n =>
      match ni with
      | .other => .error .typeError
      | .inst i _ => .ok (.create n i)
  | .modifyInstance mi iq pl =>
    match mi with
    | .other => .error .typeError
    | .inst _ none => .error .valueError
    | .inst i (some p) =>
      match boolOfArg iq with
      | .error e => .error e
      | .ok _ =>
        match plOfArg pl with
        | .error e => .error e
        | .ok l => .ok (.modify p i l)
  | .deleteInstance n =>
    match n with
    | .other => .error .typeError
    | .path p => .ok (.delete p)
  | .getInstance n lo iq ico pl =>
    match n with
    | .other => .error .typeError
    | .path p =>
      match boolOfArg lo, boolOfArg iq, boolOfArg ico, plOfArg pl with
      | .ok a, .ok b, .ok c, .ok l => .ok (.get p l { lo := a, iq := b, ico := c })
      | _, _, _, _ => .error .typeError
  | .enumerateInstances cls ns lo di iq ico pl =>
    match nsOfArg (enumNsArg cls ns), clsOfArg cls, boolOfArg lo, boolOfArg di, boolOfArg iq, boolOfArg ico, plOfArg pl with
    | .ok n, .ok c, .ok a, .ok d, .ok b, .ok e, .ok l => .ok (.enumInsts n c d l { lo := a, iq := b, ico := e })
    | _, _, _, _, _, _, _ => .error .typeError
  | .enumerateInstanceNames cls ns =>
    match nsOfArg (enumNsArg cls ns), clsOfArg cls with
    | .ok n, .ok c => .ok (.enumNames n c)
    | _, _ => .error .typeError

/-- one public operation of `FakedWBEMConnection` -/
def stepCall (r : Repo) (c : Call) : Repo × Out :=
  match callToOp c with
  | .error e => (r, .err e)
  | .ok op => step r op

def runCalls (r : Repo) : List Call → Repo × List Out
  | [] => (r, [])
  | c :: cs =>
    let x := stepCall r c
    let y := runCalls x.1 cs
    (y.1, x.2 :: y.2)

end Pywbem.Model.Store

namespace Pywbem.Model.StoreSpec
open Pywbem.Proto Pywbem.Model.Store

/-- the reference map behind the same client-side validation -/
def sstepCall (s : SRepo) (c : Call) : SRepo × Out :=
  match callToOp c with
  | .error e => (s, .err e)
  | .ok op => sstep s op

def runCalls (s : SRepo) : List Call → SRepo × List Out
  | [] => (s, [])
  | c :: cs =>
    let x := sstepCall s c
    let y := runCalls x.1 cs
    (y.1, x.2 :: y.2)

end Pywbem.Model.StoreSpec
