/-
C14 — model of the mock server's pull-enumeration sessions.

mirrors pywbem_mock/_mainprovider.py: MainProvider._open_response,
  MainProvider._pull_response, MainProvider.CloseEnumeration,
  MainProvider._validate_pull_operations_enabled
  MainProvider._validate_open_params (FilterQueryLanguage / FilterQuery / OperationTimeout)
mirrors pywbem/_cim_operations.py: _validate_MaxObjectCount_OpenPull, _validate_context,
  _iparam_positive_integer (OperationTimeout) as called by the Open… methods

Objects are opaque (`Nat` identities assigned by the harness); the result set
of the traditional operation that an Open… starts from is an argument of the
`open` op.  Context ids are a counter (the code uses uuid4; assumption
"uuid4 never repeats" is what the counter stands for).
-/
import Pywbem.Proto
import Pywbem.Generated.Config

namespace Pywbem.Model.Pull
open Pywbem.Proto

abbrev Obj := Nat

/-- the three pull kinds (`pull_type` strings of the code) -/
inductive Kind where
  | withPath | paths | insts
  deriving DecidableEq, Repr, Inhabited

structure Ctx where
  id   : Nat
  kind : Kind
  ns   : Nat
  data : List Obj
  deriving DecidableEq, Repr

structure State where
  ctxs     : List Ctx := []
  nextId   : Nat := 0
  nss      : List Nat := []       -- existing namespaces
  disabled : Bool := false
  deriving Repr

/-- `FilterQueryLanguage` as far as `_validate_open_params` looks at it -/
inductive Fql where
  | absent      -- None
  | empty       -- ''
  | dmtf        -- 'DMTF:FQL'
  | other       -- any other non-empty string
  deriving DecidableEq, Repr, Inhabited

/-- the optional session parameters of the Open… operations (the mock applies no filter and stores
    `ContinueOnError` without acting on it) -/
structure OpenParams where
  fql     : Fql := .absent
  fqSet   : Bool := false           -- FilterQuery is a non-empty string
  timeout : Option Int := none      -- OperationTimeout
  coe     : Option Bool := none     -- ContinueOnError
  deriving DecidableEq, Repr, Inhabited

inductive Op where
  | open (p : OpenParams) (kind : Kind) (ns : Nat) (objs : List Obj) (max : Option Int)
  | pull (kind : Kind) (ctx : Option Nat) (max : Option Int)
  | close (ctx : Option Nat)
  | addNs (ns : Nat)
  | removeNs (ns : Nat)
  | setDisabled (b : Bool)
  deriving Repr

inductive Out where
  | batch (objs : List Obj) (eos : Bool) (ctx : Option Nat)
  | done
  | err (e : PyExc)
  deriving Repr, DecidableEq

def CIM_ERR_INVALID_NAMESPACE : Nat := 3
def CIM_ERR_INVALID_PARAMETER : Nat := 4
def CIM_ERR_QUERY_LANGUAGE_NOT_SUPPORTED : Nat := 14
def CIM_ERR_NOT_SUPPORTED : Nat := 7
def CIM_ERR_INVALID_ENUMERATION_CONTEXT : Nat := 21

def defaultMax : Nat := Pywbem.Generated.defaultMaxObjectCount
def openMaxTimeout : Nat := Pywbem.Generated.openMaxTimeout

/-- `max_obj_cnt = MaxObjectCount; if max_obj_cnt is None: max_obj_cnt = DEFAULT`
    (client-side validation has already rejected negatives) -/
def effMax (m : Option Int) : Nat :=
  match m with
  | none => defaultMax
  | some k => k.toNat

def lookup (cs : List Ctx) (i : Nat) : Option Ctx := cs.find? (fun c => c.id == i)
def remove (cs : List Ctx) (i : Nat) : List Ctx := cs.filter (fun c => c.id != i)
def replaceData (cs : List Ctx) (i : Nat) (d : List Obj) : List Ctx :=
  cs.map (fun c => if c.id == i then { c with data := d } else c)

/-- `_validate_MaxObjectCount_OpenPull` -/
def badMax (m : Option Int) : Bool :=
  match m with
  | some k => k < 0
  | none => false

def Fql.truthy : Fql → Bool
  | .absent => false
  | .empty => false
  | _ => true

/-- client side `_iparam_positive_integer(OperationTimeout)`: ValueError below zero -/
def badTimeout (t : Option Int) : Bool :=
  match t with
  | some k => k < 0
  | none => false

/-- `MainProvider._validate_open_params`, branch for branch -/
def paramErr (p : OpenParams) : Option PyExc :=
  if !p.fql.truthy && p.fqSet then some (.cimError CIM_ERR_INVALID_PARAMETER)
  else if p.fql.truthy && p.fql != .dmtf then some (.cimError CIM_ERR_QUERY_LANGUAGE_NOT_SUPPORTED)
  else match p.timeout with
    | some t => if t != 0 && (t < 0 || t > (openMaxTimeout : Int)) then some (.cimError CIM_ERR_INVALID_PARAMETER)
                else none
    | none => none

def stepOpen (s : State) (p : OpenParams) (kind : Kind) (ns : Nat) (objs : List Obj) (max : Option Int) : State × Out :=
  if badMax max || badTimeout p.timeout then (s, .err .valueError)
  else if s.disabled then (s, .err (.cimError CIM_ERR_NOT_SUPPORTED))
  else if !(s.nss.contains ns) then (s, .err (.cimError CIM_ERR_INVALID_NAMESPACE))
  else if let some e := paramErr p then (s, .err e)
  else
    let m := effMax max
    if objs.length ≤ m then (s, .batch objs true none)
    else
      let c : Ctx := { id := s.nextId, kind := kind, ns := ns, data := objs.drop m }
      ({ s with ctxs := s.ctxs ++ [c], nextId := s.nextId + 1 }, .batch (objs.take m) false (some s.nextId))

def stepPull (s : State) (kind : Kind) (ctx : Option Nat) (max : Option Int) : State × Out :=
  match ctx with
  | none => (s, .err .valueError)                      -- `_validate_context(None)`
  | some i =>
    if badMax max then (s, .err .valueError)
    else if s.disabled then (s, .err (.cimError CIM_ERR_NOT_SUPPORTED))
    else match lookup s.ctxs i with
      | none => (s, .err (.cimError CIM_ERR_INVALID_ENUMERATION_CONTEXT))
      | some c =>
        if !(s.nss.contains c.ns) then (s, .err (.cimError CIM_ERR_INVALID_NAMESPACE))
        else if c.kind != kind then (s, .err (.cimError CIM_ERR_INVALID_ENUMERATION_CONTEXT))
        else
          let m := effMax max
          if c.data.length ≤ m then
            ({ s with ctxs := remove s.ctxs i }, .batch c.data true none)
          else
            ({ s with ctxs := replaceData s.ctxs i (c.data.drop m) }, .batch (c.data.take m) false (some i))

def stepClose (s : State) (ctx : Option Nat) : State × Out :=
  match ctx with
  | none => (s, .err .valueError)
  | some i =>
    if s.disabled then (s, .err (.cimError CIM_ERR_NOT_SUPPORTED))
    else match lookup s.ctxs i with
      | none => (s, .err (.cimError CIM_ERR_INVALID_ENUMERATION_CONTEXT))
      | some _ => ({ s with ctxs := remove s.ctxs i }, .done)

def step (s : State) (op : Op) : State × Out :=
  match op with
  | .open p k ns objs m => stepOpen s p k ns objs m
  | .pull k c m => stepPull s k c m
  | .close c => stepClose s c
  | .addNs ns => (if s.nss.contains ns then s else { s with nss := s.nss ++ [ns] }, .done)
  | .removeNs ns => ({ s with nss := s.nss.filter (· != ns) }, .done)
  | .setDisabled b => ({ s with disabled := b }, .done)

def run (s : State) : List Op → State × List Out
  | [] => (s, [])
  | op :: ops =>
    let r := step s op
    let rr := run r.1 ops
    (rr.1, r.2 :: rr.2)

end Pywbem.Model.Pull
