/-
Model of the parts of the pywbem MOF compiler (pywbem/_mof_compiler.py) that decide property C09
("the MOF compiler is total: it succeeds or raises MOFCompileError"):

  1. the lexer: PLY's token() loop specialised to the `t_*` rules of _mof_compiler.py (rule order, `t_ignore`,
     `literals`, `t_error`), with token positions and the lexer's line counter;
  2. the error position: `_find_column`, the pointer column of `_get_error_context`, `MOFCompileError.__init__`;
  3. `p_compilerDirective`: the `#pragma namespace` regular expression (hand-modelled recogniser, `\w` is a
     parameter) and the `#pragma include` path resolution / `compile_file` lookup (file system as parameters);
  4. the translation of repository errors (CIMError status codes) in p_mp_createInstance, p_mp_setQualifier,
     p_mp_createClass, p_qualifier and p_instanceDeclaration, as decision procedures over the scripted answers
     of the repository;
  5. the per-compiler state touched by compile_string / compile_embedded_value (reuse after a failure).

Strings are lists of code points (`MofLex.Str`).  NOT modelled (third party / K only): PLY's LALR engine and
tables, i.e. *which* token or production an error is reported for; the CIM object constructors called by the
semantic actions (cimvalue, CIMProperty(...), ...).  Lean core only.
-/
import Pywbem.Proto
import Pywbem.Generated.MofTokens
import Pywbem.Model.MofLex

namespace Pywbem.Model.MofCompile
open Pywbem.Proto Pywbem.Generated
open Pywbem.Model.MofLex (Str isDigit isHexDigit lexStringValue lexCharValue)

/-! ## 1. Lexer -/

/-- length of the longest prefix whose elements satisfy `p` (a greedy `[class]*`) -/
def spanLen (p : Nat → Bool) : Str → Nat
  | [] => 0
  | c :: cs => if p c then spanLen p cs + 1 else 0

def isSign (c : Nat) : Bool := c == 43 || c == 45

/-- `[+-]?` -/
def signLen : Str → Nat
  | [] => 0
  | c :: _ => if isSign c then 1 else 0

/-- `([eE][+-]?[0-9]+)?` : number of characters the optional exponent takes -/
def expLen : Str → Nat
  | [] => 0
  | e :: r =>
    if e == 101 || e == 69 then
      if spanLen isDigit (r.drop (signLen r)) = 0 then 0
      else 1 + signLen r + spanLen isDigit (r.drop (signLen r))
    else 0

/-- mirrors _mof_compiler.py: t_floatValue regex `[+-]?[0-9]*\.[0-9]+([eE][+-]?[0-9]+)?` -/
def matchFloat (s : Str) : Option Nat :=
  let r := s.drop (signLen s)
  let d := spanLen isDigit r
  match r.drop d with
  | 46 :: r2 =>
    if spanLen isDigit r2 = 0 then none
    else some (signLen s + d + 1 + spanLen isDigit r2 + expLen (r2.drop (spanLen isDigit r2)))
  | _ => none

/-- mirrors _mof_compiler.py: t_hexValue regex `[+-]?0[xX][0-9a-fA-F]+` -/
def matchHex (s : Str) : Option Nat :=
  match s.drop (signLen s) with
  | 48 :: x :: r =>
    if (x == 120 || x == 88) && spanLen isHexDigit r != 0 then some (signLen s + 2 + spanLen isHexDigit r)
    else none
  | _ => none

/-- mirrors _mof_compiler.py: t_binaryValue regex `[+-]?[0-9]+[bB]` -/
def matchBinary (s : Str) : Option Nat :=
  let r := s.drop (signLen s)
  let d := spanLen isDigit r
  if d = 0 then none
  else match r.drop d with
    | b :: _ => if b == 98 || b == 66 then some (signLen s + d + 1) else none
    | [] => none

/-- mirrors _mof_compiler.py: t_octalValue regex `[+-]?0[0-9]+` -/
def matchOctal (s : Str) : Option Nat :=
  match s.drop (signLen s) with
  | 48 :: r => if spanLen isDigit r = 0 then none else some (signLen s + 1 + spanLen isDigit r)
  | _ => none

/-- mirrors _mof_compiler.py: t_decimalValue regex `[+-]?([1-9][0-9]*|0)` -/
def matchDecimal (s : Str) : Option Nat :=
  match s.drop (signLen s) with
  | c :: r =>
    if 49 ≤ c && c ≤ 57 then some (signLen s + 1 + spanLen isDigit r)
    else if c == 48 then some (signLen s + 1)
    else none
  | [] => none

def inR (lo hi c : Nat) : Bool := lo ≤ c && c ≤ hi
def isIdStart (c : Nat) : Bool := inR 65 90 c || inR 97 122 c || c == 95
def isIdChar (c : Nat) : Bool := isIdStart c || isDigit c
def isCont (c : Nat) : Bool := inR 0x80 0xBF c

/-- mirrors _mof_compiler.py: utf8Char.  The pattern is applied to `str` input, so each `\xNN` denotes the code
    point U+00NN: number of characters the alternation takes at the head of the input (0 = no match).
    The alternatives have pairwise different first characters, so their order is irrelevant. -/
def utf8Len : Str → Nat
  | [] => 0
  | c :: r =>
    if inR 0xC2 0xDF c then
      match r with | a :: _ => if isCont a then 2 else 0 | _ => 0
    else if c == 0xE0 then
      match r with | a :: b :: _ => if inR 0xA0 0xBF a && isCont b then 3 else 0 | _ => 0
    else if inR 0xE1 0xEC c || inR 0xEE 0xEF c then
      match r with | a :: b :: _ => if isCont a && isCont b then 3 else 0 | _ => 0
    else if c == 0xED then
      match r with | a :: b :: _ => if inR 0x80 0x9F a && isCont b then 3 else 0 | _ => 0
    else if c == 0xF0 then
      match r with | a :: b :: d :: _ => if inR 0x90 0xBF a && isCont b && isCont d then 4 else 0 | _ => 0
    else if inR 0xF1 0xF3 c then
      match r with | a :: b :: d :: _ => if isCont a && isCont b && isCont d then 4 else 0 | _ => 0
    else if c == 0xF4 then
      match r with | a :: b :: d :: _ => if inR 0x80 0x8F a && isCont b && isCont d then 4 else 0 | _ => 0
    else 0

/-- `([0-9a-zA-Z_]|utf8Char)*` (fuel = an upper bound of the number of iterations) -/
def identRest : Nat → Str → Nat
  | 0, _ => 0
  | _ + 1, [] => 0
  | f + 1, c :: r =>
    if isIdChar c then 1 + identRest f r
    else if utf8Len (c :: r) = 0 then 0
    else utf8Len (c :: r) + identRest f ((c :: r).drop (utf8Len (c :: r)))

/-- mirrors _mof_compiler.py: identifier_re `([a-zA-Z_]|utf8Char)([0-9a-zA-Z_]|utf8Char)*` -/
def matchIdent : Str → Option Nat
  | [] => none
  | c :: r =>
    if isIdStart c then some (1 + identRest r.length r)
    else if utf8Len (c :: r) = 0 then none
    else some (utf8Len (c :: r) + identRest r.length ((c :: r).drop (utf8Len (c :: r))))

/-- mirrors _mof_compiler.py: t_COMMENT regex `//.*` (`.` = anything but `\n`) -/
def matchComment : Str → Option Nat
  | 47 :: 47 :: r => some (2 + spanLen (fun c => c != 10) r)
  | _ => none

/-- number of characters up to and including the first `*/` -/
def findClose : Str → Option Nat
  | [] => none
  | c :: r => if c == 42 && r.head? == some 47 then some 2 else (findClose r).map (· + 1)

/-- mirrors _mof_compiler.py: t_MCOMMENT regex `/\*(.|\n)*?\*/` -/
def matchMComment : Str → Option Nat
  | 47 :: 42 :: r => (findClose r).map (· + 2)
  | _ => none

/-- mirrors _mof_compiler.py: t_newline regex `\n+` -/
def matchNewline (s : Str) : Option Nat :=
  if spanLen (fun c => c == 10) s = 0 then none else some (spanLen (fun c => c == 10) s)

def asciiLower (c : Nat) : Nat := if inR 65 90 c then c + 32 else c

/-- mirrors _mof_compiler.py: t_IDENTIFIER — `reserved.get(t.value.lower(), 'IDENTIFIER')`.
    (`str.lower()` maps no character that an identifier can contain to an ASCII letter except A-Z.) -/
def identType (text : Str) : String :=
  match mofReserved.find? (fun kv => kv.1 == text.map asciiLower) with
  | some kv => kv.2
  | none => "IDENTIFIER"

/-- CPython: sys.int_info.default_max_str_digits -/
def maxStrDigits : Nat := 4300

def digitVal (c : Nat) : Nat :=
  if c ≤ 57 then c - 48 else if c ≤ 70 then c - 65 + 10 else c - 97 + 10

def natOfDigits (base : Nat) (ds : Str) : Nat := ds.foldl (fun a c => a * base + digitVal c) 0

/-- what a token rule matched -/
inductive Kind where
  | comment | mcomment | newline           -- discarded
  | float | hex | binary | octal | decimal | charValue | stringValue | ident | literal
  | errChar                                 -- t_error: illegal character, one character skipped
  | errBinary | errOctal                    -- t_binaryValue / t_octalValue set `t.type = 'error'`
  | raiseValueError                         -- int() refuses more than 4300 decimal digits: exception out of token()
  deriving Repr, DecidableEq

/-- PLY Lexer.token(): the alternation of the master regex in rule order, then `literals`, then `t_error`.
    Argument: the input from the current position (non-empty, first character not in `t_ignore`).
    Result: (kind, number of characters consumed). -/
def lexAt (s : Str) : Kind × Nat :=
  match matchComment s with
  | some n => (.comment, n)
  | none =>
  match matchMComment s with
  | some n => (.mcomment, n)
  | none =>
  match matchFloat s with
  | some n => (.float, n)
  | none =>
  match matchHex s with
  | some n => (.hex, n)
  | none =>
  match matchBinary s with
  | some n =>
    -- mirrors t_binaryValue: `re.search(r'[2-9]', t.value)`
    (if (s.take n).any (fun c => inR 50 57 c) then .errBinary else .binary, n)
  | none =>
  match matchOctal s with
  | some n =>
    -- mirrors t_octalValue: `re.search(r'[8-9]', t.value)`
    (if (s.take n).any (fun c => inR 56 57 c) then .errOctal else .octal, n)
  | none =>
  match matchDecimal s with
  | some n =>
    -- mirrors t_decimalValue: `int(t.value)`; CPython limits the number of digits
    (if n - signLen s > maxStrDigits then .raiseValueError else .decimal, n)
  | none =>
  match lexCharValue s with
  | some r => (.charValue, r.1.length)
  | none =>
  match lexStringValue s with
  | some r => (.stringValue, r.1.length)
  | none =>
  match matchIdent s with
  | some n => (.ident, n)
  | none =>
  match matchNewline s with
  | some n => (.newline, n)
  | none =>
  match s with
  | c :: _ => if mofLiterals.contains c then (.literal, 1) else (.errChar, 1)
  | [] => (.errChar, 1)

/-- a token as the parser sees it: kind, `lexpos`, length of the matched text, and `lexer.lineno` at the moment the
    token is returned (this is what MOFCompileError reports as `lineno`) -/
structure Tok where
  kind : Kind
  pos : Nat
  len : Nat
  line : Nat
  deriving Repr, DecidableEq

def countNl (s : Str) : Nat := s.count 10

def Kind.discarded : Kind → Bool
  | .comment | .mcomment | .newline => true
  | _ => false

/-- PLY Lexer.token() called until the input is exhausted (or an exception escapes).
    `pos`/`line` = lexer.lexpos / lexer.lineno; the list argument is `lexdata[lexpos:]`.
    * characters of `t_ignore` are skipped;
    * t_newline adds the number of newlines to `lexer.lineno`, t_MCOMMENT the newlines of the comment;
    * t_error skips one character and returns the error token.
    The first argument is fuel (one unit per loop iteration; every iteration consumes at least one character, so
    `length + 1` is enough: `lexLoop_fuel` in Proofs/Lemmas/MofCompile.lean). -/
def lexLoop : Nat → Nat → Nat → Str → List Tok
  | 0, _, _, _ => []
  | _ + 1, _, _, [] => []
  | fuel + 1, pos, line, c :: cs =>
    if mofIgnore.contains c then lexLoop fuel (pos + 1) line cs
    else
      let k := (lexAt (c :: cs)).1
      let n := (lexAt (c :: cs)).2
      let line' := if k == .newline || k == .mcomment then line + countNl ((c :: cs).take n) else line
      if k == .raiseValueError then [⟨k, pos, n, line⟩]
      else if k.discarded then lexLoop fuel (pos + n) line' ((c :: cs).drop n)
      else ⟨k, pos, n, line'⟩ :: lexLoop fuel (pos + n) line' ((c :: cs).drop n)

/-- the token stream of a MOF text -/
def lexAll (src : Str) : List Tok := lexLoop (src.length + 1) 0 1 src

/-- the integer value of a numeric token text (mirrors `int(t.value, base)` of the t_*Value rules) -/
def tokenInt (k : Kind) (text : Str) : Option Int :=
  let neg := text.head? == some 45
  let body := text.drop (signLen text)
  let mk (n : Nat) : Int := if neg then -(n : Int) else (n : Int)
  match k with
  | .hex => some (mk (natOfDigits 16 (body.drop 2)))
  | .binary => some (mk (natOfDigits 2 body.dropLast))
  | .octal => some (mk (natOfDigits 8 body))
  | .decimal => some (mk (natOfDigits 10 body))
  | _ => none

/-! ## 2. Error positions -/

/-- mirrors _mof_compiler.py: _find_column — the loop `i = lexpos; while i > 0: if input_[i] == '\n': break; i -= 1`.
    `scanBack src i` = the value of `i` when the loop ends. -/
def scanBack (src : Str) : Nat → Nat
  | 0 => 0
  | i + 1 => if src[i + 1]? == some 10 then i + 1 else scanBack src i

/-- mirrors _mof_compiler.py: _find_column: `max(lexpos - i - 1, 0)` -/
def findColumn (src : Str) (lexpos : Nat) : Nat := lexpos - scanBack src lexpos - 1

/-- index of the last `\n` strictly before `pos`, as `input_.rfind('\n', 0, pos)` with -1 clipped to 0 -/
def rfindNl (src : Str) : Nat → Nat
  | 0 => 0
  | i + 1 => if src[i]? == some 10 then i else rfindNl src i

/-- mirrors _mof_compiler.py: _get_error_context: `col = lexpos - i`; the pointer line has `col - 1` characters
    before the first `^` -/
def contextPointerOffset (src : Str) (lexpos : Nat) : Nat := lexpos - rfindNl src lexpos - 1

/-- the text of the 1-based line `n` of `src` (lines are separated by `\n`) -/
def lineText (src : Str) : Nat → Str
  | 0 => []
  | 1 => src.takeWhile (· != 10)
  | n + 2 => lineText ((src.dropWhile (· != 10)).drop 1) (n + 1)

def numLines (src : Str) : Nat := countNl src + 1

/-- the position reported for an error at a token returned by the lexer (p_error, t_error):
    (`lexer.lineno`, `_find_column(mof, token)`) -/
def tokenErrorPos (src : Str) (t : Tok) : Nat × Nat := (t.line, findColumn src t.pos)

/-- "(line, column) is a position inside the text" — lines 1-based, columns 0 … length of that line -/
def posInside (src : Str) (p : Nat × Nat) : Bool :=
  1 ≤ p.1 && p.1 ≤ numLines src && p.2 ≤ (lineText src p.1).length

/-- the position reported for an error raised in a semantic action for a production whose first symbol starts at
    `firstpos` while the lexer has already delivered the look-ahead token `la`:
    lineno is the lexer's line, the column is computed from the first symbol (known finding C09-F2) -/
def productionErrorPos (src : Str) (firstpos : Nat) (la : Tok) : Nat × Nat := (la.line, findColumn src firstpos)

/-! ## 3. p_compilerDirective -/

/-- `\w+(?:/\w+)*` anchored at both ends; `w` = is the character a `\w` character -/
def nsSegments (w : Nat → Bool) : Bool → Str → Bool
  | inSeg, [] => inSeg
  | inSeg, c :: r =>
    if w c then nsSegments w true r
    else if c == 47 && inSeg then
      match r with
      | d :: _ => w d && nsSegments w false r
      | [] => false
    else false

/-- `(\w+(?:/\w+)*)$` : `$` also matches before a final `\n`; returns group 3 -/
def nsName (w : Nat → Bool) (s : Str) : Option Str :=
  if nsSegments w false s then some s
  else if s.getLast? == some 10 && nsSegments w false s.dropLast then some s.dropLast
  else none

def isHostChar (w : Nat → Bool) (c : Nat) : Bool :=
  w c || c == 46 || c == 58 || c == 64 || c == 91 || c == 93

/-- `//([\w.:@\[\]]*)` followed by `/` and the namespace name up to the end: (group 2, group 3).
    The host class does not contain `/`, so only the maximal run can be followed by `/`. -/
def hostPart (w : Nat → Bool) (s : Str) : Option (Option Str × Str) :=
  match s with
  | 47 :: 47 :: r =>
    match r.drop (spanLen (isHostChar w) r) with
    | 47 :: r2 => (nsName w r2).map (fun n => (some (r.take (spanLen (isHostChar w) r)), n))
    | _ => none
  | _ => none

/-- `(?:/|^/?)(\w+(?:/\w+)*)$` without authority: a `/` then the name, or (only at offset 0) the bare name -/
def plainPart (w : Nat → Bool) (atStart : Bool) (s : Str) : Option (Option Str × Str) :=
  let bare : Option (Option Str × Str) := if atStart then (nsName w s).map (fun n => (none, n)) else none
  match s with
  | 47 :: r =>
    match nsName w r with
    | some n => some (none, n)
    | none => bare
  | _ => bare

/-- `(?://([\w.:@\[\]]*))?(?:/|^/?)(\w+(?:/\w+)*)$` tried at offset `k` of the parameter (`atStart` = k is 0).
    Result: (group 2 if it took part, group 3). -/
def matchAuthorityAndName (w : Nat → Bool) (atStart : Bool) (s : Str) : Option (Option Str × Str) :=
  match hostPart w s with
  | some m => some m
  | none => plainPart w atStart s

/-- `([\w\-]+):` followed by the rest of the pattern: (group 1, group 2, group 3) -/
def typePart (w : Nat → Bool) (param : Str) : Option (Option Str × Option Str × Str) :=
  if spanLen (fun c => w c || c == 45) param = 0 then none
  else match param.drop (spanLen (fun c => w c || c == 45) param) with
    | 58 :: r => (matchAuthorityAndName w false r).map
        (fun m => (some (param.take (spanLen (fun c => w c || c == 45) param)), m.1, m.2))
    | _ => none

/-- mirrors _mof_compiler.py: WBEM_URI_NAMESPACEPATH_REGEXP.match(param): the groups (1, 2, 3) of the match the
    backtracking matcher finds first, or none -/
def matchNamespacePath (w : Nat → Bool) (param : Str) : Option (Option Str × Option Str × Str) :=
  match typePart w param with
  | some m => some m
  | none => (matchAuthorityAndName w true param).map (fun m => (none, m.1, m.2))

/-- mirrors _mof_compiler.py: p_compilerDirective, `directive == 'namespace'`:
    the new target namespace, or MOFParseError.  (After the fix: `m is None` is tested before `m.group`.) -/
def pragmaNamespace (w : Nat → Bool) (param : Str) : Except PyExc Str :=
  match matchNamespacePath w param with
  | none => .error .mofParseError
  | some (nsType, host, ns) =>
    -- `ns_type = m.group(1) or None`, `host = m.group(2) or None`, `namespace = m.group(3) or None`
    if nsType.isSome && nsType != some [] then .error .mofParseError
    else if host.isSome && host != some [] then .error .mofParseError
    else if ns == [] then .error .mofParseError
    else .ok ns

/-- the same function before the fix (`m.group(1)` evaluated first) — kept to state what the fix removed -/
def pragmaNamespaceUnfixed (w : Nat → Bool) (param : Str) : Except PyExc Str :=
  match matchNamespacePath w param with
  | none => .error .attributeError
  | some _ => pragmaNamespace w param

/-- os.path.dirname on a POSIX path: everything before the last `/` with trailing slashes removed unless all slashes -/
def dirname (p : Str) : Str :=
  let i := (p.reverse.dropWhile (· != 47)).length      -- index after the last '/'
  let head := p.take i
  if head.all (· == 47) then head else (head.reverse.dropWhile (· == 47)).reverse

/-- os.path.join(a, b) for POSIX paths -/
def pathJoin (a b : Str) : Str :=
  if b.head? == some 47 then b
  else if a == [] || a.getLast? == some 47 then a ++ b
  else a ++ [47] ++ b

/-- mirrors _mof_compiler.py: p_compilerDirective, `directive == 'include'`: the file name handed to compile_file -/
def includePath (parserFile : Option Str) (param : Str) : Str :=
  match parserFile with
  | some f => if f != [] && dirname f != [] then pathJoin (dirname f) param else param
  | none => param

/-- the file system and the nested compilation as parameters of compile_file -/
structure FsEnv where
  exists_ : Str → Bool
  findMof : Str → Option Str        -- MOFCompiler.find_mof
  compile : Str → Except PyExc Unit -- compile_string on the content of the file found

/-- mirrors _mof_compiler.py: MOFCompiler.compile_file (after the lookup the result is that of compile_string) -/
def compileFile (env : FsEnv) (filename : Str) : Except PyExc Unit :=
  if env.exists_ filename then env.compile filename
  else match env.findMof filename with
    | none => .error .osError
    | some f => env.compile f

/-- mirrors _mof_compiler.py: p_compilerDirective as a whole.  `directive` is the lower-cased pragma name.
    Result: the new target namespace (unchanged for include and for unknown pragmas, which are ignored). -/
def compilerDirective (w : Nat → Bool) (env : FsEnv) (parserFile : Option Str) (targetNs : Str)
    (directive param : Str) : Except PyExc Str :=
  if directive == "include".toList.map Char.toNat then
    match compileFile env (includePath parserFile param) with
    | .ok _ => .ok targetNs
    | .error e => .error e
  else if directive == "namespace".toList.map Char.toNat then pragmaNamespace w param
  else .ok targetNs

/-! ## 4. Translation of repository errors -/

/-- answer of one repository operation: `none` = success, `some c` = CIMError with status code `c` -/
abbrev Ans := Option Nat

/-- next scripted answer of an operation (exhausted script = success) -/
def nextAns : List Ans → Ans × List Ans
  | [] => (none, [])
  | a :: r => (a, r)

/-- mirrors _mof_compiler.py: p_mp_createInstance.
    ci = CreateInstance, gc = GetClass (only asked after ALREADY_EXISTS), pathOk = CIMInstanceName.from_instance
    does not raise ValueError, mi = ModifyInstance.
    (After the fix of the message template of the ValueError branch, which mixed manual and automatic field
    numbering and therefore raised ValueError itself.) -/
def mpCreateInstance (ci gc : Ans) (pathOk : Bool) (mi : Ans) : Except PyExc Unit :=
  match ci with
  | none => .ok ()
  | some c =>
    if c == mofCimErr_already_exists then
      match gc with
      | some _ => .error .mofRepositoryError
      | none =>
        if !pathOk then .error .mofRepositoryError
        else match mi with
          | some _ => .error .mofRepositoryError
          | none => .ok ()
    else .error .mofRepositoryError

/-- what `p.parser.server.create_namespace(ns)` does: there is no server object unless the handle is (or wraps) a
    WBEMConnection (AttributeError on None); otherwise its own outcome -/
def createNamespace (hasServer : Bool) (outcome : Option PyExc) : Except PyExc Unit :=
  if !hasServer then .error .attributeError
  else match outcome with
    | none => .ok ()
    | some e => .error e

/-- mirrors _mof_compiler.py: p_mp_setQualifier.  sq1/sq2 = first/second SetQualifier, dq = DeleteQualifier.
    Only the first SetQualifier is inside the try block: errors of create_namespace, DeleteQualifier and the second
    SetQualifier escape untranslated (known finding C09-F6). -/
def mpSetQualifier (sq1 : Ans) (hasServer : Bool) (createNs : Option PyExc) (dq sq2 : Ans) : Except PyExc Unit :=
  match sq1 with
  | none => .ok ()
  | some c =>
    if c == mofCimErr_invalid_namespace then
      match createNamespace hasServer createNs with
      | .error e => .error e
      | .ok _ => match sq2 with
        | some c2 => .error (.cimError c2)
        | none => .ok ()
    else if c == mofCimErr_not_supported then
      match dq with
      | some c2 => .error (.cimError c2)
      | none => match sq2 with
        | some c3 => .error (.cimError c3)
        | none => .ok ()
    else .error .mofRepositoryError

/-- environment of p_mp_createClass -/
structure CcEnv where
  createClass : List Ans            -- answers of successive CreateClass calls
  hasServer : Bool
  createNs : Option PyExc           -- outcome of server.create_namespace
  hasSuper : Bool                   -- cc.superclass is not None (find_mof(None) raises AttributeError)
  superMof : Option (Except PyExc Unit)   -- find_mof(superclass): none = not found, else result of compile_file
  nsInQualcache : Bool              -- `p.parser.qualcache[ns]` does not raise KeyError
  qualsKnown : Bool                 -- qualcache[ns] non-empty (after the optional compile of the qualifier files)
  qualFiles : Except PyExc Unit     -- result of compiling qualifiers.mof / qualifiers_optional.mof when looked for
  depsOutcome : Except PyExc Unit   -- the loop over the dependent classes (GetClass / find_mof / compile_file):
                                    --   ok, MOFDependencyError, or what a nested compile or a dict lookup raises
  modifyClass : Ans
  deriving Inhabited

structure CcFlags where
  fixedNS : Bool := false
  fixedRefs : Bool := false
  fixedSuper : Bool := false

/-- outcome of the inner `while` loop of p_mp_createClass: `.ok ()` = class created, `.error e` = exception leaving
    the loop (a CIMError is then handled by the outer `except CIMError`) -/
def ccLoop (env : CcEnv) : Nat → CcFlags → List Ans → Except PyExc Unit
  | 0, _, _ => .ok ()       -- not reached: see ccLoop_fuel
  | fuel + 1, fl, script =>
    match nextAns script with
    | (none, _) => .ok ()
    | (some c, rest) =>
      if c == mofCimErr_invalid_namespace then
        if fl.fixedNS then .error .assertionError
        else match createNamespace env.hasServer env.createNs with
          | .error e => .error e
          | .ok _ => ccLoop env fuel { fl with fixedNS := true } rest
      else if c == mofCimErr_invalid_superclass then
        if fl.fixedSuper then .error .assertionError
        else if !env.hasSuper then .error .attributeError
        else match env.superMof with
          | none => .error .mofDependencyError
          | some (.error e) => .error e
          | some (.ok _) => ccLoop env fuel { fl with fixedSuper := true } rest
      else if c == mofCimErr_invalid_parameter || c == mofCimErr_not_found || c == mofCimErr_failed then
        if fl.fixedRefs then .error .mofDependencyError
        else if !env.nsInQualcache then .error .keyError
        else
          match (if env.qualsKnown then .ok () else env.qualFiles) with
          | .error e => .error e
          | .ok _ =>
            if !env.qualsKnown then .error .mofDependencyError
            else match env.depsOutcome with
              | .error e => .error e
              | .ok _ => ccLoop env fuel { fl with fixedRefs := true } rest
      else .error (.cimError c)

/-- mirrors _mof_compiler.py: p_mp_createClass (the outer try/except around the loop) -/
def mpCreateClass (env : CcEnv) : Except PyExc Unit :=
  match ccLoop env 4 {} env.createClass with
  | .ok _ => .ok ()
  | .error (.cimError c) =>
    if c != mofCimErr_already_exists then .error .mofRepositoryError
    else match env.modifyClass with
      | some _ => .error .mofRepositoryError
      | none => .ok ()
  | .error e => .error e

/-- mirrors _mof_compiler.py: p_qualifier, the qualifier declaration lookup.
    inCache = qualcache[ns] has the name; eq = EnumerateQualifiers; found = the declaration is known afterwards -/
def qualifierLookup (inCache : Bool) (eq : Ans) (hasServer : Bool) (createNs : Option PyExc)
    (qualFiles : Except PyExc Unit) (found : Bool) : Except PyExc Unit :=
  if inCache then .ok ()
  else
    let afterEnum : Except PyExc Unit :=
      match eq with
      | none => .ok ()
      | some c =>
        if c != mofCimErr_invalid_namespace then .error .mofRepositoryError
        else createNamespace hasServer createNs
    match afterEnum with
    | .error e => .error e
    | .ok _ =>
      match qualFiles with
      | .error e => .error e
      | .ok _ => if found then .ok () else .error .mofDependencyError

/-- mirrors _mof_compiler.py: p_instanceDeclaration, the class lookup.
    gc1 = first GetClass; mof = find_mof(cname) (none = not found, else result of compile_file); gc2 = second GetClass,
    which is outside the try block: its CIMError escapes untranslated (known finding C09-F7) -/
def instanceClassLookup (gc1 : Ans) (mof : Option (Except PyExc Unit)) (gc2 : Ans) : Except PyExc Unit :=
  match gc1 with
  | none => .ok ()
  | some c =>
    if c == mofCimErr_not_found then
      match mof with
      | none => .error .mofDependencyError
      | some (.error e) => .error e
      | some (.ok _) => match gc2 with
        | some c2 => .error (.cimError c2)
        | none => .ok ()
    else .error .mofRepositoryError

/-- mirrors _mof_compiler.py: _cim_object — the exceptions the CIM object constructors and cimvalue() raise for
    values that are invalid or do not match the declared type are translated to MOFParseError; a result and any
    other exception pass unchanged.  Used by p_propertyDeclaration_2/4/6/8, p_referenceDeclaration, p_qualifier and
    p_qualifierDeclaration; p_instanceDeclaration has the same `except` clause. -/
def cimObject {α} (r : Except PyExc α) : Except PyExc α :=
  match r with
  | .error .valueError => .error .mofParseError
  | .error .typeError => .error .mofParseError
  | .error .overflowError => .error .mofParseError
  | r => r

/-- mirrors _mof_compiler.py: p_instanceDeclaration, value of a property with EmbeddedInstance/EmbeddedObject
    qualifier: a NULL/empty value is stored as it is, a value that is not a string or list of strings is a
    MOFParseError (after the fix), otherwise the outcome is that of the nested compile_embedded_value
    (`nested`), where an empty result is a MOFParseError and ValueError/TypeError/OverflowError are translated -/
def embeddedValue (truthy allStrings : Bool) (nested : Except PyExc Nat) : Except PyExc Unit :=
  if !truthy then .ok ()
  else if !allStrings then .error .mofParseError
  else cimObject (match nested with
    | .error e => .error e
    | .ok n => if n = 0 then .error .mofParseError else .ok ())

/-- the exception classes C09 allows to leave compile_string / compile_file -/
def allowed : PyExc → Bool
  | .mofCompileError | .mofParseError | .mofDependencyError | .mofRepositoryError | .osError => true
  | _ => false

def noLeak {α} : Except PyExc α → Bool
  | .ok _ => true
  | .error e => allowed e

/-! ## 5. Per-compiler state (reuse after a failed compile) -/

/-- the attributes of `MOFCompiler.parser` that compile_string / compile_embedded_value read or write
    (files, namespaces and aliases as abstract numbers) -/
structure PState where
  file : Option Nat := none
  mof : Option Nat := none
  targetNs : Option Nat := none
  embedded : Option (List Nat) := none      -- parser.embedded_objects
  qualcacheNs : List Nat := []              -- keys of parser.qualcache
  classnamesNs : List Nat := []             -- keys of parser.classnames
  aliases : List Nat := []                  -- keys of parser.aliases
  deriving Repr, DecidableEq

/-- what the parse did to the state before it ended: pragma namespace switches add qualcache keys and change the
    target namespace, instance/class aliases are recorded, nested compiles (include) change file/mof -/
structure Effect where
  newNs : List Nat := []
  newAliases : List Nat := []
  lastNs : Option Nat := none
  nestedFile : Option (Nat × Nat) := none   -- (file, mof) left behind by a nested compile that failed
  deriving Repr

def addKey (ks : List Nat) (k : Nat) : List Nat := if ks.contains k then ks else ks ++ [k]

/-- mirrors _mof_compiler.py: compile_string up to the call of the parser -/
def compilePrologue (s : PState) (mof ns : Nat) (filename : Option Nat) : PState :=
  { s with file := filename, mof := some mof, targetNs := some ns,
           qualcacheNs := addKey s.qualcacheNs ns, classnamesNs := addKey s.classnamesNs ns }

def applyEffect (s : PState) (e : Effect) : PState :=
  { s with qualcacheNs := e.newNs.foldl addKey s.qualcacheNs,
           aliases := e.newAliases.foldl addKey s.aliases,
           targetNs := match e.lastNs with | some n => some n | none => s.targetNs }

/-- mirrors _mof_compiler.py: compile_string (ok = the parse succeeded) -/
def compileString (s : PState) (mof ns : Nat) (filename : Option Nat) (e : Effect) (ok : Bool) : PState :=
  let s1 := applyEffect (compilePrologue s mof ns filename) e
  if ok then { s1 with file := s.file, mof := s.mof }
  else match e.nestedFile with
    | some (f, m) => { s1 with file := some f, mof := some m }
    | none => s1

/-- mirrors _mof_compiler.py: compile_embedded_value: embedded_objects is a list during the parse; the `finally` clause
    resets it and (after the fix) restores file/mof of the enclosing statement whatever happens -/
def compileEmbedded (s : PState) (mof ns : Nat) (e : Effect) (_ok : Bool) : PState :=
  let s1 := applyEffect (compilePrologue s mof ns none) e
  { s1 with file := s.file, mof := s.mof, embedded := none }

inductive Call where
  | str (mof ns : Nat) (filename : Option Nat) (e : Effect) (ok : Bool)
  | emb (mof ns : Nat) (e : Effect) (ok : Bool)

def stepCall (s : PState) : Call → PState
  | .str m n f e ok => compileString s m n f e ok
  | .emb m n e ok => compileEmbedded s m n e ok

def runCalls (s : PState) (cs : List Call) : PState := cs.foldl stepCall s

/-- the part of the state a new top-level compile depends on after its prologue: everything except the caches,
    which only grow (see `reuse_caches_grow`) -/
def PState.view (s : PState) : Option Nat × Option Nat × Option Nat × Option (List Nat) :=
  (s.file, s.mof, s.targetNs, s.embedded)

/-! ## 6. Include / dependency structure of MOF files (termination of nested compile_file) -/

/-- a statement of a MOF file as far as nesting is concerned: something that makes the compiler call compile_file on
    another file (`#pragma include`, or a superclass / class / qualifier file found on the search path), or any other
    statement with its outcome -/
inductive Stmt where
  | file (f : Nat)
  | leaf (r : Except PyExc Unit)

/-- the files: `none` = not found anywhere (compile_file raises OSError) -/
abbrev Files := Nat → Option (List Stmt)

/-- the statements of one file in order; the first exception ends the compile -/
def compileStmts (cf : Nat → Except PyExc Unit) : List Stmt → Except PyExc Unit
  | [] => .ok ()
  | .file g :: rest =>
    match cf g with
    | .ok _ => compileStmts cf rest
    | .error e => .error e
  | .leaf r :: rest =>
    match r with
    | .ok _ => compileStmts cf rest
    | .error e => .error e

/-- mirrors _mof_compiler.py: MOFCompiler.compile_file with the nesting limit (after the fix): `budget` =
    MAX_MOF_FILE_NESTING - self._file_nesting.  The file is looked up and read first (OSError), then the limit is
    checked (MOFDependencyError), then the content is compiled one level deeper.
    A total function for ANY file structure — cyclic includes, files depending on themselves, missing files. -/
def compileFileG (fs : Files) : Nat → Nat → Except PyExc Unit
  | 0, f =>
    match fs f with
    | none => .error .osError
    | some _ => .error .mofDependencyError
  | b + 1, f =>
    match fs f with
    | none => .error .osError
    | some stmts => compileStmts (compileFileG fs b) stmts

/-- compile_string of a text whose statements are `stmts`, on a compiler whose limit is `limit` -/
def compileUnitG (fs : Files) (limit : Nat) (stmts : List Stmt) : Except PyExc Unit :=
  compileStmts (compileFileG fs limit) stmts

/-- the same without the limit (the code before the fix), with explicit fuel: `none` = the recursion did not end
    within the fuel (RecursionError in CPython) -/
def compileFileU (fs : Files) : Nat → Nat → Option (Except PyExc Unit)
  | 0, _ => none
  | fuel + 1, f =>
    match fs f with
    | none => some (.error .osError)
    | some stmts =>
      let rec go : List Stmt → Option (Except PyExc Unit)
        | [] => some (.ok ())
        | .file g :: rest =>
          match compileFileU fs fuel g with
          | none => none
          | some (.ok _) => go rest
          | some (.error e) => some (.error e)
        | .leaf r :: rest =>
          match r with
          | .ok _ => go rest
          | .error e => some (.error e)
      go stmts

end Pywbem.Model.MofCompile
