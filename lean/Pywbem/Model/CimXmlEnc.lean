/-
C01/C03 — `tocimxml()` of every CIM object kind, branch for branch.

mirrors pywbem/_cim_obj.py: CIMInstanceName.tocimxml, CIMClassName.tocimxml, CIMInstance.tocimxml,
  CIMClass.tocimxml, CIMProperty.tocimxml, CIMMethod.tocimxml, CIMParameter.tocimxml,
  CIMQualifier.tocimxml, CIMQualifierDeclaration.tocimxml
mirrors pywbem/_cim_types.py: atomic_to_cim_xml
mirrors pywbem/_cim_xml.py: the element constructors (attribute order = order of setAttribute calls)
-/
import Pywbem.Model.CimObj
import Pywbem.Generated.Config

namespace Pywbem.Model
open Pywbem.Model.XmlText

/-- Third-party conversions the model does not implement: IEEE-754 text conversion
    (`format(x, '.11G'/'.17G')` after pywbem's fix-up, `str(float)`, `float(str)`), `CIMDateTime(str)`
    and the XML parser used for embedded objects.  A *parameter* of every function and theorem
    (never an axiom); the correspondence run instantiates it with tables computed by Python. -/
structure Codec where
  fmtReal : Bool → UInt64 → Str        -- atomic_to_cim_xml of Real32 (false) / Real64, float (true)
  strFloat : UInt64 → Str              -- str(x) of a float (keybindings)
  parseFloat : Str → Option UInt64     -- float(s); none = ValueError
  parseDt : Str → Option Str           -- CIMDateTime(s) as its canonical string; none = ValueError
  par : Str → Option Xml               -- xml_to_tupletree_sax; none = XMLParseError

def natToStr (n : Nat) : Str := Nat.toDigits 10 n
/-- Python `str(int)` -/
def intToStr (i : Int) : Str := if i < 0 then '-' :: natToStr i.natAbs else natToStr i.natAbs

/-- `str(b).lower()` -/
def boolAttr (b : Bool) : Str := if b then "true".toList else "false".toList

def optAttr (k : String) (v : Option Str) : List (Str × Str) :=
  match v with
  | some s => [(k.toList, s)]
  | none => []

def optBoolAttr (k : String) (v : Option Bool) : List (Str × Str) :=
  match v with
  | some b => [(k.toList, boolAttr b)]
  | none => []

def E (n : String) (as : List (Str × Str)) (ks : List Xml) : Xml := .elem n.toList as ks

/-- `_cim_xml.VALUE(pcdata)` with pcdata not None: one text child (minidom keeps an empty text node,
    which serialises as `<VALUE></VALUE>`) -/
def valueElem (s : Str) : Xml := E "VALUE" [] [.text s]

/-- `'/'.split` of a namespace -/
def splitSlash : Str → List Str
  | [] => [[]]
  | c :: cs =>
    if c = '/' then [] :: splitSlash cs
    else match splitSlash cs with
      | [] => [[c]]
      | p :: ps => (c :: p) :: ps

def localNsPath (ns : Str) : Xml :=
  E "LOCALNAMESPACEPATH" [] ((splitSlash ns).map (fun n => E "NAMESPACE" [("NAME".toList, n)] []))

def nsPath (host ns : Str) : Xml :=
  E "NAMESPACEPATH" [] [E "HOST" [] [.text host], localNsPath ns]

mutual
/-- `atomic_to_cim_xml` (text of a VALUE element); embedded objects: `v.tocimxml().toxml()` -/
def atomText (C : Codec) : Atom → Str
  | .null => []
  | .str s => s
  | .char16 s => s
  | .bool b => if b then "TRUE".toList else "FALSE".toList
  | .int _ v => intToStr v
  | .real w bits => C.fmtReal w bits
  | .dt s => s
  | .pyint v => intToStr v
  | .pyfloat bits => C.fmtReal true bits
  | .ref _ => []                          -- not reachable: references use VALUE.REFERENCE
  | .einst i => (encInstElem C i).ser     -- `_embedded_object_xmlstr`: tocimxml(ignore_path=True)
  | .ecls c => (encCls C c).ser

/-- KEYBINDING for one key (CIMInstanceName.tocimxml loop body) -/
def encKey (C : Codec) : Key → Xml
  | .mk name v =>
    let nm : Str := name.getD []
    match v with
    | .ref p => E "KEYBINDING" [("NAME".toList, nm)] [E "VALUE.REFERENCE" [] [encPath C p]]
    | .char16 s => keyval nm s "string" (some "char16".toList)
    | .str s => keyval nm s "string" (some "string".toList)
    | .bool b => keyval nm (if b then "TRUE".toList else "FALSE".toList) "boolean" (some "boolean".toList)
    | .dt s => keyval nm s "string" (some "datetime".toList)
    | .int t v => keyval nm (intToStr v) "numeric" (some t.name)
    | .real w bits => keyval nm (C.strFloat bits) "numeric"
        (some (if w then "real64".toList else "real32".toList))
    | .pyint v => keyval nm (intToStr v) "numeric" none
    | .pyfloat bits => keyval nm (C.strFloat bits) "numeric" none
    | _ => E "KEYBINDING" [("NAME".toList, nm)] []      -- TypeError in the code; excluded by `Sendable`
where
  keyval (nm : Str) (txt : Str) (vt : String) (ty : Option Str) : Xml :=
    E "KEYBINDING" [("NAME".toList, nm)]
      [E "KEYVALUE" ([("VALUETYPE".toList, vt.toList)] ++ optAttr "TYPE" ty) [.text txt]]

def encKeys (C : Codec) : List Key → List Xml
  | [] => []
  | k :: ks => encKey C k :: encKeys C ks

/-- CIMInstanceName.tocimxml / CIMClassName.tocimxml -/
def encPath (C : Codec) : Path → Xml
  | .inst cls host ns keys =>
    let inm := E "INSTANCENAME" [("CLASSNAME".toList, cls)] (encKeys C keys)
    match ns with
    | none => inm
    | some n =>
      match host with
      | none => E "LOCALINSTANCEPATH" [] [localNsPath n, inm]
      | some h => E "INSTANCEPATH" [] [nsPath h n, inm]
  | .cls cls host ns =>
    let cnm := E "CLASSNAME" [("NAME".toList, cls)] []
    match ns with
    | none => cnm
    | some n =>
      match host with
      | none => E "LOCALCLASSPATH" [] [localNsPath n, cnm]
      | some h => E "CLASSPATH" [] [nsPath h n, cnm]

/-- `CIMInstanceName.tocimxml(ignore_host, ignore_namespace)` / `CIMClassName.tocimxml(...)`: the two options
    select a shorter element form for the path they are called on; reference keybindings inside it are written
    by their own `tocimxml()` with default arguments (condition for condition as in the code:
    `if self.namespace is None or ignore_namespace`, `if self.host is None or ignore_host`) -/
def encPathOpt (C : Codec) (ignoreHost ignoreNs : Bool) : Path → Xml
  | .inst cls host ns keys =>
    let inm := E "INSTANCENAME" [("CLASSNAME".toList, cls)] (encKeys C keys)
    match ns, ignoreNs with
    | none, _ => inm
    | some _, true => inm
    | some n, false =>
      match host, ignoreHost with
      | none, _ => E "LOCALINSTANCEPATH" [] [localNsPath n, inm]
      | some _, true => E "LOCALINSTANCEPATH" [] [localNsPath n, inm]
      | some h, false => E "INSTANCEPATH" [] [nsPath h n, inm]
  | .cls cls host ns =>
    let cnm := E "CLASSNAME" [("NAME".toList, cls)] []
    match ns, ignoreNs with
    | none, _ => cnm
    | some _, true => cnm
    | some n, false =>
      match host, ignoreHost with
      | none, _ => E "LOCALCLASSPATH" [] [localNsPath n, cnm]
      | some _, true => E "LOCALCLASSPATH" [] [localNsPath n, cnm]
      | some h, false => E "CLASSPATH" [] [nsPath h n, cnm]

/-- what the options amount to: the same path with host / namespace removed at the TOP level only -/
def Path.stripTop (ignoreHost ignoreNs : Bool) : Path → Path
  | .inst cls host ns keys => .inst cls (if ignoreHost || ignoreNs then none else host) (if ignoreNs then none else ns) keys
  | .cls cls host ns => .cls cls (if ignoreHost || ignoreNs then none else host) (if ignoreNs then none else ns)

/-- one entry of a VALUE.ARRAY -/
def encArrItem (C : Codec) : Atom → Xml
  | .null => if Pywbem.Generated.sendValueNull then E "VALUE.NULL" [] [] else E "VALUE" [] []
  | a => valueElem (atomText C a)

def encArrItems (C : Codec) : List Atom → List Xml
  | [] => []
  | a :: as => encArrItem C a :: encArrItems C as

/-- one entry of a VALUE.REFARRAY -/
def encRefItem (C : Codec) : Atom → Xml
  | .ref p => E "VALUE.REFERENCE" [] [encPath C p]
  | _ => if Pywbem.Generated.sendValueNull then E "VALUE.NULL" [] [] else E "VALUE" [] []

def encRefItems (C : Codec) : List Atom → List Xml
  | [] => []
  | a :: as => encRefItem C a :: encRefItems C as

/-- value child of QUALIFIER / PROPERTY / PROPERTY.ARRAY (none = NULL: child omitted) -/
def encVal (C : Codec) : Val → List Xml
  | .null => []
  | .scalar (.ref p) => [E "VALUE.REFERENCE" [] [encPath C p]]
  | .scalar a => [valueElem (atomText C a)]
  | .array l => [E "VALUE.ARRAY" [] (encArrItems C l)]

def encQual (C : Codec) : Qual → Xml
  | .mk name ty val propagated overridable tosubclass toinstance translatable =>
    E "QUALIFIER"
      ([("NAME".toList, name), ("TYPE".toList, ty)] ++ optBoolAttr "PROPAGATED" propagated ++
        optBoolAttr "OVERRIDABLE" overridable ++ optBoolAttr "TOSUBCLASS" tosubclass ++
        optBoolAttr "TOINSTANCE" toinstance ++ optBoolAttr "TRANSLATABLE" translatable)
      (encVal C val)

def encQuals (C : Codec) : List Qual → List Xml
  | [] => []
  | q :: qs => encQual C q :: encQuals C qs

def encProp (C : Codec) : Prop_ → Xml
  | .mk name ty val isArray arraySize refCls origin propagated emb quals =>
    if isArray then
      E "PROPERTY.ARRAY"
        ([("NAME".toList, name), ("TYPE".toList, ty)] ++ optAttr "ARRAYSIZE" (arraySize.map natToStr) ++
          optAttr "CLASSORIGIN" origin ++ optAttr "EmbeddedObject" emb ++ optBoolAttr "PROPAGATED" propagated)
        (encQuals C quals ++ encVal C val)
    else if ty = "reference".toList then
      E "PROPERTY.REFERENCE"
        ([("NAME".toList, name)] ++ optAttr "REFERENCECLASS" refCls ++ optAttr "CLASSORIGIN" origin ++
          optBoolAttr "PROPAGATED" propagated)
        (encQuals C quals ++ encVal C val)
    else
      E "PROPERTY"
        ([("NAME".toList, name), ("TYPE".toList, ty)] ++ optAttr "CLASSORIGIN" origin ++
          optBoolAttr "PROPAGATED" propagated ++ optAttr "EmbeddedObject" emb)
        (encQuals C quals ++ encVal C val)

def encProps (C : Codec) : List Prop_ → List Xml
  | [] => []
  | p :: ps => encProp C p :: encProps C ps

/-- CIMInstance.tocimxml(ignore_path=True): the INSTANCE element -/
def encInstElem (C : Codec) : Inst → Xml
  | .mk cls _ props quals =>
    E "INSTANCE" [("CLASSNAME".toList, cls)] (encQuals C quals ++ encProps C props)

/-- CIMInstance.tocimxml() -/
def encInst (C : Codec) : Inst → Xml
  | .mk cls path props quals =>
    let ie := E "INSTANCE" [("CLASSNAME".toList, cls)] (encQuals C quals ++ encProps C props)
    match path with
    | none => ie
    | some (.inst c h none ks) => E "VALUE.NAMEDINSTANCE" [] [encPath C (.inst c h none ks), ie]
    | some (.inst c none (some n) ks) =>
        E "VALUE.OBJECTWITHLOCALPATH" [] [encPath C (.inst c none (some n) ks), ie]
    | some (.inst c (some h) (some n) ks) =>
        E "VALUE.INSTANCEWITHPATH" [] [encPath C (.inst c (some h) (some n) ks), ie]
    | some (.cls ..) => ie                                -- not reachable (path is a CIMInstanceName)

/-- CIMParameter.tocimxml(as_value=False) -/
def encParam (C : Codec) : Param → Xml
  | .mk name ty refCls isArray arraySize quals _ _ =>
    if isArray then
      if ty = "reference".toList then
        E "PARAMETER.REFARRAY"
          ([("NAME".toList, name)] ++ optAttr "REFERENCECLASS" refCls ++
            optAttr "ARRAYSIZE" (arraySize.map natToStr)) (encQuals C quals)
      else
        E "PARAMETER.ARRAY"
          ([("NAME".toList, name), ("TYPE".toList, ty)] ++ optAttr "ARRAYSIZE" (arraySize.map natToStr))
          (encQuals C quals)
    else
      if ty = "reference".toList then
        E "PARAMETER.REFERENCE" ([("NAME".toList, name)] ++ optAttr "REFERENCECLASS" refCls) (encQuals C quals)
      else
        E "PARAMETER" [("NAME".toList, name), ("TYPE".toList, ty)] (encQuals C quals)

def encParams (C : Codec) : List Param → List Xml
  | [] => []
  | p :: ps => encParam C p :: encParams C ps

def encMeth (C : Codec) : Meth → Xml
  | .mk name retTy params origin propagated quals =>
    E "METHOD"
      ([("NAME".toList, name)] ++ optAttr "TYPE" retTy ++ optAttr "CLASSORIGIN" origin ++
        optBoolAttr "PROPAGATED" propagated)
      (encQuals C quals ++ encParams C params)

def encMeths (C : Codec) : List Meth → List Xml
  | [] => []
  | m :: ms => encMeth C m :: encMeths C ms

/-- CIMClass.tocimxml() (the path is never written) -/
def encCls (C : Codec) : Cls → Xml
  | .mk name super _ props meths quals =>
    E "CLASS" ([("NAME".toList, name)] ++ optAttr "SUPERCLASS" super)
      (encQuals C quals ++ encProps C props ++ encMeths C meths)
end

/-- CIMParameter.tocimxml(as_value=True): PARAMVALUE -/
def encParamValue (C : Codec) : Param → Xml
  | .mk name ty _ isArray _ _ val emb =>
    let v : List Xml :=
      match val with
      | .null => []
      | .array l =>
        if ty = "reference".toList then [E "VALUE.REFARRAY" [] (encRefItems C l)]
        else [E "VALUE.ARRAY" [] (encArrItems C l)]
      | .scalar a => encVal C (.scalar a)
    let _ := isArray
    E "PARAMVALUE" ([("NAME".toList, name)] ++ optAttr "PARAMTYPE" (some ty) ++ optAttr "EmbeddedObject" emb) v

/-- `_cim_xml.SCOPE`: keys upper-cased and sorted by upper-cased key; `any` expands to all seven -/
def scopeNames : List String := ["ASSOCIATION", "CLASS", "INDICATION", "METHOD", "PARAMETER", "PROPERTY", "REFERENCE"]

def upperAscii (s : Str) : Str := s.map Char.toUpper

def insertSorted (p : Str × Str) : List (Str × Str) → List (Str × Str)
  | [] => [p]
  | q :: qs => if (String.ofList p.1) ≤ (String.ofList q.1) then p :: q :: qs else q :: insertSorted p qs

def encScope (scopes : List (Str × Bool)) : List Xml :=
  if scopes.isEmpty then []
  else
    let anyTrue := scopes.any (fun p => p.1.map Char.toLower == "any".toList && p.2)
    let attrs : List (Str × Str) :=
      if anyTrue then scopeNames.map (fun n => (n.toList, "true".toList))
      else (scopes.map (fun p => (upperAscii p.1, boolAttr p.2))).foldr insertSorted []
    [E "SCOPE" attrs []]

/-- CIMQualifierDeclaration.tocimxml() -/
def encQualDecl (C : Codec) (q : QualDecl) : Xml :=
  E "QUALIFIER.DECLARATION"
    ([("NAME".toList, q.name), ("TYPE".toList, q.ty)] ++ [("ISARRAY".toList, boolAttr q.isArray)] ++
      optAttr "ARRAYSIZE" (q.arraySize.map natToStr) ++ optBoolAttr "OVERRIDABLE" q.overridable ++
      optBoolAttr "TOSUBCLASS" q.tosubclass ++ optBoolAttr "TOINSTANCE" q.toinstance ++
      optBoolAttr "TRANSLATABLE" q.translatable)
    (encScope q.scopes ++ encVal C q.val)

def encObj (C : Codec) : Obj → Xml
  | .path p => encPath C p
  | .inst i => encInst C i
  | .cls c => encCls C c
  | .prop p => encProp C p
  | .meth m => encMeth C m
  | .param p => encParam C p
  | .qual q => encQual C q
  | .qdecl q => encQualDecl C q

end Pywbem.Model
