/-
C10 — equality of instance paths as the Python code computes it, next to the normal form the store model
looks keys up by (Model/Store.lean: `normPath`).

mirrors pywbem/_cim_obj.py: CIMInstanceName.__eq__
mirrors pywbem/_utils.py: _eq_name, _eq_dict
mirrors pywbem/_vendor/nocasedict/_nocasedict.py: NocaseDict.__eq__  (for every item of self: key in other and
  values equal; then the lengths are compared)
The theorem `pyPathEq_iff_normPath` (Proofs/Lemmas/StoreEq.lean) says that on paths whose keybindings are
NocaseDicts (no two names equal up to case) this procedure decides exactly equality of normal forms.
-/
import Pywbem.Model.Store

namespace Pywbem.Model.Store

/-- mirrors pywbem/_utils.py: _eq_name -/
def optNameEq : Option Name → Option Name → Bool
  | none, none => true
  | some a, some b => nameEq a b
  | _, _ => false

/-- `NocaseDict.__getitem__` -/
def dictGet {α} (d : List (Name × α)) (k : Name) : Option α := (d.find? (fun e => nameEq e.1 k)).map (·.2)

/-- mirrors pywbem/_vendor/nocasedict/_nocasedict.py: NocaseDict.__eq__ -/
def dictEq {α} (veq : α → α → Bool) (a b : List (Name × α)) : Bool :=
  a.all (fun e => match dictGet b e.1 with | some v => veq e.2 v | none => false) && a.length == b.length

/-- Python `==` on scalar keybinding values: strings exactly, integers and booleans numerically -/
def scalarEq : Scalar → Scalar → Bool
  | .str a, .str b => a == b
  | .int a, .int b => a == b
  | .int a, .bool b => a == (if b then 1 else 0)
  | .bool a, .int b => (if a then 1 else 0) == b
  | .bool a, .bool b => a == b
  | .other t x, .other u y => t == u && x == y
  | _, _ => false

def path0Eq (p q : Path0) : Bool :=
  optNameEq p.host q.host && optNameEq p.ns q.ns && nameEq p.cls q.cls && dictEq scalarEq p.keys q.keys

/-- a reference compared with a non-reference raises TypeError inside NocaseDict.__eq__, which answers False -/
def kvEq : KV → KV → Bool
  | .sc a, .sc b => scalarEq a b
  | .ref p, .ref q => path0Eq p q
  | _, _ => false

/-- mirrors pywbem/_cim_obj.py: CIMInstanceName.__eq__ -/
def pyPathEq (p q : Path) : Bool :=
  optNameEq p.host q.host && optNameEq p.ns q.ns && nameEq p.cls q.cls && dictEq kvEq p.keys q.keys

/-- the keybindings form a NocaseDict: no two names equal up to case -/
def KeysWF {α} (l : List (Name × α)) : Prop := (l.map (fun e => lower e.1)).Nodup

def KVWF : KV → Prop
  | .sc _ => True
  | .ref p => KeysWF p.keys

def PathWF (p : Path) : Prop := KeysWF p.keys ∧ ∀ e ∈ p.keys, KVWF e.2

end Pywbem.Model.Store
