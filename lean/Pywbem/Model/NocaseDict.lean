/-
C05 model, part 2: the NocaseDict *operations* (pywbem/_vendor/nocasedict/_nocasedict.py and the pywbem wrapper
pywbem/_nocasedict.py that rejects the unnamed key unless `allow_unnamed_keys`).

A dictionary is the list of its items `(original key, value)` in iteration order (the internal `_data` maps the
casefolded key to that pair and keeps insertion order).  Every method is a function on that list; `step` runs one
call of the public API and produces what Python returns or raises.  The constructors / setters of the CIM classes
fill their child dictionaries through `__setitem__`, so `dFromItems` is what makes the `good` invariant true.
-/
import Pywbem.Model.Eq

namespace Pywbem.Model.Eq
open Pywbem.Proto

abbrev Items := List (Key × Obj)

/-- mirrors NocaseDict.__setitem__: `self._data[casefold(key)] = (key, value)` — an existing item keeps its position
    in the iteration order; its stored original key is replaced by the new spelling -/
def dSet (C : CaseOps) (k : Key) (v : Obj) : Items → Items
  | [] => [(k, v)]
  | (k', w) :: es => if ckey C k' = ckey C k then (k, v) :: es else (k', w) :: dSet C k v es

/-- mirrors `del self._data[casefold(key)]` (first = only item with that casefolded key) -/
def dErase (C : CaseOps) (k : Key) : Items → Items
  | [] => []
  | (k', w) :: es => if ckey C k' = ckey C k then es else (k', w) :: dErase C k es

/-- mirrors NocaseDict.__contains__ -/
def dContains (C : CaseOps) (k : Key) (es : Items) : Bool := (lookup C k es).isSome

/-- mirrors NocaseDict.update(iterable of pairs) and the loop of every dict-valued setter of _cim_obj.py -/
def dUpdate (C : CaseOps) (items : Items) (es : Items) : Items :=
  items.foldl (fun acc kv => dSet C kv.1 kv.2 acc) es

/-- mirrors NocaseDict.__init__(iterable) -/
def dFromItems (C : CaseOps) (items : Items) : Items := dUpdate C items []

/-- mirrors pywbem/_nocasedict.py: NocaseDict._check_unnamed_key -/
def checkKey (allow : Bool) (k : Key) : Except PyExc Unit :=
  if k.isNone && !allow then .error .valueError else .ok ()

structure DState where
  allow : Bool          -- allow_unnamed_keys
  items : Items
  deriving Inhabited

inductive DOp where
  | setitem (k : Key) (v : Obj)
  | getitem (k : Key)
  | delitem (k : Key)
  | contains (k : Key)
  | get (k : Key) (dflt : Obj)
  | pop (k : Key) (dflt : Option Obj)
  | popitem
  | setdefault (k : Key) (dflt : Obj)
  | update (items : Items)
  | clear
  | len
  | keys
  | setAllow (b : Bool)

inductive DOut where
  | none                         -- the call returns None
  | val (v : Obj)
  | bool (b : Bool)
  | nat (n : Nat)
  | keys (ks : List Key)
  | item (k : Key) (v : Obj)
  | err (e : PyExc)

/-- first key of `items` that the wrapper rejects, if any (update() stops there, having stored the items before it) -/
def updateChecked (C : CaseOps) (allow : Bool) : Items → Items → Items × Option PyExc
  | [], es => (es, Option.none)
  | (k, v) :: rest, es =>
    match checkKey allow k with
    | .error e => (es, some e)
    | .ok _ => updateChecked C allow rest (dSet C k v es)

/-- one call of the public API of a pywbem NocaseDict -/
def dStep (C : CaseOps) (s : DState) : DOp → DState × DOut
  | .setitem k v =>
    match checkKey s.allow k with
    | .error e => (s, .err e)
    | .ok _ => ({ s with items := dSet C k v s.items }, .none)
  | .getitem k =>
    match checkKey s.allow k with
    | .error e => (s, .err e)
    | .ok _ =>
      match lookup C k s.items with
      | some v => (s, .val v)
      | Option.none => (s, .err .keyError)
  | .delitem k =>
    match checkKey s.allow k with
    | .error e => (s, .err e)
    | .ok _ =>
      if dContains C k s.items then ({ s with items := dErase C k s.items }, .none) else (s, .err .keyError)
  | .contains k =>
    match checkKey s.allow k with
    | .error e => (s, .err e)
    | .ok _ => (s, .bool (dContains C k s.items))
  | .get k d =>       -- vendor get(): `try: return self[key] except KeyError: return default`
    match checkKey s.allow k with
    | .error e => (s, .err e)
    | .ok _ => (s, .val ((lookup C k s.items).getD d))
  | .pop k d =>
    match checkKey s.allow k with
    | .error e => (s, .err e)
    | .ok _ =>
      match lookup C k s.items, d with
      | some v, _ => ({ s with items := dErase C k s.items }, .val v)
      | Option.none, some dv => (s, .val dv)
      | Option.none, Option.none => (s, .err .keyError)
  | .popitem =>       -- `self._data.popitem()[1]`: the last item, no unnamed-key check
    match s.items.getLast? with
    | some (k, v) => ({ s with items := s.items.dropLast }, .item k v)
    | Option.none => (s, .err .keyError)
  | .setdefault k d =>  -- `if key not in self: self[key] = default; return self[key]`
    match checkKey s.allow k with
    | .error e => (s, .err e)
    | .ok _ =>
      match lookup C k s.items with
      | some v => (s, .val v)
      | Option.none => ({ s with items := dSet C k d s.items }, .val d)
  | .update items =>
    let (es, e) := updateChecked C s.allow items s.items
    ({ s with items := es }, match e with | some x => .err x | Option.none => .none)
  | .clear => ({ s with items := [] }, .none)
  | .len => (s, .nat s.items.length)
  | .keys => (s, .keys (s.items.map (·.1)))
  | .setAllow b => ({ s with allow := b }, .none)

def dRun (C : CaseOps) (s : DState) : List DOp → DState × List DOut
  | [] => (s, [])
  | op :: ops =>
    let (s', o) := dStep C s op
    let (s'', os) := dRun C s' ops
    (s'', o :: os)

/-! ### identities: in-place change of the value with identity `i` -/

mutual
/-- apply `f` to every mutable value whose identity is `i` (Python: a change made through any reference to it),
    then continue below -/
def mutAt (i : Nat) (f : Obj → Obj) : Obj → Obj
  | .none => .none
  | .atom a => .atom a
  | .list j xs => if j = i then f (.list j (mutAtList i f xs)) else .list j (mutAtList i f xs)
  | .dict j es => if j = i then f (.dict j (mutAtEntries i f es)) else .dict j (mutAtEntries i f es)
  | .node j k as => if j = i then f (.node j k (mutAtList i f as)) else .node j k (mutAtList i f as)
def mutAtList (i : Nat) (f : Obj → Obj) : List Obj → List Obj
  | [] => []
  | a :: as => mutAt i f a :: mutAtList i f as
def mutAtEntries (i : Nat) (f : Obj → Obj) : List (Key × Obj) → List (Key × Obj)
  | [] => []
  | (k, v) :: es => (k, mutAt i f v) :: mutAtEntries i f es
end

/-! ### the public in-place operations on the values inside a CIM object -/

/-- position of the keybindings slot of CIMInstanceName (from the extracted `__slots__`) -/
def kbIndex : Nat := (slotsOf .instanceName).idxOf "keybindings"

inductive InOp where
  | listAppend (v : Obj)                 -- list.append(v) on an array value
  | listPop                              -- list.pop()
  | dictSet (k : Key) (v : Obj)          -- NocaseDict.__setitem__ / setdefault on a missing key
  | dictDel (k : Key)                    -- NocaseDict.__delitem__ / pop of an existing key
  | dictUpdate (items : Items)           -- NocaseDict.update
  | setAttr (slot : Nat) (v : Obj)       -- a public attribute setter (value already normalised by the setter)
  | pathSet (k : Key) (v : Obj)          -- CIMInstanceName.__setitem__ / update: `self.keybindings[key] = value`
  | pathDel (k : Key)                    -- CIMInstanceName.__delitem__: `del self.keybindings[key]`

/-- what the operation does to the value it is called on (other shapes: not applicable, unchanged).
    mirrors CIMInstanceName.__setitem__/__delitem__/update (pywbem/_cim_obj.py), the NocaseDict methods, list methods -/
def applyOp (C : CaseOps) : InOp → Obj → Obj
  | .listAppend v, .list i xs => .list i (xs ++ [v])
  | .listPop, .list i xs => .list i xs.dropLast
  | .dictSet k v, .dict i es => .dict i (dSet C k v es)
  | .dictDel k, .dict i es => .dict i (dErase C k es)
  | .dictUpdate items, .dict i es => .dict i (dUpdate C items es)
  | .setAttr n v, .node i k as => .node i k (as.set n v)
  | .pathSet k v, .node i .instanceName as =>
    (match as.getD kbIndex .none with
     | .dict j es => .node i .instanceName (as.set kbIndex (.dict j (dSet C k v es)))
     | _ => .node i .instanceName as)
  | .pathDel k, .node i .instanceName as =>
    (match as.getD kbIndex .none with
     | .dict j es => .node i .instanceName (as.set kbIndex (.dict j (dErase C k es)))
     | _ => .node i .instanceName as)
  | _, o => o

/-! ### top-level `==` of the CIM classes and Python set / dict membership -/

/-- mirrors the head of every `<class>.__eq__`: `if not isinstance(other, <class>): raise TypeError(...)`
    (NocaseDict, lists and leaves never raise) -/
def eqTop (C : CaseOps) (a b : Obj) : Except PyExc Bool :=
  match a, b with
  | .node _ k _, .node _ k' _ => if k = k' then .ok (eqObj C a b) else .error .typeError
  | .node _ _ _, _ => .error .typeError
  | _, _ => .ok (eqObj C a b)

/-- mirrors _CIMComparisonMixin.__lt__/__gt__/__le__/__ge__ (pywbem/_cim_types.py) and
    NocaseDict._raise_ordering_not_supported: ordering of CIM objects and NocaseDicts is rejected, whatever the operands -/
def orderTop (a _b : Obj) : Except PyExc Bool :=
  match a with
  | .node _ _ _ => .error .typeError
  | .dict _ _ => .error .typeError
  | _ => .ok false      -- (leaves and lists have Python's own ordering; not part of the model)

/-- CPython set / dict lookup of `b` in a container holding `xs`: same hash, then `==` (identity first) -/
def pyIn {β : Type} [DecidableEq β] (C : CaseOps) (H : PyHash β) (b : Obj) (xs : List Obj) : Bool :=
  xs.any (fun a => decide (hashObj C H a = hashObj C H b) && eqObj C a b)

/-! ### pickling: SlottedPickleMixin.__getstate__ / __setstate__ (pywbem/_cim_types.py) -/

def rawSlotsOf (k : Kind) : List String := (Pywbem.Generated.Slots.rawSlots.lookup k.pyName).getD []

/-- mirrors SlottedPickleMixin.__getstate__: `{slot: getattr(self, slot) for slot in __slots__}` -/
def getstate (k : Kind) (as : List Obj) : List (String × Obj) := (rawSlotsOf k).zip as

/-- is this state key dropped by the compatibility rule of __setstate__ (`isinstance(self, CIMClass) and attr in (…)`)? -/
def setstateSkipped (k : Kind) (attr : String) : Bool :=
  k.pyName == Pywbem.Generated.Slots.setstateSkipClass && Pywbem.Generated.Slots.setstateSkips.contains attr

/-- mirrors SlottedPickleMixin.__setstate__ on a fresh object: every slot gets the value stored under its name,
    unless the key is skipped; `none` = the slot stays unset (reading it would raise AttributeError) -/
def setstate (k : Kind) (st : List (String × Obj)) : List (Option Obj) :=
  (rawSlotsOf k).map (fun s => if setstateSkipped k s then Option.none else st.lookup s)

/-! ### a concrete CPython-like hash for frozensets: a commutative combination over the DISTINCT element hashes -/

def dedupNat : List Nat → List Nat
  | [] => []
  | x :: xs => if x ∈ dedupNat xs then dedupNat xs else x :: dedupNat xs

def sumNat : List Nat → Nat
  | [] => 0
  | x :: xs => x + sumNat xs

/-- an instance of the builtin hash whose frozenset hash is `sum of the distinct element hashes` (CPython: xor of the
    shuffled element hashes of the set); the other components are arbitrary injective-ish encodings -/
def sumHash : PyHash Nat where
  none := 0
  str s := 1 + sumNat (s.map Char.toNat)
  num n d := 2 + n.natAbs + d
  inf b := if b then 3 else 4
  nan := 5
  dt u := 6 + u.natAbs
  td u := 7 + u.natAbs
  tuple l := 8 + 31 * sumNat l + l.length
  fset l := 9 + sumNat (dedupNat l)

end Pywbem.Model.Eq
