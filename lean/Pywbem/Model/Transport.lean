/-
C02 — the transport half of `wbem_request`: what becomes of an exception raised by
`conn.session.post()` (requests / urllib3), and the complete `wbem_request` (exception mapping, then the
status / header logic of `Envelope.httpLayer`).

mirrors pywbem/_cim_http.py: wbem_request (try/except around session.post), pywbem_requests_exception,
  pywbem_urllib3_exception (incl. its regular expressions, re-implemented as string functions below)

Third-party side: which exception classes requests/urllib3 raise and what their `args[0]` is, is the
INPUT (`PostOutcome`); the `isinstance` tests of the code are the constructors of `ReqKind` in the order
the code tests them.
-/
import Pywbem.Model.Envelope

namespace Pywbem.Model.Transport
open Pywbem.Model Pywbem.Model.XmlText Pywbem.Proto Pywbem.Model.Envelope

/-! ### string helpers for the regular expressions -/

def isPrefix (p s : Str) : Bool := p.isPrefixOf s

/-- `$` without MULTILINE matches at the end and before a trailing newline: the string a `…$` pattern
    sees (without that newline) -/
def dropTrailNL (s : Str) : Str :=
  match s.reverse with
  | '\n' :: r => r.reverse
  | _ => s

def noNL (s : Str) : Bool := !s.contains '\n'

def isAsciiLetter (c : Char) : Bool := (c.toNat ≥ 65 && c.toNat ≤ 90) || (c.toNat ≥ 97 && c.toNat ≤ 122)

/-- all suffixes of `s`, leftmost first -/
def suffixes : Str → List Str
  | [] => [[]]
  | c :: cs => (c :: cs) :: suffixes cs

/-- `re.search(r'\(Caused by ([A-Za-z]+)\((.*)\)\)$', message)` -> (group 1, group 2) -/
def causedByAt (s : Str) : Option (Str × Str) :=
  if isPrefix "(Caused by ".toList s then
    let r := s.drop 11
    let name := r.takeWhile isAsciiLetter
    match name, r.dropWhile isAsciiLetter with
    | [], _ => none
    | _, '(' :: rest =>
      let body := dropTrailNL rest
      match body.reverse with
      | ')' :: ')' :: xr => if noNL xr then some (name, xr.reverse) else none
      | _ => none
    | _, _ => none
  else none

def causedBy (message : Str) : Option (Str × Str) :=
  (suffixes message).findSome? causedByAt

/-- `s.strip(ch)` -/
def stripChar (ch : Char) (s : Str) : Str :=
  ((s.dropWhile (· = ch)).reverse.dropWhile (· = ch)).reverse

/-- index of the last occurrence of `pat` in `s`, as (before, after) -/
def splitLast (pat : Str) (s : Str) : Option (Str × Str) :=
  let rec go (pre : Str) (rest : Str) (best : Option (Str × Str)) (fuel : Nat) : Option (Str × Str) :=
    match fuel with
    | 0 => best
    | fuel + 1 =>
      let best' := if isPrefix pat rest then some (pre.reverse, rest.drop pat.length) else best
      match rest with
      | [] => best'
      | c :: cs => go (c :: pre) cs best' fuel
  go [] s none (s.length + 1)

def containsSub (pat s : Str) : Bool := (suffixes s).any (isPrefix pat)

/-- `re.search(r'^PRE.*MID.*\): (.*)$', s)` group 1 (greedy): the text after the last `"): "` that has a
    `MID` before it; the whole string (but a trailing newline) must be newline-free -/
def poolTail (pre mid : Str) (s : Str) : Option Str :=
  let body := dropTrailNL s
  if !noNL body then none
  else if !isPrefix pre body then none
  else
    let r := body.drop pre.length
    match splitLast "): ".toList r with
    | none => none
    | some (before, after) => if containsSub mid before then some after else none

/-- `re.search(r'^<[^>]+>[,:] (.*)$', s)` group 1 -/
def angleTail (s : Str) : Option Str :=
  match s with
  | '<' :: r =>
    let inner := r.takeWhile (· ≠ '>')
    match inner, r.dropWhile (· ≠ '>') with
    | [], _ => none
    | _, '>' :: sep :: ' ' :: g =>
      if sep = ',' ∨ sep = ':' then
        let g' := dropTrailNL g
        if noNL g' then some g' else none
      else none
    | _, _ => none
  | _ => none

/-- the rewriting of the 'Caused by' message in pywbem_urllib3_exception -/
def cleanupMessage (m0 : Str) : Str :=
  let m := match m0 with
    | '"' :: _ => stripChar '"' m0
    | '\'' :: _ => stripChar '\'' m0
    | _ => m0
  let isWbem := isPrefix "WBEMConnection".toList m && noNL (dropTrailNL (m.drop 14))
  let r := if isWbem then poolTail "WBEMConnection(url=".toList ", creds=".toList m
           else match poolTail "HTTPSConnectionPool(host=".toList ", port=".toList m with
             | some g => some g
             | none => poolTail "HTTPConnectionPool(host=".toList ", port=".toList m
  match r with
  | some g => g
  | none => match angleTail m with
    | some g => g
    | none => m

def isTimeoutChar (c : Char) : Bool := (c.toNat ≥ 48 && c.toNat ≤ 57) || c = '.'

/-- `re.search(r'\(read timeout=([0-9\.]+)\)', s)` group 1 -/
def readTimeoutAt (s : Str) : Option Str :=
  if isPrefix "(read timeout=".toList s then
    let r := s.drop 14
    match r.takeWhile isTimeoutChar, r.dropWhile isTimeoutChar with
    | [], _ => none
    | t, ')' :: _ => some t
    | _, _ => none
  else none

def readTimeoutOf (s : Str) : Option Str := (suffixes s).findSome? readTimeoutAt

/-! ### the exceptions -/

/-- a urllib3 exception: is it a MaxRetryError, its class name, and `str(args[0])` (`none`: no args) -/
structure U3Exc where
  isMaxRetry : Bool
  className : Str
  arg0 : Option Str

/-- `exc.args[0]` of a requests exception -/
inductive ReqArg where
  | missing                    -- exc.args == ()
  | str (s : Str)              -- a string (or any other object, taken as str(object))
  | u3 (e : U3Exc)             -- a urllib3.exceptions.HTTPError instance

/-- the `isinstance` tests of pywbem_requests_exception, in the order of the code -/
inductive ReqKind where
  | ssl | readTimeout | retry | other
  deriving DecidableEq, Repr

/-- what `conn.session.post()` did -/
inductive PostOutcome where
  | response (h : HttpResp)
  | requestsExc (k : ReqKind) (a : ReqArg)      -- except requests.exceptions.RequestException
  | urllib3Exc (e : U3Exc)                      -- except urllib3.exceptions.HTTPError

section
variable (C : EnvCodec)

/-- (exc_name, exc_message) as pywbem_urllib3_exception computes them for a MaxRetryError message -/
def nameAndMessage (className message : Str) : Str × Str :=
  match causedBy message with
  | some (n, m) => (n, cleanupMessage m)
  | none => (className, message)

/-- mirrors pywbem_urllib3_exception (after the C02 fixes: `exc.args[0] if exc.args else ''`, and a
    'read timeout=' field `float()` rejects counts as "not the connect timeout"): the class of the
    exception that is raised -/
def mapU3 (e : U3Exc) : PyExc :=
  let message := e.arg0.getD []
  if e.isMaxRetry then
    let nm := nameAndMessage e.className message
    if nm.1 = "ReadTimeoutError".toList then
      match readTimeoutOf nm.2 with
      | some t =>
        match C.parseFloat t with
        | none => .timeoutError                           -- try: float(...) except ValueError: None
        | some b =>
          if b.toNat = Pywbem.Generated.Rsp.httpConnectTimeoutBits then .connectionError else .timeoutError
      | none => .timeoutError
    else .connectionError
  else .connectionError

/-- mirrors pywbem_requests_exception -/
def mapReq (k : ReqKind) (a : ReqArg) : PyExc :=
  match a with
  | .u3 e => mapU3 C e
  | _ =>
    match k with
    | .ssl => .connectionError
    | .readTimeout => .timeoutError
    | .retry => .timeoutError
    | .other => .connectionError

/-- mirrors wbem_request: exception mapping, then (for a response) the status / header logic -/
def wbemRequest (p : PostOutcome) : R Unit :=
  match p with
  | .response h => httpLayer h
  | .requestsExc k a => .error (mapReq C k a)
  | .urllib3Exc e => .error (mapU3 C e)

/-- a whole operation: `wbem_request`, then (if it returned a body) SAX parse, envelope, result handling -/
def operation (fuel : Nat) (op : OpSpec) (p : PostOutcome) (body : Option Xml) : Outcome :=
  match p with
  | .response h => client C fuel op h body
  | p => match wbemRequest C p with
    | .error e => ⟨.error e, false, false⟩
    | .ok () => ⟨.ok .void, false, false⟩        -- not reachable: an exception outcome always raises

end
end Pywbem.Model.Transport
