/-
C02 — from the characters of the response body to the outcome of the operation: the SAX layer is the
concrete XML parser `XmlParse.par` (proved against the serialiser in Proofs/Lemmas/XmlParse.lean, an
under-approximation of expat: what it accepts, expat accepts with the same tree), followed by the
whole response path of `Model/Transport.lean` / `Model/Envelope.lean`.

mirrors pywbem/_tupletree.py: xml_to_tupletree_sax (for the documents `par` accepts)
mirrors pywbem/_cim_operations.py: the operation methods from `wbem_request(...)` to the return value
-/
import Pywbem.Model.Transport
import Pywbem.Model.XmlParse

namespace Pywbem.Model.Wire
open Pywbem.Model Pywbem.Model.XmlText Pywbem.Proto Pywbem.Model.Envelope Pywbem.Model.Transport

/-- the operation on the decoded text of the body (UTF-8 decoding is the caller's: expat decodes; the
    model works on characters) -/
def operationText (C : EnvCodec) (fuel : Nat) (op : OpSpec) (p : PostOutcome) (text : Str) : Outcome :=
  operation C fuel op p (XmlParse.par text)

end Pywbem.Model.Wire
