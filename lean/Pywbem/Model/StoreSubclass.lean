/-
C10 — how EnumerateInstances / EnumerateInstanceNames (and DeleteClass) of the mock server decide which instances
belong to a class "or one of its subclasses": the code collects the subclass names walking DOWN the class store;
Model/Store.lean (`descends`) decides the same question walking UP the superclass chain of the instance's class.
This file mirrors the code; Proofs/Lemmas/StoreSubclass.lean proves that the two agree.

mirrors pywbem_mock/_mainprovider.py: MainProvider._get_subclass_names, MainProvider._get_subclass_list_for_enums
-/
import Pywbem.Model.Store

namespace Pywbem.Model.Store

/-- names of the classes whose superclass is `n` (up to case):
    mirrors pywbem_mock/_mainprovider.py: MainProvider._get_subclass_names (deep_inheritance=False part) -/
def children (cs : List Cls) (n : Name) : List Name :=
  (cs.filter (fun c => match c.super with | some s => nameEq s n | none => false)).map (·.name)

/-- mirrors pywbem_mock/_mainprovider.py: MainProvider._get_subclass_names (deep_inheritance=True): the children, then
    recursively the subclasses of every child; `fuel` bounds the recursion depth (Python recurses until the class
    store runs out of deeper classes) -/
def subclassNames (cs : List Cls) : Nat → Name → List Name
  | 0, _ => []
  | fuel + 1, n => children cs n ++ (children cs n).flatMap (subclassNames cs fuel)

/-- mirrors pywbem_mock/_mainprovider.py: MainProvider._get_subclass_list_for_enums + the test
    `inst.path.classname in clns` (NocaseList) -/
def inEnumDown (cs : List Cls) (target c : Name) : Bool :=
  (subclassNames cs cs.length target ++ [target]).any (fun n => nameEq n c)

end Pywbem.Model.Store
