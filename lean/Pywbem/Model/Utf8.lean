/-
C19 — concrete model of CPython's UTF-8 codec as far as the observers of a WBEM
operation use it.

mirrors CPython Objects/stringlib/codecs.h: utf8_decode (one step = `step`), and
  Objects/unicodeobject.c: unicode_decode_utf8 (error ranges handed to the error
  handler: `invalid start byte` = 1 byte, `invalid continuation byte` = the bytes
  before the offending one, `unexpected end of data` = rest of the input)
mirrors pywbem/_utils.py: _ensure_unicode (strict), _ensure_bytes (encode)
mirrors pywbem/_recorder.py: LogOperationRecorder._payload_to_unicode (errors='replace')

Bytes are `Nat`s (the harness sends 0..255; anything ≥ 0xF5 is an invalid start
byte, so out-of-range values are harmless).  Code points are `Nat`s inside the
decoder and become `Char`s via `Char.ofNat` (always valid scalar values here:
the decoder rejects surrogates, overlong forms and values > U+10FFFF — theorem
`Proofs.Lemmas.Utf8.step_char_valid`).
-/
namespace Pywbem.Model.Utf8

abbrev Bytes := List Nat

/-- `IS_CONTINUATION_BYTE` -/
def isCont (b : Nat) : Bool := decide (0x80 ≤ b) && decide (b < 0xC0)

/-- result of looking at the head of the remaining input -/
inductive Step where
  | char (cp : Nat) (len : Nat)   -- well-formed sequence of `len` bytes for code point `cp`
  | bad (len : Nat)               -- invalid start byte (len = 1) / invalid continuation byte (len = bytes before it)
  | truncated                     -- unexpected end of data (error range: the rest of the input)
  deriving Repr, DecidableEq

/-- second-byte restriction of 3-byte sequences (no overlong E0, no surrogates ED) -/
def badSecond3 (b0 b1 : Nat) : Bool :=
  !isCont b1 || (if b1 < 0xA0 then b0 == 0xE0 else b0 == 0xED)

/-- second-byte restriction of 4-byte sequences (no overlong F0, nothing above U+10FFFF) -/
def badSecond4 (b0 b1 : Nat) : Bool :=
  !isCont b1 || (if b1 < 0x90 then b0 == 0xF0 else b0 == 0xF4)

def cp2 (b0 b1 : Nat) : Nat := (b0 - 0xC0) * 64 + (b1 - 0x80)
def cp3 (b0 b1 b2 : Nat) : Nat := (b0 - 0xE0) * 4096 + (b1 - 0x80) * 64 + (b2 - 0x80)
def cp4 (b0 b1 b2 b3 : Nat) : Nat :=
  (b0 - 0xF0) * 262144 + (b1 - 0x80) * 4096 + (b2 - 0x80) * 64 + (b3 - 0x80)

/-- mirrors utf8_decode: one iteration of the decoding loop on a non-empty input -/
def step : Bytes → Step
  | [] => .truncated
  | b0 :: rest =>
    if b0 < 0x80 then .char b0 1
    else if b0 < 0xC2 then .bad 1
    else if b0 < 0xE0 then
      match rest with
      | [] => .truncated
      | b1 :: _ => if isCont b1 then .char (cp2 b0 b1) 2 else .bad 1
    else if b0 < 0xF0 then
      match rest with
      | [] => .truncated
      | b1 :: rest2 =>
        if badSecond3 b0 b1 then .bad 1
        else match rest2 with
          | [] => .truncated
          | b2 :: _ => if isCont b2 then .char (cp3 b0 b1 b2) 3 else .bad 2
    else if b0 < 0xF5 then
      match rest with
      | [] => .truncated
      | b1 :: rest2 =>
        if badSecond4 b0 b1 then .bad 1
        else match rest2 with
          | [] => .truncated
          | b2 :: rest3 =>
            if !isCont b2 then .bad 2
            else match rest3 with
              | [] => .truncated
              | b3 :: _ => if isCont b3 then .char (cp4 b0 b1 b2 b3) 4 else .bad 3
    else .bad 1

def replacementChar : Char := Char.ofNat 0xFFFD

/-- `bytes.decode('utf-8')` (strict): `none` = UnicodeDecodeError.  Fuel = number of loop iterations. -/
def decodeStrictF : Nat → Bytes → Option (List Char)
  | _, [] => some []
  | 0, _ :: _ => none
  | f + 1, b :: bs =>
    match step (b :: bs) with
    | .char cp n => (decodeStrictF f ((b :: bs).drop n)).map (Char.ofNat cp :: ·)
    | .bad _ => none
    | .truncated => none

def decodeStrict (bs : Bytes) : Option (List Char) := decodeStrictF bs.length bs

/-- `bytes.decode('utf-8', errors='replace')`: every error range becomes one U+FFFD -/
def decodeReplaceF : Nat → Bytes → List Char
  | _, [] => []
  | 0, _ :: _ => []
  | f + 1, b :: bs =>
    match step (b :: bs) with
    | .char cp n => Char.ofNat cp :: decodeReplaceF f ((b :: bs).drop n)
    | .bad n => replacementChar :: decodeReplaceF f ((b :: bs).drop n)
    | .truncated => [replacementChar]

def decodeReplace (bs : Bytes) : List Char := decodeReplaceF bs.length bs

/-- `str.encode('utf-8')` of one character (Lean `Char`s are scalar values: no lone surrogates) -/
def encodeChar (c : Char) : Bytes :=
  let n := c.toNat
  if n < 0x80 then [n]
  else if n < 0x800 then [0xC0 + n / 64, 0x80 + n % 64]
  else if n < 0x10000 then [0xE0 + n / 4096, 0x80 + (n / 64) % 64, 0x80 + n % 64]
  else [0xF0 + n / 262144, 0x80 + (n / 4096) % 64, 0x80 + (n / 64) % 64, 0x80 + n % 64]

/-- mirrors _ensure_bytes on a str -/
def encode : List Char → Bytes
  | [] => []
  | c :: cs => encodeChar c ++ encode cs

end Pywbem.Model.Utf8
