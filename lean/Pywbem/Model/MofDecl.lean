/-
C08 stages 2 and 3 (declaration level): model of the tomof() methods of pywbem/_cim_obj.py above value level
and of a hand-written recursive-descent reader for exactly that text, mirroring the grammar actions of
pywbem/_mof_compiler.py.  Stage 2: qualifier declarations (`CIMQualifierDeclaration.tomof`,
`p_qualifierDeclaration`, `p_qualifierType*`, `p_array`, `p_scope*`, `p_defaultFlavor`, `p_flavorListWithComma`,
`_build_flavors`) and qualifier lists (`CIMQualifier.tomof`, `_qualifiers_tomof`, `p_qualifierList`,
`p_qualifier`, `p_qualifierParameter`).

NOT PLY: the reader works on the token list of `MofVal.lexToks`; PLY's LALR tables and driver are trusted /
observed (K compares the reader's result with the real compiler's on the same text).
-/
import Pywbem.Model.MofVal
import Pywbem.Generated.MofEscape

namespace Pywbem.Model.MofDecl
open Pywbem.Proto Pywbem.Model.MofStr Pywbem.Model.MofLex Pywbem.Model.MofVal

abbrev Str := List Nat

/-! ### text constants of the tomof() methods (code points; the text is in the comment) -/

def kQualifierSp : Str := [81, 117, 97, 108, 105, 102, 105, 101, 114, 32]   -- 'Qualifier '
def kSpColonSp : Str := [32, 58, 32]   -- ' : '
def kSpEqSp : Str := [32, 61, 32]   -- ' = '
def kBraceSp : Str := [123, 32]   -- '{ '
def kSpBrace : Str := [32, 125]   -- ' }'
def kCommaNl : Str := [44, 10]   -- ',\n'
def kScopeOpen : Str := [83, 99, 111, 112, 101, 40]   -- 'Scope('
def kFlavorOpen : Str := [70, 108, 97, 118, 111, 114, 40]   -- 'Flavor('
def kCommaSp : Str := [44, 32]   -- ', '
def kSemiNl : Str := [59, 10]   -- ';\n'
def kEnableOverride : Str := [69, 110, 97, 98, 108, 101, 79, 118, 101, 114, 114, 105, 100, 101]   -- 'EnableOverride'
def kDisableOverride : Str := [68, 105, 115, 97, 98, 108, 101, 79, 118, 101, 114, 114, 105, 100, 101]   -- 'DisableOverride'
def kToSubclass : Str := [84, 111, 83, 117, 98, 99, 108, 97, 115, 115]   -- 'ToSubclass'
def kRestricted : Str := [82, 101, 115, 116, 114, 105, 99, 116, 101, 100]   -- 'Restricted'
def kTranslatable : Str := [84, 114, 97, 110, 115, 108, 97, 116, 97, 98, 108, 101]   -- 'Translatable'
def kSpParen : Str := [32, 41]   -- ' )'
def kBracketNl : Str := [93, 10]   -- ']\n'
/-- `_ordered_scopes`, lower-cased as tomof() prints them -/
def scopeNames : List Str := [
  [99, 108, 97, 115, 115],   -- class
  [97, 115, 115, 111, 99, 105, 97, 116, 105, 111, 110],   -- association
  [105, 110, 100, 105, 99, 97, 116, 105, 111, 110],   -- indication
  [112, 114, 111, 112, 101, 114, 116, 121],   -- property
  [114, 101, 102, 101, 114, 101, 110, 99, 101],   -- reference
  [109, 101, 116, 104, 111, 100],   -- method
  [112, 97, 114, 97, 109, 101, 116, 101, 114],   -- parameter
  [97, 110, 121]]   -- any

/-- CIM type name as text -/
def tyStr : CimType → Str
  | .boolean => [98, 111, 111, 108, 101, 97, 110]
  | .string => [115, 116, 114, 105, 110, 103]
  | .char16 => [99, 104, 97, 114, 49, 54]
  | .datetime => [100, 97, 116, 101, 116, 105, 109, 101]
  | .real32 => [114, 101, 97, 108, 51, 50]
  | .real64 => [114, 101, 97, 108, 54, 52]
  | .uint8 => [117, 105, 110, 116, 56]
  | .sint8 => [115, 105, 110, 116, 56]
  | .uint16 => [117, 105, 110, 116, 49, 54]
  | .sint16 => [115, 105, 110, 116, 49, 54]
  | .uint32 => [117, 105, 110, 116, 51, 50]
  | .sint32 => [115, 105, 110, 116, 51, 50]
  | .uint64 => [117, 105, 110, 116, 54, 52]
  | .sint64 => [115, 105, 110, 116, 54, 52]
  | .reference => [114, 101, 102, 101, 114, 101, 110, 99, 101]

/-- `', '.join(parts)` and friends -/
def joinSep (sep : Str) : List Str → Str
  | [] => []
  | [x] => x
  | x :: y :: r => x ++ sep ++ joinSep sep (y :: r)

/-- column after the last newline: `len(s) - s.rfind('\n') - 1` -/
def lastLineLen : Str → Nat
  | [] => 0
  | c :: cs => if cs.contains 10 then lastLineLen cs else if c = 10 then cs.length else cs.length + 1

/-! ### objects -/

structure Flavors where
  overridable : Option Bool
  tosubclass : Option Bool
  translatable : Option Bool
  toinstance : Option Bool
  deriving Repr, DecidableEq

/-- a qualifier declaration; `scopes` = the 8 scope flags in `_ordered_scopes` order; `value = none` = no default -/
structure QualDecl (c : Codec) where
  name : Str
  ty : CimType
  isArray : Bool
  arraySize : Option Nat
  value : Option (Value c)
  scopes : List Bool
  flavors : Flavors

/-- a qualifier value on an element -/
structure Qualifier (c : Codec) where
  name : Str
  ty : CimType
  value : Value c
  flavors : Flavors

def Value.isList {c : Codec} : Value c → Bool
  | .scalar _ => false
  | .array _ => true

/-! ### CIMQualifierDeclaration.tomof -/

/-- mirrors CIMQualifierDeclaration.tomof: the flavor keywords that are written -/
def flavorWords (f : Flavors) : List Str :=
  (match f.overridable with | some true => [kEnableOverride] | some false => [kDisableOverride] | none => []) ++
  (match f.tosubclass with | some true => [kToSubclass] | some false => [kRestricted] | none => []) ++
  (if f.translatable = some true then [kTranslatable] else [])

/-- mirrors CIMQualifierDeclaration.tomof: the scopes that are written -/
def scopeWords : List Str → List Bool → List Str
  | n :: ns, b :: bs => (if b then [n] else []) ++ scopeWords ns bs
  | _, _ => []

/-- mirrors _cim_obj.py: CIMQualifierDeclaration.tomof(maxline) -/
def qualDeclTomof (c : Codec) (qd : QualDecl c) (maxline : Nat) : Except PyExc Str :=
  let head : Str := kQualifierSp ++ qd.name ++ kSpColonSp ++ tyStr qd.ty ++
    (if qd.isArray then [91] ++ (match qd.arraySize with | some n => natStr n | none => []) ++ [93] else [])
  let tail : Str := kCommaNl ++ indentStr (Generated.mofIndent + 1) ++ kScopeOpen ++
    joinSep kCommaSp (scopeWords scopeNames qd.scopes) ++ [41] ++
    (if flavorWords qd.flavors = [] then []
     else kCommaNl ++ indentStr (Generated.mofIndent + 1) ++ kFlavorOpen ++ joinSep kCommaSp (flavorWords qd.flavors) ++ [41]) ++
    kSemiNl
  match qd.value with
  | none => .ok (head ++ tail)
  | some v =>
    let pre : Str := head ++ kSpEqSp ++ (if Value.isList v then kBraceSp else [])
    match valueToMof c qd.ty v Generated.mofIndent maxline (lastLineLen pre) 3 false with
    | .error e => .error e
    | .ok r => .ok (pre ++ r.1 ++ (if Value.isList v then kSpBrace else []) ++ tail)

/-! ### CIMQualifier.tomof, _qualifiers_tomof -/

/-- mirrors _cim_obj.py: CIMQualifier.tomof(indent, maxline, line_pos) -/
def qualifierTomof (c : Codec) (q : Qualifier c) (indent maxline : Nat) (linePos : Nat) : Except PyExc Str :=
  let head : Str := q.name ++ [32] ++ (if Value.isList q.value then [123] else [40])
  match valueToMof c q.ty q.value indent maxline ((linePos + head.length : Nat) + 1 : Int) 3 true with
  | .error e => .error e
  | .ok r =>
    .ok (head ++ (if r.1 ≠ [] ∧ r.1.head? ≠ some 10 then [32] else []) ++ r.1 ++
      (if Value.isList q.value then kSpBrace else kSpParen))

def qualifiersTomofList (c : Codec) (indent maxline : Nat) : List (Qualifier c) → Except PyExc (List Str)
  | [] => .ok []
  | q :: qs =>
    match qualifierTomof c q (indent + 1 + Generated.mofIndent) maxline (indent + 1) with
    | .error e => .error e
    | .ok t => (qualifiersTomofList c indent maxline qs).map (t :: ·)

/-- mirrors _cim_obj.py: _qualifiers_tomof(qualifiers, indent, maxline) -/
def qualifiersTomof (c : Codec) (qs : List (Qualifier c)) (indent maxline : Nat) : Except PyExc Str :=
  if qs = [] then .ok []
  else
    match qualifiersTomofList c indent maxline qs with
    | .error e => .error e
    | .ok ts => .ok (indentStr indent ++ [91] ++ joinSep (kCommaNl ++ indentStr (indent + 1)) ts ++ kBracketNl)

/-! ### the reader -/

/-- reserved words that `p_identifier` does not admit as identifiers -/
def notIdentKw (s : Str) : Bool :=
  isKw s "association" || isKw s "indication" || isKw s "false" || isKw s "null" || isKw s "ref" || isKw s "true"

/-- mirrors p_dataType: the type keyword -/
def dataTypeOf (s : Str) : Option CimType :=
  (allTypes.filter (fun t => t != .reference)).find? (fun t => s.map asciiLower == tyStr t)

/-- mirrors p_identifier: an IDENTIFIER token or an admitted reserved word (a data type keyword comes back
    lower-cased: `p_dataType` does `p[1].lower()`) -/
def identOf (s : Str) : Option Str :=
  if notIdentKw s then none else if (dataTypeOf s).isSome then some (s.map asciiLower) else some s

/-- mirrors p_qualifierName: identifier | ASSOCIATION | INDICATION -/
def qualNameOf (s : Str) : Option Str :=
  if isKw s "association" || isKw s "indication" then some s else identOf s

/-- mirrors p_initializer (without referenceInitializer): a constant, or `{ list }`, or `{ }`;
    `.inl` = scalar raw value, `.inr` = list -/
def parseInit : List Tok → Option ((Raw ⊕ List Raw) × List Tok)
  | .p 123 :: .p 125 :: r => some (.inr [], r)
  | .p 123 :: r =>
    match parseConstList r with
    | some (vs, .p 125 :: r') => some (.inr vs, r')
    | _ => none
  | ts => (parseConst ts).map (fun x => (.inl x.1, x.2))

/-- mirrors cimvalue on what parseInit delivers + `_check_array_parms` -/
def typeInit (c : Codec) (ty : CimType) (isArray : Bool) : Raw ⊕ List Raw → Option (Value c)
  | .inl r => if isArray then none else (typeRaw c ty r).map .scalar
  | .inr rs => if isArray then (typeRaws c ty rs).map .array else none

/-- words separated by commas up to `)`: mirrors p_scopeElementList / p_flavorListWithComma -/
def parseWordsF : Nat → List Tok → Option (List Str × List Tok)
  | 0, _ => none
  | f + 1, .id w :: .p 44 :: r => (parseWordsF f r).map (fun x => (w :: x.1, x.2))
  | _ + 1, .id w :: .p 41 :: r => some ([w], r)
  | _, _ => none

/-- mirrors p_scope: all 8 keywords, true for those listed -/
def scopesOf (ws : List Str) : Option (List Bool) :=
  if ws.all (fun w => scopeNames.any (fun n => w.map asciiLower == n)) then
    some (scopeNames.map (fun n => ws.any (fun w => w.map asciiLower == n)))
  else none

def hasW (ws : List Str) (kw : String) : Bool := ws.any (fun w => isKw w kw)

/-- mirrors p_flavor + `_build_flavors(p, flist, qualdecl, ..)`: `base` = the flavors of the qualifier declaration
    (all `none` for a declaration itself); conflicting keywords are a MOFParseError -/
def buildFlavors (base : Flavors) (ws : List Str) : Option Flavors :=
  if !(ws.all (fun w => isKw w "enableoverride" || isKw w "disableoverride" || isKw w "restricted" ||
        isKw w "tosubclass" || isKw w "toinstance" || isKw w "translatable")) then none
  else if (hasW ws "disableoverride" && hasW ws "enableoverride") || (hasW ws "restricted" && hasW ws "tosubclass") then none
  else some
    { overridable := if hasW ws "enableoverride" then some true else if hasW ws "disableoverride" then some false
                     else base.overridable,
      translatable := if hasW ws "translatable" then some true else base.translatable,
      tosubclass := if hasW ws "tosubclass" then some true else if hasW ws "restricted" then some false
                    else base.tosubclass,
      toinstance := if hasW ws "toinstance" then some true else base.toinstance }

def noFlavors : Flavors := ⟨none, none, none, none⟩

/-- mirrors p_array (after the element it belongs to): `[ ]`, `[ n ]`, or nothing -/
def parseArr : List Tok → Option ((Bool × Option Nat) × List Tok)
  | .p 91 :: .p 93 :: r => some ((true, none), r)
  | .p 91 :: .num (.int n) :: .p 93 :: r => if 0 ≤ n then some ((true, some n.toNat), r) else none
  | .p 91 :: _ => none
  | r => some ((false, none), r)

/-- mirrors p_defaultValue + typing in the constructor: `= initializer` or nothing; `= NULL` is no value -/
def parseDefault (c : Codec) (ty : CimType) (isArray : Bool) : List Tok → Option (Option (Value c) × List Tok)
  | .p 61 :: r =>
    match parseInit r with
    | none => none
    | some (.inl .null, r') => some (none, r')
    | some (raw, r') => (typeInit c ty isArray raw).map (fun v => (some v, r'))
  | r => some (none, r)

/-- `, <kw> ( word, word, ... )` : mirrors p_scope / p_defaultFlavor -/
def parseKwWords (kw : String) : List Tok → Option (List Str × List Tok)
  | .p 44 :: .id k :: .p 40 :: r => if isKw k kw then parseWordsF (r.length + 1) r else none
  | _ => none

/-- mirrors p_qualifierDeclaration with p_qualifierType_1/_2, p_array, p_defaultValue, p_scope, p_defaultFlavor -/
def parseQualDecl (c : Codec) (ts : List Tok) : Option (QualDecl c × List Tok) :=
  match ts with
  | .id kw :: .id nm :: .p 58 :: .id tyw :: r =>
    if !isKw kw "qualifier" then none else
    match qualNameOf nm, dataTypeOf tyw with
    | some name, some ty =>
      match parseArr r with
      | none => none
      | some ((isArray, size), r1) =>
        match parseDefault c ty isArray r1 with
        | none => none
        | some (value, r2) =>
          match parseKwWords "scope" r2 with
          | none => none
          | some (sws, r3) =>
            match scopesOf sws with
            | none => none
            | some scopes =>
              match r3 with
              | .p 59 :: r4 => some (⟨name, ty, isArray, size, value, scopes, noFlavors⟩, r4)
              | r4 =>
                match parseKwWords "flavor" r4 with
                | some (fws, .p 59 :: r5) =>
                  (buildFlavors noFlavors fws).map (fun f => (⟨name, ty, isArray, size, value, scopes, f⟩, r5))
                | _ => none
    | _, _ => none
  | _ => none

/-- the declaration in the repository that a qualifier value refers to: `qualcache[ns][qname]` (NocaseDict) -/
def findDecl {c : Codec} (decls : List (QualDecl c)) (name : Str) : Option (QualDecl c) :=
  decls.find? (fun d => d.name.map asciiLower == name.map asciiLower)

/-- mirrors p_qualifier (without an explicit flavor list, which tomof() never writes) + p_qualifierParameter:
    `name`, `name ( constant )`, `name { list }`.  Type and flavors come from the declaration; without a
    parameter the value is `true` for boolean qualifiers, else the declaration's default; an explicit NULL stays
    NULL (after the fix "explicit NULL qualifier value"). -/
def parseQualifier (c : Codec) (decls : List (QualDecl c)) : List Tok → Option (Qualifier c × List Tok)
  | .id nm :: r =>
    match qualNameOf nm with
    | none => none
    | some name =>
      match findDecl decls name with
      | none => none
      | some d =>
        match r with
        | .p 40 :: r1 =>
          match parseConst r1 with
          | some (raw, .p 41 :: r2) => (typeRaw c d.ty raw).map (fun v => (⟨name, d.ty, .scalar v, d.flavors⟩, r2))
          | _ => none
        | .p 123 :: _ =>
          match parseInit r with
          | some (.inr rs, r2) => (typeRaws c d.ty rs).map (fun vs => (⟨name, d.ty, .array vs, d.flavors⟩, r2))
          | _ => none
        | r1 =>
          let v : Value c := if d.ty = .boolean then .scalar (.bool true) else (d.value.getD (.scalar .null))
          some (⟨name, d.ty, v, d.flavors⟩, r1)
  | _ => none

/-- mirrors p_qualifierList: `[ qualifier (, qualifier)* ]` -/
def parseQualsF (c : Codec) (decls : List (QualDecl c)) : Nat → List Tok → Option (List (Qualifier c) × List Tok)
  | 0, _ => none
  | f + 1, ts =>
    match parseQualifier c decls ts with
    | none => none
    | some (q, .p 44 :: r) => (parseQualsF c decls f r).map (fun x => (q :: x.1, x.2))
    | some (q, .p 93 :: r) => some ([q], r)
    | some _ => none

def parseQualList (c : Codec) (decls : List (QualDecl c)) : List Tok → Option (List (Qualifier c) × List Tok)
  | .p 91 :: r => parseQualsF c decls (r.length + 1) r
  | _ => none

/-- a whole text that is one qualifier declaration -/
def readQualDecl (c : Codec) (text : Str) : Option (QualDecl c) :=
  match lexToks text with
  | none => none
  | some ts =>
    match parseQualDecl c ts with
    | some (qd, []) => some qd
    | _ => none

/-- a whole text that is one qualifier list (as `_qualifiers_tomof` writes it; empty text = no qualifiers) -/
def readQualList (c : Codec) (decls : List (QualDecl c)) (text : Str) : Option (List (Qualifier c)) :=
  match lexToks text with
  | none => none
  | some [] => some []
  | some ts =>
    match parseQualList c decls ts with
    | some (qs, []) => some qs
    | _ => none

/-! ## Stage 3: properties, references, methods, parameters, classes, instances

Mirrors `CIMProperty.tomof`, `CIMParameter.tomof`, `CIMMethod.tomof`, `CIMClass.tomof`, `CIMInstance.tomof`, `moftype`
of pywbem/_cim_obj.py, and on the reader side `p_classDeclaration`, `p_classFeatureList`, `p_propertyDeclaration_1..8`,
`p_referenceDeclaration`, `p_methodDeclaration`, `p_parameterList`, `p_parameter_1..4`, `p_instanceDeclaration`,
`p_valueInitializerList`, `p_valueInitializer` of pywbem/_mof_compiler.py.  Not modelled: aliases, embedded
instance / embedded object values (the reader answers `none` for them), class_origin / propagated attributes,
instance paths, the repository operations of `p_mp_createClass` / `p_mp_createInstance`. -/

def kSpREF : Str := [32, 82, 69, 70]   -- ' REF'
def kSpEq : Str := [32, 61]   -- ' ='
def kSpBraceOpen : Str := [32, 123]   -- ' {'
def kParenNl : Str := [40, 10]   -- '(\n'
def kCloseSemiNl : Str := [41, 59, 10]   -- ');\n'
def kParensSemiNl : Str := [40, 41, 59, 10]   -- '();\n'
def kClassSp : Str := [99, 108, 97, 115, 115, 32]   -- 'class '
def kColonSp : Str := [58, 32]   -- ': '
def kBraceNl : Str := [123, 10]   -- '{\n'
def kNlCloseSemiNl : Str := [10, 125, 59, 10]   -- '\n};\n'
def kInstanceOfSp : Str := [105, 110, 115, 116, 97, 110, 99, 101, 32, 111, 102, 32]   -- 'instance of '
def kSpBraceNl : Str := [32, 123, 10]   -- ' {\n'
def kCloseBraceSemiNl : Str := [125, 59, 10]   -- '};\n'

structure Property (c : Codec) where
  name : Str
  ty : CimType
  refClass : Option Str
  isArray : Bool
  arraySize : Option Nat
  value : Option (Value c)      -- none = Python None
  quals : List (Qualifier c)

structure Parameter (c : Codec) where
  name : Str
  ty : CimType
  refClass : Option Str
  isArray : Bool
  arraySize : Option Nat
  quals : List (Qualifier c)

structure Method (c : Codec) where
  name : Str
  returnType : CimType
  params : List (Parameter c)
  quals : List (Qualifier c)

structure Class (c : Codec) where
  name : Str
  superclass : Option Str
  quals : List (Qualifier c)
  props : List (Property c)
  methods : List (Method c)

structure Instance (c : Codec) where
  className : Str
  props : List (Property c)

/-- mirrors _cim_obj.py: moftype -/
def mofType (ty : CimType) (refClass : Option Str) : Str :=
  if ty = .reference then refClass.getD [] ++ kSpREF else tyStr ty

def arrText (isArray : Bool) (size : Option Nat) : Str :=
  if isArray then [91] ++ (match size with | some n => natStr n | none => []) ++ [93] else []

/-- mirrors _cim_obj.py: CIMProperty.tomof(is_instance, indent, maxline) -/
def propertyTomof (c : Codec) (p : Property c) (isInstance : Bool) (indent maxline : Nat) : Except PyExc Str :=
  let qt : Except PyExc Str :=
    if isInstance then .ok [] else qualifiersTomof c p.quals (indent + Generated.mofIndent) maxline
  match qt with
  | .error e => .error e
  | .ok qtext =>
    let head : Str :=
      if isInstance then indentStr indent ++ p.name
      else qtext ++ indentStr indent ++ mofType p.ty p.refClass ++ [32] ++ p.name ++ arrText p.isArray p.arraySize
    if p.value.isSome || isInstance then
      let v : Value c := p.value.getD (.scalar .null)
      let pre : Str := head ++ kSpEq ++ (if Value.isList v then kSpBraceOpen else [])
      match valueToMof c p.ty v (indent + Generated.mofIndent) maxline ((lastLineLen pre : Nat) + 1 : Int) 1 true with
      | .error e => .error e
      | .ok r =>
        .ok (pre ++ (if r.1 ≠ [] ∧ r.1.head? ≠ some 10 then [32] else []) ++ r.1 ++
          (if Value.isList v then kSpBrace else []) ++ kSemiNl)
    else .ok (head ++ kSemiNl)

/-- mirrors _cim_obj.py: CIMParameter.tomof(indent, maxline) -/
def parameterTomof (c : Codec) (p : Parameter c) (indent maxline : Nat) : Except PyExc Str :=
  match qualifiersTomof c p.quals (indent + Generated.mofIndent) maxline with
  | .error e => .error e
  | .ok qtext => .ok (qtext ++ indentStr indent ++ mofType p.ty p.refClass ++ [32] ++ p.name ++ arrText p.isArray p.arraySize)

def mapTomof {α : Type} (f : α → Except PyExc Str) : List α → Except PyExc (List Str)
  | [] => .ok []
  | x :: xs =>
    match f x with
    | .error e => .error e
    | .ok t => (mapTomof f xs).map (t :: ·)

/-- mirrors _cim_obj.py: CIMMethod.tomof(indent, maxline) -/
def methodTomof (c : Codec) (m : Method c) (indent maxline : Nat) : Except PyExc Str :=
  match qualifiersTomof c m.quals (indent + Generated.mofIndent) maxline with
  | .error e => .error e
  | .ok qtext =>
    let head : Str := qtext ++ indentStr indent ++ mofType m.returnType none ++ [32] ++ m.name
    if m.params = [] then .ok (head ++ kParensSemiNl)
    else
      match mapTomof (fun p => parameterTomof c p (indent + Generated.mofIndent) maxline) m.params with
      | .error e => .error e
      | .ok ts => .ok (head ++ kParenNl ++ joinSep kCommaNl ts ++ kCloseSemiNl)

/-- mirrors _cim_obj.py: CIMClass.tomof(maxline) -/
def classTomof (c : Codec) (cls : Class c) (maxline : Nat) : Except PyExc Str :=
  match qualifiersTomof c cls.quals Generated.mofIndent maxline with
  | .error e => .error e
  | .ok qtext =>
    match mapTomof (fun p => propertyTomof c p false Generated.mofIndent maxline) cls.props with
    | .error e => .error e
    | .ok pts =>
      match mapTomof (fun m => methodTomof c m Generated.mofIndent maxline) cls.methods with
      | .error e => .error e
      | .ok mts =>
        .ok (qtext ++ kClassSp ++ cls.name ++ [32] ++
          (match cls.superclass with | some s => kColonSp ++ s ++ [32] | none => []) ++ kBraceNl ++
          (pts.map (10 :: ·)).flatten ++ (mts.map (10 :: ·)).flatten ++ kNlCloseSemiNl)

/-- mirrors _cim_obj.py: CIMInstance.tomof(maxline) -/
def instanceTomof (c : Codec) (inst : Instance c) (maxline : Nat) : Except PyExc Str :=
  match mapTomof (fun p => propertyTomof c p true Generated.mofIndent maxline) inst.props with
  | .error e => .error e
  | .ok pts => .ok (kInstanceOfSp ++ inst.className ++ kSpBraceNl ++ pts.flatten ++ kCloseBraceSemiNl)

/-! ### the reader for class and instance declarations -/

/-- optional qualifier list in front of an element -/
def parseOptQuals (c : Codec) (decls : List (QualDecl c)) : List Tok → Option (List (Qualifier c) × List Tok)
  | .p 91 :: r => parseQualList c decls (.p 91 :: r)
  | r => some ([], r)

/-- mirrors p_dataType / p_objectRef in front of a name: `(type, reference class)` -/
def parseTypeRef : List Tok → Option ((CimType × Option Str) × List Tok)
  | .id a :: .id b :: .id n :: r =>
    -- `className REF name` needs three identifiers; `dataType name` two
    if isKw b "ref" then (identOf a).map (fun cn => ((.reference, some cn), .id n :: r))
    else (dataTypeOf a).map (fun t => ((t, none), .id b :: .id n :: r))
  | .id a :: r => (dataTypeOf a).map (fun t => ((t, none), r))
  | _ => none

/-- mirrors p_parameter_1..4 -/
def parseParameter (c : Codec) (decls : List (QualDecl c)) (ts : List Tok) : Option (Parameter c × List Tok) :=
  match parseOptQuals c decls ts with
  | none => none
  | some (qs, r) =>
    match parseTypeRef r with
    | some ((ty, rc), .id n :: r1) =>
      match identOf n, parseArr r1 with
      | some name, some ((isArray, size), r2) => some (⟨name, ty, rc, isArray, size, qs⟩, r2)
      | _, _ => none
    | _ => none

/-- mirrors p_parameterList: `parameter (, parameter)*` up to `)` -/
def parseParamsF (c : Codec) (decls : List (QualDecl c)) : Nat → List Tok → Option (List (Parameter c) × List Tok)
  | 0, _ => none
  | f + 1, ts =>
    match parseParameter c decls ts with
    | none => none
    | some (p, .p 44 :: r) => (parseParamsF c decls f r).map (fun x => (p :: x.1, x.2))
    | some (p, .p 41 :: r) => some ([p], r)
    | some _ => none

/-- a class feature: property / reference / method (mirrors p_propertyDeclaration_1..8, p_referenceDeclaration,
    p_methodDeclaration) -/
def parseFeature (c : Codec) (decls : List (QualDecl c)) (ts : List Tok) :
    Option ((Property c ⊕ Method c) × List Tok) :=
  match parseOptQuals c decls ts with
  | none => none
  | some (qs, r) =>
    match parseTypeRef r with
    | some ((ty, rc), .id n :: r1) =>
      match identOf n with
      | none => none
      | some name =>
        match r1 with
        | .p 40 :: .p 41 :: .p 59 :: r2 =>
          if rc.isSome then none else some (.inr ⟨name, ty, [], qs⟩, r2)
        | .p 40 :: r2 =>
          if rc.isSome then none else
          match parseParamsF c decls (r2.length + 1) r2 with
          | some (ps, .p 59 :: r3) => some (.inr ⟨name, ty, ps, qs⟩, r3)
          | _ => none
        | r2 =>
          match parseArr r2 with
          | none => none
          | some ((isArray, size), r3) =>
            if rc.isSome ∧ isArray then none else
            match parseDefault c ty isArray r3 with
            | some (value, .p 59 :: r4) => some (.inl ⟨name, ty, rc, isArray, size, value, qs⟩, r4)
            | _ => none
    | _ => none

/-- mirrors p_classFeatureList up to `}` -/
def parseFeaturesF (c : Codec) (decls : List (QualDecl c)) :
    Nat → List Tok → Option ((List (Property c) × List (Method c)) × List Tok)
  | 0, _ => none
  | _ + 1, .p 125 :: r => some (([], []), r)
  | f + 1, ts =>
    match parseFeature c decls ts with
    | none => none
    | some (.inl p, r) => (parseFeaturesF c decls f r).map (fun x => ((p :: x.1.1, x.1.2), x.2))
    | some (.inr m, r) => (parseFeaturesF c decls f r).map (fun x => ((x.1.1, m :: x.1.2), x.2))

/-- mirrors p_classDeclaration (without alias) -/
def parseClass (c : Codec) (decls : List (QualDecl c)) (ts : List Tok) : Option (Class c × List Tok) :=
  match parseOptQuals c decls ts with
  | none => none
  | some (qs, .id kw :: .id n :: r) =>
    if !isKw kw "class" then none else
    match identOf n with
    | none => none
    | some name =>
      let sup : Option (Option Str × List Tok) :=
        match r with
        | .p 58 :: .id s :: r1 => (identOf s).map (fun x => (some x, r1))
        | r1 => some (none, r1)
      match sup with
      | some (superclass, .p 123 :: r2) =>
        match parseFeaturesF c decls (r2.length + 1) r2 with
        | some ((ps, ms), .p 59 :: r3) => some (⟨name, superclass, qs, ps, ms⟩, r3)
        | _ => none
      | _ => none
  | _ => none

def readClass (c : Codec) (decls : List (QualDecl c)) (text : Str) : Option (Class c) :=
  match lexToks text with
  | none => none
  | some ts =>
    match parseClass c decls ts with
    | some (cls, []) => some cls
    | _ => none

/-- the class property an instance property refers to (`cc.properties[pname]`, NocaseDict) -/
def findProp {c : Codec} (cls : Class c) (name : Str) : Option (Property c) :=
  cls.props.find? (fun p => p.name.map asciiLower == name.map asciiLower)

def hasQual {c : Codec} (p : Property c) (kw : String) : Bool := p.quals.any (fun q => isKw q.name kw)

/-- mirrors p_valueInitializer + the typing loop of p_instanceDeclaration for one property: the compiled property
    is a copy of the class property (its name, type, array shape) with the typed value, no qualifiers -/
def parseInstProp (c : Codec) (cls : Class c) : List Tok → Option (Property c × List Tok)
  | .id n :: .p 61 :: r =>
    match identOf n with
    | none => none
    | some name =>
      match findProp cls name with
      | none => none
      | some cp =>
        match parseInit r with
        | some (raw, .p 59 :: r1) =>
          match raw with
          | .inl .null => some ({ cp with value := none, quals := [] }, r1)
          | raw =>
            if hasQual cp "embeddedinstance" || hasQual cp "embeddedobject" then none else
            (typeInit c cp.ty cp.isArray raw).map (fun v => ({ cp with value := some v, quals := [] }, r1))
        | _ => none
  | _ => none

def parseInstPropsF (c : Codec) (cls : Class c) : Nat → List Tok → Option (List (Property c) × List Tok)
  | 0, _ => none
  | _ + 1, .p 125 :: r => some ([], r)
  | f + 1, ts =>
    match parseInstProp c cls ts with
    | none => none
    | some (p, r) => (parseInstPropsF c cls f r).map (fun x => (p :: x.1, x.2))

/-- mirrors p_instanceDeclaration (without alias and qualifiers): the class is looked up by the caller -/
def parseInstance (c : Codec) (cls : Class c) : List Tok → Option (Instance c × List Tok)
  | .id k1 :: .id k2 :: .id n :: .p 123 :: r =>
    if !(isKw k1 "instance" && isKw k2 "of") then none else
    match identOf n with
    | none => none
    | some cn =>
      match parseInstPropsF c cls (r.length + 1) r with
      | some (ps, .p 59 :: r1) =>
        -- "specifies property more than once" is a MOFParseError
        if (ps.map (fun p => p.name.map asciiLower)).Nodup then some (⟨cn, ps⟩, r1) else none
      | _ => none
  | _ => none

def readInstance (c : Codec) (cls : Class c) (text : Str) : Option (Instance c) :=
  match lexToks text with
  | none => none
  | some ts =>
    match parseInstance c cls ts with
    | some (i, []) => some i
    | _ => none

end Pywbem.Model.MofDecl
