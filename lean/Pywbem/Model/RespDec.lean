/-
C02 — the CIM-XML tupletree parser for *object* elements as it behaves on ARBITRARY (also invalid)
trees, with every Python primitive that can raise modelled as raising what CPython raises and every
`try/except` of the code as an explicit handler, and with the argument checks of the CIM object
constructors the parser calls.  It mirrors the code AFTER the `fix:` commits of C02 (ARRAYSIZE,
OverflowError, numeric type pattern, embedded object of a non-string value).

The helper functions that cannot raise anything but CIMXMLParseError (check_node, child selection,
namespace/host/classname elements, VALUE text, the numeric literal recognisers) are shared with the
C01 decoder model `Model/CimXmlDec.lean`; everything that converts, constructs or recurses is
defined here.

mirrors pywbem/_tupleparse.py: TupleParser.parse_value_reference, parse_keybinding, parse_keyvalue,
  parse_instancename, parse_instancepath, parse_localinstancepath, parse_classpath,
  parse_localclasspath, parse_classname, parse_qualifier, parse_property, parse_property_array,
  parse_property_reference, parse_instance, parse_parameter, parse_parameter_reference,
  parse_parameter_array, parse_parameter_refarray, parse_method, parse_class, parse_scope,
  parse_qualifier_declaration, parse_embeddedObject, unpack_value, unpack_single_value,
  unpack_numeric, unpack_arraysize
mirrors pywbem/_cim_obj.py: CIMInstanceName.__init__, CIMProperty.__init__, CIMQualifier.__init__,
  CIMParameter.__init__, CIMMethod.__init__, CIMQualifierDeclaration.__init__, _check_array_parms,
  _check_embedded_object, _cim_keybinding
mirrors pywbem/_cim_types.py: CIMInt.__new__, type_from_name
-/
import Pywbem.Model.CimXmlDec
import Pywbem.Generated.RspTables

namespace Pywbem.Model.Resp
open Pywbem.Model Pywbem.Model.XmlText Pywbem.Proto

/-- `try: x  except (A, B, …) [as exc]: raise CIMXMLParseError(...)` -/
def catchExc {α} (handled : List PyExc) (x : R α) : R α :=
  match x with
  | .ok a => .ok a
  | .error e => if handled.contains e then .error .cimXmlParseError else .error e

/-- the handler written around constructor calls in the parser -/
def catchVT {α} (x : R α) : R α := catchExc [.typeError, .valueError] x

/-! ### Python primitives -/

/-- CPython's integer string conversion length limitation (sys.int_info.default_max_str_digits) -/
def maxStrDigits : Nat := 4300

def digitCount (s : Str) : Nat := (s.filter (fun c => (pyDigit c).isSome)).length

/-- `int(s)` base 10 with the length limitation: a literal with more than 4300 digits is rejected
    (ValueError) -/
def pyIntLim (s : Str) : Option Int :=
  if digitCount s > maxStrDigits then none else pyInt s

/-- `int(s)` for a string: ValueError when `s` is not an integer literal (or too long) -/
def pyIntE (s : Str) : R Int :=
  match pyIntLim s with
  | some v => .ok v
  | none => .error .valueError

/-- first half of `unpack_numeric`: hexadecimal (`int(data, 16)`: no length limitation for a
    power-of-two base), `int(data)`, `float(data)`; otherwise CIMXMLParseError -/
def parseNumL (C : DecCodec) (data : Str) : R Num :=
  let d := strip data
  match cimxmlHex d with
  | some v => .ok (.int v)
  | none =>
    match pyIntLim d with
    | some v => .ok (.int v)
    | none =>
      match C.parseFloat d with
      | some b => .ok (.float b)
      | none => perr

/-- `type in ALL_CIMTYPES` (set regenerated from pywbem/_cim_obj.py on every run) -/
def isCimType (ty : Str) : Bool := Pywbem.Generated.Rsp.allCimTypes.any (fun t => t.toList == ty)

/-- `type in QUALIFIER_CIMTYPES` (regenerated from pywbem/_cim_obj.py) -/
def isQualifierType (ty : Str) : Bool := Pywbem.Generated.Rsp.qualifierCimTypes.any (fun t => t.toList == ty)

/-- `self.check_node(tup_tree, …)` with the arguments the named parse function passes in the source:
    the table (element name, required / optional attributes, allowed children, allow_pcdata) is
    regenerated from pywbem/_tupleparse.py on every run -/
def checkG (fn : String) (t : Xml) : R (List (Str × Str) × List Xml) :=
  match Pywbem.Generated.Rsp.checkNodes.find? (fun r => r.1 == fn) with
  | some (_, elem, req, opt, allowed, pc) => checkNode t elem req opt allowed pc
  | none => perr

/-- the name list the named parse function hands to one_child / optional_child / list_of_* (regenerated
    from pywbem/_tupleparse.py) -/
def kidsG (fn helper : String) : List String :=
  match Pywbem.Generated.Rsp.childLists.find? (fun r => r.1 == fn && r.2.1 == helper) with
  | some (_, _, names) => names
  | none => []

/-! ### CPython `int(float)` and `float(int)`, concretely (IEEE-754 binary64) -/

/-- `int(x)` for the double with bit pattern `b`: truncation toward zero; `int(inf)` OverflowError,
    `int(nan)` ValueError.  mirrors CPython floatobject.c: float___trunc___impl / PyLong_FromDouble -/
def truncF64 (b : UInt64) : Except PyExc Int :=
  let n := b.toNat
  let neg := n / 2 ^ 63 % 2 = 1
  let e := n / 2 ^ 52 % 2048
  let m := n % 2 ^ 52
  if e = 2047 then (if m = 0 then .error .overflowError else .error .valueError)
  else
    let mant : Nat := if e = 0 then m else m + 2 ^ 52
    let ex : Nat := if e = 0 then 1 else e
    -- value = mant * 2^(ex - 1075)
    let mag : Nat := if ex ≥ 1075 then mant * 2 ^ (ex - 1075) else mant / 2 ^ (1075 - ex)
    .ok (if neg then -(mag : Int) else (mag : Int))

/-- `float(i)` raises OverflowError ("int too large to convert to float") exactly when `|i|` rounds
    (to nearest, ties to even) to 2^1024, i.e. `|i| ≥ 2^1024 − 2^970`.  mirrors CPython longobject.c:
    PyLong_AsDouble / _PyLong_Frexp -/
def floatOverflows (i : Int) : Bool := i.natAbs ≥ 2 ^ 1024 - 2 ^ 970

/-- the codec with the two conversions above computed instead of looked up (the bit pattern of a
    successful `float(i)` is still taken from the table) -/
def concreteCodec (C : DecCodec) : DecCodec :=
  { C with
    truncFloat := truncF64,
    floatOfInt := fun i => if floatOverflows i then none else C.floatOfInt i }

inductive NumTy where
  | int (t : IntTy)
  | real (is64 : Bool)

/-- mirrors pywbem/_cim_types.py: type_from_name, restricted to the numeric types (the only ones
    `unpack_numeric` asks for); other names: ValueError -/
def typeFromName (ty : Str) : R NumTy :=
  match IntTy.ofName ty with
  | some t => .ok (.int t)
  | none =>
    if ty = "real32".toList then .ok (.real false)
    else if ty = "real64".toList then .ok (.real true)
    else .error .valueError

/-- mirrors pywbem/_cim_types.py: CIMInt.__new__ / CIMFloat(value) for a Python int or float `n`:
    `int(inf)` OverflowError, `int(nan)` ValueError, range check ValueError, `float(huge int)`
    OverflowError -/
def numCtor (C : DecCodec) (t : NumTy) (n : Num) : R Atom :=
  match t with
  | .int ty => do
    let v ← (match n with
      | .int v => pure v
      | .float b => C.truncFloat b)
    if ty.lo ≤ v ∧ v ≤ ty.hi then pure (.int ty v) else .error .valueError
  | .real w =>
    match n with
    | .float b => pure (.real w b)
    | .int v => match C.floatOfInt v with
      | some b => pure (.real w b)
      | none => .error .overflowError

/-- mirrors pywbem/_tupleparse.py: TupleParser.unpack_numeric (after the fix: OverflowError is caught
    together with ValueError) -/
def unpackNumeric (C : DecCodec) (data : Str) (cimtype : Option Str) : R Atom := do
  let n ← parseNumL C data
  match cimtype with
  | none => match n with
    | .int v => pure (.pyint v)
    | .float b => pure (.pyfloat b)
  | some ty => do
    let t ← typeFromName ty                                  -- outside the try block
    catchExc [.valueError, .overflowError] (numCtor C t n)

/-- mirrors pywbem/_tupleparse.py: TupleParser.unpack_single_value for `data` not None
    (NUMERIC_CIMTYPE_PATTERN is a full match after the fix) -/
def unpackSingle (C : DecCodec) (data : Str) (cimtype : Option Str) : R Atom :=
  match cimtype with
  | none => unpackNumeric C data none
  | some ty =>
    if ty = "string".toList then pure (.str data)
    else if ty = "boolean".toList then do
      match (← unpackBoolean data) with
      | some b => pure (.bool b)
      | none => pure .null
    else if numericTypeName ty then unpackNumeric C data (some ty)
    else if ty = "datetime".toList then
      match C.parseDt data with
      | some s => pure (.dt s)
      | none => perr
    else if ty = "char16".toList then unpackChar16 data
    else perr

/-- mirrors pywbem/_tupleparse.py: TupleParser.unpack_arraysize (added by the fix: `int()` inside
    try/except ValueError) -/
def arraySize (as : List (Str × Str)) : R (Option Int) :=
  match Xml.attr as "ARRAYSIZE".toList with
  | none => pure none
  | some s => catchExc [.valueError] (do let v ← pyIntE s; pure (some v))

/-! ### paths -/

/-- mirrors pywbem/_tupleparse.py: TupleParser.parse_keyvalue -/
def decKeyValue (C : DecCodec) (t : Xml) : R Atom := do
  let (as, ks) ← checkG "parse_keyvalue" t
  let data := Xml.pcdata ks
  let valuetype := Xml.attr as "VALUETYPE".toList
  let cimtype0 := Xml.attr as "TYPE".toList
  let cimtype := if cimtype0 = some [] then none else cimtype0
  match cimtype with
  | some ty => unpackSingle C data (some ty)
  | none =>
    if valuetype = none ∨ valuetype = some "string".toList then unpackSingle C data (some "string".toList)
    else if valuetype = some "boolean".toList then unpackSingle C data (some "boolean".toList)
    else if valuetype = some "numeric".toList then unpackSingle C data none
    else perr

/-- `namespace.strip('/')` of the CIMInstanceName / CIMClassName namespace setters -/
def stripSlashes (s : Str) : Str :=
  ((s.dropWhile (fun c => c = '/')).reverse.dropWhile (fun c => c = '/')).reverse

/-- mirrors pywbem/_cim_obj.py: _cim_keybinding and the None check of the keybindings setter, for the
    values the parser can produce: None -> ValueError, CIMClassName -> TypeError -/
def keyValueCheck : Atom → R Unit
  | .null => .error .valueError
  | .ref (.cls ..) => .error .typeError
  | _ => pure ()

def keysCheck : List Key → R Unit
  | [] => pure ()
  | .mk _ v :: rest => do keyValueCheck v; keysCheck rest

/-- mirrors pywbem/_cim_obj.py: CIMInstanceName.__init__ as called by parse_instancename -/
def ctorInstanceName (cls : Str) (keys : List Key) : R Path := do
  keysCheck keys
  pure (.inst cls none none keys)

section
variable (C : DecCodec)

mutual
/-- mirrors pywbem/_tupleparse.py: TupleParser.parse_value_reference -/
def decValueReference (t : Xml) : R Path := do
  match t with
  | .text _ => perr
  | .elem n as ks =>
    if n ≠ "VALUE.REFERENCE".toList then perr
    else if !attrKeysOk as [] [] then perr
    else if !noText ks then perr
    else if elemCount ks ≠ 1 then perr
    else do
      match (← decPathKids ks) with
      | [p] => pure p
      | _ => perr

def decPathKids : List Xml → R (List Path)
  | [] => pure []
  | .text _ :: ks => decPathKids ks
  | .elem n as kk :: ks => do
    let p ← decPathAny (.elem n as kk)
    let rest ← decPathKids ks
    pure (p :: rest)

def decValueRefKids : List Xml → R (List Path)
  | [] => pure []
  | .text _ :: ks => decValueRefKids ks
  | .elem n as kk :: ks =>
    if n = "VALUE.REFERENCE".toList then do
      let p ← decValueReference (.elem n as kk)
      let rest ← decValueRefKids ks
      pure (p :: rest)
    else decValueRefKids ks

/-- mirrors pywbem/_tupleparse.py: TupleParser.parse_keybinding -/
def decKeybinding (t : Xml) : R Key := do
  match t with
  | .text _ => perr
  | .elem n as ks =>
    if n ≠ "KEYBINDING".toList then perr
    else if !attrKeysOk as ["NAME"] [] then perr
    else if !noText ks then perr
    else if elemCount ks ≠ 1 then perr
    else
      match firstElem ks with
      | none => perr
      | some k =>
        if k.name = "KEYVALUE".toList then do
          let v ← decKeyValue C k
          pure (.mk (some (getAttrD as "NAME" "")) v)
        else if k.name = "VALUE.REFERENCE".toList then do
          match (← decValueRefKids ks) with
          | [p] => pure (.mk (some (getAttrD as "NAME" "")) (.ref p))
          | _ => perr
        else perr

def decKeybindings : List Xml → R (List Key)
  | [] => pure []
  | .text _ :: ks => decKeybindings ks
  | .elem n as kk :: ks =>
    if n ≠ "KEYBINDING".toList then perr
    else do
      let kb ← decKeybinding (.elem n as kk)
      let rest ← decKeybindings ks
      pure (kb :: rest)

/-- mirrors pywbem/_tupleparse.py: TupleParser.parse_instancename (the constructor call is inside
    try/except (TypeError, ValueError)) -/
def decInstanceName (t : Xml) : R Path := do
  match t with
  | .text _ => perr
  | .elem n as ks =>
    if n ≠ "INSTANCENAME".toList then perr
    else if !attrKeysOk as ["CLASSNAME"] [] then perr
    else if !noText ks then perr
    else
      let cls := getAttrD as "CLASSNAME" ""
      match firstElem ks with
      | none => pure (.inst cls none none [])
      | some k0 =>
        if k0.name = "KEYVALUE".toList then
          (if elemCount ks ≠ 1 then perr else do
            let v ← decKeyValue C k0
            catchVT (ctorInstanceName cls [.mk none v]))
        else if k0.name = "VALUE.REFERENCE".toList then
          (if elemCount ks ≠ 1 then perr else do
            match (← decValueRefKids ks) with
            | [p] => catchVT (ctorInstanceName cls [.mk none (.ref p)])
            | _ => perr)
        else if k0.name = "KEYBINDING".toList then do
          let kbs ← decKeybindings ks
          catchVT (ctorInstanceName cls (kbs.foldl (fun acc k => kbInsert k acc) []))
        else perr

def decInstNameKids : List Xml → R (List Path)
  | [] => pure []
  | .text _ :: ks => decInstNameKids ks
  | .elem n as kk :: ks =>
    if n = "INSTANCENAME".toList then do
      let p ← decInstanceName (.elem n as kk)
      let rest ← decInstNameKids ks
      pure (p :: rest)
    else decInstNameKids ks

/-- the six path element kinds (parse_instancename, parse_classname, parse_localinstancepath,
    parse_instancepath, parse_localclasspath, parse_classpath) -/
def decPathAny (t : Xml) : R Path := do
  match t with
  | .text _ => perr
  | .elem n as ks =>
    if n = "INSTANCENAME".toList then decInstanceName (.elem n as ks)
    else if n = "CLASSNAME".toList then do
      let c ← decClassName (.elem n as ks)
      pure (.cls c none none)
    else if !attrKeysOk as [] [] then perr
    else if !noText ks then perr
    else if n = "LOCALINSTANCEPATH".toList then
      match Xml.elemKids ks with
      | [l, i] => do
        let ns ← decLocalNsPath l
        if i.name ≠ "INSTANCENAME".toList then perr
        else match (← decInstNameKids ks) with
          | [p] => pure (p.withNs none (some (stripSlashes ns)))
          | _ => perr
      | _ => perr
    else if n = "INSTANCEPATH".toList then
      match Xml.elemKids ks with
      | [l, i] => do
        let (host, ns) ← decNsPath l
        if i.name ≠ "INSTANCENAME".toList then perr
        else match (← decInstNameKids ks) with
          | [p] => pure (p.withNs (some host) (some (stripSlashes ns)))
          | _ => perr
      | _ => perr
    else if n = "LOCALCLASSPATH".toList then
      match Xml.elemKids ks with
      | [l, c] => do
        let ns ← decLocalNsPath l
        let cn ← decClassName c
        pure (.cls cn none (some (stripSlashes ns)))
      | _ => perr
    else if n = "CLASSPATH".toList then
      match Xml.elemKids ks with
      | [l, c] => do
        let (host, ns) ← decNsPath l
        let cn ← decClassName c
        pure (.cls cn (some host) (some (stripSlashes ns)))
      | _ => perr
    else perr
end

/-! ### values -/

def unpackItems (ty : Str) : List (Option Str) → R (List Atom)
  | [] => pure []
  | none :: rest => do
    let r ← unpackItems ty rest
    pure (.null :: r)
  | some s :: rest => do
    let a ← unpackSingle C s (some ty)
    let r ← unpackItems ty rest
    pure (a :: r)

/-- mirrors pywbem/_tupleparse.py: TupleParser.unpack_value -/
def unpackValue (ty : Str) (ks : List Xml) : R Val := do
  match (← decRawVals ks) with
  | [] => pure .null
  | [.scalar s] => do
    let a ← unpackSingle C s (some ty)
    match a with
    | .null => pure .null
    | a => pure (.scalar a)
  | [.array l] => do
    let items ← unpackItems C ty l
    pure (.array items)
  | _ => perr

end

section
variable (C : DecCodec) (emb : Str → R Atom)

/-- mirrors pywbem/_tupleparse.py: TupleParser.parse_embeddedObject for one non-list value: None stays
    None, a string (Char16 is a `str`) is parsed, anything else is rejected (after the fix) -/
def embAtom : Atom → R Atom
  | .null => pure .null
  | .str s => emb s
  | .char16 s => emb s
  | _ => perr

def embItems : List Atom → R (List Atom)
  | [] => pure []
  | a :: rest => do
    let x ← embAtom emb a
    let r ← embItems rest
    pure (x :: r)

def embVal (v : Val) : R Val :=
  match v with
  | .null => pure .null
  | .scalar a => do
    let x ← embAtom emb a
    pure (.scalar x)
  | .array l => do
    let r ← embItems emb l
    pure (.array r)

/-- mirrors pywbem/_cim_obj.py: CIMQualifier.__init__ as called by parse_qualifier: the type must be a
    qualifier type -/
def ctorQualifier (name ty : Str) (val : Val) (p o ts ti tr : Option Bool) : R Qual :=
  if isQualifierType ty then pure (.mk name ty val p o ts ti tr) else .error .valueError

/-- mirrors pywbem/_tupleparse.py: TupleParser.parse_qualifier -/
def decQualifier (t : Xml) : R Qual := do
  let (as, ks) ← checkG "parse_qualifier" t
  let ty := getAttrD as "TYPE" ""
  let value ← unpackValue C ty ks
  let propagated ← boolAttrOf as "PROPAGATED" "false"
  let overridable ← boolAttrOf as "OVERRIDABLE" "true"
  let tosubclass ← boolAttrOf as "TOSUBCLASS" "true"
  let toinstance ← boolAttrOf as "TOINSTANCE" "false"
  let translatable ← boolAttrOf as "TRANSLATABLE" "false"
  catchVT (ctorQualifier (getAttrD as "NAME" "") ty value propagated overridable tosubclass toinstance translatable)

def decQualifiers : List Xml → R (List Qual)
  | [] => pure []
  | .text _ :: ks => decQualifiers ks
  | k :: ks =>
    if k.name = "QUALIFIER".toList then do
      let q ← decQualifier C k
      let rest ← decQualifiers ks
      pure (q :: rest)
    else decQualifiers ks

def isNullAtom : Atom → Bool
  | .null => true
  | _ => false

def isEmbObj : Atom → Bool
  | .einst _ => true
  | .ecls _ => true
  | _ => false

/-- mirrors pywbem/_cim_obj.py: _check_embedded_object -/
def checkEmbeddedObject (e ty : Str) (val : Val) : R Unit :=
  if !(e = "instance".toList ∨ e = "object".toList) then .error .valueError
  else if ty ≠ "string".toList then .error .valueError
  else match val with
    | .null => pure ()
    | .scalar a => if isEmbObj a then pure () else .error .valueError
    | .array [] => pure ()
    | .array (a :: _) => if isNullAtom a || isEmbObj a then pure () else .error .valueError

/-- mirrors pywbem/_cim_obj.py: _check_array_parms -/
def checkArrayParms (isArray : Bool) (val : Val) : R Unit :=
  match val with
  | .null => pure ()
  | .scalar _ => if isArray then .error .valueError else pure ()
  | .array _ => if isArray then pure () else .error .valueError

/-- mirrors pywbem/_cim_obj.py: CIMProperty.__init__ as called by parse_property / parse_property_array /
    parse_property_reference (`embA` = value of the EmbeddedObject attribute, or False) -/
def ctorProperty (name ty : Str) (val : Val) (isArray : Bool) (asz : Option Int) (refCls origin : Option Str)
    (propagated : Option Bool) (embA : Option Str) (quals : List Qual) : R Prop_ := do
  checkArrayParms isArray val
  -- `if embedded_object is not False:` since /repo ef0170b: an EMPTY attribute value is checked (and refused) too
  match embA with
  | some e => checkEmbeddedObject e ty val
  | none => pure ()
  if refCls.isSome ∧ isArray then .error .valueError
  else if !isCimType ty then .error .valueError
  else pure (.mk name ty val isArray (asz.map Int.toNat) refCls origin propagated embA (dictOfList Qual.name quals))

/-- mirrors pywbem/_tupleparse.py: TupleParser.parse_property -/
def decProperty (t : Xml) : R Prop_ := do
  let (as, ks) ← checkG "parse_property" t
  let ty := getAttrD as "TYPE" ""
  let val ← unpackValue C ty ks
  let origin := Xml.attr as "CLASSORIGIN".toList
  let propagated ← boolAttrOf as "PROPAGATED" "false"
  let quals ← decQualifiers C ks
  let embA := embAttrOf as
  let embOn := match embA with | some (_ :: _) => true | _ => false
  let val ← if embOn then embVal emb val else pure val
  catchVT (ctorProperty (getAttrD as "NAME" "") ty val false none none origin propagated embA quals)

/-- mirrors pywbem/_tupleparse.py: TupleParser.parse_property_array -/
def decPropertyArray (t : Xml) : R Prop_ := do
  let (as, ks) ← checkG "parse_property_array" t
  let ty := getAttrD as "TYPE" ""
  let val ← unpackValue C ty ks
  let origin := Xml.attr as "CLASSORIGIN".toList
  let propagated ← boolAttrOf as "PROPAGATED" "false"
  let quals ← decQualifiers C ks
  let asz ← arraySize as
  let embA := embAttrOf as
  let embOn := match embA with | some (_ :: _) => true | _ => false
  let val ← if embOn then embVal emb val else pure val
  catchVT (ctorProperty (getAttrD as "NAME" "") ty val true asz none origin propagated embA quals)

def decValueRefs : List Xml → R (List Path)
  | [] => pure []
  | .text _ :: ks => decValueRefs ks
  | k :: ks =>
    if k.name = "VALUE.REFERENCE".toList then do
      let p ← decValueReference C k
      let rest ← decValueRefs ks
      pure (p :: rest)
    else decValueRefs ks

/-- zero or one VALUE.REFERENCE child: None or the path -/
def refValOf : List Path → R Val
  | [] => pure Val.null
  | [p] => pure (Val.scalar (.ref p))
  | _ => perr

/-- mirrors pywbem/_tupleparse.py: TupleParser.parse_property_reference — the constructor call is NOT
    inside a try block -/
def decPropertyReference (t : Xml) : R Prop_ := do
  let (as, ks) ← checkG "parse_property_reference" t
  let refCls := Xml.attr as "REFERENCECLASS".toList
  let refs ← decValueRefs C ks
  let val ← refValOf refs
  let origin := Xml.attr as "CLASSORIGIN".toList
  let propagated ← boolAttrOf as "PROPAGATED" "false"
  let quals ← decQualifiers C ks
  ctorProperty (getAttrD as "NAME" "") "reference".toList val false none refCls origin propagated none quals

def decProperties : List Xml → R (List Prop_)
  | [] => pure []
  | .text _ :: ks => decProperties ks
  | k :: ks =>
    if k.name = "PROPERTY".toList then do
      let p ← decProperty C emb k
      let rest ← decProperties ks
      pure (p :: rest)
    else if k.name = "PROPERTY.ARRAY".toList then do
      let p ← decPropertyArray C emb k
      let rest ← decProperties ks
      pure (p :: rest)
    else if k.name = "PROPERTY.REFERENCE".toList then do
      let p ← decPropertyReference C k
      let rest ← decProperties ks
      pure (p :: rest)
    else decProperties ks

/-- mirrors pywbem/_tupleparse.py: TupleParser.parse_instance (CIMInstance(classname, qualifiers) and
    `inst[prop.name] = prop` cannot fail for parsed qualifiers/properties) -/
def decInstance (t : Xml) : R Inst := do
  let (as, ks) ← checkG "parse_instance" t
  let quals ← decQualifiers C ks
  let props ← decProperties C emb ks
  pure (.mk (getAttrD as "CLASSNAME" "") none (dictOfList Prop_.name props) (dictOfList Qual.name quals))

/-- mirrors pywbem/_cim_obj.py: CIMParameter.__init__ as called by the parse_parameter* functions -/
def ctorParameter (name ty : Str) (refCls : Option Str) (isArray : Bool) (asz : Option Int) (quals : List Qual) :
    R Param :=
  if !isCimType ty then .error .valueError
  else pure (.mk name ty refCls isArray (asz.map Int.toNat) (dictOfList Qual.name quals) .null none)

/-- mirrors pywbem/_tupleparse.py: TupleParser.parse_parameter, parse_parameter_reference (no try
    block), parse_parameter_array, parse_parameter_refarray (no try block) -/
def decParameter (t : Xml) : R Param := do
  match t with
  | .text _ => perr
  | .elem n _ _ =>
    if n = "PARAMETER".toList then do
      let (as, ks) ← checkG "parse_parameter" t
      let quals ← decQualifiers C ks
      catchVT (ctorParameter (getAttrD as "NAME" "") (getAttrD as "TYPE" "") none false none quals)
    else if n = "PARAMETER.REFERENCE".toList then do
      let (as, ks) ← checkG "parse_parameter_reference" t
      let quals ← decQualifiers C ks
      ctorParameter (getAttrD as "NAME" "") "reference".toList (Xml.attr as "REFERENCECLASS".toList) false none quals
    else if n = "PARAMETER.ARRAY".toList then do
      let (as, ks) ← checkG "parse_parameter_array" t
      let asz ← arraySize as
      let quals ← decQualifiers C ks
      catchVT (ctorParameter (getAttrD as "NAME" "") (getAttrD as "TYPE" "") none true asz quals)
    else if n = "PARAMETER.REFARRAY".toList then do
      let (as, ks) ← checkG "parse_parameter_refarray" t
      let asz ← arraySize as
      let quals ← decQualifiers C ks
      ctorParameter (getAttrD as "NAME" "") "reference".toList (Xml.attr as "REFERENCECLASS".toList) true asz quals
    else perr

def decParameters : List Xml → R (List Param)
  | [] => pure []
  | .text _ :: ks => decParameters ks
  | k :: ks =>
    if nameIn k ["PARAMETER", "PARAMETER.REFERENCE", "PARAMETER.ARRAY", "PARAMETER.REFARRAY"] then do
      let p ← decParameter C k
      let rest ← decParameters ks
      pure (p :: rest)
    else decParameters ks

/-- mirrors pywbem/_cim_obj.py: CIMMethod.__init__: return type must be a CIM type other than reference -/
def ctorMethod (name rt : Str) (params : List Param) (origin : Option Str) (propagated : Option Bool)
    (quals : List Qual) : R Meth :=
  if !isCimType rt then .error .valueError
  else if rt = "reference".toList then .error .valueError
  else pure (.mk name (some rt) (dictOfList Param.name params) origin propagated (dictOfList Qual.name quals))

/-- mirrors pywbem/_tupleparse.py: TupleParser.parse_method -/
def decMethod (t : Xml) : R Meth := do
  let (as, ks) ← checkG "parse_method" t
  let params ← decParameters C ks
  let origin := Xml.attr as "CLASSORIGIN".toList
  let propagated ← boolAttrOf as "PROPAGATED" "false"
  let quals ← decQualifiers C ks
  match Xml.attr as "TYPE".toList with
  | some (c :: cs) => catchVT (ctorMethod (getAttrD as "NAME" "") (c :: cs) params origin propagated quals)
  | _ => perr

def decMethods : List Xml → R (List Meth)
  | [] => pure []
  | .text _ :: ks => decMethods ks
  | k :: ks =>
    if k.name = "METHOD".toList then do
      let m ← decMethod C k
      let rest ← decMethods ks
      pure (m :: rest)
    else decMethods ks

/-- mirrors pywbem/_tupleparse.py: TupleParser.parse_class (CIMClass(...) cannot fail for parsed
    properties/methods/qualifiers) -/
def decClass (t : Xml) : R Cls := do
  let (as, ks) ← checkG "parse_class" t
  let props ← decProperties C emb ks
  let quals ← decQualifiers C ks
  let meths ← decMethods C ks
  pure (.mk (getAttrD as "NAME" "") (Xml.attr as "SUPERCLASS".toList) none (dictOfList Prop_.name props)
    (dictOfList Meth.name meths) (dictOfList Qual.name quals))

/-- mirrors pywbem/_cim_obj.py: CIMQualifierDeclaration.__init__ (`isArray = none`: inferred from the
    value, no check) -/
def ctorQualDecl (name ty : Str) (val : Val) (isArray : Option Bool) (asz : Option Int)
    (scopes : List (Str × Bool)) (o ts ti tr : Option Bool) : R QualDecl := do
  match isArray with
  | some b => checkArrayParms b val
  | none => pure ()
  if !isQualifierType ty then .error .valueError
  else pure { name := name, ty := ty, val := val,
              isArray := (match isArray with
                | some b => b
                | none => (match val with | .array _ => true | _ => false)),
              arraySize := asz.map Int.toNat, scopes := scopes, overridable := o, tosubclass := ts,
              toinstance := ti, translatable := tr }

/-- mirrors pywbem/_tupleparse.py: TupleParser.parse_qualifier_declaration (with parse_scope) -/
def decQualDecl (t : Xml) : R QualDecl := do
  let (as, ks) ← checkG "parse_qualifier_declaration" t
  let ty := getAttrD as "TYPE" ""
  let isArray ← boolAttrOf as "ISARRAY" "false"
  let asz ← arraySize as
  -- the loop over the children: a second SCOPE is rejected when it is reached; the value is
  -- unpacked when the first non-SCOPE child is reached
  let (scopes, value) ← qdLoop ty ks (Xml.elemKids ks) none none
  let overridable ← boolAttrOf as "OVERRIDABLE" "true"
  let tosubclass ← boolAttrOf as "TOSUBCLASS" "true"
  let toinstance ← boolAttrOf as "TOINSTANCE" "false"
  let translatable ← boolAttrOf as "TRANSLATABLE" "false"
  catchVT (ctorQualDecl (getAttrD as "NAME" "") ty value isArray asz (scopes.getD []) overridable tosubclass
    toinstance translatable)
where
  /-- `for child in kids(tup_tree)`: SCOPE -> parse_scope (second one: error); other child -> the value
      of the whole element is unpacked (a second value child makes unpack_value fail before) -/
  qdLoop (ty : Str) (all : List Xml) : List Xml → Option (List (Str × Bool)) → Option Val →
      R (Option (List (Str × Bool)) × Val)
    | [], sc, v => pure (sc, v.getD .null)
    | k :: rest, sc, v =>
      if k.name = "SCOPE".toList then
        match sc with
        | some _ => perr
        | none => do
          let (sas, _) ← checkG "parse_scope" k
          let s ← decScopeAttrs sas
          qdLoop ty all rest (some s) v
      else do
        let x ← unpackValue C ty all
        qdLoop ty all rest sc (some x)

end

/-- mirrors pywbem/_tupleparse.py: TupleParser.parse_embeddedObject for one string, with `n` levels of
    embedded nesting still allowed (Python's recursion limit stands behind the real code; fuel
    exhausted = RecursionError) -/
def embAt (C : DecCodec) : Nat → Str → R Atom
  | 0, _ => .error .recursionError
  | n + 1, s =>
    match C.par s with
    | none => .error .xmlParseError
    | some t =>
      if t.name = "INSTANCE".toList then do
        let i ← decInstance C (embAt C n) t
        pure (.einst i)
      else if t.name = "CLASS".toList then do
        let c ← decClass C (embAt C n) t
        pure (.ecls c)
      else perr

end Pywbem.Model.Resp
