/-
C12 — model of the mock server's class resolution and class-hierarchy queries.

mirrors pywbem_mock/_resolvermixin.py: ResolverMixin._validate_qualifiers, ResolverMixin._init_qualifier,
  ResolverMixin._resolve_objects, ResolverMixin._set_new_object, ResolverMixin._resolve_qualifiers,
  ResolverMixin._resolve_class
mirrors pywbem_mock/_baseprovider.py: BaseProvider.get_class, BaseProvider.filter_properties,
  BaseProvider._remove_qualifiers, BaseProvider._remove_classorigin
mirrors pywbem_mock/_mainprovider.py: MainProvider._get_superclass_names, MainProvider._get_subclass_names,
  MainProvider._get_subclass_list_for_enums, MainProvider._validate_dependencies_exist,
  MainProvider.EnumerateClasses, MainProvider.EnumerateClassNames, MainProvider.GetClass,
  MainProvider.CreateClass, MainProvider.ModifyClass, MainProvider.DeleteClass,
  MainProvider.EnumerateInstanceNames, MainProvider.EnumerateInstances
mirrors pywbem_mock/_wbemconnection_mock.py: FakedWBEMConnection.add_cimobjects
mirrors pywbem_mock/_baseprovider.py: BaseProvider.is_subclass, BaseProvider.validate_namespace,
  BaseProvider.add_namespace, BaseProvider.remove_namespace
mirrors pywbem_mock/_inmemoryrepository.py: InMemoryRepository.add_namespace, InMemoryRepository.remove_namespace
mirrors pywbem_mock/_mockmofwbemconnection.py: _MockMOFWBEMConnection.CreateClass

Representation.  Names are `List Char`; every NocaseDict / NocaseList / `.lower()` comparison of the
code is `ieq` (ASCII lower-casing; the harness generates ASCII names only — recorded assumption).
Dictionaries are lists in insertion order.  CIM types and qualifier values are opaque tags assigned by
the harness, except string values (needed for Override / EmbeddedInstance).  `State` is the content of one
namespace; `Repo` (end of file) is the repository of several namespaces.
The subclass relation (`children`, `subNamesDeep`, `subtreeList`, `Desc`) is meant to be reused by C13.

The model mirrors the code INCLUDING its open defects (known findings C12-classqual-not-inherited,
C12-override-marked-propagated, C12-param-qualifiers-unresolved: parameters of NEW methods are never
resolved); `Spec` below says what the property
demands instead.
-/
import Pywbem.Proto
import Pywbem.Generated.ResolveConsts

namespace Pywbem.Model.Resolve
open Pywbem.Proto
open Pywbem.Generated.Resolve

abbrev Name := List Char

/-! ### case-insensitive names -/

/-- `str.lower()` restricted to ASCII -/
def lowerChar (c : Char) : Char :=
  if 65 ≤ c.toNat ∧ c.toNat ≤ 90 then Char.ofNat (c.toNat + 32) else c

def lower (s : Name) : Name := s.map lowerChar

/-- `a.lower() == b.lower()`, also NocaseDict / NocaseList key equality -/
def ieq (a b : Name) : Bool := lower a == lower b

/-! ### data -/

/-- qualifier values: NULL, a string, or an opaque token for every other value
    (tokens are equal iff the Python values are equal; assigned by the harness) -/
inductive Val where
  | null
  | str (s : Name)
  | tok (k : Nat)
  deriving DecidableEq, Repr, Inhabited

structure Qual where
  name : Name
  ty : Nat
  val : Val
  propagated : Option Bool := none
  tosub : Option Bool := none
  overr : Option Bool := none
  transl : Option Bool := none
  deriving DecidableEq, Repr, Inhabited

/-- scope tags of a qualifier declaration -/
inductive Scope where
  | cls | assoc | indic | prop | ref | meth | param
  deriving DecidableEq, Repr, Inhabited

structure QDecl where
  name : Name
  ty : Nat
  scopes : List Scope      -- the scopes that are `True`
  anyScope : Bool          -- scopes['ANY']
  tosub : Option Bool
  overr : Option Bool
  transl : Option Bool
  deriving DecidableEq, Repr, Inhabited

structure Param where
  name : Name
  ty : Nat
  isArr : Bool
  arrSize : Option Nat
  emb : Option Nat
  refcls : Option Name
  quals : List Qual
  deriving DecidableEq, Repr, Inhabited

/-- a property (`isMeth = false`) or a method (`isMeth = true`, `ty` = return type) -/
structure Elem where
  name : Name
  isMeth : Bool
  ty : Nat
  isArr : Bool := false
  emb : Option Nat := none
  refcls : Option Name := none
  origin : Option Name := none
  propagated : Option Bool := none
  quals : List Qual := []
  params : List Param := []
  deriving DecidableEq, Repr, Inhabited

structure Cls where
  name : Name
  super : Option Name
  quals : List Qual
  props : List Elem
  meths : List Elem
  deriving DecidableEq, Repr, Inhabited

structure Inst where
  cls : Name
  key : Nat
  deriving DecidableEq, Repr, Inhabited

structure State where
  decls : List QDecl := []
  classes : List Cls := []
  insts : List Inst := []
  deriving DecidableEq, Repr, Inhabited

/-- type tags fixed by the harness table (`harness/c12.py: TYPES`) -/
def tyString : Nat := 1
def tyReference : Nat := 3

def nAssociation : Name := ['a', 's', 's', 'o', 'c', 'i', 'a', 't', 'i', 'o', 'n']
def nIndication : Name := ['i', 'n', 'd', 'i', 'c', 'a', 't', 'i', 'o', 'n']
def nOverride : Name := ['o', 'v', 'e', 'r', 'r', 'i', 'd', 'e']
def nEmbeddedInstance : Name := ['e', 'm', 'b', 'e', 'd', 'd', 'e', 'd', 'i', 'n', 's', 't', 'a', 'n', 'c', 'e']

def errParam : PyExc := .cimError CIM_ERR_INVALID_PARAMETER

/-! ### Except helpers (own recursion: convenient for induction) -/

def mapE {α β : Type} (f : α → Except PyExc β) : List α → Except PyExc (List β)
  | [] => .ok []
  | a :: as =>
    match f a with
    | .error e => .error e
    | .ok b =>
      match mapE f as with
      | .error e => .error e
      | .ok bs => .ok (b :: bs)

def foldE {α σ : Type} (f : σ → α → Except PyExc σ) : σ → List α → Except PyExc σ
  | s, [] => .ok s
  | s, a :: as =>
    match f s a with
    | .error e => .error e
    | .ok s' => foldE f s' as

def allE {α : Type} (f : α → Except PyExc Unit) : List α → Except PyExc Unit
  | [] => .ok ()
  | a :: as =>
    match f a with
    | .error e => .error e
    | .ok _ => allE f as

/-! ### dictionary lookups -/

def findQual (qs : List Qual) (n : Name) : Option Qual := qs.find? (fun q => ieq q.name n)
def hasQual (qs : List Qual) (n : Name) : Bool := qs.any (fun q => ieq q.name n)
def findDecl (ds : List QDecl) (n : Name) : Option QDecl := ds.find? (fun d => ieq d.name n)
def findElem (es : List Elem) (n : Name) : Option Elem := es.find? (fun e => ieq e.name n)
def hasElem (es : List Elem) (n : Name) : Bool := es.any (fun e => ieq e.name n)
def findParam (ps : List Param) (n : Name) : Option Param := ps.find? (fun p => ieq p.name n)
def hasParam (ps : List Param) (n : Name) : Bool := ps.any (fun p => ieq p.name n)
def findClass (cs : List Cls) (n : Name) : Option Cls := cs.find? (fun c => ieq c.name n)
def hasClass (cs : List Cls) (n : Name) : Bool := cs.any (fun c => ieq c.name n)

/-- `new_quals[name] = q` for a key that is already present (position kept) -/
def setQual (qs : List Qual) (q : Qual) : List Qual :=
  qs.map (fun x => if ieq x.name q.name then q else x)

/-- Python truthiness of an `Optional[bool]` attribute -/
def truthy (b : Option Bool) : Bool := b == some true

/-! ### qualifier validation and resolution -/

/-- mirrors pywbem_mock/_resolvermixin.py: ResolverMixin._validate_qualifiers (one qualifier) -/
def validateQual (decls : List QDecl) (scope : Scope) (q : Qual) : Except PyExc Unit :=
  match findDecl decls q.name with
  | none => .error errParam
  | some d =>
    if q.ty != d.ty then .error errParam
    else if !(d.scopes.contains scope) && !d.anyScope then .error errParam
    else .ok ()

/-- mirrors pywbem_mock/_resolvermixin.py: ResolverMixin._validate_qualifiers -/
def validateQuals (decls : List QDecl) (scope : Scope) (qs : List Qual) : Except PyExc Unit :=
  allE (validateQual decls scope) qs

def fillFlavor (own : Option Bool) (decl : Option Bool) : Option Bool :=
  match own with
  | some b => some b
  | none => some (decl.getD true)

/-- mirrors pywbem_mock/_resolvermixin.py: ResolverMixin._init_qualifier -/
def initQual (decls : List QDecl) (q : Qual) : Except PyExc Qual :=
  match findDecl decls q.name with
  | none => .error .keyError
  | some d => .ok { q with
      propagated := some false
      tosub := fillFlavor q.tosub d.tosub
      overr := fillFlavor q.overr d.overr
      transl := match q.transl with | some b => some b | none => d.transl }

/-- one iteration of the loop `for inh_qname, inh_qual in inherited_quals.items()` of
    `_resolve_qualifiers` -/
def inheritStep (decls : List QDecl) (newQ : List Qual) (inh : Qual) : Except PyExc (List Qual) :=
  match findQual newQ inh.name with
  | none =>
    if truthy inh.tosub then .ok (newQ ++ [{ inh with propagated := some true }])
    else .ok newQ
  | some q =>
    if truthy inh.tosub then
      if truthy inh.overr then
        match initQual decls q with
        | .error e => .error e
        | .ok q' => .ok (setQual newQ q')
      else if q.val != inh.val || q.ty != inh.ty then .error errParam
      else
        match initQual decls q with
        | .error e => .error e
        | .ok q' => .ok (setQual newQ { q' with propagated := some true })
    else
      if inh.overr != some false then
        match initQual decls q with
        | .error e => .error e
        | .ok q' => .ok (setQual newQ q')
      else .error errParam

/-- mirrors pywbem_mock/_resolvermixin.py: ResolverMixin._resolve_qualifiers -/
def resolveQuals (decls : List QDecl) (newQ : List Qual) (inhQ : List Qual) (propagate : Bool) :
    Except PyExc (List Qual) :=
  if !propagate then mapE (initQual decls) newQ
  else
    match mapE (fun q => if hasQual inhQ q.name then .ok q else initQual decls q) newQ with
    | .error e => .error e
    | .ok q1 => foldE (inheritStep decls) q1 inhQ

/-! ### element resolution -/

/-- the copy loop at the end of `_resolve_objects`: qualifiers of an inherited, not redeclared element
    (Restricted qualifiers are dropped, the others marked propagated) -/
def copyQuals (qs : List Qual) : List Qual :=
  (qs.filter (fun q => q.tosub != some false)).map (fun q => { q with propagated := some true })

/-- inherited property/method that the new class does not redeclare -/
def copyElem (e : Elem) : Elem :=
  { e with propagated := some true, quals := copyQuals e.quals }

/-- `new_objects[obj_name].qualifiers["override"].value` -/
def overrideVal (qs : List Qual) : Val :=
  match findQual qs nOverride with
  | none => .null
  | some q => q.val

/-- a qualifier value used as a NocaseDict key -/
def keyOfVal (v : Val) : Except PyExc Name :=
  match v with
  | .str s => .ok s
  | .null => .error .valueError          -- NocaseDict refuses the key None
  | .tok _ => .error .attributeError     -- non-string key has no casefold()

/-- inherited parameter that the overriding method does not declare (copy loop of `_resolve_objects`) -/
def copyParam (p : Param) : Param := { p with quals := copyQuals p.quals }

/-- mirrors pywbem_mock/_resolvermixin.py: ResolverMixin._resolve_objects (type_str = "Parameter"):
    one parameter of an overriding method against the parameters of the overridden method.
    (CIMParameter has no propagated / class_origin: `_set_new_object` only resolves its qualifiers.) -/
def resolveParam (decls : List QDecl) (supP : List Param) (p : Param) : Except PyExc Param :=
  if !(hasParam supP p.name) then
    match resolveQuals decls p.quals [] false with
    | .error e => .error e
    | .ok qs => .ok { p with quals := qs }
  else if !(hasQual p.quals nOverride) then .ok p
  else
    if p.ty == tyReference && overrideVal p.quals != .str p.name then .error errParam
    else
    match keyOfVal (overrideVal p.quals) with
    | .error e => .error e
    | .ok oname =>
        match findParam supP oname with
        | none => .error errParam
        | some sp =>
          if sp.ty != p.ty || sp.isArr != p.isArr || sp.arrSize != p.arrSize || sp.emb != p.emb then
            .error errParam
          else
            match resolveQuals decls p.quals sp.quals true with
            | .error e => .error e
            | .ok qs => .ok { p with quals := qs }

def resolveParams (decls : List QDecl) (newP supP : List Param) : Except PyExc (List Param) :=
  match mapE (resolveParam decls supP) newP with
  | .error e => .error e
  | .ok ps => .ok (ps ++ ((supP.filter (fun sp => !(hasParam newP sp.name))).map copyParam))

/-- mirrors pywbem_mock/_resolvermixin.py: ResolverMixin._set_new_object -/
def setNewElem (decls : List QDecl) (clsName : Name) (e : Elem) (inh : Option Elem) :
    Except PyExc Elem :=
  match inh with
  | none =>
    match resolveQuals decls e.quals [] false with
    | .error err => .error err
    | .ok qs => .ok { e with propagated := some false, origin := some clsName, quals := qs }
  | some s =>
    match resolveQuals decls e.quals s.quals true with
    | .error err => .error err
    | .ok qs => .ok { e with propagated := some true, origin := s.origin, quals := qs }

/-- the type-consistency test between an overriding element and the overridden one -/
def overrideMismatch (e s : Elem) : Bool :=
  if s.isMeth then s.ty != e.ty
  else s.ty != e.ty || s.isArr != e.isArr || s.emb != e.emb

/-- mirrors pywbem_mock/_resolvermixin.py: ResolverMixin._resolve_objects (one own property/method,
    superclass present) -/
def resolveElem (decls : List QDecl) (clsName : Name) (supE : List Elem) (e : Elem) :
    Except PyExc Elem :=
  if !(hasElem supE e.name) then setNewElem decls clsName e none
  else if !(hasQual e.quals nOverride) then .error errParam
  else
    if !e.isMeth && e.ty == tyReference && overrideVal e.quals != .str e.name then .error errParam
    else
    match keyOfVal (overrideVal e.quals) with
    | .error err => .error err
    | .ok oname =>
        match findElem supE oname with
        | none => .error errParam
        | some s =>
          if overrideMismatch e s then .error errParam
          else
            match setNewElem decls clsName e (some s) with
            | .error err => .error err
            | .ok e' =>
              if e.isMeth then
                match resolveParams decls e'.params ((findElem supE e.name).map (·.params) |>.getD []) with
                | .error err => .error err
                | .ok ps => .ok { e' with params := ps }
              else .ok e'

/-- mirrors pywbem_mock/_resolvermixin.py: ResolverMixin._resolve_objects (properties or methods) -/
def resolveElems (decls : List QDecl) (clsName : Name) (newE : List Elem) (supE : Option (List Elem)) :
    Except PyExc (List Elem) :=
  match supE with
  | none => mapE (fun e => setNewElem decls clsName e none) newE
  | some se =>
    match mapE (resolveElem decls clsName se) newE with
    | .error e => .error e
    | .ok es => .ok (es ++ ((se.filter (fun s => !(hasElem newE s.name))).map copyElem))

/-! ### get_class -/

def stripParamQuals (p : Param) : Param := { p with quals := [] }
def stripElemQuals (e : Elem) : Elem := { e with quals := [], params := e.params.map stripParamQuals }

/-- mirrors pywbem_mock/_baseprovider.py: BaseProvider._remove_qualifiers -/
def removeQualifiers (c : Cls) : Cls :=
  { c with quals := [], props := c.props.map stripElemQuals, meths := c.meths.map stripElemQuals }

def stripOrigin (e : Elem) : Elem := { e with origin := none }

/-- mirrors pywbem_mock/_baseprovider.py: BaseProvider._remove_classorigin -/
def removeClassOrigin (c : Cls) : Cls :=
  { c with props := c.props.map stripOrigin, meths := c.meths.map stripOrigin }

/-- mirrors pywbem_mock/_baseprovider.py: BaseProvider.filter_properties -/
def filterProps (c : Cls) (pl : Option (List Name)) : Cls :=
  match pl with
  | none => c
  | some l => { c with props := c.props.filter (fun p => (l.map lower).contains (lower p.name)) }

/-- the `local_only is True or local_only is None` step of get_class -/
def localOnly (c : Cls) : Cls :=
  { c with props := c.props.filter (fun p => !(truthy p.propagated)),
           meths := c.meths.filter (fun m => !(truthy m.propagated)) }

structure Flags where
  lo : Option Bool := none
  iq : Option Bool := none
  ico : Option Bool := none
  pl : Option (List Name) := none
  deriving Repr, Inhabited

/-- get_class, first half: LocalOnly then PropertyList -/
def stageLocal (c : Cls) (f : Flags) : Cls :=
  filterProps (if f.lo == some false then c else localOnly c) f.pl

/-- get_class, second half: IncludeQualifiers -/
def stageQuals (c : Cls) (f : Flags) : Cls :=
  if f.iq == some false then removeQualifiers c else c

/-- the filters of get_class applied to a stored class -/
def applyFlags (c : Cls) (f : Flags) : Cls :=
  if f.ico == some true then stageQuals (stageLocal c f) f
  else removeClassOrigin (stageQuals (stageLocal c f) f)

/-- mirrors pywbem_mock/_baseprovider.py: BaseProvider.get_class -/
def getClass (cs : List Cls) (n : Name) (f : Flags) : Except PyExc Cls :=
  match findClass cs n with
  | none => .error (.cimError CIM_ERR_NOT_FOUND)
  | some c => .ok (applyFlags c f)

def fullFlags : Flags := { lo := some false, iq := some true, ico := some true, pl := none }

/-! ### class resolution -/

def classScope (qs : List Qual) : Scope :=
  if hasQual qs nAssociation then .assoc
  else if hasQual qs nIndication then .indic
  else .cls

def validateElemQuals (decls : List QDecl) (e : Elem) : Except PyExc Unit :=
  if e.isMeth then
    match validateQuals decls .meth e.quals with
    | .error err => .error err
    | .ok _ => allE (fun p => validateQuals decls .param p.quals) e.params
  else validateQuals decls (if e.ty == tyReference then .ref else .prop) e.quals

/-- `if new_class.superclass:` -/
def superSet (o : Option Name) : Bool :=
  match o with
  | some s => !s.isEmpty
  | none => false

/-- an empty superclass name is stored as "no superclass" -/
def normSuper (o : Option Name) : Option Name := if superSet o then o else none

/-- `_resolve_class`: the superclass lookup (`get_class(... local_only=False ...)`, NOT_FOUND mapped to
    INVALID_SUPERCLASS) -/
def findSuper (cs : List Cls) (c : Cls) : Except PyExc (Option Cls) :=
  match c.super with
  | none => .ok none
  | some s =>
    if s.isEmpty then .ok none
    else match findClass cs s with
      | none => .error (.cimError CIM_ERR_INVALID_SUPERCLASS)
      | some sc => .ok (some sc)

def superNotAssoc (sup : Option Cls) : Bool :=
  match sup with
  | some sc => !(hasQual sc.quals nAssociation)
  | none => false

/-- `_resolve_class`: the validation steps before anything is resolved -/
def validateClass (decls : List QDecl) (c : Cls) (sup : Option Cls) : Except PyExc Unit :=
  if hasQual c.quals nAssociation && superNotAssoc sup then .error errParam
  else if !(hasQual c.quals nAssociation) && c.props.any (fun p => p.ty == tyReference) then .error errParam
  else
    match validateQuals decls (classScope c.quals) c.quals with
    | .error e => .error e
    | .ok _ =>
      match allE (validateElemQuals decls) c.props with
      | .error e => .error e
      | .ok _ => allE (validateElemQuals decls) c.meths

/-- `_resolve_class`: the resolution proper.  Class level qualifiers are resolved with
    propagate=False (open known finding: never inherited). -/
def resolveParts (decls : List QDecl) (c : Cls) (sup : Option Cls) : Except PyExc Cls :=
  match resolveQuals decls c.quals [] false with
  | .error e => .error e
  | .ok cq =>
    match resolveElems decls c.name c.props (sup.map (·.props)) with
    | .error e => .error e
    | .ok ps =>
      match resolveElems decls c.name c.meths (sup.map (·.meths)) with
      | .error e => .error e
      | .ok ms => .ok { c with super := normSuper c.super, quals := cq, props := ps, meths := ms }

/-- mirrors pywbem_mock/_resolvermixin.py: ResolverMixin._resolve_class -/
def resolveClass (decls : List QDecl) (cs : List Cls) (c : Cls) : Except PyExc Cls :=
  match findSuper cs c with
  | .error e => .error e
  | .ok sup =>
    match validateClass decls c sup with
    | .error e => .error e
    | .ok _ => resolveParts decls c sup

/-- one dependency test of `_validate_dependencies_exist` (type, reference class, qualifiers) -/
def depCheck (cs : List Cls) (clsName : Name) (ty : Nat) (refcls : Option Name) (quals : List Qual) :
    Except PyExc Unit :=
  if ty == tyReference then
    match refcls with
    | none => .error .attributeError
    | some r =>
      if ieq r clsName then .ok ()
      else if !(hasClass cs r) then .error errParam
      else .ok ()
  else if ty == tyString then
    match findQual quals nEmbeddedInstance with
    | none => .ok ()
    | some q =>
      match q.val with
      | .null => .ok ()
      | .tok _ => .error .attributeError
      | .str v =>
        if ieq v clsName then .ok ()
        else if !(hasClass cs v) then .error errParam
        else .ok ()
  else .ok ()

/-- mirrors pywbem_mock/_mainprovider.py: MainProvider._validate_dependencies_exist -/
def validateDeps (cs : List Cls) (c : Cls) : Except PyExc Unit :=
  match allE (fun (p : Elem) => depCheck cs c.name p.ty p.refcls p.quals) c.props with
  | .error e => .error e
  | .ok _ =>
    allE (fun (m : Elem) => allE (fun (p : Param) => depCheck cs c.name p.ty p.refcls p.quals) m.params) c.meths

/-! ### hierarchy queries (reusable: subclass relation) -/

/-- the list comprehension of `_get_subclass_names`: direct subclasses (or root classes) in store order -/
def children (cs : List Cls) (cn : Option Name) : List Name :=
  match cn with
  | none => (cs.filter (fun c => c.super.isNone)).map (·.name)
  | some n => (cs.filter (fun c =>
      match c.super with
      | some s => !s.isEmpty && ieq s n
      | none => false)).map (·.name)

/-- mirrors pywbem_mock/_mainprovider.py: MainProvider._get_subclass_names with deep_inheritance=True.
    The Python recursion terminates only when the hierarchy has no cycle; `fuel` stands for the
    recursion depth, `C12_forest_invariant` + `subNamesDeep_fuel` show that `classes.length` always
    suffices. -/
def subNamesDeep : Nat → List Cls → Option Name → List Name
  | 0, _, _ => []
  | fuel + 1, cs, cn =>
    let r := children cs cn
    r ++ (r.map (fun c => subNamesDeep fuel cs (some c))).flatten

/-- mirrors pywbem_mock/_mainprovider.py: MainProvider._get_subclass_names -/
def subNames (cs : List Cls) (cn : Option Name) (deep : Bool) : List Name :=
  if deep then subNamesDeep (cs.length + 1) cs cn else children cs cn

/-- mirrors pywbem_mock/_mainprovider.py: MainProvider._get_subclass_list_for_enums (without the
    existence test): subclasses first, the class itself last -/
def subtreeList (cs : List Cls) (n : Name) : List Name := subNames cs (some n) true ++ [n]

/-- `name in NocaseList` -/
def inNames (l : List Name) (n : Name) : Bool := l.any (fun x => ieq x n)

/-- mirrors pywbem_mock/_mainprovider.py: MainProvider._get_superclass_names (ascending, before the
    final reverse); `fuel` as for `subNamesDeep`; a missing class is the KeyError of `class_store.get` -/
def superChain : Nat → List Cls → Name → Except PyExc (List Name)
  | 0, _, _ => .error .recursionError
  | fuel + 1, cs, n =>
    match findClass cs n with
    | none => .error .keyError
    | some c =>
      match c.super with
      | none => .ok []
      | some s =>
        if s.isEmpty then .ok []
        else
          match superChain fuel cs s with
          | .error e => .error e
          | .ok l => .ok (s :: l)

def superNames (cs : List Cls) (n : Name) : Except PyExc (List Name) :=
  match superChain (cs.length + 1) cs n with
  | .error e => .error e
  | .ok l => .ok l.reverse

/-! ### operations -/

inductive Op where
  | create (c : Cls)                 -- CreateClass
  | add (c : Cls)                    -- add_cimobjects(CIMClass)
  | modify (c : Cls)                 -- ModifyClass
  | delete (n : Name)                -- DeleteClass
  | get (n : Name) (f : Flags)       -- GetClass
  | enumNames (cn : Option Name) (deep : Option Bool)
  | enumClasses (cn : Option Name) (deep : Option Bool) (f : Flags)
  | supers (n : Name)                -- _get_superclass_names
  | addInst (i : Inst)               -- add_cimobjects(CIMInstance)
  | enumInsts (n : Name)             -- EnumerateInstanceNames / EnumerateInstances
  | addDecl (d : QDecl)              -- add_cimobjects(CIMQualifierDeclaration)
  | mofCreate (c : Cls)              -- _MockMOFWBEMConnection.CreateClass (what the MOF compiler calls)
  | isSub (k sup : Name)             -- BaseProvider.is_subclass
  deriving Repr, Inhabited

inductive Out where
  | done
  | cls (c : Cls)
  | classes (l : List Cls)
  | names (l : List Name)
  | insts (l : List Inst)
  | flag (b : Bool)
  | err (e : PyExc)
  deriving Repr, DecidableEq, Inhabited

/-- mirrors pywbem_mock/_mainprovider.py: MainProvider.CreateClass -/
def createClass (s : State) (c : Cls) : Except PyExc State :=
  if hasClass s.classes c.name then .error (.cimError CIM_ERR_ALREADY_EXISTS)
  else
    match validateDeps s.classes c with
    | .error e => .error e
    | .ok _ =>
      match resolveClass s.decls s.classes c with
      | .error e => .error e
      | .ok r => .ok { s with classes := s.classes ++ [r] }

/-- mirrors pywbem_mock/_wbemconnection_mock.py: FakedWBEMConnection.add_cimobjects (CIMClass branch) -/
def addClass (s : State) (c : Cls) : Except PyExc State :=
  if superSet c.super && !(hasClass s.classes (c.super.getD [])) then .error .valueError
  else
    match resolveClass s.decls s.classes c with
    | .error e => .error e
    | .ok r =>
      if hasClass s.classes c.name then .error .valueError
      else .ok { s with classes := s.classes ++ [r] }

/-- `class_store.update`: same dictionary slot, new key spelling, new value -/
def replaceClass (cs : List Cls) (r : Cls) : List Cls :=
  cs.map (fun x => if ieq x.name r.name then r else x)

/-- mirrors pywbem_mock/_mainprovider.py: MainProvider.ModifyClass -/
def modifyClass (s : State) (c : Cls) : Except PyExc State :=
  match findClass s.classes c.name with
  | none => .error (.cimError CIM_ERR_NOT_FOUND)
  | some orig =>
    if !(children s.classes (some c.name)).isEmpty then .error (.cimError CIM_ERR_CLASS_HAS_CHILDREN)
    else if s.insts.any (fun i => ieq i.cls c.name) then .error (.cimError CIM_ERR_CLASS_HAS_INSTANCES)
    else if superSet c.super && !(hasClass s.classes (c.super.getD [])) then
      .error (.cimError CIM_ERR_INVALID_SUPERCLASS)
    else if (!(superSet c.super) && superSet orig.super) || (superSet c.super && !(superSet orig.super)) then
      .error (.cimError CIM_ERR_INVALID_SUPERCLASS)
    else if superSet c.super && superSet orig.super && !(ieq (orig.super.getD []) (c.super.getD [])) then
      .error (.cimError CIM_ERR_INVALID_SUPERCLASS)
    else
      match validateDeps s.classes c with
      | .error e => .error e
      | .ok _ =>
        match resolveClass s.decls s.classes c with
        | .error e => .error e
        | .ok r => .ok { s with classes := replaceClass s.classes r }

def removeClass (cs : List Cls) (n : Name) : List Cls := cs.filter (fun c => !(ieq c.name n))

/-- one iteration of the `for clname in classnames` loop of DeleteClass -/
def deleteStep (root : Name) (s : State) (clname : Name) : Except PyExc State :=
  if !(hasClass s.classes root) then .error (.cimError CIM_ERR_INVALID_CLASS)
  else
    let sub := subtreeList s.classes root
    let insts := s.insts.filter (fun i => !(inNames sub i.cls))
    if !(hasClass s.classes clname) then .error .keyError
    else .ok { s with insts := insts, classes := removeClass s.classes clname }

/-- mirrors pywbem_mock/_mainprovider.py: MainProvider.DeleteClass -/
def deleteClass (s : State) (n : Name) : Except PyExc State :=
  if !(hasClass s.classes n) then .error (.cimError CIM_ERR_NOT_FOUND)
  else foldE (deleteStep n) s (subtreeList s.classes n)

/-- mirrors pywbem_mock/_mainprovider.py: MainProvider.EnumerateClassNames -/
def enumClassNames (s : State) (cn : Option Name) (deep : Option Bool) : Except PyExc (List Name) :=
  match cn with
  | some n =>
    if !n.isEmpty && !(hasClass s.classes n) then .error (.cimError CIM_ERR_INVALID_CLASS)
    else .ok (subNames s.classes (if n.isEmpty then none else some n) (truthy deep))
  | none => .ok (subNames s.classes none (truthy deep))

/-- mirrors pywbem_mock/_mainprovider.py: MainProvider.EnumerateClasses -/
def enumClasses (s : State) (cn : Option Name) (deep : Option Bool) (f : Flags) :
    Except PyExc (List Cls) :=
  match enumClassNames s cn deep with
  | .error e => .error e
  | .ok names => mapE (fun n => getClass s.classes n { f with pl := none }) names

/-- mirrors pywbem_mock/_mainprovider.py: MainProvider.EnumerateInstanceNames (and the selection of
    EnumerateInstances): the stored instances whose class is in the subtree of `n` -/
def enumInsts (s : State) (n : Name) : Except PyExc (List Inst) :=
  if !(hasClass s.classes n) then .error (.cimError CIM_ERR_INVALID_CLASS)
  else .ok (s.insts.filter (fun i => inNames (subtreeList s.classes n) i.cls))

/-- one dependency test of _MockMOFWBEMConnection.CreateClass: the referenced / embedded class must be
    gettable (the new class itself is in the compiler's cache) -/
def mofDepCheck (cs : List Cls) (clsName : Name) (ty : Nat) (refcls : Option Name) (quals : List Qual) :
    Except PyExc Unit :=
  if ty == tyReference then
    match refcls with
    | none => .error .valueError            -- NocaseDict refuses the key None
    | some r => if ieq r clsName || hasClass cs r then .ok () else .error errParam
  else if ty == tyString then
    match findQual quals nEmbeddedInstance with
    | none => .ok ()
    | some q =>
      match q.val with
      | .null => .ok ()
      | .tok _ => .error .attributeError
      | .str v => if ieq v clsName || hasClass cs v then .ok () else .error errParam
  else .ok ()

def mofDeps (cs : List Cls) (c : Cls) : Except PyExc Unit :=
  match allE (fun (p : Elem) => mofDepCheck cs c.name p.ty p.refcls p.quals) c.props with
  | .error e => .error e
  | .ok _ =>
    allE (fun (m : Elem) => allE (fun (p : Param) => mofDepCheck cs c.name p.ty p.refcls p.quals) m.params) c.meths

/-- mirrors pywbem_mock/_mockmofwbemconnection.py: _MockMOFWBEMConnection.CreateClass (fresh class cache):
    superclass and dependency pre-checks of the MOF compiler's connection, then CreateClass -/
def mofCreateClass (s : State) (c : Cls) : Except PyExc State :=
  if superSet c.super && !(hasClass s.classes (c.super.getD [])) then
    .error (.cimError CIM_ERR_INVALID_SUPERCLASS)
  else
    match mofDeps s.classes c with
    | .error e => .error e
    | .ok _ => createClass s c

/-- mirrors pywbem_mock/_baseprovider.py: BaseProvider.is_subclass (walks the superclass chain upwards;
    `fuel` as for `superChain`) -/
def isSubclass : Nat → List Cls → Name → Name → Except PyExc Bool
  | 0, _, _, _ => .error .recursionError
  | fuel + 1, cs, k, sup =>
    match findClass cs k with
    | none => .error .keyError
    | some c =>
      if ieq k sup then .ok true
      else
        match c.super with
        | none => if hasClass cs sup then .ok false else .error .keyError
        | some s => isSubclass fuel cs s sup

/-- add_cimobjects(CIMQualifierDeclaration): `qualifier_store.create` -/
def addDecl (s : State) (d : QDecl) : Except PyExc State :=
  if s.decls.any (fun x => ieq x.name d.name) then .error .valueError
  else .ok { s with decls := s.decls ++ [d] }

/-- mirrors pywbem_mock/_wbemconnection_mock.py: FakedWBEMConnection.add_cimobjects (CIMInstance
    branch): an instance whose path (class name up to case, key) is already stored is refused -/
def addInstance (s : State) (i : Inst) : Except PyExc State :=
  if s.insts.any (fun x => ieq x.cls i.cls && x.key == i.key) then .error .valueError
  else .ok { s with insts := s.insts ++ [i] }

def step (s : State) (op : Op) : State × Out :=
  match op with
  | .create c => match createClass s c with | .ok s' => (s', .done) | .error e => (s, .err e)
  | .add c => match addClass s c with | .ok s' => (s', .done) | .error e => (s, .err e)
  | .modify c => match modifyClass s c with | .ok s' => (s', .done) | .error e => (s, .err e)
  | .delete n => match deleteClass s n with | .ok s' => (s', .done) | .error e => (s, .err e)
  | .get n f => match getClass s.classes n f with | .ok c => (s, .cls c) | .error e => (s, .err e)
  | .enumNames cn d => match enumClassNames s cn d with | .ok l => (s, .names l) | .error e => (s, .err e)
  | .enumClasses cn d f => match enumClasses s cn d f with | .ok l => (s, .classes l) | .error e => (s, .err e)
  | .supers n => match superNames s.classes n with | .ok l => (s, .names l) | .error e => (s, .err e)
  | .addInst i => match addInstance s i with | .ok s' => (s', .done) | .error e => (s, .err e)
  | .enumInsts n => match enumInsts s n with | .ok l => (s, .insts l) | .error e => (s, .err e)
  | .addDecl d => match addDecl s d with | .ok s' => (s', .done) | .error e => (s, .err e)
  | .mofCreate c => match mofCreateClass s c with | .ok s' => (s', .done) | .error e => (s, .err e)
  | .isSub k sup =>
    match isSubclass (s.classes.length + 1) s.classes k sup with
    | .ok b => (s, .flag b)
    | .error e => (s, .err e)

def run (s : State) : List Op → State × List Out
  | [] => (s, [])
  | op :: ops =>
    let r := step s op
    let rr := run r.1 ops
    (rr.1, r.2 :: rr.2)

/-! ### several namespaces -/

/-- `namespace.strip('/')` -/
def stripSlash (s : Name) : Name :=
  ((s.dropWhile (fun c => c == '/')).reverse.dropWhile (fun c => c == '/')).reverse

/-- the CIM repository: namespaces (NocaseDict, insertion order) with their content -/
structure Repo where
  nss : List (Name × State) := []
  deriving Repr, Inhabited

def findNs (r : Repo) (ns : Name) : Option State :=
  (r.nss.find? (fun e => ieq e.1 (stripSlash ns))).map (·.2)

def hasNs (r : Repo) (ns : Name) : Bool := r.nss.any (fun e => ieq e.1 (stripSlash ns))

/-- store the new content of an existing namespace (same dictionary slot) -/
def setNs (r : Repo) (ns : Name) (s : State) : Repo :=
  { nss := r.nss.map (fun e => if ieq e.1 (stripSlash ns) then (e.1, s) else e) }

inductive ROp where
  | inNs (ns : Name) (op : Op)       -- any class / instance / declaration operation with namespace=ns
  | addNs (ns : Name)                -- add_namespace
  | removeNs (ns : Name)             -- remove_namespace
  deriving Repr, Inhabited

/-- what an operation answers when its namespace does not exist: the provider methods and
    add_cimobjects call `validate_namespace` (CIM_ERR_INVALID_NAMESPACE); the two helper functions the
    harness calls with a class store (`_get_superclass_names`, `is_subclass`) fail in
    `get_class_store` with KeyError -/
def missingNsError (op : Op) : PyExc :=
  match op with
  | .supers _ => .keyError
  | .isSub _ _ => .keyError
  | _ => .cimError CIM_ERR_INVALID_NAMESPACE

def isEmptyState (s : State) : Bool := s.classes.isEmpty && s.decls.isEmpty && s.insts.isEmpty

/-- mirrors pywbem_mock/_baseprovider.py: BaseProvider.validate_namespace / add_namespace /
    remove_namespace (names that are not Interop namespace names: harness assumption) -/
def rstep (r : Repo) (op : ROp) : Repo × Out :=
  match op with
  | .inNs ns o =>
    match findNs r ns with
    | none => (r, .err (missingNsError o))
    | some s =>
      let res := step s o
      (setNs r ns res.1, res.2)
  | .addNs ns =>
    if hasNs r ns then (r, .err (.cimError CIM_ERR_ALREADY_EXISTS))
    else ({ nss := r.nss ++ [(stripSlash ns, {})] }, .done)
  | .removeNs ns =>
    match findNs r ns with
    | none => (r, .err (.cimError CIM_ERR_NOT_FOUND))
    | some s =>
      if isEmptyState s then ({ nss := r.nss.filter (fun e => !(ieq e.1 (stripSlash ns))) }, .done)
      else (r, .err (.cimError CIM_ERR_NAMESPACE_NOT_EMPTY))

def rrun (r : Repo) : List ROp → Repo × List Out
  | [] => (r, [])
  | op :: ops =>
    let x := rstep r op
    let rr := rrun x.1 ops
    (rr.1, x.2 :: rr.2)

/-- the operations of a repository history that were addressed to (a spelling of) the namespace
    stored under `key` -/
def projectOps (key : Name) : List ROp → List Op
  | [] => []
  | .inNs m o :: rest => if ieq key (stripSlash m) then o :: projectOps key rest else projectOps key rest
  | _ :: rest => projectOps key rest

/-! ### Spec: what the property demands (short, independent of the resolver code) -/

namespace Spec

/-- `c` is stored as a direct subclass of (a class named like) `a` -/
def IsChild (c : Cls) (a : Name) : Prop := ∃ s, c.super = some s ∧ s ≠ [] ∧ ieq s a = true

/-- `d` is a (direct or indirect) subclass of `a` in the store: the relation the enumerations and
    DeleteClass must realise.  First argument: a class name as stored; comparisons with superclass
    names are case-insensitive. -/
inductive Desc (cs : List Cls) : Name → Name → Prop where
  | child {c : Cls} {a : Name} : c ∈ cs → IsChild c a → Desc cs c.name a
  | trans {c : Cls} {m a : Name} : Desc cs m a → c ∈ cs → IsChild c m → Desc cs c.name a

/-- names exposed by a class with own elements `own` whose superclass exposes `inherited`:
    own ∪ (inherited \ redeclared) -/
def exposedNames (own inherited : List Name) : List Name :=
  own ++ inherited.filter (fun n => !(own.any (fun o => ieq o n)))

/-- qualifiers an element inherits from the overridden / inherited element: the ToSubclass ones that the
    element does not declare itself -/
def inheritedQuals (own parent : List Qual) : List Qual :=
  parent.filter (fun q => truthy q.tosub && !(hasQual own q.name))

end Spec

end Pywbem.Model.Resolve
