/-
Model of the LALR(1) parse of the pywbem MOF compiler: a generic table-driven LR driver mirroring
`ply.yacc.LRParser.parseopt_notrack` as pywbem uses it (p_error raises MOFParseError: no error recovery), instantiated
with the action/goto tables and the production list that PLY builds from the grammar in pywbem/_mof_compiler.py
(re-extracted on every run into Generated/MofParseTab.lean).  Semantic actions are NOT run here (they are modelled
in MofCompile.lean as far as C09 needs them): the driver decides accept / syntax error at token k.

Also: the mapping from the lexer model's tokens to terminal ids, and the whole syntax pipeline text -> outcome.
Lean core only.
-/
import Pywbem.Model.MofCompile
import Pywbem.Generated.MofParseTab

namespace Pywbem.Model.MofParse
open Pywbem.Proto Pywbem.Generated
open Pywbem.Model.MofLex (Str)
open Pywbem.Model.MofCompile

/-- the tables of an LR parser as PLY holds them, plus two derived tables used only by the well-formedness check -/
structure LRTable where
  actionRows : Array (List (Nat × Int))   -- parser.action
  gotoRows : Array (List (Nat × Nat))     -- parser.goto
  prods : Array (Nat × Nat × String)      -- parser.productions: lhs, len, function
  predRows : Array (List Nat)             -- derived: predecessor states
  rank : Array Nat                        -- derived: decreases along reduce-goto moves

/-- the terminal id of `$end` -/
def endTok : Nat := 0

def lookupRow {β} (row : List (Nat × β)) (k : Nat) : Option β := (row.find? (fun e => e.1 == k)).map (·.2)

/-- mirrors ply: `actions[state].get(ltype)` -/
def LRTable.action (t : LRTable) (s a : Nat) : Option Int := lookupRow (t.actionRows.getD s []) a

/-- mirrors ply: `goto[state][pname]` (KeyError = none) -/
def LRTable.goto (t : LRTable) (s nt : Nat) : Option Nat := lookupRow (t.gotoRows.getD s []) nt

/-- mirrors ply: LRParser.set_defaulted_states — a state whose only action is a reduction performs it without
    asking the lexer for a look-ahead token -/
def LRTable.defaulted (t : LRTable) (s : Nat) : Option Int :=
  match t.actionRows.getD s [] with
  | [e] => if e.2 < 0 then some e.2 else none
  | _ => none

def LRTable.prodLhs (t : LRTable) (p : Nat) : Nat := (t.prods.getD p (0, 0, "")).1
def LRTable.prodLen (t : LRTable) (p : Nat) : Nat := (t.prods.getD p (0, 0, "")).2.1
def LRTable.pred (t : LRTable) (s : Nat) : List Nat := t.predRows.getD s []
def LRTable.rankOf (t : LRTable) (s : Nat) : Nat := t.rank.getD s 0

/-- outcome of the parse of a token list -/
inductive LRResult where
  | accept (consumed : Nat)                 -- parser.parse returns
  | errorAt (k : Nat) (state : Nat)         -- p_error is called for token k (k = number of tokens: `$end`, p is None)
  | stuck (k : Nat) (state : Nat)           -- KeyError/IndexError inside ply (goto undefined, stack underflow, shift of `$end`)
  | outOfFuel
  deriving Repr, DecidableEq

/-- the action ply takes in state `s` with look-ahead `la` -/
def LRTable.decide (t : LRTable) (s la : Nat) : Option Int :=
  match t.defaulted s with
  | some r => some r
  | none => t.action s la

/-- mirrors ply.yacc.LRParser.parseopt_notrack: the parse loop.  `stack` = statestack (top first), `rest` = the tokens
    not yet shifted, `k` = number of tokens shifted; the look-ahead is the head of `rest`, or `$end`. -/
def lrRun (t : LRTable) : Nat → List Nat → List Nat → Nat → LRResult
  | 0, _, _, _ => .outOfFuel
  | fuel + 1, stack, rest, k =>
    match stack with
    | [] => .stuck k 0
    | s :: below =>
      match t.decide s (rest.headD endTok) with
      | none => .errorAt k s
      | some a =>
        if a > 0 then
          match rest with
          | [] => .stuck k s
          | _ :: rest' => lrRun t fuel (a.toNat :: s :: below) rest' (k + 1)
        else if a < 0 then
          let p := (-a).toNat
          match (s :: below).drop (t.prodLen p) with
          | [] => .stuck k s
          | b :: below' =>
            match t.goto b (t.prodLhs p) with
            | none => .stuck k s
            | some s' => lrRun t fuel (s' :: b :: below') rest k
        else .accept k

def LRTable.maxRank (t : LRTable) : Nat := t.rank.foldl max 0

/-- fuel that always suffices for a well-formed table (`lrRun_total` in Proofs/Lemmas/MofParse.lean) -/
def LRTable.fuelFor (t : LRTable) (n : Nat) : Nat := (n + 1) * (t.maxRank + 1) + 1

/-- parser.parse(tokens) -/
def lrParse (t : LRTable) (tokens : List Nat) : LRResult := lrRun t (t.fuelFor tokens.length) [0] tokens 0

/-! ## well-formedness of a table (decidable; evaluated for the extracted tables) -/

def addNew (x : Nat) (l : List Nat) : List Nat := if l.contains x then l else x :: l
def unionNew (a b : List Nat) : List Nat := a.foldr addNew b

/-- states `n` transitions back from `s` (as a duplicate-free list) -/
def LRTable.predN (t : LRTable) : Nat → Nat → List Nat
  | 0, s => [s]
  | n + 1, s => (t.predN n s).foldr (fun x acc => unionNew (t.pred x) acc) []

/-- the productions state `s` can reduce by -/
def LRTable.reduceProds (t : LRTable) (s : Nat) : List Nat :=
  (t.actionRows.getD s []).foldr (fun e acc => if e.2 < 0 then addNew (-e.2).toNat acc else acc) []

def allBelow (n : Nat) (p : Nat → Bool) : Bool := (List.range n).all p

/-- decidable well-formedness of LR tables:
    1. `predRows` is complete: every shift and goto transition s -> s' is recorded (s ∈ pred s'); no transition leads
       to state 0, and every target is a state;
    2. `$end` is never shifted, accept only on `$end`;
    3. for every state s and production p it can reduce by (lhs A, length n): the bottom state 0 is not reachable in
       fewer than n steps back (the stack is deep enough), and from every state b that is n steps back the goto on A
       is defined and leads to a state of smaller rank. -/
def LRTable.wf (t : LRTable) : Bool :=
  let n := t.actionRows.size
  t.gotoRows.size == n && t.predRows.size == n && t.rank.size == n &&
  allBelow n (fun s =>
    (t.actionRows.getD s []).all (fun e =>
      (if e.2 > 0 then e.2.toNat < n && e.2.toNat != 0 && (t.pred e.2.toNat).contains s && e.1 != endTok
       else if e.2 == 0 then e.1 == endTok else (-e.2).toNat < t.prods.size)) &&
    (t.gotoRows.getD s []).all (fun e => e.2 < n && e.2 != 0 && (t.pred e.2).contains s) &&
    (t.reduceProds s).all (fun p =>
      allBelow (t.prodLen p) (fun j => !(t.predN j s).contains 0) &&
      (t.predN (t.prodLen p) s).all (fun b =>
        match t.goto b (t.prodLhs p) with
        | some s' => t.rankOf s' < t.rankOf s
        | none => false)))

/-! ## the MOF grammar -/

/-- the tables PLY builds for the MOF grammar -/
def mofTable : LRTable :=
  { actionRows := mofActionRows, gotoRows := mofGotoRows, prods := mofProductions,
    predRows := mofPredRows, rank := mofRank }

/-- id of a terminal name; names that are not terminals of the grammar (PLY's `error` token type) get an id no action
    row mentions -/
def terminalId (name : String) : Nat := (mofTerminals.findIdx? (· == name)).getD mofTerminals.length

/-- the PLY token type of a lexer token: mirrors `t.type` as set by lex.py / the t_* rules -/
def tokenType (src : Str) (t : Tok) : String :=
  match t.kind with
  | .float => "floatValue" | .hex => "hexValue" | .binary => "binaryValue" | .octal => "octalValue"
  | .decimal => "decimalValue" | .charValue => "charValue" | .stringValue => "stringValue"
  | .ident => identType ((src.drop t.pos).take t.len)
  | .literal => String.singleton (Char.ofNat (src.getD t.pos 0))
  | _ => "error"

/-- outcome of the syntax analysis of a MOF text (lexer + LALR parse, no semantic actions) -/
inductive SyntaxOutcome where
  | accept
  | errorAtToken (t : Tok) (state : Nat)    -- p_error(token): MOFParseError with the position of that token
  | errorAtEnd (state : Nat)                -- p_error(None): MOFParseError "Unexpected end of MOF", no position
  | lexerRaised                             -- ValueError out of token() (more than 4300 digits)
  | engineFault                             -- stuck / out of fuel: excluded by C09_parser_total
  deriving Repr, DecidableEq

/-- the tokens the parser gets before an exception escapes from token() -/
def parserTokens (toks : List Tok) : List Tok := toks.takeWhile (fun t => t.kind != .raiseValueError)

/-- lexer + parser on a text.  If the lexer raises, the parser has consumed the tokens before; a syntax error among
    them comes first. -/
def parseText (src : Str) : SyntaxOutcome :=
  let toks := lexAll src
  let ptoks := parserTokens toks
  let raised := toks.any (fun t => t.kind == .raiseValueError)
  match lrRun mofTable (mofTable.fuelFor ptoks.length) [0] (ptoks.map (fun t => terminalId (tokenType src t))) 0 with
  | .accept _ => if raised then .lexerRaised else .accept
  | .errorAt k s =>
    match ptoks[k]? with
    | some t => .errorAtToken t s
    | none => if raised then .lexerRaised else .errorAtEnd s
  | _ => .engineFault

end Pywbem.Model.MofParse
