/-
C10 (reusable for C11/C13) — model of the mock WBEM server's instance store and of the six
instance operations as they run through

  pywbem/_cim_operations.py      WBEMConnection.CreateInstance / ModifyInstance / DeleteInstance /
                                 GetInstance / EnumerateInstances / EnumerateInstanceNames (client part:
                                 effective namespace, host/namespace stripping, result path completion)
  pywbem_mock/_wbemconnection_mock.py   FakedWBEMConnection._imeth_*
  pywbem_mock/_providerdispatcher.py    ProviderDispatcher.CreateInstance / ModifyInstance / DeleteInstance
  pywbem_mock/_instancewriteprovider.py InstanceWriteProvider.*
  pywbem_mock/_mainprovider.py          MainProvider.GetInstance / _get_instance / EnumerateInstances /
                                        EnumerateInstanceNames
  pywbem_mock/_inmemoryrepository.py    InMemoryObjectStore / InMemoryRepository
  pywbem/_cim_obj.py                    CIMInstanceName.__eq__/__hash__/from_instance, CIMInstance.update

State = namespaces (NocaseDict) -> { classes (resolved: all exposed properties), instances }.
The instance store of a namespace is a Python dict keyed by CIMInstanceName; dict lookup (hash, then
__eq__) is modelled as lookup by the *normal form* of the path (`normPath`: names lower-cased, keybindings
sorted by name, bool keys as ints – exactly what `__hash__`/`__eq__` are insensitive to).  The stored
value keeps its own `.path` (the code uses the dict key for GetInstance and `inst.path` for the
enumerations), so that "key and path agree" is a theorem, not a modelling decision.

Names are `List Char`; `lower` is ASCII lower-casing (the generators of K use ASCII names; Python's
`str.lower`/`casefold` on non-ASCII names is outside the model).
Embedded objects are values with a class name and an opaque canonical text (only `_validate_property`
looks inside: the class name).
Not modelled: qualifiers on instances (always stripped: IGNORE_INSTANCE_IQ_PARAM), class_origin
(always stripped), LocalOnly (INSTANCE_RETRIEVE_LOCAL_ONLY = False), user providers.
-/
import Pywbem.Proto
import Pywbem.Generated.Store

namespace Pywbem.Model.Store
open Pywbem.Proto
open Pywbem.Generated.Store

abbrev Name := List Char

/-- `str.lower()` restricted to ASCII -/
def lower (s : Name) : Name := s.map Char.toLower

/-- mirrors pywbem/_utils.py: _eq_name (both names not None) -/
def nameEq (a b : Name) : Bool := lower a == lower b

/-! ### values -/

/-- scalar CIM values as far as equality is concerned.  `int` = any CIM integer type or a Python int
    (Python compares them numerically whatever the CIM type); `other tag text` = datetime / real /
    anything else, by canonical text produced by the harness. char16 is a `str` subclass: `str`. -/
inductive Scalar where
  | str (s : Name)
  | int (v : Int)
  | bool (b : Bool)
  | other (tag : Name) (text : Name)
  deriving DecidableEq, Repr, Inhabited

/-- Python: `True == 1`, `hash(True) == hash(1)` -/
def normScalar : Scalar → Scalar
  | .bool b => .int (if b then 1 else 0)
  | s => s

/-- a path whose keybindings are scalars (target of a reference) -/
structure Path0 where
  cls  : Name
  ns   : Option Name
  host : Option Name
  keys : List (Name × Scalar)
  deriving DecidableEq, Repr, Inhabited

/-- a keybinding value / scalar property value -/
inductive KV where
  | sc (s : Scalar)
  | ref (p : Path0)
  deriving DecidableEq, Repr, Inhabited

/-- CIMInstanceName -/
structure Path where
  cls  : Name
  ns   : Option Name
  host : Option Name
  keys : List (Name × KV)
  deriving DecidableEq, Repr, Inhabited

/-- lexicographic order on names by code point (only used to pick a canonical keybinding order) -/
def leName : Name → Name → Bool
  | [], _ => true
  | _ :: _, [] => false
  | a :: as, b :: bs => a.toNat < b.toNat || (a.toNat == b.toNat && leName as bs)

def insertKey {α} (e : Name × α) : List (Name × α) → List (Name × α)
  | [] => [e]
  | x :: xs => if leName e.1 x.1 then e :: x :: xs else x :: insertKey e xs

def sortKeys {α} (l : List (Name × α)) : List (Name × α) := l.foldr insertKey []

def normPath0 (p : Path0) : Path0 :=
  { cls := lower p.cls, ns := p.ns.map lower, host := p.host.map lower,
    keys := sortKeys (p.keys.map (fun e => (lower e.1, normScalar e.2))) }

def normKV : KV → KV
  | .sc s => .sc (normScalar s)
  | .ref p => .ref (normPath0 p)

/-- what CIMInstanceName.__hash__ / __eq__ depend on:
    mirrors pywbem/_cim_obj.py: CIMInstanceName.__eq__, CIMInstanceName.__hash__ -/
def normPath (p : Path) : Path :=
  { cls := lower p.cls, ns := p.ns.map lower, host := p.host.map lower,
    keys := sortKeys (p.keys.map (fun e => (lower e.1, normKV e.2))) }

def pathEq (p q : Path) : Bool := normPath p == normPath q

/-- property values -/
inductive Val where
  | null
  | one (v : KV)
  | arr (xs : List (Option Scalar))
  | emb (isCls : Bool) (cls : Name) (text : Name)   -- embedded CIMInstance / CIMClass: class name + canonical text
  deriving DecidableEq, Repr, Inhabited

def normVal : Val → Val
  | .null => .null
  | .one v => .one (normKV v)
  | .arr xs => .arr (xs.map (fun o => o.map normScalar))
  | .emb b c t => .emb b c t

/-- arrays and embedded objects cannot be keybinding values (`_cim_keybinding` raises TypeError) -/
def notScalar : Val → Bool
  | .arr _ => true
  | .emb _ _ _ => true
  | _ => false

/-- Python `a != b` on property values -/
def valNe (a b : Val) : Bool := normVal a != normVal b

/-! ### schema and instances -/

/-- a property declaration of a (resolved) class as far as the instance operations look at it -/
structure PropDecl where
  name  : Name
  ty    : Name          -- CIM type name: "string", "uint8", …, "reference"
  isArr : Bool
  isKey : Bool          -- `'key' in prop.qualifiers`
  dflt  : Val           -- default value of the declaration
  embInst : Option Name := none   -- value of the EmbeddedInstance qualifier
  embObj  : Bool := false         -- `'EmbeddedObject' in prop.qualifiers`
  propagated : Bool := false      -- `prop.propagated` of the resolved class (inherited declaration)
  deriving DecidableEq, Repr, Inhabited

structure Cls where
  name    : Name
  super   : Option Name
  isAssoc : Bool         -- `klass.qualifiers.get('Association', False)`
  props   : List PropDecl
  deriving DecidableEq, Repr, Inhabited

/-- CIMProperty of an instance -/
structure PropV where
  name  : Name
  ty    : Name
  isArr : Bool
  val   : Val
  origin : Option Name := none        -- class_origin
  quals  : Bool := false              -- the property carries qualifiers
  propagated : Option Bool := none    -- propagated (stored and returned as given)
  deriving DecidableEq, Repr, Inhabited

/-- CIMInstance without path: classname as given by the client + NocaseDict of properties -/
structure Inst where
  cls   : Name
  props : List PropV
  quals : Bool := false               -- the instance carries qualifiers
  deriving DecidableEq, Repr, Inhabited

/-- one item of `InMemoryObjectStore._data`: dict key, and the stored instance with its own path -/
structure Stored where
  key  : Path
  path : Path
  inst : Inst
  deriving DecidableEq, Repr, Inhabited

structure NsEntry where
  name    : Name
  classes : List Cls
  insts   : List Stored
  deriving Repr, Inhabited

structure Repo where
  nss  : List NsEntry
  dflt : Name            -- conn.default_namespace
  deriving Repr, Inhabited

/-- instance as returned to the client -/
structure RInst where
  cls   : Name
  path  : Path
  props : List PropV
  quals : Bool := false
  deriving DecidableEq, Repr, Inhabited

/-- LocalOnly / IncludeQualifiers / IncludeClassOrigin of GetInstance and EnumerateInstances -/
structure RetOpts where
  lo  : Option Bool := none
  iq  : Option Bool := none
  ico : Option Bool := none
  deriving DecidableEq, Repr, Inhabited

inductive Op where
  | create (ns : Option Name) (inst : Inst)
  | modify (path : Path) (inst : Inst) (pl : Option (List Name))
  | delete (path : Path)
  | get (path : Path) (pl : Option (List Name)) (o : RetOpts := {})
  | enumInsts (ns : Option Name) (cls : Name) (di : Option Bool) (pl : Option (List Name)) (o : RetOpts := {})
  | enumNames (ns : Option Name) (cls : Name)
  deriving Repr, Inhabited

inductive Out where
  | path (p : Path)
  | unit
  | inst (i : RInst)
  | insts (l : List RInst)
  | paths (l : List Path)
  | err (e : PyExc)
  deriving Repr, DecidableEq, Inhabited

def errNs : Out := .err (.cimError cimErrInvalidNamespace)
def errParam : Out := .err (.cimError cimErrInvalidParameter)
def errClass : Out := .err (.cimError cimErrInvalidClass)
def errNotFound : Out := .err (.cimError cimErrNotFound)
def errExists : Out := .err (.cimError cimErrAlreadyExists)

/-! ### lookups (NocaseDict / dict) -/

/-- mirrors pywbem_mock/_inmemoryrepository.py: InMemoryRepository.validate_namespace -/
def findNs (r : Repo) (ns : Name) : Option NsEntry := r.nss.find? (fun e => nameEq e.name ns)

/-- `class_store.get(name)` / `object_exists` -/
def findCls (cs : List Cls) (n : Name) : Option Cls := cs.find? (fun c => nameEq c.name n)

def findDecl (c : Cls) (n : Name) : Option PropDecl := c.props.find? (fun d => nameEq d.name n)

def findProp (ps : List PropV) (n : Name) : Option PropV := ps.find? (fun p => nameEq p.name n)

/-- mirrors pywbem_mock/_inmemoryrepository.py: InMemoryObjectStore.get / object_exists -/
def lookupInst (insts : List Stored) (p : Path) : Option Stored := insts.find? (fun s => pathEq s.key p)

/-- replace the instance list of namespace `ns` -/
def setInsts (r : Repo) (ns : Name) (f : List Stored → List Stored) : Repo :=
  { r with nss := r.nss.map (fun e => if nameEq e.name ns then { e with insts := f e.insts } else e) }

/-- mirrors pywbem_mock/_inmemoryrepository.py: InMemoryObjectStore.update
    (`self._data[name] = obj` keeps the old dict key and the position) -/
def replaceInst (insts : List Stored) (p : Path) (newPath : Path) (i : Inst) : List Stored :=
  insts.map (fun s => if pathEq s.key p then { s with path := newPath, inst := i } else s)

/-- mirrors pywbem_mock/_inmemoryrepository.py: InMemoryObjectStore.delete -/
def deleteInst (insts : List Stored) (p : Path) : List Stored := insts.filter (fun s => !pathEq s.key p)

/-! ### client side -/

/-- mirrors pywbem/_cim_operations.py: WBEMConnection._iparam_namespace_from_namespace /
    _iparam_namespace_from_objectname -/
def effNs (r : Repo) (ns : Option Name) : Name := ns.getD r.dflt

/-- `_iparam_instancename` strips host and namespace; `_imeth_*` sets the namespace -/
def reqPath (ns : Name) (p : Path) : Path := { p with host := none, ns := some ns }

/-! ### property validation (dispatcher) -/

/-- mirrors pywbem_mock/_baseprovider.py: BaseProvider.is_subclass; `none` = KeyError from the class store -/
def isSubclass (cs : List Cls) : Nat → Name → Name → Option Bool
  | 0, _, _ => none
  | fuel + 1, k, sup =>
    match findCls cs k with
    | none => none
    | some kc =>
      if nameEq k sup then some true
      else match kc.super with
        | none => (match findCls cs sup with | none => none | some _ => some false)
        | some nxt => isSubclass cs fuel nxt sup

/-- the embedded-object part of `_validate_property` (after the fix: a class that is not in the repository
    makes the property invalid instead of raising KeyError) -/
def embOk (cs : List Cls) (d : PropDecl) (v : Val) : Bool :=
  match v with
  | .emb false ecls _ =>
    (match d.embInst with
     | some dcls => isSubclass cs (cs.length + 1) ecls dcls == some true
     | none => d.embObj)
  | .emb true _ _ => d.embObj
  | _ => true

/-- type-related attributes of a property agree with its declaration -/
def declOk (cs : List Cls) (d : PropDecl) (p : PropV) : Bool :=
  d.ty == p.ty && d.isArr == p.isArr && embOk cs d p.val

/-- mirrors pywbem_mock/_providerdispatcher.py: ProviderDispatcher._validate_property -/
def validProp (cs : List Cls) (c : Cls) (p : PropV) : Bool :=
  match findDecl c p.name with
  | none => false
  | some d => declOk cs d p

/-- "Adjust the lexical case of the property names … to match … the creation class" -/
def adjustName (c : Cls) (p : PropV) : PropV :=
  match findDecl c p.name with
  | some d => { p with name := d.name }
  | none => p

def adjustNames (c : Cls) (ps : List PropV) : List PropV := ps.map (adjustName c)

/-- mirrors pywbem/_cim_obj.py: _cim_keybinding on a property value -/
def keyOfVal (n : Name) (v : Val) : Except PyExc (Name × KV) :=
  match v with
  | .null => .error .valueError
  | .arr _ => .error .typeError
  | .emb _ _ _ => .error .typeError
  | .one k => .ok (n, k)

def keyDecls (c : Cls) : List PropDecl := c.props.filter (·.isKey)

/-- mirrors pywbem/_cim_obj.py: CIMInstanceName.from_instance (strict=True) -/
def fromInstance (c : Cls) (ps : List PropV) (ns : Name) : Except PyExc Path :=
  if (keyDecls c).any (fun d => (findProp ps d.name).isNone) then .error .valueError
  else
    match ((keyDecls c).filterMap (fun d => (findProp ps d.name).map (fun p => (d.name, p.val)))).mapM
        (fun e => keyOfVal e.1 e.2) with
    | .error e => .error e
    | .ok keys => .ok { cls := c.name, ns := some ns, host := none, keys := keys }

/-- mirrors pywbem_mock/_instancewriteprovider.py: InstanceWriteProvider.create_new_instance_path -/
def newInstancePath (c : Cls) (ps : List PropV) (ns : Name) : Except PyExc Path :=
  match fromInstance c ps ns with
  | .error .valueError => .error (.cimError cimErrInvalidParameter)
  | x => x

/-! ### association helpers (provider) -/

def tyReference : Name := "reference".toList

def isRef (p : PropV) : Bool := p.ty == tyReference

def path0ToPath (p : Path0) : Path :=
  { cls := p.cls, ns := p.ns, host := p.host, keys := p.keys.map (fun e => (e.1, KV.sc e.2)) }

/-- mirrors pywbem_mock/_instancewriteprovider.py: InstanceWriteProvider.validate_reference_property_endpoint_exists
    + validate_instance_exists; `none` = ok -/
def checkEndpoint (r : Repo) (v : Val) : Option PyExc :=
  match v with
  | .one (.ref p) =>
    if (match p.host with | some h => !h.isEmpty | none => false) then some (.cimError cimErrInvalidParameter)
    else match p.ns with
      | none => some (.cimError cimErrInvalidParameter)
      | some ns =>
        match findNs r ns with
        | none => some (.cimError cimErrInvalidParameter)
        | some e => if (lookupInst e.insts (path0ToPath p)).isSome then none
                    else some (.cimError cimErrInvalidParameter)
  | .one (.sc _) => some .attributeError      -- a non-path value in a reference property: `.host` fails
  | .arr _ => some .attributeError
  | .emb _ _ _ => some .attributeError
  | .null => none

/-- first error of a list of checks -/
def firstErr {α} (f : α → Option PyExc) : List α → Option PyExc
  | [] => none
  | x :: xs => match f x with | some e => some e | none => firstErr f xs

/-- CreateInstance: every non-NULL reference property must name an existing instance -/
def checkRefsCreate (r : Repo) (ps : List PropV) : Option PyExc :=
  firstErr (fun p => if isRef p then (match p.val with | .null => none | v => checkEndpoint r v) else none) ps

/-- namespace of a reference value -/
def refNs (v : Val) : Option Name :=
  match v with
  | .one (.ref p) => p.ns
  | _ => none

/-- NocaseList append-if-absent -/
def addNs (acc : List Name) (n : Name) : List Name := if acc.any (nameEq · n) then acc else acc ++ [n]

/-- mirrors pywbem_mock/_instancewriteprovider.py: InstanceWriteProvider.find_multins_association_ref_namespaces
    (after the fixes: NULL ends skipped, namespaces compared case-insensitively) -/
def multiNs (ps : List PropV) (target : Name) : List Name :=
  ps.foldl (fun acc p =>
    if isRef p then
      match refNs p.val with
      | some n => if !n.isEmpty && !nameEq n target then addNs acc n else acc
      | none => acc
    else acc) []

/-! ### CreateInstance -/

/-- mirrors pywbem_mock/_instancewriteprovider.py: InstanceWriteProvider.add_new_instance
    (store.create raises ValueError when the key exists) -/
def addNew (r : Repo) (ns : Name) (path : Path) (i : Inst) : Option Repo :=
  match findNs r ns with
  | none => none
  | some e =>
    if (lookupInst e.insts path).isSome then none
    else some (setInsts r ns (fun l => l ++ [{ key := path, path := path, inst := i }]))

def createSingle (r : Repo) (c : Cls) (i : Inst) (ns : Name) : Repo × Out :=
  match newInstancePath c i.props ns with
  | .error e => (r, .err e)
  | .ok path =>
    match addNew r ns path i with
    | none => (r, errExists)
    | some r' => (r', .path path)

/-- mirrors pywbem_mock/_instancewriteprovider.py: InstanceWriteProvider.get_required_class
    (`get_class_store` raises KeyError for a namespace that does not exist); `none` = ok -/
def classIn (r : Repo) (cls : Name) (ns : Name) : Option PyExc :=
  match findNs r ns with
  | none => some .keyError
  | some e => if (findCls e.classes cls).isSome then none else some (.cimError cimErrInvalidClass)

def existsIn (r : Repo) (ns : Name) (p : Path) : Bool :=
  match findNs r ns with
  | none => false
  | some e => (lookupInst e.insts p).isSome

/-- store `i` under `{path with ns}` in every namespace of `nsl` -/
def addAll (r : Repo) (path : Path) (i : Inst) : List Name → Repo
  | [] => r
  | ns :: rest =>
    let p := { path with ns := some ns }
    addAll (setInsts r ns (fun l => l ++ [{ key := p, path := p, inst := i }])) path i rest

/-- mirrors pywbem_mock/_instancewriteprovider.py: InstanceWriteProvider.create_multi_namespace_instance -/
def createMulti (r : Repo) (c : Cls) (i : Inst) (orig : Name) (others : List Name) : Repo × Out :=
  let nsl := others ++ [orig]
  match firstErr (classIn r i.cls) nsl with
  | some ex => (r, .err ex)
  | none =>
    match newInstancePath c i.props orig with
    | .error e => (r, .err e)
    | .ok path =>
      if nsl.any (fun n => existsIn r n { path with ns := some n }) then (r, errExists)
      else (addAll r path i nsl, .path path)

/-- mirrors pywbem_mock/_providerdispatcher.py: ProviderDispatcher.CreateInstance and
    pywbem_mock/_instancewriteprovider.py: InstanceWriteProvider.CreateInstance -/
def stepCreate (r : Repo) (nsArg : Option Name) (inst : Inst) : Repo × Out :=
  let ns := effNs r nsArg
  match findNs r ns with
  | none => (r, errNs)
  | some e =>
    match findCls e.classes inst.cls with
    | none => (r, errClass)
    | some c =>
      if !(inst.props.all (validProp e.classes c)) then (r, errParam)
      else
        let i : Inst := { cls := inst.cls, props := adjustNames c inst.props, quals := inst.quals }
        if c.isAssoc then
          match checkRefsCreate r i.props with
          | some ex => (r, .err ex)
          | none =>
            let others := multiNs i.props ns
            if others.isEmpty then createSingle r c i ns
            else createMulti r c i ns others
        else createSingle r c i ns

/-! ### ModifyInstance -/

/-- PropertyList names must be exposed by the creation class -/
def plBad (c : Cls) (pl : Option (List Name)) : Bool :=
  match pl with
  | none => false
  | some l => l.any (fun pn => (findDecl c pn).isNone)

/-- key properties cannot change: `prop_cls.qualifiers.get('key') and prop_inst.value != instance[pn]`;
    `instance[pn]` raises KeyError when the stored instance lacks the property -/
def keyCheck (cs : List Cls) (c : Cls) (stored : List PropV) (p : PropV) : Option PyExc :=
  match findDecl c p.name with
  | none => some (.cimError cimErrInvalidParameter)
  | some d =>
    if !(declOk cs d p) then some (.cimError cimErrInvalidParameter)
    else if d.isKey then
      match findProp stored p.name with
      | none => some .keyError
      | some sp => if valNe p.val sp.val then some (.cimError cimErrInvalidParameter) else none
    else none

def inPl (pl : List Name) (n : Name) : Bool := pl.any (nameEq · n)

/-- a property named in PropertyList but missing in ModifiedInstance gets the class default
    (mirrors the dispatcher after the fix: the CIMProperty is built from the declaration) -/
def plDefaults (c : Cls) (ps : List PropV) (pl : List Name) : List PropV :=
  pl.foldl (fun acc pn =>
    if (findProp acc pn).isSome then acc
    else match findDecl c pn with
      | some d => acc ++ [{ name := d.name, ty := d.ty, isArr := d.isArr, val := d.dflt }]
      | none => acc) ps

/-- key properties named in PropertyList and missing in ModifiedInstance would be reset to the class
    default: rejected unless the default is the stored value (dispatcher after the fix) -/
def plKeyCheck (c : Cls) (stored : List PropV) (ps : List PropV) (pl : List Name) : Option PyExc :=
  firstErr (fun pn =>
    if (findProp ps pn).isSome then none
    else match findDecl c pn with
      | some d =>
        if d.isKey then
          match findProp stored pn with
          | none => some .keyError
          | some sp => if valNe d.dflt sp.val then some (.cimError cimErrInvalidParameter) else none
        else none
      | none => none) pl

/-- "Reduce modified_instance to have just the properties to be modified" -/
def reduceByPl (c : Cls) (ps : List PropV) (pl : Option (List Name)) : List PropV :=
  match pl with
  | none => ps
  | some l => (plDefaults c ps l).filter (fun p => inPl l p.name)

/-- mirrors pywbem/_cim_obj.py: CIMInstance.update with a NocaseDict of CIMProperty
    (existing names keep their position, new names are appended) -/
def updateProps (old : List PropV) (new : List PropV) : List PropV :=
  new.foldl (fun acc p =>
    if (findProp acc p.name).isSome then acc.map (fun q => if nameEq q.name p.name then p else q)
    else acc ++ [p]) old

/-- ModifyInstance (provider): NULL reference ends are refused, changed ends must exist -/
def checkRefsModify (r : Repo) (stored : List PropV) (ps : List PropV) : Option PyExc :=
  firstErr (fun p =>
    if isRef p then
      match p.val with
      | .null => some (.cimError cimErrInvalidParameter)
      | v =>
        match findProp stored p.name with
        | none => checkEndpoint r v            -- `pn not in original_instance`
        | some sp => if valNe v sp.val then checkEndpoint r v else none
    else none) ps

/-- replace in every namespace of `nsl` the instance stored under `{path with ns}` -/
def replaceAll (r : Repo) (path : Path) (i : Inst) : List Name → Repo
  | [] => r
  | ns :: rest =>
    let p := { path with ns := some ns }
    replaceAll (setInsts r ns (fun l => replaceInst l p p i)) path i rest

/-- mirrors pywbem_mock/_instancewriteprovider.py: InstanceWriteProvider.modify_multi_namespace_instance
    (after the fix: one copy per namespace) -/
def modifyMulti (r : Repo) (path : Path) (i : Inst) (others : List Name) : Repo × Out :=
  let nsl := others ++ [(path.ns.getD [])]
  match firstErr (classIn r i.cls) nsl with
  | some ex => (r, .err ex)
  | none =>
    if nsl.any (fun n => !existsIn r n { path with ns := some n }) then (r, errNotFound)
    else (replaceAll r path i nsl, .unit)

/-- mirrors pywbem_mock/_providerdispatcher.py: ProviderDispatcher.ModifyInstance and
    pywbem_mock/_instancewriteprovider.py: InstanceWriteProvider.ModifyInstance -/
def stepModify (r : Repo) (path : Path) (inst : Inst) (pl : Option (List Name)) : Repo × Out :=
  let ns := effNs r path.ns
  let p := reqPath ns path
  if !nameEq inst.cls p.cls then (r, errParam)
  else
    match findNs r ns with
    | none => (r, errNs)
    | some e =>
      match findCls e.classes inst.cls with
      | none => (r, errClass)
      | some c =>
        match lookupInst e.insts p with
        | none => (r, errNotFound)
        | some st =>
          if plBad c pl then (r, errParam)
          else
            match firstErr (keyCheck e.classes c st.inst.props) inst.props with
            | some ex => (r, .err ex)
            | none =>
              match plKeyCheck c st.inst.props inst.props (pl.getD []) with
              | some ex => (r, .err ex)
              | none =>
                let ps := adjustNames c (reduceByPl c inst.props pl)
                match (if c.isAssoc then checkRefsModify r st.inst.props ps else none) with
                | some ex => (r, .err ex)
                | none =>
                  let ni : Inst := { cls := st.inst.cls, props := updateProps st.inst.props ps, quals := st.inst.quals }
                  let others := if c.isAssoc then multiNs ni.props ns else []
                  if others.isEmpty then
                    -- `instance_store.update(original_instance.path, …)`: KeyError if that is no key
                    if (lookupInst e.insts st.path).isNone then (r, .err .keyError)
                    else (setInsts r ns (fun l => replaceInst l st.path st.path ni), .unit)
                  else modifyMulti r st.path ni others

/-! ### DeleteInstance -/

/-- delete in every namespace of `nsl` the instance stored under `{path with ns}` if it is there (after the
    fix); `get_instance_store` raises KeyError for a namespace that does not exist -/
def deleteAll (r : Repo) (path : Path) : List Name → Option Repo
  | [] => some r
  | ns :: rest =>
    let p := { path with ns := some ns }
    match findNs r ns with
    | none => none
    | some _ => deleteAll (setInsts r ns (fun l => deleteInst l p)) path rest

/-- mirrors pywbem_mock/_providerdispatcher.py: ProviderDispatcher.DeleteInstance and
    pywbem_mock/_instancewriteprovider.py: InstanceWriteProvider.DeleteInstance -/
def stepDelete (r : Repo) (path : Path) : Repo × Out :=
  let ns := effNs r path.ns
  let p := reqPath ns path
  match findNs r ns with
  | none => (r, errNs)
  | some e =>
    match findCls e.classes p.cls with
    | none => (r, errClass)
    | some c =>
      match lookupInst e.insts p with
      | none => (r, errNotFound)
      | some st =>
        let others := if c.isAssoc then multiNs st.inst.props ns else []
        if others.isEmpty then (setInsts r ns (fun l => deleteInst l p), .unit)
        else
          -- get_required_class(stored instance, namespace) inside find_multins…: the stored classname
          match deleteAll r p (others ++ [ns]) with
          | some r' => (r', .unit)
          | none => (r, .err .keyError)

/-! ### GetInstance / enumerations -/

/-- mirrors pywbem_mock/_baseprovider.py: BaseProvider.filter_properties -/
def filterProps (pl : Option (List Name)) (ps : List PropV) : List PropV :=
  match pl with
  | none => ps
  | some l => ps.filter (fun p => inPl l p.name)

/-- mirrors pywbem_mock/_baseprovider.py: BaseProvider._remove_qualifiers (instance part) -/
def removeQualifiers (ps : List PropV) : List PropV := ps.map (fun p => { p with quals := false })

/-- mirrors pywbem_mock/_baseprovider.py: BaseProvider._remove_classorigin -/
def removeClassOrigin (ps : List PropV) : List PropV := ps.map (fun p => { p with origin := none })

/-- what retrieval answers with the configuration the mock ships: properties filtered by the PropertyList,
    without qualifiers and class origins; no instance qualifiers -/
def retrieveSimple (pl : Option (List Name)) (i : Inst) : List PropV × Bool :=
  (removeClassOrigin (removeQualifiers (filterProps pl i.props)), false)

/-- non-propagated property declarations (`get_class(local_only=True)`) -/
def localDecls (c : Cls) : List PropDecl := c.props.filter (fun d => !d.propagated)

/-- mirrors pywbem_mock/_mainprovider.py: MainProvider._get_instance after the lookup, with the constants
    INSTANCE_RETRIEVE_LOCAL_ONLY (GetInstance / EnumerateInstances overwrite their LocalOnly argument with it),
    IGNORE_INSTANCE_IQ_PARAM and IGNORE_INSTANCE_ICO_PARAM as regenerated from the source.
    `reqCls` = class name of the instance name the lookup was done with. -/
def getInstancePost (classes : List Cls) (reqCls : Name) (o : RetOpts) (pl : Option (List Name)) (i : Inst) :
    Except PyExc (List PropV × Bool) :=
  let localOnly := instanceRetrieveLocalOnly
  let ps1 := if localOnly then
      i.props.filter (fun p => match p.origin with | some co => co.isEmpty || co == i.cls | none => true)
    else i.props
  let r2 : Except PyExc (List PropV) :=
    if localOnly then
      match findCls classes reqCls with
      | none => .error (.cimError cimErrInvalidClass)
      | some c => .ok (ps1.filter (fun p => (localDecls c).any (fun d => nameEq d.name p.name)))
    else .ok ps1
  match r2 with
  | .error e => .error e
  | .ok ps2 =>
    let ps3 := filterProps pl ps2
    let stripQ := ignoreInstanceIqParam || !(o.iq.getD false)
    let ps4 := if stripQ then removeQualifiers ps3 else ps3
    let q := if stripQ then false else i.quals
    let stripO := ignoreInstanceIcoParam || !(o.ico.getD false)
    let ps5 := if stripO then removeClassOrigin ps4 else ps4
    .ok (ps5, q)

/-- mirrors pywbem_mock/_mainprovider.py: MainProvider.GetInstance, MainProvider._get_instance;
    result path completed as in WBEMConnection.GetInstance -/
def stepGet (r : Repo) (path : Path) (pl : Option (List Name)) (o : RetOpts := {}) : Repo × Out :=
  let ns := effNs r path.ns
  let p := reqPath ns path
  match findNs r ns with
  | none => (r, errNs)
  | some e =>
    if (findCls e.classes p.cls).isNone then (r, errClass)
    else
      match lookupInst e.insts p with
      | none => (r, errNotFound)
      | some st =>
        match getInstancePost e.classes p.cls o pl st.inst with
        | .error ex => (r, .err ex)
        | .ok x => (r, .inst { cls := st.inst.cls, path := p, props := x.1, quals := x.2 })

/-- `c` is `target` or one of its (transitive) subclasses; walks up the superclass chain with fuel.
    stands for pywbem_mock/_mainprovider.py: MainProvider._get_subclass_list_for_enums, which walks
    down from `target`: that walk is mirrored in Model/StoreSubclass.lean and proved to select the same
    classes (Proofs/Lemmas/StoreSubclass.lean, theorem C10_subclass_walk_down_is_up) -/
def descends (cs : List Cls) : Nat → Name → Name → Bool
  | 0, c, target => nameEq c target
  | fuel + 1, c, target =>
    nameEq c target ||
      (match findCls cs c with
       | some cl => (match cl.super with | some s => descends cs fuel s target | none => false)
       | none => false)

def inEnum (e : NsEntry) (target : Name) (s : Stored) : Bool :=
  descends e.classes e.classes.length s.path.cls target

/-- EnumerateInstances: property list after the DeepInheritance reduction -/
def enumPl (c : Cls) (di : Option Bool) (pl : Option (List Name)) : Option (List Name) :=
  if di.getD defaultDeepInheritance then pl
  else
    match pl with
    | none => some (c.props.map (·.name))
    | some l => some ((c.props.map (·.name)).filter (fun n => inPl l n))

/-- `_get_instance(inst.path, …)` for each selected instance; NOT_FOUND if `inst.path` is no key -/
def enumCollect (ns : Name) (classes : List Cls) (o : RetOpts) (all : List Stored) (pl : Option (List Name)) :
    List Stored → Except PyExc (List RInst)
  | [] => .ok []
  | s :: rest =>
    match lookupInst all s.path with
    | none => .error (.cimError cimErrNotFound)
    | some st =>
      match getInstancePost classes s.path.cls o pl st.inst with
      | .error e => .error e
      | .ok x =>
        match enumCollect ns classes o all pl rest with
        | .error e => .error e
        | .ok l => .ok ({ cls := st.inst.cls, path := { st.path with host := none, ns := some ns },
                          props := x.1, quals := x.2 } :: l)

/-- mirrors pywbem_mock/_mainprovider.py: MainProvider.EnumerateInstances; namespace of the result
    paths set as in WBEMConnection.EnumerateInstances -/
def stepEnumInsts (r : Repo) (nsArg : Option Name) (cls : Name) (di : Option Bool)
    (pl : Option (List Name)) (o : RetOpts := {}) : Repo × Out :=
  let ns := effNs r nsArg
  match findNs r ns with
  | none => (r, errNs)
  | some e =>
    match findCls e.classes cls with
    | none => (r, errClass)
    | some c =>
      match enumCollect ns e.classes o e.insts (enumPl c di pl) (e.insts.filter (inEnum e cls)) with
      | .error ex => (r, .err ex)
      | .ok l => (r, .insts l)

/-- mirrors pywbem_mock/_mainprovider.py: MainProvider.EnumerateInstanceNames -/
def stepEnumNames (r : Repo) (nsArg : Option Name) (cls : Name) : Repo × Out :=
  let ns := effNs r nsArg
  match findNs r ns with
  | none => (r, errNs)
  | some e =>
    if (findCls e.classes cls).isNone then (r, errClass)
    else (r, .paths ((e.insts.filter (inEnum e cls)).map (fun s => { s.path with ns := some ns })))

def step (r : Repo) (op : Op) : Repo × Out :=
  match op with
  | .create ns i => stepCreate r ns i
  | .modify p i pl => stepModify r p i pl
  | .delete p => stepDelete r p
  | .get p pl o => stepGet r p pl o
  | .enumInsts ns c di pl o => stepEnumInsts r ns c di pl o
  | .enumNames ns c => stepEnumNames r ns c

def run (r : Repo) : List Op → Repo × List Out
  | [] => (r, [])
  | op :: ops =>
    let x := step r op
    let y := run x.1 ops
    (y.1, x.2 :: y.2)

end Pywbem.Model.Store
