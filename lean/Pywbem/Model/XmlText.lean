/-
C01/C02/C03 — the text- and attribute-level layer of the CIM-XML wire.

Sending side  = xml.dom.minidom `_write_data` (Python 3.12: `&` `<` `"` `>` are replaced, for
                text nodes and attribute values alike; nothing else).
  mirrors pywbem/_cim_xml.py: _text, _pcdata_nodes        (XML-escaping branch; `_CDATA_ESCAPING` False)
Receiving side = expat as driven by xml.sax (pywbem/_tupletree.py: xml_to_tupletree_sax,
                CIMContentHandler.characters): entity / character references are decoded, literal
                CR LF and CR become LF in character data (XML 1.0 §2.11), literal TAB/LF/CR become a
                blank in attribute values (§3.3.3), characters outside the XML `Char` production are
                rejected.
Both receiving functions are single-pass state machines (structural recursion over the input).
-/
namespace Pywbem.Model.XmlText

abbrev Str := List Char

/-- XML 1.0 `Char` production -/
def isXmlChar (c : Char) : Bool :=
  let n := c.toNat
  n == 0x9 || n == 0xA || n == 0xD || (0x20 ≤ n && n ≤ 0xD7FF) || (0xE000 ≤ n && n ≤ 0xFFFD) ||
    (0x10000 ≤ n && n ≤ 0x10FFFF)

/-- minidom `_write_data` for one character -/
def escChar (c : Char) : Str :=
  if c = '&' then "&amp;".toList
  else if c = '<' then "&lt;".toList
  else if c = '"' then "&quot;".toList
  else if c = '>' then "&gt;".toList
  else [c]

/-- minidom `_write_data`: the `.replace` chain, which equals a per-character map because `&` goes first -/
def esc : Str → Str
  | [] => []
  | c :: cs => escChar c ++ esc cs

def hexVal (c : Char) : Option Nat :=
  if '0' ≤ c ∧ c ≤ '9' then some (c.toNat - '0'.toNat)
  else if 'a' ≤ c ∧ c ≤ 'f' then some (c.toNat - 'a'.toNat + 10)
  else if 'A' ≤ c ∧ c ≤ 'F' then some (c.toNat - 'A'.toNat + 10)
  else none

def decVal (c : Char) : Option Nat :=
  if '0' ≤ c ∧ c ≤ '9' then some (c.toNat - '0'.toNat) else none

def numOf (digit : Char → Option Nat) (base : Nat) : Str → Option Nat
  | [] => none
  | cs => cs.foldl (fun acc c => match acc, digit c with
      | some a, some d => some (a * base + d)
      | _, _ => none) (some 0)

/-- resolve the text between `&` and `;` -/
def resolve (name : Str) : Option Char :=
  if name = "amp".toList then some '&'
  else if name = "lt".toList then some '<'
  else if name = "gt".toList then some '>'
  else if name = "quot".toList then some '"'
  else if name = "apos".toList then some '\''
  else match name with
    | '#' :: 'x' :: hs =>
      match numOf hexVal 16 hs with
      | some n => if n < 0x110000 ∧ isXmlChar (Char.ofNat n) then some (Char.ofNat n) else none
      | none => none
    | '#' :: ds =>
      match numOf decVal 10 ds with
      | some n => if n < 0x110000 ∧ isXmlChar (Char.ofNat n) then some (Char.ofNat n) else none
      | none => none
    | _ => none

inductive Mode where
  | txt (skipLF : Bool)       -- in character data; skipLF: the previous literal char was CR
  | ent (acc : Str)           -- between `&` and `;`
  deriving Repr

/-- character data as the SAX handler receives it -/
def recvText : Mode → Str → Option Str
  | .txt _, [] => some []
  | .ent _, [] => none
  | .txt skip, c :: cs =>
    if c = '&' then recvText (.ent []) cs
    else if c = '<' then none
    else if !isXmlChar c then none
    else if c = '\r' then (recvText (.txt true) cs).map ('\n' :: ·)
    else if c = '\n' ∧ skip = true then recvText (.txt false) cs
    else (recvText (.txt false) cs).map (c :: ·)
  | .ent acc, c :: cs =>
    if c = ';' then
      match resolve acc with
      | some ch => (recvText (.txt false) cs).map (ch :: ·)
      | none => none
    else recvText (.ent (acc ++ [c])) cs

/-- attribute value as the SAX handler receives it (attribute-value normalisation) -/
def recvAttr : Mode → Str → Option Str
  | .txt _, [] => some []
  | .ent _, [] => none
  | .txt skip, c :: cs =>
    if c = '&' then recvAttr (.ent []) cs
    else if c = '<' then none
    else if c = '"' then none                      -- would end the literal
    else if !isXmlChar c then none
    else if c = '\r' then (recvAttr (.txt true) cs).map (' ' :: ·)
    else if c = '\n' ∧ skip = true then recvAttr (.txt false) cs
    else if c = '\n' ∨ c = '\t' then (recvAttr (.txt false) cs).map (' ' :: ·)
    else (recvAttr (.txt false) cs).map (c :: ·)
  | .ent acc, c :: cs =>
    if c = ';' then
      match resolve acc with
      | some ch => (recvAttr (.txt false) cs).map (ch :: ·)
      | none => none
    else recvAttr (.ent (acc ++ [c])) cs

/-- what end-of-line normalisation does to a literal string -/
def normEOL : Bool → Str → Str
  | _, [] => []
  | skip, c :: cs =>
    if c = '\r' then '\n' :: normEOL true cs
    else if c = '\n' ∧ skip = true then normEOL false cs
    else c :: normEOL false cs

/-- what attribute-value normalisation does to a literal string -/
def normAttr : Bool → Str → Str
  | _, [] => []
  | skip, c :: cs =>
    if c = '\r' then ' ' :: normAttr true cs
    else if c = '\n' ∧ skip = true then normAttr false cs
    else if c = '\n' ∨ c = '\t' then ' ' :: normAttr false cs
    else c :: normAttr false cs

/-- the wire at text level: what the receiver sees of a string the sender wrote -/
def wireText (s : Str) : Option Str := recvText (.txt false) (esc s)
def wireAttr (s : Str) : Option Str := recvAttr (.txt false) (esc s)

end Pywbem.Model.XmlText
