/-
XML trees as pywbem builds them (minidom Element / Text) and as it receives them (tupletree),
and the serialiser.

mirrors xml.dom.minidom: Element.writexml, Text.writexml  (toxml(): indent = addindent = newl = "")
mirrors pywbem/_tupletree.py: CIMContentHandler (tupletree = (name, attrs, children))
-/
import Pywbem.Model.XmlText

namespace Pywbem.Model
open Pywbem.Model.XmlText

inductive Xml where
  | elem (name : Str) (attrs : List (Str × Str)) (kids : List Xml)
  | text (s : Str)
  deriving Repr, Inhabited

namespace Xml

def serAttrs : List (Str × Str) → Str
  | [] => []
  | (k, v) :: rest => ' ' :: k ++ '=' :: '"' :: esc v ++ '"' :: serAttrs rest

mutual
/-- minidom `toxml()` (no XML declaration, no indentation) -/
def ser : Xml → Str
  | .text s => esc s
  | .elem n as ks =>
    match ks with
    | [] => '<' :: n ++ serAttrs as ++ "/>".toList
    | k :: ks' => '<' :: n ++ serAttrs as ++ '>' :: serList (k :: ks') ++ '<' :: '/' :: n ++ ['>']
def serList : List Xml → Str
  | [] => []
  | k :: ks => ser k ++ serList ks
end

def name : Xml → Str
  | .elem n _ _ => n
  | .text _ => []

def isElem : Xml → Bool
  | .elem .. => true
  | .text _ => false

/-- tupleparse `attrs(t).get(k)` -/
def attr (as : List (Str × Str)) (k : Str) : Option Str :=
  match as.find? (fun p => p.1 == k) with
  | some p => some p.2
  | none => none

/-- tupleparse `kids(t)`: element children only -/
def elemKids : List Xml → List Xml
  | [] => []
  | .text _ :: ks => elemKids ks
  | k :: ks => k :: elemKids ks

/-- tupleparse `pcdata(t)`: concatenation of ALL children taken as text (the code does ''.join(k),
    which raises TypeError when an element child is present; check_node has rejected that before) -/
def pcdata : List Xml → Str
  | [] => []
  | .text s :: ks => s ++ pcdata ks
  | .elem .. :: ks => pcdata ks

end Xml
end Pywbem.Model
