/-
C03 — the data types a DTD is represented with (used by the generated table
`Pywbem/Generated/Dtd.lean` and by the validator `Pywbem/Model/Dtd.lean`).

A content model is a regular expression over child element names.  The binary core (`Re`) is what the
matcher and its correctness proof work on; the n-ary forms of the DTD syntax (`seqs`, `alts`, `opt`,
`plus`) are definitions on top of it.
-/
namespace Pywbem.Model.Dtd

abbrev Name := List Char

inductive Re where
  | none                      -- ∅ (matches nothing; only produced by derivatives)
  | eps                       -- ε
  | sym (n : Name)
  | seq (a b : Re)
  | alt (a b : Re)
  | star (a : Re)
  deriving Repr, DecidableEq, Inhabited

namespace Re
/-- `(a, b, c)` -/
def seqs : List Re → Re
  | [] => .eps
  | [r] => r
  | r :: rs => .seq r (seqs rs)
/-- `(a | b | c)` -/
def alts : List Re → Re
  | [] => .none
  | [r] => r
  | r :: rs => .alt r (alts rs)
/-- `a?` -/
def opt (r : Re) : Re := .alt r .eps
/-- `a+` -/
def plus (r : Re) : Re := .seq r (.star r)
end Re

/-- contentspec of an `<!ELEMENT …>` declaration -/
inductive Content where
  | empty                              -- EMPTY
  | any                                -- ANY
  | pcdata                             -- (#PCDATA)
  | mixed (names : List Name)          -- (#PCDATA | a | b)*
  | children (r : Re)
  deriving Repr, Inhabited

inductive AttType where
  | cdata
  | nmtoken
  | enum (vals : List Name)
  | other                              -- ID, IDREF, ENTITY, NOTATION …: not used by DSP0203, rejected by the validator
  deriving Repr, Inhabited

inductive AttDefault where
  | required
  | implied
  | fixed (v : Name)
  | dflt (v : Name)
  deriving Repr, Inhabited

structure AttDecl where
  name : Name
  ty : AttType
  dflt : AttDefault
  deriving Repr, Inhabited

structure ElemDecl where
  name : Name
  content : Content
  atts : List AttDecl
  deriving Repr, Inhabited

abbrev Dtd := List ElemDecl

end Pywbem.Model.Dtd
