/-
C07 — model of pywbem's untyped WBEM URI printer and parser.

mirrors pywbem/_cim_obj.py: CIMInstanceName.to_wbem_uri, CIMClassName.to_wbem_uri,
  CIMInstanceName.__str__ (= historical format), CIMInstanceName.from_wbem_uri,
  CIMClassName.from_wbem_uri, CIMInstanceName._kbstr_to_cimval and the regular expressions
  WBEM_URI_CLASSPATH_REGEXP, WBEM_URI_INSTANCEPATH_REGEXP, WBEM_URI_KEYBINDINGS_REGEXP,
  WBEM_URI_KB_FINDALL_REGEXP (hand-written recognisers, see `parseHead`, `scanVal`, `scanAssigns`)
mirrors pywbem/_utils.py: _integerValue_to_int, _realValue_to_float (BINARY/OCTAL/DECIMAL/HEX/REAL_VALUE)
mirrors pywbem/_cim_types.py: CIMDateTime.__init__ for strings (after the C06 fixes: `[0-9]`, `[+-]`, `\Z`), only as the *recogniser* `dtAccepts`
  (does the constructor raise ValueError or not); the value itself is C06's business.
mirrors pywbem/_cim_http.py: get_cimobject_header (= format `cimobject`)

Strings are `List Char`.  Python's `\w` (re.UNICODE), `str.lower()` and `str.casefold()` are the
parameter record `Tab`; the driver instantiates it with the ASCII definitions below plus a table the
harness computes with the real Python for the non-ASCII characters of the request.
A float is carried as decimal text (`repr(float)` on the way out, the matched literal on the way in):
the text <-> double conversion of CPython is not modelled (hypothesis record in the proofs).
A datetime is carried as its 25-character text.

The model mirrors the code *after* the C07 fixes (Real32 repr, exponent form, host characters) and
*including* the open findings (newline in a string key, namespace characters, historical format with
host but without namespace).
-/
import Pywbem.Proto
import Pywbem.Generated.Uri

namespace Pywbem.Model.Uri
open Pywbem.Proto

abbrev Str := List Char

/-! ## character tables (third-party behaviour as a parameter) -/

structure Tab where
  word  : Char → Bool          -- re: `\w` with re.UNICODE
  lower : Char → List Char     -- str.lower(), character-wise
  fold  : Char → List Char     -- str.casefold(), character-wise

def Tab.lowerS (T : Tab) (s : Str) : Str := s.flatMap T.lower
def Tab.foldS (T : Tab) (s : Str) : Str := s.flatMap T.fold

def asciiWord (c : Char) : Bool := c.isAlphanum || c == '_'

/-- str.lower() on an ASCII character -/
def lowerAscii (c : Char) : Char := if 65 ≤ c.toNat ∧ c.toNat ≤ 90 then Char.ofNat (c.toNat + 32) else c

/-- `Tab` for pure ASCII text -/
def asciiTab : Tab := { word := asciiWord, lower := fun c => [lowerAscii c], fold := fun c => [lowerAscii c] }

/-! ## paths -/

mutual
/-- a keybinding value.  `str` also stands for char16 (a `str` subclass printed the same way),
    `int` for every CIMInt and Python int (printed with `str()`), `real` for CIMFloat / float. -/
inductive KeyVal where
  | str (s : Str)
  | bool (b : Bool)
  | int (i : Int)
  | real (repr : Str)
  | dt (s : Str)
  | ref (p : Path)
/-- CIMInstanceName -/
inductive Path where
  | mk (host ns : Option Str) (cls : Str) (keys : Keys)
/-- NocaseDict of keybindings in insertion order -/
inductive Keys where
  | nil
  | cons (k : Str) (v : KeyVal) (rest : Keys)
end

/-- CIMClassName -/
structure ClassPath where
  host : Option Str
  ns   : Option Str
  cls  : Str
  deriving DecidableEq, Repr

inductive Fmt where
  | standard | canonical | cimobject | historical
  deriving DecidableEq, Repr, Inhabited

def Keys.toList : Keys → List (Str × KeyVal)
  | .nil => []
  | .cons k v r => (k, v) :: r.toList

def Keys.ofList : List (Str × KeyVal) → Keys
  | [] => .nil
  | (k, v) :: r => .cons k v (Keys.ofList r)

def Keys.names : Keys → List Str
  | .nil => []
  | .cons k _ r => k :: r.names

def Path.host : Path → Option Str | .mk h _ _ _ => h
def Path.ns : Path → Option Str | .mk _ n _ _ => n
def Path.cls : Path → Str | .mk _ _ c _ => c
def Path.keys : Path → Keys | .mk _ _ _ k => k

/-! ## equality of paths (`==`) -/

/-- NocaseDict `d[k]` / `k in d` (keys compared by casefold) -/
def lookupKV (T : Tab) (k : Str) : Keys → Option KeyVal
  | .nil => none
  | .cons k' v r => if T.foldS k' = T.foldS k then some v else lookupKV T k r

/-- `==` of the values that are carried as text: `float(a) == float(b)` and `CIMDateTime(a) == CIMDateTime(b)`
    (third-party / C06 behaviour; the driver gets equivalence classes computed by the real Python) -/
structure EqTab where
  realSame : Str → Str → Bool
  dtSame : Str → Str → Bool

/-- mirrors pywbem/_utils.py: _eq_name (both `None`, or both set and equal after `lower()`) -/
def eqName (T : Tab) : Option Str → Option Str → Bool
  | none, none => true
  | some a, some b => T.lowerS a == T.lowerS b
  | _, _ => false

def boolInt (b : Bool) : Int := if b then 1 else 0

mutual
/-- `==` of two keybinding values as NocaseDict.__eq__ evaluates it (a TypeError of the comparison counts as unequal).
    Python's `bool` is an `int` (`True == 1`).  Not modelled: int/bool against real (`1 == 1.0`), which needs float arithmetic. -/
def valEqB (T : Tab) (E : EqTab) : KeyVal → KeyVal → Bool
  | .str a, .str b => a == b
  | .bool a, .bool b => a == b
  | .int a, .int b => a == b
  | .bool a, .int b => boolInt a == b
  | .int a, .bool b => a == boolInt b
  | .real a, .real b => E.realSame a b
  | .dt a, .dt b => E.dtSame a b
  | .ref p, .ref q => pathEqB T E p q
  | _, _ => false
/-- mirrors CIMInstanceName.__eq__: _eq_name on host, namespace, classname and _eq_dict (NocaseDict.__eq__) on keybindings -/
def pathEqB (T : Tab) (E : EqTab) : Path → Path → Bool
  | .mk h n c ks, q =>
    eqName T h q.host && eqName T n q.ns && T.lowerS c == T.lowerS q.cls &&
    keysSubB T E ks q.keys && ks.names.length == q.keys.names.length
/-- mirrors NocaseDict.__eq__: `for key, value in self.items(): key in other and value == other[key]` -/
def keysSubB (T : Tab) (E : EqTab) : Keys → Keys → Bool
  | .nil, _ => true
  | .cons k v r, o =>
    (match lookupKV T k o with
     | some v' => valEqB T E v v'
     | none => false) && keysSubB T E r o
end

/-- mirrors CIMClassName.__eq__ -/
def classEqB (T : Tab) (p q : ClassPath) : Bool :=
  eqName T p.host q.host && eqName T p.ns q.ns && T.lowerS p.cls == T.lowerS q.cls

/-! ## printing -/

/-- Python `s.replace(c, r)` for a one-character pattern -/
def replaceChar (c : Char) (r : Str) (s : Str) : Str := s.flatMap (fun x => if x = c then r else [x])

/-- mirrors to_wbem_uri: the `.replace(a, b)` chain applied to string and reference values,
    in source order, taken from the extracted table `Generated.uriEscapeChain` -/
def applyChain (chain : List (Char × Str)) (s : Str) : Str :=
  chain.foldl (fun acc (cr : Char × Str) => replaceChar cr.1 cr.2 acc) s

def escape (s : Str) : Str := applyChain Pywbem.Generated.uriEscapeChain s

def escapeRef (s : Str) : Str := applyChain Pywbem.Generated.uriRefEscapeChain s

def quote (s : Str) : Str := '"' :: (s ++ ['"'])

def digitChar (n : Nat) : Char := Char.ofNat (48 + n)

/-- decimal digits of a natural number (fuel = the number itself is always enough) -/
def natDigitsF : Nat → Nat → Str
  | 0, _ => []
  | f + 1, n => if n < 10 then [digitChar n] else natDigitsF f (n / 10) ++ [digitChar (n % 10)]

def natDigits (n : Nat) : Str := natDigitsF (n + 1) n

/-- Python `str(i)` for an int -/
def pyInt : Int → Str
  | .ofNat n => natDigits n
  | .negSucc n => '-' :: natDigits (n + 1)

/-- mirrors to_wbem_uri (after the fix): `repr(float(value))`, with `.0` inserted before the exponent
    when the mantissa has no fraction, because DSP0004 realValue (and REAL_VALUE) require one -/
def fixExp (r : Str) : Str :=
  if r.contains 'e' && !r.contains '.' then replaceChar 'e' ['.', '0', 'e'] r else r

/-- mirrors to_wbem_uri: case() -/
def caseOf (T : Tab) (fmt : Fmt) (s : Str) : Str := if fmt = .canonical then T.lowerS s else s

/-- code-point order of Python strings -/
def strLe : Str → Str → Bool
  | [], _ => true
  | _ :: _, [] => false
  | a :: as, b :: bs => if a.toNat < b.toNat then true else if b.toNat < a.toNat then false else strLe as bs

def insertSorted (a : Str) : List Str → List Str
  | [] => [a]
  | b :: r => if strLe a b then a :: b :: r else b :: insertSorted a r

/-- Python `sorted()` on a list of strings -/
def sortStrs : List Str → List Str
  | [] => []
  | a :: r => insertSorted a (sortStrs r)

/-- NocaseDict lookup (keys compared by casefold) -/
def lookupFold (T : Tab) (k : Str) : List (Str × Str) → Option Str
  | [] => none
  | (k', v) :: r => if T.foldS k' = T.foldS k then some v else lookupFold T k r

def optStr : Option Str → Str
  | some s => s
  | none => []

/-- mirrors to_wbem_uri: host / namespace / classname part (identical in both classes) -/
def headStr (T : Tab) (fmt : Fmt) (host ns : Option Str) (cls : Str) : Str :=
  (match host with
   | some h => if fmt ≠ .cimobject then '/' :: '/' :: caseOf T fmt h else []
   | none => []) ++
  (if host.isSome || (fmt ≠ .cimobject && fmt ≠ .historical) then ['/'] else []) ++
  optStr (ns.map (caseOf T fmt)) ++
  (if ns.isSome || fmt ≠ .historical then [':'] else []) ++
  caseOf T fmt cls

def joinComma : List Str → Str
  | [] => []
  | [a] => a
  | a :: b :: r => a ++ ',' :: joinComma (b :: r)

/-- mirrors to_wbem_uri: the loop over `case_sorted(self.keybindings.keys())`; `pvs` are the
    (name, printed value) pairs in dictionary order.  A failing lookup (impossible when casefold
    and lower are compatible, see `TabOk`) would be a KeyError in Python; the model prints nothing. -/
def bodyStr (T : Tab) (fmt : Fmt) (pvs : List (Str × Str)) : Str :=
  match pvs with
  | [] => []        -- `del ret[-1]` removes the '.'
  | _ => '.' :: joinComma ((sortStrs (pvs.map (fun kv => caseOf T fmt kv.1))).map
            (fun k => k ++ '=' :: (lookupFold T k pvs).getD []))

def boolStr (b : Bool) : Str := if b then "TRUE".toList else "FALSE".toList

mutual
/-- mirrors to_wbem_uri: per-type printing of one keybinding value -/
def printVal (T : Tab) (fmt : Fmt) : KeyVal → Str
  | .str s => quote (escape s)
  | .bool b => boolStr b
  | .int i => pyInt i
  | .real r => fixExp r
  | .dt s => quote s
  | .ref p => quote (escapeRef (toUri T fmt p))
/-- mirrors CIMInstanceName.to_wbem_uri -/
def toUri (T : Tab) (fmt : Fmt) : Path → Str
  | .mk h n c ks => headStr T fmt h n c ++ bodyStr T fmt (printKeys T fmt ks)
def printKeys (T : Tab) (fmt : Fmt) : Keys → List (Str × Str)
  | .nil => []
  | .cons k v r => (k, printVal T fmt v) :: printKeys T fmt r
end

/-- mirrors CIMClassName.to_wbem_uri -/
def toUriClass (T : Tab) (fmt : Fmt) (p : ClassPath) : Str := headStr T fmt p.host p.ns p.cls

/-! ## parsing: literal recognisers (pywbem/_utils.py) -/

def isDigit (c : Char) : Bool := '0'.toNat ≤ c.toNat && c.toNat ≤ '9'.toNat
def digitVal (c : Char) : Nat := c.toNat - 48

/-- `e[+-]digits` -/
def isExpPart : Str → Bool
  | 'e' :: s :: ds => (s == '+' || s == '-') && ds ≠ [] && ds.all isDigit
  | _ => false

def stripMinus : Str → Str
  | '-' :: t => t
  | s => s

/-- the shapes CPython's `repr(float)` produces: `inf`, `-inf`, `nan`, `[-]d+.d+`, `[-]d+[.d+]e[+-]d+`
    (a fact about CPython; the harness checks it on every float it generates) -/
def isFloatRepr (r : Str) : Bool :=
  let b := stripMinus r
  r == "inf".toList || r == "-inf".toList || r == "nan".toList ||
  (b.takeWhile isDigit ≠ [] &&
   match b.dropWhile isDigit with
   | '.' :: f => f.takeWhile isDigit ≠ [] && (f.dropWhile isDigit == [] || isExpPart (f.dropWhile isDigit))
   | 'e' :: x => isExpPart ('e' :: x)
   | _ => false)

def isBinDigit (c : Char) : Bool := c == '0' || c == '1'
def isOct17 (c : Char) : Bool := '1'.toNat ≤ c.toNat && c.toNat ≤ '7'.toNat
def isHexDigit (c : Char) : Bool :=
  isDigit c || ('a'.toNat ≤ c.toNat && c.toNat ≤ 'f'.toNat) || ('A'.toNat ≤ c.toNat && c.toNat ≤ 'F'.toNat)
def hexVal (c : Char) : Nat :=
  if isDigit c then c.toNat - 48 else if 'a'.toNat ≤ c.toNat then c.toNat - 87 else c.toNat - 55

def ofBase (b : Nat) (val : Char → Nat) (s : Str) : Nat := s.foldl (fun acc c => acc * b + val c) 0

/-- `[+\-]?` -/
def splitSign : Str → Bool × Str
  | '-' :: r => (true, r)
  | '+' :: r => (false, r)
  | s => (false, s)

def applySign (neg : Bool) (n : Nat) : Int := if neg then -(n : Int) else (n : Int)

/-- REAL_VALUE is `^…$` without re.MULTILINE: `$` also matches before one final newline, and `float()` strips it -/
def chomp (s : Str) : Str := if s.getLast? = some '\n' then s.dropLast else s

/-- BINARY_VALUE, OCTAL_VALUE, DECIMAL_VALUE, HEX_VALUE in this order -/
def intLitCore (s : Str) : Option Int :=
  let (neg, r) := splitSign s
  match r.getLast? with
  | none => none
  | some l =>
    if (l == 'b' || l == 'B') && r.dropLast ≠ [] && r.dropLast.all isBinDigit then
      some (applySign neg (ofBase 2 digitVal r.dropLast))
    else match r with
      | [] => none
      | h :: t =>
        if h == '0' && t.all isOct17 then some (applySign neg (ofBase 8 digitVal t))
        else if isOct17 h || h == '8' || h == '9' then
          (if t.all isDigit then some (applySign neg (ofBase 10 digitVal r)) else none)
        else if h == '0' then
          match t with
          | x :: hs => if (x == 'x' || x == 'X') && hs ≠ [] && hs.all isHexDigit
                       then some (applySign neg (ofBase 16 hexVal hs)) else none
          | [] => none
        else none

/-- mirrors _integerValue_to_int (the four patterns end in `\Z`: no trailing newline is tolerated) -/
def intLit (s : Str) : Option Int := intLitCore s

def lowerAsciiS (s : Str) : Str := s.map lowerAscii

/-- `[0-9]*\.[0-9]+(?:E[+\-]?[0-9]+)?` on the text after the sign -/
def realBody (r : Str) : Bool :=
  let frac0 := r.dropWhile isDigit
  match frac0 with
  | '.' :: f =>
    let fd := f.takeWhile isDigit
    let rest := f.dropWhile isDigit
    fd ≠ [] &&
    (match rest with
     | [] => true
     | e :: x => (e == 'e' || e == 'E') &&
        (let (_, ds) := splitSign x
         ds ≠ [] && ds.all isDigit))
  | _ => false

/-- mirrors _realValue_to_float: REAL_VALUE (IGNORECASE).  The dotless/dotted Turkish i that
    IGNORECASE|UNICODE lets match `I` make `float()` raise ValueError: same outcome as no match. -/
def realLitCore (s : Str) : Bool :=
  let l := lowerAsciiS s
  l == "inf".toList || l == "-inf".toList || l == "nan".toList || realBody (splitSign s).2

def realLit (s : Str) : Bool := realLitCore (chomp s)

/-! ## parsing: CIMDateTime(str) as a recogniser (the patterns use `[0-9]`, sign `[+-]`, and are anchored with `\Z`) -/

def isDigStar (c : Char) : Bool := isDigit c || c == '*'

/-- mirrors CIMDateTime._to_int for a field with `rep_digit=None`: all digits, or all asterisks
    (value `min`); anything else raises ValueError -/
def fieldVal (min : Nat) (f : Str) : Option Nat :=
  if f.all isDigit then some (ofBase 10 digitVal f)
  else if f.all (· == '*') then some min else none

/-- microsecond field (`rep_digit='0'`): digits followed by asterisks -/
def microOk (f : Str) : Bool := (f.dropWhile isDigit).all (· == '*')

def isLeap (y : Nat) : Bool := y % 4 == 0 && (y % 100 != 0 || y % 400 == 0)
def daysInMonth (y m : Nat) : Nat :=
  if m == 2 then (if isLeap y then 29 else 28)
  else if m == 4 || m == 6 || m == 9 || m == 11 then 30 else 31

/-- the global asterisk rule: the slice from the first to the last `*` consists of `*` and `.` only and
    ends at index 21 -/
def starsOk (s : Str) : Bool :=
  if s.contains '*' then
    let first := (s.takeWhile (· != '*')).length
    let afterRev := (s.reverse.takeWhile (· != '*')).length
    let after := s.length - afterRev
    after == 21 && ((s.drop first).take (after - first)).all (fun c => c == '*' || c == '.')
  else true

/-- does `CIMDateTime(s)` succeed (True) or raise ValueError (False) -/
def dtAccepts (s : Str) : Bool :=
  let p := s
  -- both patterns end in `\Z`: exactly 25 characters, nothing may follow
  if p.length ≠ 25 then false else
  let d1 := p.take 14
  let dot := (p.drop 14).take 1
  let us := (p.drop 15).take 6
  let sg := (p.drop 21).take 1
  let off := p.drop 22
  if !(d1.all isDigStar && dot == ['.'] && us.all isDigStar) then false else
  if (sg == ['+'] || sg == ['-']) && off.all isDigit then
    -- timestamp
    starsOk s && microOk us &&
    (match fieldVal 0 (d1.take 4), fieldVal 1 ((d1.drop 4).take 2), fieldVal 1 ((d1.drop 6).take 2),
           fieldVal 0 ((d1.drop 8).take 2), fieldVal 0 ((d1.drop 10).take 2), fieldVal 0 ((d1.drop 12).take 2) with
     | some y, some mo, some d, some h, some mi, some se =>
        1 ≤ y && 1 ≤ mo && mo ≤ 12 && 1 ≤ d && d ≤ daysInMonth y mo && h < 24 && mi < 60 && se < 60
     | _, _, _, _, _, _ => false)
  else if sg == [':'] && off == ['0', '0', '0'] then
    -- interval
    starsOk s && microOk us &&
    (fieldVal 0 (d1.take 8)).isSome && (fieldVal 0 ((d1.drop 8).take 2)).isSome &&
    (fieldVal 0 ((d1.drop 10).take 2)).isSome && (fieldVal 0 ((d1.drop 12).take 2)).isSome
  else false

/-! ## parsing: the URI regular expressions as recognisers -/

/-- `re.sub(r'\\(.)', r'\1', s)`: a backslash followed by any character but newline is dropped -/
def unescape : Str → Str
  | [] => []
  | '\\' :: c :: r => if c = '\n' then '\\' :: unescape (c :: r) else c :: unescape r
  | c :: r => c :: unescape r

def schemeChar (T : Tab) (c : Char) : Bool := T.word c || c == '-'
/-- `[\w.:@\[\]\-%]` (after the host fix) -/
def authChar (T : Tab) (c : Char) : Bool :=
  T.word c || c == '.' || c == ':' || c == '@' || c == '[' || c == ']' || c == '-' || c == '%'
def nsChar (T : Tab) (c : Char) : Bool := T.word c || c == '/'

/-- is `p` of the form `\w+(/\w+)*` given that all its characters are word characters or '/';
    `prevSlash` = the previous character was a '/' (or we are at the start) -/
def nsOkAux (prevSlash : Bool) : Str → Bool
  | [] => !prevSlash
  | c :: r => if c = '/' then !prevSlash && nsOkAux true r else nsOkAux false r

def nsOk (p : Str) : Bool := nsOkAux true p

structure Head where
  host : Option Str
  ns   : Option Str
  rest : Str            -- text starting at the class name
  deriving DecidableEq, Repr

/-- `m.group(n) or None` -/
def orNone (s : Str) : Option Str := if s = [] then none else some s

/-- `^(?:([\w\-]+):)?` — (scheme group took part, remaining text) -/
def stripScheme (T : Tab) (s : Str) : Bool × Str :=
  match s.dropWhile (schemeChar T) with
  | ':' :: '/' :: r => if s.takeWhile (schemeChar T) ≠ [] then (true, '/' :: r) else (false, s)
  | _ => (false, s)

/-- `(?://([\w.:@\[\]\-%]*))?` -/
def stripAuth (T : Tab) (r1 : Str) : Option Str × Str :=
  match r1 with
  | '/' :: '/' :: r => (some (r.takeWhile (authChar T)), r.dropWhile (authChar T))
  | _ => (none, r1)

/-- `(?:/|^/?)` — (remaining text, still at position 0) -/
def stripSlash (atStart : Bool) (r2 : Str) : Option (Str × Bool) :=
  match r2 with
  | '/' :: r => some (r, false)
  | _ => if atStart then some (r2, true) else none

/-- `(\w+(?:/\w+)*)?(?::|^:?)` — (namespace, text starting at the class name) -/
def splitNs (T : Tab) (pos0 : Bool) (r3 : Str) : Option (Option Str × Str) :=
  match nsOk (r3.takeWhile (nsChar T)), r3.dropWhile (nsChar T) with
  | true, ':' :: r5 => some (some (r3.takeWhile (nsChar T)), r5)
  | _, _ =>
    match r3 with
    | ':' :: r5 => some (none, r5)
    | _ => if pos0 then some (none, r3) else none

/-- the common prefix of WBEM_URI_CLASSPATH_REGEXP and WBEM_URI_INSTANCEPATH_REGEXP:
    `^(?:([\w\-]+):)?(?://([\w.:@\[\]\-%]*))?(?:/|^/?)(\w+(?:/\w+)*)?(?::|^:?)`
    The backtracking search of `re` is deterministic here (see design.d/C07.md):
    the scheme group takes part iff the text starts with `[\w-]+:/`; the authority group iff the text then
    starts with `//`; the namespace is the maximal run of word characters and slashes when that run is
    well-formed and followed by ':'; `^` alternatives apply only at position 0. -/
def parseHead (T : Tab) (s : Str) : Option Head :=
  let a := stripScheme T s
  let b := stripAuth T a.2
  match stripSlash (!a.1 && b.1.isNone) b.2 with
  | none => none
  | some (r3, pos0) =>
    match splitNs T pos0 r3 with
    | none => none
    | some (ns, rest) => some { host := b.1.bind orNone, ns := ns, rest := rest }

/-- `$`: end of text or before a final newline -/
def atEnd (s : Str) : Bool := s == [] || s == ['\n']

/-- mirrors CIMClassName.from_wbem_uri -/
def fromUriClass (T : Tab) (s : Str) : Except PyExc ClassPath :=
  match parseHead T s with
  | none => .error .valueError
  | some h =>
    let c := h.rest.takeWhile T.word
    if c ≠ [] && atEnd (h.rest.dropWhile T.word) then .ok { host := h.host, ns := h.ns, cls := c }
    else .error .valueError

/-- `[^,"'\\]` -/
def nqChar (c : Char) : Bool := !(c == ',' || c == '"' || c == '\'' || c == '\\')

/-- body of a quoted value after the opening quote `q`: `(?:[^q\\]|\\.)*q`;
    returns the body (still escaped) and the text after the closing quote -/
def scanQuoted (q : Char) : Str → Option (Str × Str)
  | [] => none
  | '\\' :: c :: r =>
      if c = '\n' then none
      else match scanQuoted q r with
        | some (b, rest) => some ('\\' :: c :: b, rest)
        | none => none
  | c :: r =>
      if c = '\\' then none
      else if c = q then some ([], r)
      else match scanQuoted q r with
        | some (b, rest) => some (c :: b, rest)
        | none => none

/-- one `_KB_VAL` at the start of `s`: (value text including its quotes, rest) -/
def scanVal (s : Str) : Option (Str × Str) :=
  match s with
  | '\'' :: r => (scanQuoted '\'' r).map (fun br => ('\'' :: (br.1 ++ ['\'']), br.2))
  | '"' :: r => (scanQuoted '"' r).map (fun br => ('"' :: (br.1 ++ ['"']), br.2))
  | _ => if s.takeWhile nqChar = [] then none else some (s.takeWhile nqChar, s.dropWhile nqChar)

/-- `\w+=VAL` at the start of `s` -/
def scanAssign (T : Tab) (s : Str) : Option ((Str × Str) × Str) :=
  let k := s.takeWhile T.word
  if k = [] then none else
  match s.dropWhile T.word with
  | '=' :: r => (scanVal r).map (fun vr => ((k, vr.1), vr.2))
  | _ => none

/-- WBEM_URI_KEYBINDINGS_REGEXP + WBEM_URI_KB_FINDALL_REGEXP: `^(\w+=VAL)((?:,\w+=VAL)*)$` split into
    (name, value text) pairs.  Fuel: one unit per assignment (`s.length + 1` always suffices). -/
def scanAssigns (T : Tab) : Nat → Str → Option (List (Str × Str))
  | 0, _ => none
  | f + 1, s =>
    match scanAssign T s with
    | none => none
    | some (kv, rest) =>
      match rest with
      | [] => some [kv]
      | ',' :: r => (scanAssigns T f r).map (fun l => kv :: l)
      | _ => none

/-- Python dict `d[k] = v` (exact key, position kept) -/
def dictSet (k : Str) (v : KeyVal) : List (Str × KeyVal) → List (Str × KeyVal)
  | [] => [(k, v)]
  | (k', v') :: r => if k' = k then (k', v) :: r else (k', v') :: dictSet k v r

/-- NocaseDict `d[k] = v` (casefolded key; position kept, key spelling replaced) -/
def ncSet (T : Tab) (k : Str) (v : KeyVal) : List (Str × KeyVal) → List (Str × KeyVal)
  | [] => [(k, v)]
  | (k', v') :: r => if T.foldS k' = T.foldS k then (k, v) :: r else (k', v') :: ncSet T k v r

/-- `keybindings = {}` filled in order, then `CIMInstanceName(keybindings=…)` copying into a NocaseDict -/
def buildKeys (T : Tab) (kvs : List (Str × KeyVal)) : Keys :=
  let d := kvs.foldl (fun acc kv => dictSet kv.1 kv.2 acc) []
  Keys.ofList (d.foldl (fun acc kv => ncSet T kv.1 kv.2 acc) [])

def stripQuotes (v : Str) : Str := (v.drop 1).dropLast

/-- mirrors _kbstr_to_cimval; `rec` is from_wbem_uri for the nested reference attempt -/
def kbVal (T : Tab) (rec : Str → Except PyExc Path) (v : Str) : Except PyExc KeyVal :=
  if v.head? = some '"' && v.getLast? = some '"' then
    let inner := unescape (stripQuotes v)
    match rec inner with
    | .ok p => .ok (.ref p)
    | .error .valueError => if dtAccepts inner then .ok (.dt inner) else .ok (.str inner)
    | .error e => .error e
  else if v.head? = some '\'' && v.getLast? = some '\'' then
    let inner := unescape (stripQuotes v)
    if inner.length ≠ 1 then .error .valueError else .ok (.str inner)
  else if T.lowerS v = "true".toList then .ok (.bool true)
  else if T.lowerS v = "false".toList then .ok (.bool false)
  else match intLit v with
    | some i => .ok (.int i)
    | none =>
      if realLit v then .ok (.real v)
      else if dtAccepts v then .ok (.dt v)
      else .error .valueError

/-- the loop `keybindings[key] = _kbstr_to_cimval(key, val)` -/
def kbVals (T : Tab) (rec : Str → Except PyExc Path) : List (Str × Str) → Except PyExc (List (Str × KeyVal))
  | [] => .ok []
  | (k, v) :: r =>
    match kbVal T rec v with
    | .error e => .error e
    | .ok x =>
      match kbVals T rec r with
      | .error e => .error e
      | .ok l => .ok ((k, x) :: l)

/-- WBEM_URI_INSTANCEPATH_REGEXP and WBEM_URI_KEYBINDINGS_REGEXP applied to `s`:
    (host / namespace, class name, (key, value text) pairs), or `none` when one of them does not match -/
def stepPrefix (T : Tab) (s : Str) : Option (Head × Str × List (Str × Str)) :=
  match parseHead T s with
  | none => none
  | some h =>
    match h.rest.dropWhile T.word with
    | '.' :: body =>
      -- `(.+)$`
      if h.rest.takeWhile T.word = [] || body.takeWhile (· != '\n') = [] || !atEnd (body.dropWhile (· != '\n')) then none
      else (scanAssigns T ((body.takeWhile (· != '\n')).length + 1) (body.takeWhile (· != '\n'))).map
            (fun assigns => (h, h.rest.takeWhile T.word, assigns))
    | _ => none

/-- from_wbem_uri with the nested attempt `rec` -/
def fromUriStep (T : Tab) (rec : Str → Except PyExc Path) (s : Str) : Except PyExc Path :=
  match stepPrefix T s with
  | none => .error .valueError
  | some (h, c, assigns) =>
    match kbVals T rec assigns with
    | .error e => .error e
    | .ok kvs => .ok (.mk h.host h.ns c (buildKeys T kvs))

/-- mirrors CIMInstanceName.from_wbem_uri.  Fuel counts nesting levels of quoted reference
    values; `fromUri` supplies `s.length + 1`, which always suffices (theorem `C07_fromUri_total`:
    `recursionError`, the out-of-fuel answer, is never returned). -/
def fromUriF (T : Tab) : Nat → Str → Except PyExc Path
  | 0 => fun _ => .error .recursionError
  | f + 1 => fromUriStep T (fromUriF T f)

def fromUri (T : Tab) (s : Str) : Except PyExc Path := fromUriF T (s.length + 1) s

/-! ## glue: argument validation, `__str__`, the namespace setter, the CIMObject header -/

/-- mirrors to_wbem_uri: `if format not in ('standard', 'canonical', 'cimobject', 'historical'): raise ValueError`
    (the tuple is the extracted `Generated.uriFormats`; position = constructor of `Fmt`) -/
def fmtOfName (name : String) : Except PyExc Fmt :=
  match Pywbem.Generated.uriFormats.idxOf? name with
  | some 0 => .ok .standard
  | some 1 => .ok .canonical
  | some 2 => .ok .cimobject
  | some 3 => .ok .historical
  | _ => .error .valueError

/-- CIMInstanceName.to_wbem_uri(format=name) with the format given as the string the caller passes -/
def toWbemUri (T : Tab) (name : String) (p : Path) : Except PyExc Str :=
  match fmtOfName name with
  | .ok f => .ok (toUri T f p)
  | .error e => .error e

/-- CIMClassName.to_wbem_uri(format=name) -/
def toWbemUriClass (T : Tab) (name : String) (p : ClassPath) : Except PyExc Str :=
  match fmtOfName name with
  | .ok f => .ok (toUriClass T f p)
  | .error e => .error e

/-- mirrors CIMInstanceName.__str__ / CIMClassName.__str__ -/
def pathStr (T : Tab) (p : Path) : Str := toUri T .historical p
def classPathStr (T : Tab) (p : ClassPath) : Str := toUriClass T .historical p

/-- Python `s.strip('/')` -/
def stripSlashes (s : Str) : Str := ((s.dropWhile (· == '/')).reverse.dropWhile (· == '/')).reverse

/-- mirrors the `namespace` setter of CIMInstanceName / CIMClassName: `None` stays, otherwise `strip('/')` -/
def nsSetter (ns : Option Str) : Option Str := ns.map stripSlashes

/-- mirrors the constructor CIMInstanceName(classname, keybindings, host, namespace) as far as the URI functions see it:
    the namespace goes through its setter, the keybindings through the NocaseDict copy -/
def mkPath (T : Tab) (cls : Str) (kbs : List (Str × KeyVal)) (host ns : Option Str) : Path :=
  .mk host (nsSetter ns) cls (Keys.ofList (kbs.foldl (fun acc kv => ncSet T kv.1 kv.2 acc) []))

/-- what get_cimobject_header is given -/
inductive HeaderArg where
  | text (s : Str)
  | cls (p : ClassPath)
  | inst (p : Path)
  | other

/-- mirrors pywbem/_cim_http.py: get_cimobject_header -/
def cimObjectHeader (T : Tab) : HeaderArg → Except PyExc Str
  | .text s => .ok s
  | .cls p => .ok (toUriClass T .cimobject p)
  | .inst p => .ok (toUri T .cimobject p)
  | .other => .error .typeError

end Pywbem.Model.Uri
