/-
C06, the (value-kind × type) matrix: pywbem/_cim_obj.py cimvalue(), pywbem/_cim_types.py cimtype() and
type_from_name(); the value setters of CIMProperty / CIMParameter / CIMQualifier / CIMQualifierDeclaration are
`self._value = cimvalue(value, self.type)` and are therefore the same function.
Mirrors the code after the C06 `fix:` commits (OverflowError of the numeric constructors → ValueError).

Third-party behaviour that is a parameter (`Env`), never an axiom: Python `float(str)` / `float(bytes)`
(the RealCodec, supplied per case by the harness from CPython itself) and CIMInstanceName.from_wbem_uri
(property C07's subject; here only "succeeds or raises ValueError").
Not modelled: nested lists (a list inside a list), objects with user-defined numeric protocols.
-/
import Pywbem.Model.CimTypes
import Pywbem.Model.DateTime

namespace Pywbem.Model.CimValue
open Pywbem.Proto Pywbem.Model.CimTypes Pywbem.Model.DateTime

/-- CIM type names as passed in the `type` argument -/
inductive Ty where
  | boolean | string | char16 | reference | datetime
  | int (t : IntTy) | real32 | real64
  | unknown                       -- any other string
  deriving DecidableEq, Repr, Inhabited

def Ty.name : Ty → String
  | .boolean => "boolean" | .string => "string" | .char16 => "char16" | .reference => "reference"
  | .datetime => "datetime" | .int t => t.name | .real32 => "real32" | .real64 => "real64"
  | .unknown => "?"

/-- Python class name `type_from_name` must return for a type (the specification side of the generated
    _TYPE_FROM_NAME table) -/
def Ty.className : Ty → Option String
  | .boolean => some "bool" | .string => some "str" | .char16 => some "str" | .datetime => some "CIMDateTime"
  | .int .uint8 => some "Uint8" | .int .sint8 => some "Sint8" | .int .uint16 => some "Uint16"
  | .int .sint16 => some "Sint16" | .int .uint32 => some "Uint32" | .int .sint32 => some "Sint32"
  | .int .uint64 => some "Uint64" | .int .sint64 => some "Sint64"
  | .real32 => some "Real32" | .real64 => some "Real64"
  | .reference => none | .unknown => none

/-- scalar Python values offered to cimvalue() (and returned by it) -/
inductive Sc where
  | none
  | bool (b : Bool)
  | int (v : Int)
  | float (bits : Nat)
  | str (s : List Char)
  | char16 (s : List Char)            -- a Char16 object (str subclass with cimtype 'char16')
  | bytes (s : List Nat)
  | cimInt (t : IntTy) (v : Int)
  | real32 (bits : Nat)
  | real64 (bits : Nat)
  | cimDT (x : DT)
  | datetime (y mo d h mi s us : Nat) (off : Option Int)
  | timedelta (days : Int) (secs us : Nat)
  | instName (truthy : Bool)          -- CIMInstanceName (bool() = has keybindings)
  | className                         -- CIMClassName
  | instance (truthy : Bool)          -- CIMInstance (bool() = has properties)
  | cimClass                          -- CIMClass
  | obj (truthy : Bool)               -- any other object without numeric/str protocol (dict, object(), …)
  | tuple (truthy : Bool)             -- a tuple: like `obj` for cimvalue(), but an array for `_check_array_parms`
  deriving Repr, Inhabited, DecidableEq

inductive Val where
  | sc (s : Sc)
  | list (l : List Sc)
  deriving Repr, Inhabited, DecidableEq

/-- third-party behaviour as parameters -/
structure Env where
  /-- float(x) for a str (isBytes = false, code points) or bytes (isBytes = true) argument; none = ValueError -/
  pyFloat : Bool → List Nat → Option Nat
  /-- bytes.decode('utf-8'); none = UnicodeDecodeError (a ValueError) -/
  utf8 : List Nat → Option (List Char)
  /-- CIMInstanceName.from_wbem_uri(s) succeeds (else ValueError); result truthiness = has keybindings -/
  uri : List Char → Option Bool

/-- mirrors _cim_types.py: cimtype() for a scalar -/
def cimtypeSc : Sc → Except PyExc Ty
  | .cimInt t _ => .ok (.int t)
  | .real32 _ => .ok .real32
  | .real64 _ => .ok .real64
  | .cimDT _ => .ok .datetime
  | .bool _ => .ok .boolean
  | .str _ => .ok .string
  | .char16 _ => .ok .char16          -- isinstance(obj, CIMType)
  | .bytes _ => .ok .string
  | .datetime .. => .ok .datetime
  | .timedelta .. => .ok .datetime
  | .instName _ => .ok .reference
  | .instance _ => .ok .string
  | .cimClass => .ok .string
  | _ => .error .typeError          -- int, float, None, CIMClassName, other objects

/-- mirrors _cim_types.py: cimtype() -/
def cimtypeVal : Val → Except PyExc Ty
  | .sc s => cimtypeSc s
  | .list [] => .error .valueError                    -- empty array
  | .list (s :: _) => cimtypeSc s

/-- Python truth value -/
def truthy : Sc → Bool
  | .none => false
  | .bool b => b
  | .int v => v != 0
  | .float bits => bits % 2 ^ 63 != 0
  | .str s => !s.isEmpty
  | .char16 s => !s.isEmpty
  | .bytes s => !s.isEmpty
  | .cimInt _ v => v != 0
  | .real32 bits => bits % 2 ^ 63 != 0
  | .real64 bits => bits % 2 ^ 63 != 0
  | .cimDT _ => true
  | .datetime .. => true
  | .timedelta d s u => !(d == 0 && s == 0 && u == 0)
  | .instName t => t
  | .className => true
  | .instance t => t
  | .cimClass => true
  | .obj t => t
  | .tuple t => t

/-- float(int): correctly rounded (half to even) binary64 bit pattern; none = OverflowError -/
def natToF64 (n : Nat) : Option Nat :=
  if n == 0 then some 0
  else
    let bl := n.log2 + 1
    if bl ≤ 53 then
      some ((bl - 1 + 1023) * 2 ^ 52 + (n * 2 ^ (53 - bl) - 2 ^ 52))
    else
      let sh := bl - 53
      let q := n / 2 ^ sh
      let r := n % 2 ^ sh
      let half := 2 ^ (sh - 1)
      let q' := if r > half || (r == half && q % 2 == 1) then q + 1 else q
      let e := if q' == 2 ^ 53 then bl else bl - 1
      let m := if q' == 2 ^ 53 then 2 ^ 52 else q'
      if e > 1023 then none else some ((e + 1023) * 2 ^ 52 + (m - 2 ^ 52))

def intToF64 (v : Int) : Except PyExc Nat :=
  match natToF64 v.natAbs with
  | none => .error .overflowError
  | some b => .ok (if v < 0 then b + 2 ^ 63 else b)

/-- float(value): the constructor argument conversion of Real32 / Real64 -/
def pyFloat (env : Env) : Sc → Except PyExc Nat
  | .float b => .ok b
  | .real32 b => .ok b
  | .real64 b => .ok b
  | .int v => intToF64 v
  | .cimInt _ v => intToF64 v
  | .bool b => .ok (if b then 0x3FF0000000000000 else 0)
  | .str s => match env.pyFloat false (s.map Char.toNat) with | some b => .ok b | none => .error .valueError
  | .char16 s => match env.pyFloat false (s.map Char.toNat) with | some b => .ok b | none => .error .valueError
  | .bytes s => match env.pyFloat true s with | some b => .ok b | none => .error .valueError
  | _ => .error .typeError

/-- the argument as `int()` sees it -/
def toArg : Sc → Arg
  | .int v => .int v
  | .cimInt _ v => .int v
  | .bool b => .bool b
  | .float b => .float b
  | .real32 b => .float b
  | .real64 b => .float b
  | .str s => .str s
  | .char16 s => .str s
  | .bytes s => .bytes s
  | .none => .none
  | _ => .other

/-- the argument as `CIMDateTime()` sees it (bytes are decoded by _ensure_unicode first) -/
def toDtArg (env : Env) : Sc → Except PyExc DtArg
  | .str s => .ok (.str s)
  | .char16 s => .ok (.str s)
  | .bytes b => match env.utf8 b with | some s => .ok (.str s) | none => .error .valueError
  | .datetime y mo d h mi s us off => .ok (.datetime y mo d h mi s us off)
  | .timedelta d s u => .ok (.timedelta d s u)
  | .cimDT x => .ok (.cimdt x)
  | _ => .ok .other

/-- `except OverflowError → ValueError` (the C06 fix in cimvalue) -/
def ovfToValue {α} : Except PyExc α → Except PyExc α
  | .error .overflowError => .error .valueError
  | r => r

/-- mirrors _cim_obj.py: cimvalue() for a non-list value and a given (non-None) type -/
def cimvalueSc (env : Env) (v : Sc) (t : Ty) : Except PyExc Sc :=
  match v with
  | .none => .ok .none
  | _ =>
  match t with
  | .boolean => .ok (.bool (truthy v))
  | .string | .char16 =>                              -- _ensure_unicode(value)
    (match v with
     | .bytes b => (match env.utf8 b with | some s => .ok (.str s) | none => .error .valueError)
     | _ => .ok v)
  | .reference =>
    (match v with
     | .instName _ => .ok v
     | .className => .ok v
     | .str s => (match env.uri s with | some k => .ok (.instName k) | none => .error .valueError)
     | .char16 s => (match env.uri s with | some k => .ok (.instName k) | none => .error .valueError)
     | _ => .error .typeError)
  | .unknown => .error .valueError                    -- type_from_name: unknown CIM data type name
  | .int ty =>
    (match v with
     | .cimInt ty' _ => if ty' = ty then .ok v else conv ty      -- isinstance(value, type_obj)
     | _ => conv ty)
  | .real32 =>
    (match v with
     | .real32 _ => .ok v
     | _ => ovfToValue ((pyFloat env v).map Sc.real32))
  | .real64 =>
    (match v with
     | .real64 _ => .ok v
     | _ => ovfToValue ((pyFloat env v).map Sc.real64))
  | .datetime =>
    (match v with
     | .cimDT _ => .ok v
     | _ => ovfToValue (do let a ← toDtArg env v; let x ← construct a; pure (Sc.cimDT x)))
where
  conv (ty : IntTy) : Except PyExc Sc :=
    ovfToValue ((mkIntCfg ty { pos := [toArg v] }).map (fun c => Sc.cimInt c.ty c.val))

/-- mirrors _cim_obj.py: cimvalue(value, type) -/
def cimvalue (env : Env) (v : Val) (t : Option Ty) : Except PyExc Val :=
  match v with
  | .sc .none => .ok (.sc .none)
  | _ => do
    let ty ← match t with
      | some ty => pure ty
      | none => cimtypeVal v
    match v with
    | .list l => do
      let r ← l.mapM (fun s => cimvalueSc env s ty)
      pure (.list r)
    | .sc s => do
      let r ← cimvalueSc env s ty
      pure (.sc r)

/-- "stored as exactly that CIM type": the Python object kinds pywbem uses to represent a value of CIM type `t`
    (None = NULL; CIMInstance/CIMClass are the representation of embedded objects, CIM type string) -/
def hasTypeSc (r : Sc) (t : Ty) : Bool :=
  match r, t with
  | .none, _ => true
  | .bool _, .boolean => true
  | .str _, .string => true
  | .str _, .char16 => true
  | .char16 _, .string => true         -- Char16 is a str
  | .char16 _, .char16 => true
  | .instance _, .string => true
  | .cimClass, .string => true
  | .cimInt ty v, .int ty' => ty == ty' && ty.lo ≤ v && v ≤ ty.hi
  | .real32 _, .real32 => true
  | .real64 _, .real64 => true
  | .cimDT _, .datetime => true
  | .instName _, .reference => true
  | .className, .reference => true
  | _, _ => false

def hasType (r : Val) (t : Ty) : Bool :=
  match r with
  | .sc s => hasTypeSc s t
  | .list l => l.all (fun s => hasTypeSc s t)

/-- the known-finding class C06-KF1: a non-string object given for CIM type string/char16 is stored unchanged -/
def passesUntyped (v : Sc) (t : Ty) : Bool :=
  (t == .string || t == .char16) &&
  (match v with
   | .none | .str _ | .char16 _ | .bytes _ => false
   | .instance _ | .cimClass => t == .char16
   | _ => true)

/-! ## the parse side of numeric CIM-XML values: pywbem/_tupleparse.py unpack_numeric -/

/-- str.isspace() (what str.strip() removes) -/
def isStrSpace (c : Char) : Bool :=
  let n := c.toNat
  (9 ≤ n && n ≤ 13) || (28 ≤ n && n ≤ 32) || n == 0x85 || n == 0xA0 || n == 0x1680 ||
  (0x2000 ≤ n && n ≤ 0x200A) || n == 0x2028 || n == 0x2029 || n == 0x202F || n == 0x205F || n == 0x3000

/-- str.strip() -/
def pyStrip (s : List Char) : List Char :=
  ((s.dropWhile isStrSpace).reverse.dropWhile isStrSpace).reverse

def isHexDigit (c : Char) : Bool :=
  ('0' ≤ c && c ≤ '9') || ('a' ≤ c && c ≤ 'f') || ('A' ≤ c && c ≤ 'F')

/-- CIMXML_HEX_PATTERN = ^(\+|\-)?0[xX][0-9a-fA-F]+$  (on stripped data; `$` also matches before one final newline,
    which strip() has removed) -/
def isHexPattern (s : List Char) : Bool := hexCore (hexBody s)
where
  hexBody : List Char → List Char
    | '+' :: r => r
    | '-' :: r => r
    | r => r
  hexCore : List Char → Bool
    | '0' :: x :: ds => (x == 'x' || x == 'X') && !ds.isEmpty && ds.all isHexDigit
    | _ => false

/-- the numeric CIM types unpack_numeric is called for -/
inductive NumTy where
  | int (t : IntTy) | real32 | real64
  deriving Repr, DecidableEq

/-- mirrors _tupleparse.py: TupleParser.unpack_numeric(data, cimtype) for a numeric cimtype.
    `pf` = Python float(stripped data) as bits (none = ValueError), the RealCodec parameter. -/
def unpackNumeric (pf : Option Nat) (data : List Char) (t : NumTy) : Except PyExc Sc :=
  let d := pyStrip data
  -- the Python number: int (left) or float bits (right)
  let value : Except PyExc (Sum Int Nat) :=
    if isHexPattern d then (intOfStr d 16).map Sum.inl
    else match intOfStr d 10 with
      | .ok v => .ok (Sum.inl v)
      | .error _ =>
        match pf with
        | some b => .ok (Sum.inr b)
        | none => .error .cimXmlParseError
  match value with
  | .error e => .error e
  | .ok v =>
    -- CIMType(value); `except (ValueError, OverflowError)` → CIMXMLParseError; anything else escapes
    let r : Except PyExc Sc := match t, v with
      | .int ty, .inl n => (mkIntCfg ty { pos := [.int n] }).map (fun c => Sc.cimInt c.ty c.val)
      | .int ty, .inr b => (mkIntCfg ty { pos := [.float b] }).map (fun c => Sc.cimInt c.ty c.val)
      | .real32, .inl n => (intToF64 n).map Sc.real32
      | .real32, .inr b => .ok (Sc.real32 b)
      | .real64, .inl n => (intToF64 n).map Sc.real64
      | .real64, .inr b => .ok (Sc.real64 b)
    match r with
    | .error .valueError => .error .cimXmlParseError
    | .error .overflowError => .error .cimXmlParseError      -- INF / beyond the float range (fix 9123e9a)
    | r => r

/-- class invariant of the CIMInt objects offered as *input* (they came out of the constructor, see
    `C06_int_in_range`): the value is within the limits of the class -/
def scInv : Sc → Bool
  | .cimInt t v => decide (t.lo ≤ v) && decide (v ≤ t.hi)
  | _ => true

end Pywbem.Model.CimValue
