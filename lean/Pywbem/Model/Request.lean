/-
C03 — what the operation methods of WBEMConnection put on the wire: CIM-XML extension headers and the
request document, as a function of the Python arguments; and the two CIM-XML responses of the listener.

mirrors pywbem/_cim_operations.py: WBEMConnection._imethodcall, _methodcall (infer_type, paramvalue,
  infer_embedded_object), _iexportcall, ExportIndication, _iparam_namespace_from_namespace,
  _iparam_namespace_from_objectname, _iparam_objectname, _iparam_classname, _iparam_instancename, _iparam_class,
  _iparam_instance, _iparam_qualifierdeclaration, _iparam_string, _iparam_positive_integer, _iparam_bool,
  _iparam_propertylist, _validate_MaxObjectCount_OpenPull, _validate_context
mirrors pywbem/_cim_obj.py: tocimxml, CIMInstanceName.to_wbem_uri, CIMClassName.to_wbem_uri  (format='cimobject')
mirrors pywbem/_cim_http.py: get_cimobject_header
mirrors pywbem/_cim_xml.py: _check_xml_chars, CIM, MESSAGE, SIMPLEREQ, IMETHODCALL, METHODCALL, IPARAMVALUE, PARAMVALUE,
  SIMPLEEXPREQ, EXPMETHODCALL, EXPPARAMVALUE, SIMPLEEXPRSP, EXPMETHODRESPONSE, ERROR
mirrors pywbem/_listener.py: ListenerRequestHandler.send_error_response, send_success_response

The per-operation argument handling (which helper is applied to which parameter, in which order, and which
keyword arguments reach `_imethodcall`) is NOT written here: it is the table `Pywbem.Generated.ops`, extracted
from the source on every run; `runCheck` gives each table entry its meaning.
-/
import Pywbem.Model.CimXmlEnc
import Pywbem.Model.Dtd
import Pywbem.Model.ReqTypes
import Pywbem.Generated.Ops
import Pywbem.Proto

namespace Pywbem.Model.Req
open Pywbem.Proto Pywbem.Model Pywbem.Model.XmlText
open Pywbem.Model.Dtd (charsOk strOk)

/-- an element tree whose construction passed every `_check_xml_chars` call; otherwise the constructor of
    the first offending node raised ValueError.  Applied where the first ValueError can arise (so that the
    exception class is right when several problems are present) and once more to the finished document
    (every `setAttribute` / `_text` call of the envelope is checked as well). -/
def checked (x : Xml) : Except PyExc Xml := if charsOk x then .ok x else .error .valueError

/-! ### Python argument values, as far as the `_iparam_*` helpers and `tocimxml()` distinguish them -/

inductive Arg where
  | none
  | str (s : Str)
  | bool (b : Bool)
  | int (i : Int)                  -- int (incl. CIM integer types), not bool
  | className (p : Path)           -- CIMClassName
  | instName (p : Path)            -- CIMInstanceName
  | inst (i : Inst)
  | cls (c : Cls)
  | qdecl (q : QualDecl)
  | list (l : List Arg)            -- list or tuple
  | other                          -- any other type (for which atomic_to_cim_xml raises TypeError)
  deriving Inhabited

def pathNs : Path → Option Str
  | .inst _ _ ns _ => ns
  | .cls _ _ ns => ns

/-- `p = p.copy(); p.host = None; p.namespace = None` -/
def pathStripped : Path → Path
  | .inst c _ _ ks => .inst c none none ks
  | .cls c _ _ => .cls c none none

def dropSlashes : Str → Str
  | [] => []
  | c :: cs => if c = '/' then dropSlashes cs else c :: cs

/-- `s.strip('/')` -/
def stripSlash (s : Str) : Str := (dropSlashes (dropSlashes s).reverse).reverse

structure St where
  ns : Arg
  args : List (String × Arg)

/-- value of the argument named `q` (`None` when the method has no such parameter) -/
def getArg : List (String × Arg) → String → Arg
  | [], _ => .none
  | (k, v) :: rest, q => if k == q then v else getArg rest q

def setArg : List (String × Arg) → String → Arg → List (String × Arg)
  | [], _, _ => []
  | (k, v) :: rest, p, a => if k == p then (p, a) :: setArg rest p a else (k, v) :: setArg rest p a

def St.get (s : St) (p : String) : Arg := getArg s.args p

def St.set (s : St) (p : String) (a : Arg) : St := { s with args := setArg s.args p a }

def optNsArg : Option Str → Arg
  | some n => .str n
  | none => .none

/-- `_iparam_namespace_from_namespace` (dn = conn.default_namespace) -/
def nsFromNamespace (dn : Str) : Arg → Except PyExc Arg
  | .str s => .ok (.str (stripSlash s))
  | .none => .ok (.str dn)
  | _ => .error .typeError

/-- `_iparam_namespace_from_objectname` -/
def nsFromObjectName (dn : Str) : Arg → Except PyExc Arg
  | .className p | .instName p => .ok (.str ((pathNs p).getD dn))
  | .str _ | .none => .ok (.str dn)
  | _ => .error .typeError

def iparamClassName (req : Bool) : Arg → Except PyExc Arg
  | .className p => .ok (.className (pathStripped p))
  | .str s => .ok (.className (.cls s none none))
  | .none => if req then .error .typeError else .ok .none
  | _ => .error .typeError

def iparamInstanceName (req : Bool) : Arg → Except PyExc Arg
  | .instName p => .ok (.instName (pathStripped p))
  | .none => if req then .error .typeError else .ok .none
  | _ => .error .typeError

def iparamObjectName (req : Bool) : Arg → Except PyExc Arg
  | .className p => .ok (.className (pathStripped p))
  | .instName p => .ok (.instName (pathStripped p))
  | .str s => .ok (.className (.cls s none none))
  | .none => if req then .error .typeError else .ok .none
  | _ => .error .typeError

def iparamString (req : Bool) : Arg → Except PyExc Arg
  | .str s => .ok (.str s)
  | .none => if req then .error .typeError else .ok .none
  | _ => .error .typeError

def iparamQualDecl (req : Bool) : Arg → Except PyExc Arg
  | .qdecl q => .ok (.qdecl q)
  | .none => if req then .error .typeError else .ok .none
  | _ => .error .typeError

def iparamInstance : Arg → Except PyExc Arg
  | .inst i => .ok (.inst i)
  | _ => .error .typeError

def iparamClass : Arg → Except PyExc Arg
  | .cls (.mk n s _ ps ms qs) => .ok (.cls (.mk n s none ps ms qs))
  | .none => .ok .none
  | _ => .error .typeError

def iparamBool : Arg → Except PyExc Arg
  | .bool b => .ok (.bool b)
  | .none => .ok .none
  | _ => .error .typeError

/-- `_iparam_positive_integer`; also `_validate_MaxObjectCount_OpenPull` (same outcome classes; a bool is
    rejected although it is an int in Python) -/
def iparamPosInt : Arg → Except PyExc Arg
  | .int i => if i < 0 then .error .valueError else .ok (.int i)
  | .none => .ok .none
  | _ => .error .typeError

def isStrArg : Arg → Bool
  | .str _ => true
  | _ => false

/-- `_iparam_propertylist`: None, a list / tuple of strings, or one string -/
def iparamPropertyList : Arg → Except PyExc Arg
  | .none => .ok .none
  | .list l => if l.all isStrArg then .ok (.list l) else .error .typeError
  | .str s => .ok (.list [.str s])
  | _ => .error .typeError

def validateContext : Arg → Except PyExc Unit
  | .none => .error .valueError
  | .list l => if l.length = 2 then .ok () else .error .valueError
  | _ => .error .typeError

def instPath : Inst → Option Path
  | .mk _ p _ _ => p

def instSetPath (f : Option Path → Option Path) : Inst → Inst
  | .mk c p ps qs => .mk c (f p) ps qs

def pathSetNs (ns : Option Str) : Path → Path
  | .inst c h _ ks => .inst c h ns ks
  | .cls c h _ => .cls c h ns

def pathSetHost (h : Option Str) : Path → Path
  | .inst c _ ns ks => .inst c h ns ks
  | .cls c _ ns => .cls c h ns

/-- the `.path` attribute of an argument; `none` = the Python object has no such attribute (AttributeError) -/
def argPath : Arg → Option (Option Path)
  | .inst (.mk _ p _ _) => some p
  | .cls (.mk _ _ p _ _ _) => some p
  | _ => none

def listItem (l : List Arg) (i : Nat) : Arg := l.getD i .none

/-- `_validate_MaxObjectCount_OpenPull(P)`: the argument is only validated -/
def validateMaxObj (a : Arg) : Except PyExc Arg := do let _ ← iparamPosInt a; .ok a

/-- `_validate_context(P)` -/
def validateContextArg (a : Arg) : Except PyExc Arg := do validateContext a; .ok a

/-- `if P.path is None: raise ValueError` -/
def requirePathArg : Arg → Except PyExc Arg
  | .inst (.mk _ none _ _) => .error .valueError
  | a => .ok a

/-- `P.path.namespace = None` / `P.path.host = None` / `P.path = None` (P is a CIMInstance at that point;
    anything else has no such attribute) -/
def modifyPathArg (f : Option Path → Option Path) : Arg → Except PyExc Arg
  | .inst i => .ok (.inst (instSetPath f i))
  | _ => .error .attributeError

/-- the statements that compute a new value for one parameter (or validate it): parameter name and function -/
def checkFn : Req.Check → Option (String × (Arg → Except PyExc Arg))
  | .className p req => some (p, iparamClassName req)
  | .instanceName p req => some (p, iparamInstanceName req)
  | .objectName p req => some (p, iparamObjectName req)
  | .string p req => some (p, iparamString req)
  | .qualDecl p req => some (p, iparamQualDecl req)
  | .instance p => some (p, iparamInstance)
  | .klass p => some (p, iparamClass)
  | .bool p => some (p, iparamBool)
  | .posInt p => some (p, iparamPosInt)
  | .propertyList p => some (p, iparamPropertyList)
  | .maxObjOpenPull p => some (p, validateMaxObj)
  | .context p => some (p, validateContextArg)
  | .requirePath p => some (p, requirePathArg)
  | .clearPathNamespace p => some (p, modifyPathArg (fun q => q.map (pathSetNs none)))
  | .clearPathHost p => some (p, modifyPathArg (fun q => q.map (pathSetHost none)))
  | .clearPath p => some (p, modifyPathArg (fun _ => none))
  | _ => none

/-- the statements that compute the local variable `namespace` (and `requireAttr`, which cannot fail) -/
def runNsCheck (dn : Str) (s : St) : Req.Check → Except PyExc St
  | .nsFromClassNameIfNone p =>
    match s.ns, s.get p with
    | .none, .className path => .ok { s with ns := optNsArg (pathNs path) }
    | _, _ => .ok s
  | .nsFromNamespace => do let n ← nsFromNamespace dn s.ns; .ok { s with ns := n }
  | .nsFromObjectName p => do let n ← nsFromObjectName dn (s.get p); .ok { s with ns := n }
  | .nsFromInstancePath p =>
    match s.get p with
    | .inst (.mk _ (some path) _ _) => do let n ← nsFromObjectName dn (.instName path); .ok { s with ns := n }
    | _ => .error .attributeError
  | .nsFromPathIfNone p =>
    match s.ns with
    | .none =>
      match argPath (s.get p) with
      | none => .error .attributeError
      | some none => .ok s
      | some (some path) =>
        match pathNs path with
        | some n => .ok { s with ns := .str n }
        | none => .ok s
    | _ => .ok s
  | .nsFromInstancePathIfNone p =>
    match s.ns, s.get p with
    | .none, .inst (.mk _ (some path) _ _) =>
      match pathNs path with
      | some n => .ok { s with ns := .str n }
      | none => .ok s
    | _, _ => .ok s
  | .nsFromContext p =>
    match s.get p with
    | .list l => .ok { s with ns := listItem l 1 }
    | _ => .error .typeError
  | _ => .ok s

/-- meaning of one extracted statement -/
def runCheck (dn : Str) (s : St) (c : Req.Check) : Except PyExc St :=
  match checkFn c with
  | some (p, f) => do let a ← f (s.get p); .ok (s.set p a)
  | none => runNsCheck dn s c

def runChecks (dn : Str) : St → List Req.Check → Except PyExc St
  | s, [] => .ok s
  | s, c :: cs => do let s' ← runCheck dn s c; runChecks dn s' cs

/-! ### `tocimxml(value)` of a parameter value -/

/-- `CIMProperty.tocimxml`: `assert self.type != 'reference'` for an array property (arrays of references have no
    CIM-XML representation; the constructor accepts them) -/
def refArrayProp : Prop_ → Bool
  | .mk _ ty _ isArray _ _ _ _ _ _ => isArray && ty == "reference".toList

def instAsserts : Inst → Bool
  | .mk _ _ props _ => props.any refArrayProp

def clsAsserts : Cls → Bool
  | .mk _ _ _ props _ _ => props.any refArrayProp

/-- `CIMInstance.tocimxml()` as the operation methods call it: AssertionError for an array-of-references property,
    ValueError for a character XML cannot carry -/
def instXml (C : Codec) (i : Inst) : Except PyExc Xml :=
  if instAsserts i then .error .assertionError else checked (encInst C i)

def clsXml (C : Codec) (c : Cls) : Except PyExc Xml :=
  if clsAsserts c then .error .assertionError else checked (encCls C c)


def nullItem : Xml := if Pywbem.Generated.sendValueNull then E "VALUE.NULL" [] [] else E "VALUE" [] []

def boolText (b : Bool) : Str := if b then "TRUE".toList else "FALSE".toList

/-- one item of a list value: `VALUE(atomic_to_cim_xml(v))` -/
def listItemXml : Arg → Except PyExc Xml
  | .none => .ok nullItem
  | .str s => checked (valueElem s)
  | .bool b => .ok (valueElem (boolText b))
  | .int i => .ok (valueElem (intToStr i))
  | _ => .error .typeError

def listItemsXml : List Arg → Except PyExc (List Xml)
  | [] => .ok []
  | a :: as => do let x ← listItemXml a; let xs ← listItemsXml as; .ok (x :: xs)

/-- mirrors pywbem/_cim_obj.py: tocimxml -/
def argXml (C : Codec) : Arg → Except PyExc Xml
  | .none => .error .valueError
  | .list l => do let xs ← listItemsXml l; .ok (E "VALUE.ARRAY" [] xs)
  | .str s => checked (valueElem s)
  | .bool b => .ok (valueElem (boolText b))
  | .int i => .ok (valueElem (intToStr i))
  | .className p | .instName p => checked (encPath C p)
  | .inst i => instXml C i
  | .cls c => clsXml C c
  | .qdecl q => checked (encQualDecl C q)
  | .other => .error .typeError

/-! ### `tocimxml(value)` / `tocimxmlstr(value)` of a CIM data value that is not inside an object -/

/-- one item of a list value: `VALUE(atomic_to_cim_xml(v))`; CIM objects are not atomic (TypeError) -/
def valueItemXml (C : Codec) : Atom → Except PyExc Xml
  | .null => .ok nullItem
  | .ref _ | .einst _ | .ecls _ => .error .typeError
  | a => checked (valueElem (atomText C a))

def valueItemsXml (C : Codec) : List Atom → Except PyExc (List Xml)
  | [] => .ok []
  | a :: as => do let x ← valueItemXml C a; let xs ← valueItemsXml C as; .ok (x :: xs)

/-- mirrors pywbem/_cim_obj.py: tocimxml (module-level function) for a CIM data value, a list of them, or a CIM
    object name / instance / class given as the value (`value.tocimxml()`) -/
def tocimxmlValue (C : Codec) : Val → Except PyExc Xml
  | .null => .error .valueError
  | .array l => do let xs ← valueItemsXml C l; .ok (E "VALUE.ARRAY" [] xs)
  | .scalar .null => .error .valueError
  | .scalar (.ref p) => checked (encPath C p)
  | .scalar (.einst i) => instXml C i
  | .scalar (.ecls c) => clsXml C c
  | .scalar a => checked (valueElem (atomText C a))

/-! ### envelope -/

abbrev Headers := List (Str × Str)

def cimElem (msg : Xml) : Xml :=
  E "CIM" [("CIMVERSION".toList, Pywbem.Generated.reqCimVersion.toList),
           ("DTDVERSION".toList, Pywbem.Generated.reqDtdVersion.toList)]
    [E "MESSAGE" [("ID".toList, Pywbem.Generated.reqMessageId.toList),
                  ("PROTOCOLVERSION".toList, Pywbem.Generated.reqProtocolVersion.toList)] [msg]]

/-- `[IPARAMVALUE(n, tocimxml(v)) for n, v in params.items() if v is not None]` -/
def iparamValues (C : Codec) (tag : String) : List (String × Arg) → Except PyExc (List Xml)
  | [] => .ok []
  | (_, .none) :: rest => iparamValues C tag rest
  | (n, a) :: rest => do
    let x ← argXml C a
    let xs ← iparamValues C tag rest
    .ok (E tag [("NAME".toList, n.toList)] [x] :: xs)

/-- mirrors `_imethodcall` up to `wbem_request` -/
def imethodcall (C : Codec) (methodname : String) (ns : Arg) (params : List (String × Arg)) :
    Except PyExc (Headers × Xml) :=
  match ns with
  | .str n => do
    let plist ← iparamValues C "IPARAMVALUE" params
    let lnp ← checked (localNsPath n)
    let doc ← checked (cimElem (E "SIMPLEREQ" [] [E "IMETHODCALL" [("NAME".toList, methodname.toList)] (lnp :: plist)]))
    .ok ([("CIMOperation".toList, "MethodCall".toList), ("CIMMethod".toList, methodname.toList),
          ("CIMObject".toList, n)], doc)
  | .className _ | .instName _ => .error .attributeError     -- header ok, then `namespace.split`
  | _ => .error .typeError                                    -- get_cimobject_header

def srcArg (s : St) : Req.PSrc → Arg
  | .arg p => s.get p
  | .item0 p => match s.get p with
    | .list l => listItem l 0
    | _ => .none

/-- an intrinsic operation method, from its extracted specification -/
def runOp (C : Codec) (dn : Str) (spec : Req.OpSpec) (ns : Arg) (args : List (String × Arg)) :
    Except PyExc (Headers × Xml) := do
  let s0 : St := { ns := ns, args := spec.argNames.map (fun n => (n, getArg args n)) }
  let s ← runChecks dn s0 spec.checks
  let nsv := match spec.ns with
    | .var => s.ns
    | .item1 p => match s.get p with
      | .list l => listItem l 1
      | _ => .none
  imethodcall C spec.name nsv (spec.params.map (fun p => (p.1, srcArg s p.2)))

def findOp (name : String) : Option Req.OpSpec := Pywbem.Generated.ops.find? (fun o => o.name == name)

/-! ### ExportIndication -/

/-- mirrors ExportIndication + `_iexportcall` up to `wbem_request` -/
def exportIndication (C : Codec) (a : Arg) : Except PyExc (Headers × Xml) := do
  let a ← iparamInstance a
  let a := match a with
    | .inst i => Arg.inst (instSetPath (fun _ => none) i)
    | x => x
  let plist ← iparamValues C "EXPPARAMVALUE" [("NewIndication", a)]
  let doc ← checked (cimElem (E "SIMPLEEXPREQ" [] [E "EXPMETHODCALL" [("NAME".toList, "ExportIndication".toList)] plist]))
  .ok ([("CIMExport".toList, "MethodRequest".toList), ("CIMExportMethod".toList, "ExportIndication".toList)], doc)

/-! ### InvokeMethod -/

inductive PItem where
  | atom (a : Atom)
  | null
  | list               -- a nested list
  deriving Inhabited

inductive PVal where
  | null
  | scalar (a : Atom)
  | array (l : List PItem)
  | other              -- a value whose type `infer_type` rejects (tuple, dict, ...)
  deriving Inhabited

inductive MParam where
  | cimparam (name ty : Str) (val : PVal) (emb : Option Str)     -- a CIMParameter in Params
  | tuple (name : Str) (val : PVal)                              -- a (name, value) tuple in Params, or a keyword argument
  deriving Inhabited

def inferAtom : Atom → Except PyExc (Option Str)
  | .null => .ok none
  | .str _ => .ok (some "string".toList)
  | .char16 _ => .ok (some "char16".toList)
  | .bool _ => .ok (some "boolean".toList)
  | .int t _ => .ok (some t.name)
  | .real w _ => .ok (some (if w then "real64".toList else "real32".toList))
  | .dt _ => .ok (some "datetime".toList)
  | .ref _ => .ok (some "reference".toList)
  | .einst _ | .ecls _ => .ok (some "string".toList)
  | .pyint _ | .pyfloat _ => .error .typeError

/-- `infer_type` -/
def inferType : PVal → Except PyExc (Option Str)
  | .null => .ok none
  | .scalar a => inferAtom a
  | .array [] => .ok none
  | .array (.atom a :: _) => inferAtom a
  | .array (.null :: _) => .ok none
  | .array (.list :: _) => .ok none       -- infer_type of the inner list (a type name, None or TypeError): immaterial,
                                          -- `paramvalue` rejects every nested list with TypeError
  | .other => .error .typeError

def embOfAtom : Atom → Option Str
  | .ecls _ => some "object".toList
  | .einst _ => some "instance".toList
  | _ => none

/-- `infer_embedded_object` -/
def inferEmb : PVal → Option Str
  | .scalar a => embOfAtom a
  | .array (.atom a :: _) => embOfAtom a
  | _ => none

/-- `paramvalue` of a scalar -/
def atomParamXml (C : Codec) : Atom → Except PyExc (Option Xml)
  | .null => .ok none
  | .ref p => do let x ← checked (encPath C p); .ok (some (E "VALUE.REFERENCE" [] [x]))
  | .pyint _ | .pyfloat _ => .error .assertionError
  | a => do let x ← checked (valueElem (atomText C a)); .ok (some x)

/-- one item of an array parameter value: `paramvalue(x) if x is not None else arrayitem_null()` -/
def itemParamXml (C : Codec) : PItem → Except PyExc Xml
  | .null | .atom .null => .ok nullItem
  | .atom (.ref p) => do let x ← checked (encPath C p); .ok (E "VALUE.REFERENCE" [] [x])
  | .atom (.pyint _) | .atom (.pyfloat _) => .error .assertionError
  | .atom a => checked (valueElem (atomText C a))
  | .list => .ok nullItem                            -- placeholder: rejected before it is used

def itemsParamXml (C : Codec) : List PItem → Except PyExc (List Xml)
  | [] => .ok []
  | i :: is => do let x ← itemParamXml C i; let xs ← itemsParamXml C is; .ok (x :: xs)

def isRefItem : PItem → Bool
  | .atom (.ref _) => true
  | _ => false

/-- an item the array cannot take: a nested list, or a reference among non-references (and vice versa) -/
def itemMismatch (refArray : Bool) : PItem → Bool
  | .null => false
  | .list => true
  | .atom (.ref _) => !refArray
  | .atom .null => false
  | .atom _ => refArray

/-- `obj and isinstance(obj[0], (CIMClassName, CIMInstanceName))` -/
def isRefArray : List PItem → Bool
  | i :: _ => isRefItem i
  | [] => false

/-- `paramvalue` of a list -/
def arrayParamXml (C : Codec) (l : List PItem) : Except PyExc (Option Xml) :=
  if l.any (itemMismatch (isRefArray l)) then .error .typeError
  else do
    let xs ← itemsParamXml C l
    .ok (some (E (if isRefArray l then "VALUE.REFARRAY" else "VALUE.ARRAY") [] xs))

/-- `paramvalue` -/
def paramValueXml (C : Codec) : PVal → Except PyExc (Option Xml)
  | .null => .ok none
  | .other => .error .assertionError
  | .scalar a => atomParamXml C a
  | .array l => arrayParamXml C l

def ptuple : MParam → Except PyExc (Str × PVal × Option Str × Option Str)
  | .cimparam n t v e => .ok (n, v, some t, e)
  | .tuple n v => do let t ← inferType v; .ok (n, v, t, inferEmb v)

def ptuples : List MParam → Except PyExc (List (Str × PVal × Option Str × Option Str))
  | [] => .ok []
  | p :: ps => do let t ← ptuple p; let ts ← ptuples ps; .ok (t :: ts)

def paramValues (C : Codec) : List (Str × PVal × Option Str × Option Str) → Except PyExc (List Xml)
  | [] => .ok []
  | (n, v, t, eo) :: rest => do
    let x ← paramValueXml C v
    let pv ← checked (E "PARAMVALUE" ([("NAME".toList, n)] ++ optAttr "PARAMTYPE" t ++ optAttr "EmbeddedObject" eo)
      (match x with | some k => [k] | none => []))
    let xs ← paramValues C rest
    .ok (pv :: xs)

/-! #### the CIMObject header of an extrinsic method call -/

def strLt : Str → Str → Bool
  | [], [] => false
  | [], _ :: _ => true
  | _ :: _, [] => false
  | a :: as, b :: bs => a.toNat < b.toNat || (a == b && strLt as bs)

def insertKey (k : Str × Atom) : List (Str × Atom) → List (Str × Atom)
  | [] => [k]
  | q :: qs => if strLt q.1 k.1 then q :: insertKey k qs else k :: q :: qs

/-- `.replace('\\', '\\\\').replace('"', '\\"')` -/
def uriEscape : Str → Str
  | [] => []
  | c :: cs => if c = '\\' then '\\' :: '\\' :: uriEscape cs
               else if c = '"' then '\\' :: '"' :: uriEscape cs else c :: uriEscape cs

def joinComma : List Str → Str
  | [] => []
  | [s] => s
  | s :: rest => s ++ ',' :: joinComma rest

def keyNamed : Key → Option (Str × Atom)
  | .mk (some n) v => some (n, v)
  | .mk none _ => none

/-- `repr(value)` of a real-valued keybinding in `to_wbem_uri` (kind 0 = Real32, 1 = Real64, 2 = float): Python's float
    printing is third-party behaviour, a parameter like `Codec` -/
structure KeyCodec where
  reprReal : Nat → UInt64 → Str

/-- `if self.host is not None or format not in ('cimobject', 'historical'): ret.append('/')` -/
def hostSlash : Option Str → Str
  | some _ => ['/']
  | none => []

/-- `[f(x) for x in l]` where `f` may raise -/
def mapOpt {α β : Type} (f : α → Option β) : List α → Option (List β)
  | [] => some []
  | x :: xs => match f x, mapOpt f xs with
    | some y, some ys => some (y :: ys)
    | _, _ => none

/-- a quoted string of `to_wbem_uri` -/
def uriQuote (s : Str) : Str := '"' :: uriEscape s ++ ['"']

/-- the value text of one keybinding in `to_wbem_uri(format='cimobject')`; `rec` renders a referenced instance path
    (`value.to_wbem_uri(format=format)`); `none` = TypeError -/
def keyValText (C : KeyCodec) (rec : Path → Option Str) : Atom → Option Str
  | .str s | .char16 s => some (uriQuote s)
  | .bool b => some (boolText b)
  | .real w bits => some (C.reprReal (if w then 1 else 0) bits)
  | .pyfloat bits => some (C.reprReal 2 bits)
  | .int _ i | .pyint i => some (intToStr i)
  | .dt s => some ('"' :: s ++ ['"'])
  | .ref p => (rec p).map uriQuote
  | _ => none

/-- one `key=value` -/
def keyTok (C : KeyCodec) (rec : Path → Option Str) (kv : Str × Atom) : Option Str :=
  (keyValText C rec kv.2).map (fun t => kv.1 ++ '=' :: t)

/-- `case_sorted(self.keybindings.keys())`: the named keybindings in code point order of their names -/
def sortedKeys (keys : List Key) : Option (List (Str × Atom)) := (mapOpt keyNamed keys).map (fun named => named.foldr insertKey [])

def uriHead (c : Str) (host ns : Option Str) : Str := hostSlash host ++ (match ns with | some n => n | none => []) ++ ':' :: c

/-- `to_wbem_uri(format='cimobject')` of one path, references rendered by `rec`: the host is not written (but a path
    that has one starts with `/`); `ns:Class.k="v",…` -/
def renderPath (C : KeyCodec) (rec : Path → Option Str) : Path → Option Str
  | .cls c host ns => some (uriHead c host ns)
  | .inst c host ns keys =>
    match sortedKeys keys with
    | none => none
    | some sorted =>
      match mapOpt (keyTok C rec) sorted with
      | none => none
      | some parts => some (if parts.isEmpty then uriHead c host ns else uriHead c host ns ++ '.' :: joinComma parts)

/-- mirrors pywbem/_cim_obj.py: CIMInstanceName.to_wbem_uri / CIMClassName.to_wbem_uri with format='cimobject';
    `fuel` bounds the nesting of reference keybindings (callers pass `pathDepth`) -/
def pathUri (C : KeyCodec) : Nat → Path → Option Str
  | 0, p => renderPath C (fun _ => none) p
  | f + 1, p => renderPath C (pathUri C f) p

def pathDepthKeys : List Key → Nat
  | [] => 0
  | .mk _ (.ref (.inst _ _ _ ks)) :: rest => max (pathDepthKeys ks + 1) (pathDepthKeys rest)
  | _ :: rest => pathDepthKeys rest

def pathDepth : Path → Nat
  | .inst _ _ _ ks => pathDepthKeys ks + 1
  | .cls .. => 1

def pathClassName : Path → Str
  | .inst c _ _ _ => c
  | .cls c _ _ => c

/-- InvokeMethod: `MethodName = self._iparam_string(MethodName, 'MethodName', required=True)` -/
def methodNameOf (m : Arg) : Except PyExc Str :=
  match iparamString true m with
  | .ok (.str s) => .ok s
  | .ok _ => .error .typeError
  | .error e => .error e

/-- `localobject`: the object name with the default namespace filled in and without host; a string is a class name -/
def localObject (dn : Str) : Arg → Except PyExc Path
  | .className p | .instName p => .ok (pathSetHost none (pathSetNs (some ((pathNs p).getD dn)) p))
  | .str s => .ok (.cls s none (some dn))
  | _ => .error .typeError

/-- `get_cimobject_header(localobject)` -/
def cimObjectHeader (K : KeyCodec) (lo : Path) : Except PyExc Str :=
  match pathUri K (pathDepth lo) lo with
  | some h => .ok h
  | none => .error .typeError

/-- the SFCB `Pragma: UpdateExpiredPassword` header (pywbem config AUTO_GENERATE_SFCB_UEP_HEADER) -/
def sfcbPragma (methodname : Str) (objectname : Arg) : Except PyExc Headers :=
  if Pywbem.Generated.autoGenerateSfcbUepHeader && methodname == "UpdateExpiredPassword".toList then
    match objectname with
    | .str _ => .error .attributeError                    -- `objectname.classname` of a str
    | .className p | .instName p =>
      .ok (if pathClassName p == "SFCB_Account".toList then [("Pragma".toList, "UpdateExpiredPassword".toList)] else [])
    | _ => .ok []
  else .ok []

/-- mirrors InvokeMethod + `_methodcall` up to `wbem_request`.
    `K.reprReal` stands for `repr(value)` of a real keybinding value in the CIMObject header. -/
def methodcall (C : Codec) (K : KeyCodec) (dn : Str) (methodArg : Arg) (objectname : Arg) (params : List MParam) :
    Except PyExc (Headers × Xml) := do
  let methodname ← methodNameOf methodArg
  let localobject ← localObject dn objectname
  let hdr ← cimObjectHeader K localobject
  let pragma ← sfcbPragma methodname objectname
  let pts ← ptuples params
  let plist ← paramValues C pts
  let lo ← checked (encPath C localobject)
  let doc ← checked (cimElem (E "SIMPLEREQ" [] [E "METHODCALL" [("NAME".toList, methodname)] (lo :: plist)]))
  .ok ([("CIMOperation".toList, "MethodCall".toList), ("CIMMethod".toList, methodname),
        ("CIMObject".toList, hdr)] ++ pragma, doc)

/-! ### between `wbem_request` and the socket: what `requests` and `http.client` do with the header values

mirrors pywbem/_cim_http.py: wbem_request (`req_headers.update(dict(cimxml_headers))`, `conn.session.post(...)`,
  `except requests.exceptions.RequestException` -> pywbem ConnectionError)
mirrors requests.utils: check_header_validity / _validate_header_part with `_VALID_HEADER_VALUE_RE_STR`
  = `^\S[^\r\n]*\Z|^\Z`   (third party, pinned by K on every run)
mirrors http.client: HTTPConnection.putheader (`value.encode('latin-1')`)                  (third party, likewise) -/

/-- `Py_UNICODE_ISSPACE`: what `\s` matches in a str pattern -/
def pyIsSpace (c : Char) : Bool :=
  let n := c.toNat
  (0x09 ≤ n && n ≤ 0x0D) || (0x1C ≤ n && n ≤ 0x20) || n == 0x85 || n == 0xA0 || n == 0x1680 ||
  (0x2000 ≤ n && n ≤ 0x200A) || n == 0x2028 || n == 0x2029 || n == 0x202F || n == 0x205F || n == 0x3000

/-- `^\S[^\r\n]*\Z|^\Z` -/
def headerValueOk : Str → Bool
  | [] => true
  | c :: cs => !pyIsSpace c && cs.all (fun d => d != '\r' && d != '\n')

/-- `value.encode('latin-1')` succeeds -/
def latin1Ok (v : Str) : Bool := v.all (fun c => c.toNat < 256)

/-- a request the operation method handed to `wbem_request`: refused by `requests` (InvalidHeader, re-raised by pywbem
    as ConnectionError), refused by `http.client` (UnicodeEncodeError), or written to the connection -/
def transport (r : Headers × Xml) : Except PyExc (Headers × Xml) :=
  if !r.1.all (fun p => headerValueOk p.2) then .error .connectionError
  else if !r.1.all (fun p => latin1Ok p.2) then .error .unicodeError
  else .ok r

/-- an intrinsic operation up to the socket -/
def sendOp (C : Codec) (dn : Str) (spec : Req.OpSpec) (ns : Arg) (args : List (String × Arg)) :
    Except PyExc (Headers × Xml) := do
  let r ← runOp C dn spec ns args
  transport r

def sendInvoke (C : Codec) (K : KeyCodec) (dn : Str) (m obj : Arg) (params : List MParam) : Except PyExc (Headers × Xml) := do
  let r ← methodcall C K dn m obj params
  transport r

def sendExport (C : Codec) (a : Arg) : Except PyExc (Headers × Xml) := do
  let r ← exportIndication C a
  transport r

/-! ### listener responses -/

def listenerEnvelope (msgid : Str) (rsp : Xml) : Xml :=
  E "CIM" [("CIMVERSION".toList, Pywbem.Generated.listenerCimVersion.toList),
           ("DTDVERSION".toList, Pywbem.Generated.listenerDtdVersion.toList)]
    [E "MESSAGE" [("ID".toList, msgid), ("PROTOCOLVERSION".toList, Pywbem.Generated.listenerProtocolVersion.toList)]
      [E "SIMPLEEXPRSP" [] [rsp]]]

/-- mirrors send_success_response -/
def listenerSuccess (msgid methodname : Str) : Xml :=
  listenerEnvelope msgid (E "EXPMETHODRESPONSE" [("NAME".toList, methodname)] [])

/-- mirrors send_error_response (error_insts is never passed by the listener) -/
def listenerError (msgid methodname : Str) (code : Nat) (desc : Str) : Xml :=
  listenerEnvelope msgid (E "EXPMETHODRESPONSE" [("NAME".toList, methodname)]
    [E "ERROR" [("CODE".toList, natToStr code), ("DESCRIPTION".toList, desc)] []])

/-- the CIM-XML level decision of `ListenerRequestHandler.do_POST` after `parse_export_request` succeeded:
    `params` = the parameter names with a flag "value is a CIMInstance" (names are distinct: duplicates were refused
    with HTTP 400 before), `queueFull` = `_handle_indication` raised queue.Full; `desc` = the text of the error
    description (`_format(...)` of the offending names / value: ASCII by construction).
    mirrors pywbem/_listener.py: ListenerRequestHandler.do_POST (the part after the header checks and the parse) -/
def listenerRespond (msgid methodname : Str) (params : List (Str × Bool)) (queueFull : Bool) (desc : Str) : Xml :=
  if methodname = "ExportIndication".toList then
    match params with
    | [(n, isInst)] =>
      if n = "NewIndication".toList then
        if isInst then
          if queueFull then listenerError msgid methodname 1 desc            -- CIM_ERR_FAILED
          else listenerSuccess msgid methodname
        else listenerError msgid methodname 4 desc                           -- CIM_ERR_INVALID_PARAMETER
      else listenerError msgid methodname 4 desc
    | _ => listenerError msgid methodname 4 desc
  else listenerError msgid methodname 7 desc                                 -- CIM_ERR_NOT_SUPPORTED

/-- ID attribute of the MESSAGE element -/
def bodyMessageId : Xml → Option Str
  | .elem _ _ [.elem _ as _] => Xml.attr as "ID".toList
  | _ => none

/-! ### what the theorems read off a request -/

/-- the (I)METHODCALL / EXPMETHODCALL element of a request document: CIM / MESSAGE / SIMPLE(EXP)REQ / call -/
def bodyCall : Xml → Option Xml
  | .elem _ _ [.elem _ _ [.elem _ _ [c]]] => some c
  | _ => none

/-- NAME of the call element -/
def bodyMethodName (x : Xml) : Option Str :=
  match bodyCall x with
  | some (.elem _ as _) => Xml.attr as "NAME".toList
  | _ => none

def nsNames : List Xml → List Str
  | [] => []
  | .elem _ as _ :: ks => (Xml.attr as "NAME".toList).getD [] :: nsNames ks
  | .text _ :: ks => nsNames ks

def joinSlash : List Str → Str
  | [] => []
  | [s] => s
  | s :: rest => s ++ '/' :: joinSlash rest

/-- namespace named by a LOCALNAMESPACEPATH element -/
def lnpNamespace : Xml → Str
  | .elem _ _ ks => joinSlash (nsNames ks)
  | .text _ => []

/-- target namespace of an IMETHODCALL request: its LOCALNAMESPACEPATH child;
    of a METHODCALL request: the LOCALNAMESPACEPATH inside LOCALCLASSPATH / LOCALINSTANCEPATH -/
def bodyNamespace (x : Xml) : Option Str :=
  match bodyCall x with
  | some (.elem n _ (t :: _)) =>
    if n = "IMETHODCALL".toList then some (lnpNamespace t)
    else if n = "METHODCALL".toList then
      match t with
      | .elem _ _ (l :: _) => some (lnpNamespace l)
      | _ => none
    else none
  | _ => none

/-- class name of the target of a METHODCALL request -/
def bodyClassName (x : Xml) : Option Str :=
  match bodyCall x with
  | some (.elem n _ (.elem _ _ [_, .elem _ as _] :: _)) =>
    if n = "METHODCALL".toList then
      match Xml.attr as "NAME".toList with
      | some c => some c
      | none => Xml.attr as "CLASSNAME".toList
    else none
  | _ => none

/-- the LOCALINSTANCEPATH / LOCALCLASSPATH element of a METHODCALL request -/
def bodyTarget (x : Xml) : Option Xml :=
  match bodyCall x with
  | some (.elem n _ (t :: _)) => if n = "METHODCALL".toList then some t else none
  | _ => none

/-- undo `uriEscape`: `\\c` stands for `c` -/
def uriUnescape : Str → Str
  | [] => []
  | [c] => [c]
  | c :: d :: rest => if c = '\\' then d :: uriUnescape rest else c :: uriUnescape (d :: rest)

def header (h : Headers) (k : String) : Option Str := Xml.attr h k.toList

end Pywbem.Model.Req
