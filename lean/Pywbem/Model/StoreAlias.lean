/-
C10 — the copy discipline of the instance operations: which Python objects the client and the repository share.

Objects are trees of *nodes* with identities (`Id`): a node stands for a group of Python objects that every copy
function of the code copies together.

  CIMInstanceName  = one node (the object with its keybindings NocaseDict) + the nodes of its mutable keybinding
                     values (`kids`: nested CIMInstanceName objects of reference keys)
  CIMProperty      = one node (+ its qualifiers dict) + the nodes of its mutable value (`vals`: a list object, a
                     CIMInstanceName, an embedded CIMInstance – each counted as one node)
  CIMInstance      = one node (the object with its properties / qualifiers NocaseDicts), its property nodes, its path

Identities allocated by the server side (`srv n`, from a counter) are distinct from those of objects the client
constructs itself (`cli n`).  `stepA` replays, for each public operation, the sequence of copy calls of the code:

mirrors pywbem/_cim_operations.py: WBEMConnection._iparam_instance (CIMInstance.copy), _iparam_instancename
  (CIMInstanceName.copy), GetInstance (`instance.path = InstanceName.copy()`)
mirrors pywbem/_cim_obj.py: CIMInstance.copy (new property objects, shared value objects), CIMInstanceName.copy
  (shared keybinding value objects), CIMInstanceName.from_instance (keybinding values are the property values)
mirrors pywbem_mock/_providerdispatcher.py: ProviderDispatcher.CreateInstance / ModifyInstance (deepcopy)
mirrors pywbem_mock/_instancewriteprovider.py: InstanceWriteProvider.CreateInstance (returns new_instance.path),
  ModifyInstance (get, update, store), modify_multi_namespace_instance (deepcopy per namespace)
mirrors pywbem_mock/_inmemoryrepository.py: InMemoryObjectStore.create (deepcopy of name and object), get
  (deepcopy), update (no copy), iter_values (deepcopy)
mirrors pywbem_mock/_mainprovider.py: MainProvider._get_instance, EnumerateInstances, EnumerateInstanceNames
  (path.copy() of the copied instances)

`CopyCfg` switches single copies off, so that the code before fix F6 (`keyCopy := false`) and the seeded mutants
"create without deepcopy", "GetInstance hands out the stored object" are instances of the same model.
-/

namespace Pywbem.Model.StoreAlias

inductive Id where
  | srv (n : Nat)
  | cli (n : Nat)
  deriving DecidableEq, Repr, Inhabited

structure PathO where
  id   : Id
  kids : List Id
  deriving DecidableEq, Repr, Inhabited

structure PropO where
  id   : Id
  vals : List Id
  deriving DecidableEq, Repr, Inhabited

structure InstO where
  id    : Id
  props : List PropO
  path  : Option PathO
  deriving DecidableEq, Repr, Inhabited

def PathO.nodes (p : PathO) : List Id := p.id :: p.kids
def PropO.nodes (p : PropO) : List Id := p.id :: p.vals
def InstO.nodes (i : InstO) : List Id :=
  i.id :: (i.props.flatMap PropO.nodes ++ (match i.path with | some p => p.nodes | none => []))

structure CopyCfg where
  keyCopy    : Bool := true    -- InMemoryObjectStore.create copies the name (fix F6)
  createCopy : Bool := true    -- InMemoryObjectStore.create deep-copies the object
  getCopy    : Bool := true    -- InMemoryObjectStore.get(copy=True) in _get_instance
  deriving Repr

structure AState where
  next   : Nat := 0
  store  : List (PathO × InstO) := []
  client : List Id := []          -- every node the client has been handed
  deriving Repr

/-! ### allocation and the copy functions -/

def freshIds (n k : Nat) : List Id := (List.range k).map (fun j => Id.srv (n + j))

/-- `copy.deepcopy` of a path: every node new -/
def deepPath (n : Nat) (p : PathO) : PathO × Nat :=
  ({ id := .srv n, kids := freshIds (n + 1) p.kids.length }, n + 1 + p.kids.length)

def deepProp (n : Nat) (p : PropO) : PropO × Nat :=
  ({ id := .srv n, vals := freshIds (n + 1) p.vals.length }, n + 1 + p.vals.length)

def deepProps : Nat → List PropO → List PropO × Nat
  | n, [] => ([], n)
  | n, p :: t =>
    let a := deepProp n p
    let b := deepProps a.2 t
    (a.1 :: b.1, b.2)

/-- `copy.deepcopy` of an instance: every node new -/
def deepInst (n : Nat) (i : InstO) : InstO × Nat :=
  let ps := deepProps (n + 1) i.props
  match i.path with
  | none => ({ id := .srv n, props := ps.1, path := none }, ps.2)
  | some p =>
    let q := deepPath ps.2 p
    ({ id := .srv n, props := ps.1, path := some q.1 }, q.2)

/-- mirrors pywbem/_cim_obj.py: CIMInstanceName.copy – new object and keybindings dict, values shared -/
def copyPath (n : Nat) (p : PathO) : PathO × Nat := ({ id := .srv n, kids := p.kids }, n + 1)

/-- new CIMProperty objects, value objects shared -/
def copyProps : Nat → List PropO → List PropO × Nat
  | n, [] => ([], n)
  | n, p :: t =>
    let b := copyProps (n + 1) t
    ({ id := .srv n, vals := p.vals } :: b.1, b.2)

/-- mirrors pywbem/_cim_obj.py: CIMInstance.copy – new instance and property objects, value objects shared,
    path copied with CIMInstanceName.copy -/
def copyInst (n : Nat) (i : InstO) : InstO × Nat :=
  let ps := copyProps (n + 1) i.props
  match i.path with
  | none => ({ id := .srv n, props := ps.1, path := none }, ps.2)
  | some p =>
    let q := copyPath ps.2 p
    ({ id := .srv n, props := ps.1, path := some q.1 }, q.2)

/-- mirrors pywbem/_cim_obj.py: CIMInstanceName.from_instance – a new path whose keybinding values are the value
    objects of the (key) properties; `keyIdx` = which properties are keys -/
def fromInstanceO (n : Nat) (i : InstO) (isKey : PropO → Bool) : PathO × Nat :=
  ({ id := .srv n, kids := (i.props.filter isKey).flatMap (·.vals) }, n + 1)

/-! ### the operations -/

inductive AOp where
  | create (x : InstO) (keys : List Nat)           -- NewInstance; indices of its key properties
  | modify (x : InstO) (idx : Nat) (others : Nat)  -- ModifiedInstance (with path); stored entry hit; number of other target namespaces
  | delete (idx : Nat)
  | get (name : PathO) (idx : Nat)
  | enumInsts (idxs : List Nat)
  | enumNames (idxs : List Nat)
  deriving Repr

def isKeyAt (ps : List PropO) (keys : List Nat) (p : PropO) : Bool :=
  keys.any (fun k => ps[k]? == some p)

/-- CreateInstance -/
def stepCreate (cfg : CopyCfg) (s : AState) (x : InstO) (keys : List Nat) : AState :=
  -- client: NewInstance = NewInstance.copy(); NewInstance.path = None
  let c1 := copyInst s.next { x with path := none }
  -- dispatcher: new_instance = deepcopy(NewInstance)
  let d := deepInst c1.2 c1.1
  -- provider: new_instance.path = CIMInstanceName.from_instance(...)
  let p := fromInstanceO d.2 d.1 (isKeyAt d.1.props keys)
  let withPath : InstO := { d.1 with path := some p.1 }
  -- store.create(path, new_instance)
  let key := if cfg.keyCopy then deepPath p.2 p.1 else (p.1, p.2)
  let val := if cfg.createCopy then deepInst key.2 withPath else (withPath, key.2)
  -- the path is returned to the client (which sets its namespace)
  { next := val.2, store := s.store ++ [(key.1, val.1)], client := s.client ++ p.1.nodes }

/-- replace entry `idx` of the store by `(key, inst)` keeping the key object -/
def setEntry (st : List (PathO × InstO)) (idx : Nat) (i : InstO) : List (PathO × InstO) :=
  st.mapIdx (fun j e => if j == idx then (e.1, i) else e)

/-- the per-namespace copies of modify_multi_namespace_instance -/
def extraCopies : Nat → Nat → InstO → List InstO × Nat
  | n, 0, _ => ([], n)
  | n, k + 1, i =>
    let a := deepInst n i
    let b := extraCopies a.2 k i
    (a.1 :: b.1, b.2)

/-- ModifyInstance: nothing is handed out; the stored object is replaced by a private one -/
def stepModify (_cfg : CopyCfg) (s : AState) (x : InstO) (idx : Nat) (others : Nat) : AState :=
  match s.store[idx]? with
  | none => s
  | some e =>
    -- client: ModifiedInstance.copy(); dispatcher: instance_store.get (deepcopy, dropped), deepcopy(ModifiedInstance)
    let c1 := copyInst s.next x
    let g0 := deepInst c1.2 e.2
    let d := deepInst g0.2 c1.1
    -- provider: original_instance = instance_store.get(path) (deepcopy); original_instance.update(d.properties)
    let o := deepInst d.2 e.2
    let merged : InstO := { o.1 with props := o.1.props ++ d.1.props }
    -- multi-namespace: one deepcopy per namespace; single namespace: the object itself is stored
    if others == 0 then { s with next := o.2, store := setEntry s.store idx merged }
    else
      let cs := extraCopies o.2 (others + 1) merged
      { s with next := cs.2, store := setEntry s.store idx (cs.1.headD merged) }

def stepDelete (s : AState) (idx : Nat) : AState := { s with store := s.store.eraseIdx idx }

/-- GetInstance: a copy of the stored instance, with a copy of the client's own path put in -/
def stepGet (cfg : CopyCfg) (s : AState) (name : PathO) (idx : Nat) : AState :=
  match s.store[idx]? with
  | none => s
  | some e =>
    -- client: InstanceName.copy() (sent); server: deepcopy of the stored object
    let n1 := copyPath s.next name
    let r := if cfg.getCopy then deepInst n1.2 e.2 else (e.2, n1.2)
    -- client: instance.path = InstanceName.copy()
    let n2 := copyPath r.2 n1.1
    let res : InstO := { r.1 with path := some n2.1 }
    { s with next := n2.2, client := s.client ++ res.nodes }

/-- EnumerateInstances: for every selected entry `iter_values()` copies, then `_get_instance` copies again -/
def enumInstsFold (cfg : CopyCfg) : AState → List Nat → AState
  | s, [] => s
  | s, idx :: t =>
    match s.store[idx]? with
    | none => enumInstsFold cfg s t
    | some e =>
      let it := deepInst s.next e.2
      let r := if cfg.getCopy then deepInst it.2 e.2 else (e.2, it.2)
      enumInstsFold cfg { s with next := r.2, client := s.client ++ r.1.nodes } t

/-- EnumerateInstanceNames: `path.copy()` of the paths of the copied instances -/
def enumNamesFold : AState → List Nat → AState
  | s, [] => s
  | s, idx :: t =>
    match s.store[idx]? with
    | none => enumNamesFold s t
    | some e =>
      let it := deepInst s.next e.2
      match it.1.path with
      | none => enumNamesFold { s with next := it.2 } t
      | some p =>
        let c := copyPath it.2 p
        enumNamesFold { s with next := c.2, client := s.client ++ c.1.nodes } t

def stepA (cfg : CopyCfg) (s : AState) (op : AOp) : AState :=
  match op with
  | .create x keys => stepCreate cfg s x keys
  | .modify x idx others => stepModify cfg s x idx others
  | .delete idx => stepDelete s idx
  | .get name idx => stepGet cfg s name idx
  | .enumInsts idxs => enumInstsFold cfg s idxs
  | .enumNames idxs => enumNamesFold s idxs

def runA (cfg : CopyCfg) (s : AState) : List AOp → AState
  | [] => s
  | op :: t => runA cfg (stepA cfg s op) t

/-- every node the repository holds -/
def storeIds (s : AState) : List Id := s.store.flatMap (fun e => e.1.nodes ++ e.2.nodes)

/-- the nodes of the objects an operation is called with -/
def AOp.inputIds : AOp → List Id
  | .create x _ => x.nodes
  | .modify x _ _ => x.nodes
  | .get name _ => name.nodes
  | _ => []

end Pywbem.Model.StoreAlias
