/-
C04 — InvokeMethod: the request `_methodcall` builds (METHODCALL with LOCALCLASSPATH/LOCALINSTANCEPATH and
PARAMVALUE elements).  Request side only; the response side of extrinsic methods is covered by the
oracle of the correspondence run, not by this model.

mirrors pywbem/_cim_operations.py: WBEMConnection._methodcall (localobject normalisation, infer_type,
  infer_embedded_object, paramvalue incl. NULL array items, PARAMVALUE list, METHODCALL document)
-/
import Pywbem.Model.Ops

namespace Pywbem.Model.OpsMeth
open Pywbem.Model Pywbem.Model.XmlText Pywbem.Proto Pywbem.Model.Ops

/-- one entry of `Params` / `**params` as the caller passes it -/
structure MArg where
  name : Str
  val : Val
  /-- `some (type, embedded_object)` for a CIMParameter object, `none` for a (name, value) tuple / keyword -/
  declared : Option (Str × Option Str)

/-- the CIM type name `infer_type` finds for one value (`none` = None; TypeError for plain int/float) -/
def inferAtom : Atom → R (Option Str)
  | .null => pure none
  | .str _ => pure (some "string".toList)
  | .char16 _ => pure (some "char16".toList)
  | .bool _ => pure (some "boolean".toList)
  | .int t _ => pure (some t.name)
  | .real w _ => pure (some (if w then "real64".toList else "real32".toList))
  | .dt _ => pure (some "datetime".toList)
  | .ref _ => pure (some "reference".toList)
  | .einst _ => pure (some "string".toList)
  | .ecls _ => pure (some "string".toList)
  | .pyint _ => .error .typeError
  | .pyfloat _ => .error .typeError

/-- mirrors _methodcall: infer_type (a list is typed by its first item, an empty list has no type) -/
def inferType : Val → R (Option Str)
  | .null => pure none
  | .scalar a => inferAtom a
  | .array [] => pure none
  | .array (a :: _) => inferAtom a

def embOfAtom : Atom → Option Str
  | .einst _ => some "instance".toList
  | .ecls _ => some "object".toList
  | _ => none

/-- mirrors _methodcall: infer_embedded_object -/
def inferEmb : Val → Option Str
  | .scalar a => embOfAtom a
  | .array (a :: _) => embOfAtom a
  | _ => none

/-- mirrors _methodcall: paramvalue(obj) for one non-None, non-list value -/
def paramAtomXml (C : Codec) : Atom → Xml
  | .ref p => E "VALUE.REFERENCE" [] [encPath C p]
  | a => valueElem (atomText C a)

/-- an array item: None gives VALUE.NULL (config.SEND_VALUE_NULL) -/
def paramItemXml (C : Codec) : Atom → Xml
  | .null => if Pywbem.Generated.sendValueNull then E "VALUE.NULL" [] [] else E "VALUE" [] []
  | a => paramAtomXml C a

def isRef : Atom → Bool
  | .ref _ => true
  | _ => false

/-- mirrors _methodcall: paramvalue(obj); `[]` = no child (value None) -/
def paramValueXml (C : Codec) : Val → List Xml
  | .null => []
  | .scalar a => [paramAtomXml C a]
  | .array l =>
    match l with
    | a :: _ => if isRef a then [E "VALUE.REFARRAY" [] (l.map (paramItemXml C))]
                else [E "VALUE.ARRAY" [] (l.map (paramItemXml C))]
    | [] => [E "VALUE.ARRAY" [] []]

/-- (name, value, type, embedded_object) of one argument -/
def ptuple (a : MArg) : R (Str × Val × Option Str × Option Str) :=
  match a.declared with
  | some (ty, eo) => pure (a.name, a.val, some ty, eo)
  | none => do
    let t ← inferType a.val
    pure (a.name, a.val, t, inferEmb a.val)

def ptuples : List MArg → R (List (Str × Val × Option Str × Option Str))
  | [] => pure []
  | a :: rest => do
    let p ← ptuple a
    let r ← ptuples rest
    pure (p :: r)

def paramXml (C : Codec) (p : Str × Val × Option Str × Option Str) : Xml :=
  E "PARAMVALUE" ([("NAME".toList, p.1)] ++ optAttr "PARAMTYPE" p.2.2.1 ++ optAttr "EmbeddedObject" p.2.2.2)
    (paramValueXml C p.2.1)

/-- mirrors _methodcall: the target object with the default namespace applied and the host removed -/
def localObject (dflt : Str) : Arg → R Path
  | .path (.inst c _ ns ks) => pure (.inst c none (some (ns.getD dflt)) ks)
  | .path (.cls c _ ns) => pure (.cls c none (some (ns.getD dflt)))
  | .str s => pure (.cls s none (some dflt))
  | _ => .error .typeError

/-- the request document of InvokeMethod -/
def methodRequestXml (C : Codec) (dflt : Str) (meth : Str) (obj : Arg) (args : List MArg) : R Xml := do
  let lo ← localObject dflt obj
  let ps ← ptuples args
  pure (messageXml (E "SIMPLEREQ" [] [E "METHODCALL" [("NAME".toList, meth)] (encPath C lo :: ps.map (paramXml C))])
    "1001".toList)

end Pywbem.Model.OpsMeth
