/-
C19 — model of the observers of a WBEM operation (logging, recorders, statistics, debug)
and of the try/except/finally skeleton they are hooked into.

mirrors pywbem/_cim_operations.py: the skeleton shared by all 34 operation methods
  (prologue `if self._operation_recorders: reset; stage_pywbem_args`, `start_timer`,
  try / except (CIMXMLParseError, XMLParseError) / except Exception / finally `stop_timer`,
  `operation_recorder_stage_result`); that every operation has exactly this skeleton is
  re-extracted from the source on every run (Generated/ObserverTables.opSkeletons);
  _imethodcall/_methodcall/_iexportcall bookkeeping of _last_raw_request/_last_raw_reply/
  _last_request_len/_last_reply_len/_last_server_response_time/debug;
  WBEMConnection.__str__/__repr__ (credential elision); add_operation_recorder;
  operation_recorder_reset/_stage_pywbem_args/_stage_result
mirrors pywbem/_cim_http.py: wbem_request (stage_http_request, stage_http_response1/2,
  WBEMServerResponseTime, status/content-type checks)
mirrors pywbem/_recorder.py: LogOperationRecorder.set_detail_level, stage_wbem_connection,
  stage_pywbem_args, stage_pywbem_result (format_result), stage_http_request,
  stage_http_response1/2; BaseOperationRecorder.reset/stage_*/record_staged;
  TestClientRecorder.record
mirrors pywbem/_statistics.py: Statistics.start_timer/get_op_statistic,
  OperationStatistic.start_timer/stop_timer (counters; times are not modelled)

The operation body proper (parameter checks, building the request, the transport, parsing
the reply) is the abstract `Core`: the theorems quantify over every core.
`Variant` switches the four places repaired by `fix:` commits back to the old behaviour;
the model of the code is `Variant.fixed`, the old variants only serve negation witnesses.
-/
import Pywbem.Proto
import Pywbem.Model.Utf8
import Pywbem.Model.ToYaml
import Pywbem.Generated.ObserverTables

namespace Pywbem.Model.Observer
open Pywbem.Proto Pywbem.Model.Utf8 Pywbem.Model.ToYaml

/-! ### small Python string helpers -/

/-- `if max_len and len(s) > max_len: s = s[:max_len] + '...'` -/
def clip (maxLen : Option Nat) (s : Str) : Str :=
  match maxLen with
  | some n => if n ≠ 0 ∧ s.length > n then s.take n ++ "...".toList else s
  | none => s

/-- `sep.join(parts)` -/
def joinWith (sep : Str) : List Str → Str
  | [] => []
  | [x] => x
  | x :: y :: rest => x ++ sep ++ joinWith sep (y :: rest)

/-- `s.split(' ')` -/
def splitSpace : Str → List Str
  | [] => [[]]
  | c :: cs =>
    match splitSpace cs with
    | [] => [[c]]                      -- unreachable: splitSpace never returns []
    | p :: ps => if c = ' ' then [] :: p :: ps else (c :: p) :: ps

/-- `data.replace('><', '>\n<')` -/
def replGtLt : Str → Str
  | '>' :: '<' :: rest => '>' :: '\n' :: '<' :: replGtLt rest
  | c :: rest => c :: replGtLt rest
  | [] => []

/-- `str.isspace` of one character (Unicode White_Space + the four separators Python adds) -/
def pySpace (c : Char) : Bool :=
  let n := c.toNat
  (9 ≤ n && n ≤ 13) || (0x1c ≤ n && n ≤ 0x20) || n == 0x85 || n == 0xa0 || n == 0x1680 ||
  (0x2000 ≤ n && n ≤ 0x200a) || n == 0x2028 || n == 0x2029 || n == 0x202f || n == 0x205f || n == 0x3000

/-- `s.strip()` -/
def strip (s : Str) : Str := ((s.dropWhile pySpace).reverse.dropWhile pySpace).reverse

/-- ASCII `str.lower()` (header names are HTTP tokens) -/
def lowerAscii (s : Str) : Str := s.map Char.toLower

def natStr (n : Nat) : Str := (toString n).toList

/-- lexicographic order on code points: Python's `sorted()` on str keys -/
def strLe : Str → Str → Bool
  | [], _ => true
  | _ :: _, [] => false
  | a :: as, b :: bs => if a.toNat < b.toNat then true else if b.toNat < a.toNat then false else strLe as bs

def insertSorted (x : Str × Str) : List (Str × Str) → List (Str × Str)
  | [] => [x]
  | y :: ys => if strLe x.1 y.1 then x :: y :: ys else y :: insertSorted x ys

def sortByKey : List (Str × Str) → List (Str × Str)
  | [] => []
  | x :: xs => insertSorted x (sortByKey xs)

/-! ### data -/

/-- a raised exception as the observers see it: class (+ CIM status) and the text
    `ascii("Cls(msg)")` that the API logger prints (opaque) -/
structure Raised where
  exc : Exc
  text : Str := []
  deriving Repr, DecidableEq, Inhabited

/-- an HTTP header field: name, value, `repr(value)` (opaque text used by the HTTP logger) -/
structure Hdr where
  name : Str
  value : Str
  valueRepr : Str
  deriving Repr, DecidableEq, Inhabited

/-- what the API logger needs to know about a returned object (computed by the harness from the real object) -/
structure Item where
  typeName : Str
  pathAscii : Option Str          -- `ascii(str(p.path))` when `hasattr(p, 'path')`
  deriving Repr, DecidableEq, Inhabited

inductive View where
  | list (items : List Item) (ascii : Str)
  | single (typeName : Str) (nameAttr : Option Str) (pathAscii : Option Str) (ascii : Str)
  deriving Repr, DecidableEq, Inhabited

inductive RetView where
  | plain (v : View) (qrc : Option Str)            -- list results may carry query_result_class
  | pull (typeName ctx eos : Str) (qrc : Option Str) (dataName : Str) (data : View)   -- namedtuple results of Open…/Pull…
  deriving Repr, DecidableEq, Inhabited

def noneView : RetView := .plain (.single "NoneType".toList none none "None".toList) none

structure RetInfo where
  val : PyVal
  view : RetView
  deriving Repr, Inhabited

abbrev Outcome := Except Raised RetInfo

inductive Detail where
  | all | paths | summary
  | maxLen (n : Nat)              -- integer detail level
  deriving Repr, DecidableEq, Inhabited

inductive Event where
  | log (logger : String) (kind : String) (fields : List Str)
  | testcase (y : Yaml)
  deriving Repr, Inhabited

/-- the places repaired by `fix:` commits; `fixed` is the code as it is now -/
structure Variant where
  logDecodeReplace : Bool     -- LogOperationRecorder.stage_http_response2 decodes with errors='replace'
  tcrDecodeReplace : Bool     -- TestClientRecorder.record decodes the response with errors='replace'
  srvTimeNoneOnBad : Bool     -- wbem_request drops a WBEMServerResponseTime that is not a number
  deriving Repr, DecidableEq

def Variant.fixed : Variant := ⟨true, true, true⟩

/-! ### LogOperationRecorder -/

structure LogRec where
  enabled : Bool := true
  apiLevel : Option Detail := none
  httpLevel : Option Detail := none
  apiMax : Option Nat := none
  httpMax : Option Nat := none
  apiOn : Bool := true            -- apilogger.isEnabledFor(DEBUG)
  httpOn : Bool := true
  method : Str := []              -- _pywbem_method
  respVersion : Option Nat := none
  respStatus : Option Nat := none
  respReason : Option Str := none
  respHeaders : Option (List Hdr) := none
  deriving Repr, Inhabited

/-- mirrors LogOperationRecorder.set_detail_level for one logger (the max length is only ever overwritten
    by an integer level: a later string level keeps the stale maximum) -/
def LogRec.setDetail (r : LogRec) (api : Bool) (d : Detail) : LogRec :=
  if api then
    { r with apiLevel := some d, apiMax := (match d with | .maxLen n => some n | _ => r.apiMax) }
  else
    { r with httpLevel := some d, httpMax := (match d with | .maxLen n => some n | _ => r.httpMax) }

inductive Creds where
  | none
  | tuple (userRepr pwRepr : Str)
  | tupleSub (userRepr pwRepr : Str)   -- an instance of a tuple subclass (namedtuple …): `isinstance(creds, tuple)` holds
  | list (userRepr pwRepr : Str)       -- outside the documented type, accepted by the code
  deriving Repr, DecidableEq, Inhabited

/-- connection attributes as far as __str__/__repr__ show them: the texts around the credentials are opaque -/
structure ConnInfo where
  creds : Creds
  strPre : Str
  strPost : Str
  reprPre : Str
  reprPost : Str
  deriving Repr, Inhabited

/-- mirrors the `creds_repr` computation of WBEMConnection.__str__/__repr__ -/
def credsRepr : Creds → Str
  | .none => "None".toList
  | .tuple u _ => "(".toList ++ u ++ ", ...)".toList
  | .tupleSub u _ => "(".toList ++ u ++ ", ...)".toList
  | .list u p => "[".toList ++ u ++ ", ".toList ++ p ++ "]".toList

def connStr (ci : ConnInfo) : Str := ci.strPre ++ credsRepr ci.creds ++ ci.strPost
def connRepr (ci : ConnInfo) : Str := ci.reprPre ++ credsRepr ci.creds ++ ci.reprPost

/-- mirrors LogOperationRecorder.stage_wbem_connection -/
def LogRec.stageConn (r : LogRec) (ci : ConnInfo) : List Event :=
  if !r.enabled then [] else
  match r.apiLevel, r.httpLevel with
  | some d, _ =>
    if r.apiOn then
      [.log "api" "Connection" [clip r.apiMax (if d = .summary then connStr ci else connRepr ci)]]
    else []
  | none, some d =>
    if r.httpOn then
      [.log "http" "Connection" [clip r.httpMax (if d = .summary then connStr ci else connRepr ci)]]
    else []
  | none, none => []

structure Kwarg where
  key : Str
  repr : Str               -- repr(value), opaque
  val : PyVal
  deriving Repr, Inhabited

/-- mirrors LogOperationRecorder.stage_pywbem_args -/
def LogRec.stageArgs (r : LogRec) (method : Str) (kwargs : List Kwarg) : LogRec × List Event :=
  let r' := { r with method := method }
  if r.enabled && r.apiLevel.isSome && r.apiOn then
    let parts := (sortByKey (kwargs.map (fun k => (k.key, k.repr)))).map (fun p => p.1 ++ "=".toList ++ p.2)
    let kwstr := clip r.apiMax (joinWith ", ".toList parts)
    (r', [.log "api" "Request" [method, kwstr]])
  else (r', [])

/-- mirrors format_result (nested in stage_pywbem_result) -/
def formatResult (level : Option Detail) (maxLen : Option Nat) : View → Except Exc Str
  | .list items ascii =>
    match level with
    | some .summary =>
      match items with
      | i :: _ => pure ("list of ".toList ++ i.typeName ++ "; count=".toList ++ natStr items.length)
      | [] => pure "Empty".toList
    | some .paths =>
      match items with
      | i :: _ =>
        match i.pathAscii with
        | some _ =>
          if items.all (fun x => x.pathAscii.isSome) then
            pure (clip maxLen (joinWith ", ".toList (items.map (fun x => x.pathAscii.getD []))))
          else throw (.py .attributeError)
        | none => pure (clip maxLen ascii)
      | [] => pure (clip maxLen [])
    | _ => pure (clip maxLen ascii)
  | .single typeName nameAttr pathAscii ascii =>
    match level with
    | some .summary => pure (typeName ++ " ".toList ++ nameAttr.getD [])
    | some .paths => pure (clip maxLen (pathAscii.getD ascii))
    | _ => pure (clip maxLen ascii)

def qrcText : Option Str → Str
  | some q => ", query_result_class=".toList ++ q
  | none => []

/-- mirrors LogOperationRecorder.stage_pywbem_result -/
def LogRec.stageResult (r : LogRec) (ret : RetView) (exc : Option Raised) : Except Exc (List Event) :=
  if r.enabled && r.apiLevel.isSome && r.apiOn then
    match exc with
    | some e => do
      -- format_result("Cls(msg)", api_maxlen): a str is neither a list nor has classname/name/path
      let t ← formatResult r.apiLevel r.apiMax (.single "str".toList none none e.text)
      pure [.log "api" "Exception" [r.method, t]]
    | none =>
      match ret with
      | .pull typeName ctx eos qrc dataName data => do
        let d ← formatResult r.apiLevel r.apiMax data
        pure [.log "api" "Return" [r.method,
          typeName ++ "(context=".toList ++ ctx ++ ", eos=".toList ++ eos ++ qrcText qrc ++ ", ".toList ++
          dataName ++ "=".toList ++ d ++ ")".toList]]
      | .plain (.list items ascii) qrc => do
        let d ← formatResult r.apiLevel r.apiMax (.list items ascii)
        pure [.log "api" "Return" [r.method, qrcText qrc ++ d]]
      | .plain v _ => do
        let d ← formatResult r.apiLevel r.apiMax v
        pure [.log "api" "Return" [r.method, d]]
  else pure []

def hdrStr (hs : List Hdr) : Str :=
  joinWith " ".toList (hs.map (fun h => h.name ++ ":".toList ++ h.valueRepr))

/-- the Authorization masking of stage_http_request: `authtype, cred = value.split(' ')` then 'X' * len(cred) -/
def maskAuth (value : Str) : Except Exc Str :=
  match splitSpace value with
  | [authtype, cred] => pure (authtype ++ " ".toList ++ List.replicate cred.length 'X')
  | _ => throw (.py .valueError)

def authName : Str := "Authorization".toList

def maskHeaders : List Hdr → Except Exc (List Hdr)
  | [] => pure []
  | h :: hs => do
    let hs' ← maskHeaders hs
    if h.name = authName then
      let m ← maskAuth h.value
      -- repr of an ASCII str without quotes/backslashes: quoted text (the only shape the masking produces is opaque to K)
      pure ({ h with value := m, valueRepr := "'".toList ++ m ++ "'".toList } :: hs')
    else pure (h :: hs')

/-- mirrors LogOperationRecorder.stage_http_request (payload: the request bytes) -/
def LogRec.stageHttpRequest (r : LogRec) (headers : List Hdr) (payload : Bytes) : Except Exc (List Event) :=
  if r.enabled && r.httpLevel.isSome && r.httpOn then do
    let hs ← maskHeaders headers
    let up ←
      if r.httpLevel = some .summary then pure []
      else match decodeStrict payload with
        | some s => pure s
        | none => throw (.named "UnicodeDecodeError")
    -- note: the length test is on the BYTES, the slice on the decoded str
    let up := match r.httpMax with
      | some n => if n ≠ 0 ∧ payload.length > n then up.take n ++ "...".toList else up
      | none => up
    pure [.log "http" "Request" [hdrStr hs, up]]
  else pure []

/-- mirrors LogOperationRecorder.stage_http_response1 -/
def LogRec.stageHttpResponse1 (r : LogRec) (version status : Option Nat) (reason : Option Str)
    (headers : Option (List Hdr)) : LogRec :=
  { r with respVersion := version, respStatus := status, respReason := reason, respHeaders := headers }

def truthyNat : Option Nat → Bool
  | some n => n != 0
  | none => false

/-- the decode step of stage_http_response2 (before the fix: `_ensure_unicode`, strict) -/
def logDecode (v : Variant) (b : Bytes) : Except Exc Str :=
  if v.logDecodeReplace then pure (decodeReplace b)
  else match decodeStrict b with
    | some s => pure s
    | none => throw (.named "UnicodeDecodeError")

/-- the payload text of the HTTP response log record: nothing for 'summary'; otherwise the BYTES are cut at the
    maximum length first and decoded afterwards, then '...' is appended -/
def LogRec.respPayloadText (v : Variant) (r : LogRec) (b : Bytes) : Except Exc Str :=
  if r.httpLevel = some .summary then pure []
  else match r.httpMax with
    | some n =>
      if n ≠ 0 ∧ b.length > n then do
        let s ← logDecode v (b.take n)
        pure (s ++ "...".toList)
      else logDecode v b
    | none => logDecode v b

/-- mirrors LogOperationRecorder.stage_http_response2 -/
def LogRec.stageHttpResponse2 (v : Variant) (r : LogRec) (payload : Option Bytes) : Except Exc (List Event) :=
  let payloadTruthy := match payload with | some b => !b.isEmpty | none => false
  if !truthyNat r.respVersion && !payloadTruthy then pure []
  else if r.enabled && r.httpLevel.isSome && r.httpOn then
    let hstr := match r.respHeaders with
      | some hs => if hs.isEmpty then [] else hdrStr hs
      | none => []
    match payload with
    | none =>
      -- len(None) / repr(None): not reachable from wbem_request (it passes None only right after resetting the
      -- staged version to None, which returns above)
      if r.httpLevel = some .summary then
        pure [.log "http" "Response" [natStr (r.respStatus.getD 0), hstr, []]]
      else if truthyNat r.httpMax then throw (.py .typeError)
      else pure [.log "http" "Response" [natStr (r.respStatus.getD 0), hstr, "None".toList]]
    | some b => do
      let up ← r.respPayloadText v b
      pure [.log "http" "Response" [natStr (r.respStatus.getD 0), hstr, up]]
  else pure []

/-! ### TestClientRecorder (and the staging of BaseOperationRecorder) -/

structure TcrRec where
  enabled : Bool := true
  pullOp : Bool := false
  method : Option Str := none
  args : List Kwarg := []
  ret : Option PyVal := none
  exc : Option Raised := none
  reqMethod : Option Str := none
  reqTarget : Option Str := none
  reqHeaders : Option (List Hdr) := none
  reqPayload : Option Bytes := none
  respStatus : Option Nat := none
  respHeaders : Option (List Hdr) := none
  respPayload : Option Bytes := none
  deriving Repr, Inhabited

/-- mirrors BaseOperationRecorder.reset (enabled flag and file survive) -/
def TcrRec.reset (r : TcrRec) (pull : Bool) : TcrRec := { enabled := r.enabled, pullOp := pull }

def ystr (s : String) : Yaml := .str s.toList

def optStr : Option Str → Yaml
  | some s => .str s
  | none => .null

def exclReq : List Str := Pywbem.Generated.ObserverTables.excludeRequestHeaders.map String.toList
def exclRsp : List Str := Pywbem.Generated.ObserverTables.excludeResponseHeaders.map String.toList

def hdrMap (excl : List Str) (hs : Option (List Hdr)) : Yaml :=
  let keep := (hs.getD []).filter (fun h => !(excl.contains (lowerAscii h.name)))
  .map (keep.map (·.name)) (keep.map (fun h => .str h.value))

/-- `data.replace('><', '>\n<').strip()` -/
def prettyData (s : Str) : Str := strip (replGtLt s)

def toyamlArgs : List Kwarg → Except Exc (List Str × List Yaml)
  | [] => pure ([], [])
  | k :: ks => do
    let y ← toyaml k.val
    let (names, ys) ← toyamlArgs ks
    pure (k.key :: names, y :: ys)

/-- `tc_pywbem_response['result' | 'pullresult'] = self.toyaml(pywbem_result.ret)` when ret is not None -/
def retPart (pullOp : Bool) : Option PyVal → Except Exc (List Str × List Yaml)
  | none => pure ([], [])
  | some .none => pure ([], [])
  | some x => do
    let y ← toyaml x
    pure ([(if pullOp then "pullresult" else "result").toList], [y])

/-- `cim_status` for a CIMError, otherwise `exception` = class name -/
def excPart : Option Raised → List Str × List Yaml
  | none => ([], [])
  | some e =>
    match e.exc with
    | .py (.cimError code) => (["cim_status".toList], [Yaml.int code])
    | x => (["exception".toList], [ystr x.name])

/-- `http_request.payload.decode('utf-8')` (strict: these are the bytes pywbem itself encoded) -/
def reqDataPart : Option Bytes → Except Exc Yaml
  | none => pure .null
  | some b =>
    match decodeStrict b with
    | some s => pure (.str (prettyData s))
    | none => throw (.named "UnicodeDecodeError")

/-- `http_response.payload.decode('utf-8', errors='replace')` (before fix 4ebbfcb: strict) -/
def respDataPart (v : Variant) : Option Bytes → Except Exc Yaml
  | none => pure .null
  | some b =>
    if v.tcrDecodeReplace then pure (.str (prettyData (decodeReplace b)))
    else match decodeStrict b with
      | some s => pure (.str (prettyData s))
      | none => throw (.named "UnicodeDecodeError")

def targetTruthy : Option Str → Bool
  | some t => !t.isEmpty
  | none => false

/-- the test case dictionary built by TestClientRecorder.record -/
def assemble (r : TcrRec) (argNames : List Str) (argYs : List Yaml) (retKV : List Str × List Yaml)
    (reqData respData : Yaml) : Yaml :=
  let operation := Yaml.map ("pywbem_method".toList :: argNames) (optStr r.method :: argYs)
  let request := Yaml.map
    ["url".toList, "creds".toList, "namespace".toList, "timeout".toList, "debug".toList, "operation".toList]
    [ystr "http://acme.com:80", .seq [ystr "username", ystr "password"], ystr "root/cimv2", .int 10, .bool false,
     operation]
  let response := Yaml.map (retKV.1 ++ (excPart r.exc).1) (retKV.2 ++ (excPart r.exc).2)
  let httpReq := Yaml.map ["verb".toList, "url".toList, "headers".toList, "data".toList]
    [optStr r.reqMethod,
     .str ("http://acme.com:80".toList ++ (if targetTruthy r.reqTarget then r.reqTarget.getD [] else [])),
     hdrMap exclReq r.reqHeaders, reqData]
  let httpResp := Yaml.map ["status".toList, "headers".toList, "data".toList]
    [(match r.respStatus with | some s => .int s | none => .null), hdrMap exclRsp r.respHeaders, respData]
  Yaml.map
    ["name".toList, "description".toList, "pywbem_request".toList, "pywbem_response".toList,
     "http_request".toList, "http_response".toList]
    [optStr r.method, ystr "Generated by TestClientRecorder", request, response, httpReq, httpResp]

/-- mirrors TestClientRecorder.record up to (and including the raising behaviour of) yaml.dump -/
def TcrRec.record (v : Variant) (r : TcrRec) : Except Exc (List Event) := do
  let args ← toyamlArgs r.args
  let retKV ← retPart r.pullOp r.ret
  let reqData ← reqDataPart r.reqPayload
  let respData ← respDataPart v r.respPayload
  let tc := assemble r args.1 args.2 retKV reqData respData
  dump (.seq [tc])
  pure [.testcase tc]

/-! ### recorders of a connection -/

inductive Recorder where
  | log (r : LogRec)
  | tcr (r : TcrRec)
  deriving Repr, Inhabited

/-- result of one recorder call: new recorder state, emitted events, exception (if it raised) -/
abbrev StageRes := Recorder × List Event × Option Exc

/-- `for recorder in self._operation_recorders: f(recorder)`: stops at the first exception -/
def forRecs (f : Recorder → StageRes) : List Recorder → List Recorder × List Event × Option Exc
  | [] => ([], [], none)
  | r :: rs =>
    match f r with
    | (r', ev, some e) => (r' :: rs, ev, some e)
    | (r', ev, none) =>
      let (rs', ev', e') := forRecs f rs
      (r' :: rs', ev ++ ev', e')

def ofExcept (r : Recorder) : Except Exc (List Event) → StageRes
  | .ok ev => (r, ev, none)
  | .error e => (r, [], some e)

/-- operation_recorder_reset -/
def resetOne (pull : Bool) : Recorder → StageRes
  | .log r => (.log { r with method := [], respVersion := none, respStatus := none, respReason := none,
                              respHeaders := none }, [], none)
  | .tcr r => (.tcr (r.reset pull), [], none)

/-- recorder.stage_pywbem_args(method, **kwargs) -/
def stageArgsOne (method : Str) (kwargs : List Kwarg) : Recorder → StageRes
  | .log r => let (r', ev) := r.stageArgs method kwargs; (.log r', ev, none)
  | .tcr r => (.tcr { r with method := some method, args := kwargs }, [], none)

/-- the three calls wbem_request makes per recorder before sending -/
def stageRequestOne (headers : List Hdr) (target : Str) (body : Bytes) : Recorder → StageRes
  | .log r =>
    match r.stageHttpRequest headers body with
    | .error e => (.log r, [], some e)
    | .ok ev =>
      -- stage_http_response1(conn_id, None, None, None, None); stage_http_response2(None) returns at once
      (.log (r.stageHttpResponse1 none none none none), ev, none)
  | .tcr r =>
    (.tcr { r with reqMethod := some "POST".toList, reqTarget := some target, reqHeaders := some headers,
                   reqPayload := some body, respStatus := none, respHeaders := none, respPayload := none },
     [], none)

structure HttpResp where
  version : Nat := 11
  status : Nat
  reason : Str := []
  headers : List Hdr := []
  body : Bytes := []
  deriving Repr, Inhabited

def stageResponse1One (resp : HttpResp) : Recorder → StageRes
  | .log r => (.log (r.stageHttpResponse1 (some resp.version) (some resp.status) (some resp.reason)
                      (some resp.headers)), [], none)
  | .tcr r => (.tcr { r with respStatus := some resp.status, respHeaders := some resp.headers }, [], none)

def stageResponse2One (v : Variant) (body : Bytes) : Recorder → StageRes
  | .log r => ofExcept (.log r) (r.stageHttpResponse2 v (some body))
  | .tcr r => (.tcr { r with respPayload := some body }, [], none)

/-- recorder.stage_pywbem_result(ret, exc); recorder.record_staged() -/
def stageResultOne (v : Variant) (ret : Option RetInfo) (exc : Option Raised) : Recorder → StageRes
  | .log r => ofExcept (.log r) (r.stageResult ((ret.map (·.view)).getD noneView) exc)
  | .tcr r =>
    let r' := { r with ret := ret.map (·.val), exc := exc }
    if r'.enabled then ofExcept (.tcr r') (r'.record v) else (.tcr r', [], none)

/-! ### statistics -/

inductive SrvTime where
  | none
  | num (txt : Str)       -- a float (text form, no arithmetic modelled)
  | str (txt : Str)       -- the raw header text (only the variant before fix dcc005f produces it)
  deriving Repr, DecidableEq, Inhabited

structure OpStat where
  count : Nat := 0
  excCount : Nat := 0
  reqLenSum : Nat := 0
  replyLenSum : Nat := 0
  srvSuspended : Bool := false
  started : Bool := false          -- `_start_time is not None`
  deriving Repr, DecidableEq, Inhabited

structure Stats where
  enabled : Bool
  ops : List (Str × OpStat) := []   -- `_op_stats` (insertion ordered)
  deriving Repr, Inhabited

def Stats.get (s : Stats) (name : Str) : OpStat :=
  match s.ops.find? (fun p => p.1 = name) with
  | some p => p.2
  | none => {}

def setOp (name : Str) (o : OpStat) : List (Str × OpStat) → List (Str × OpStat)
  | [] => [(name, o)]
  | p :: ps => if p.1 = name then (name, o) :: ps else p :: setOp name o ps

/-- mirrors Statistics.start_timer: disabled → the dummy statistic, nothing recorded -/
def Stats.startTimer (s : Stats) (name : Str) : Stats :=
  if s.enabled then { s with ops := setOp name { s.get name with started := true } s.ops } else s

/-- mirrors OperationStatistic.stop_timer on the object start_timer returned -/
def Stats.stopTimer (s : Stats) (name : Str) (reqLen replyLen : Nat) (srv : SrvTime) (failed : Bool) :
    Except Exc Stats :=
  if !s.enabled then pure s
  else
    let o := s.get name
    if !o.started then throw (.named "RuntimeError")
    else
      let o1 := { o with started := false, count := o.count + 1,
                         excCount := if failed then o.excCount + 1 else o.excCount }
      let srvStep : Except Exc OpStat :=
        if o1.srvSuspended then pure o1
        else match srv with
          | .none => pure { o1 with srvSuspended := true }
          | .num _ => pure o1
          | .str _ => throw (.py .typeError)        -- float += str
      match srvStep with
      | .error e =>
        -- the counters updated before the failing statement stay updated
        .error e
      | .ok o2 =>
        pure { s with ops := setOp name { o2 with reqLenSum := o2.reqLenSum + reqLen,
                                                   replyLenSum := o2.replyLenSum + replyLen } s.ops }

/-! ### the connection and one operation -/

structure Conn where
  info : ConnInfo
  recorders : List Recorder := []
  stats : Stats
  debug : Bool := false
  lastRawRequest : Option Str := none
  lastRawReply : Option Bytes := none
  lastRequestLen : Nat := 0
  lastReplyLen : Nat := 0
  lastSrvTime : SrvTime := .none
  lastRequestXmlSet : Bool := false     -- `_last_request_xml_item is not None` (debug)
  lastReplyXmlSet : Bool := false
  lastOpTimeSet : Bool := false         -- `_last_operation_time is not None`
  deriving Repr, Inhabited

/-- mirrors add_operation_recorder (without the duplicate-class check): append, reset, stage_wbem_connection -/
def Conn.addRecorder (c : Conn) (r : Recorder) : Conn × List Event :=
  match r with
  | .log l => ({ c with recorders := c.recorders ++ [.log l] }, l.stageConn c.info)
  | .tcr t => ({ c with recorders := c.recorders ++ [.tcr (t.reset false)] }, [])

/-- what an operation hands to wbem_request: the request text and the values of the CIM-XML extension headers
    (their NAMES are fixed by _imethodcall/_methodcall/_iexportcall) -/
structure Req where
  data : Str                    -- request_data (str, without XML declaration)
  isExport : Bool := false      -- _iexportcall: CIMExport/CIMExportMethod instead of CIMOperation/CIMMethod/CIMObject
  cimMethod : Str := []         -- methodname
  cimMethodRepr : Str := []
  cimObject : Str := []         -- get_cimobject_header(namespace | localobject)
  cimObjectRepr : Str := []
  deriving Repr, Inhabited

def hCIMOperation : Str := "CIMOperation".toList
def hCIMMethod : Str := "CIMMethod".toList
def hCIMObject : Str := "CIMObject".toList
def hCIMExport : Str := "CIMExport".toList
def hCIMExportMethod : Str := "CIMExportMethod".toList

/-- mirrors the `cimxml_headers` lists of _imethodcall / _methodcall / _iexportcall -/
def Req.headers (r : Req) : List Hdr :=
  if r.isExport then
    [⟨hCIMExport, "MethodRequest".toList, "'MethodRequest'".toList⟩, ⟨hCIMExportMethod, r.cimMethod, r.cimMethodRepr⟩]
  else
    [⟨hCIMOperation, "MethodCall".toList, "'MethodCall'".toList⟩, ⟨hCIMMethod, r.cimMethod, r.cimMethodRepr⟩,
     ⟨hCIMObject, r.cimObject, r.cimObjectRepr⟩]

inductive Transport where
  | raised (e : Raised)         -- session.post raised; already mapped by pywbem_requests_exception
  | response (r : HttpResp)
  deriving Repr, Inhabited

/-- the part of an operation that does not look at the observers -/
structure Core where
  prep : Except Raised Req                      -- _iparam_* checks, _verify_open, building the request
  send : Bytes → List Hdr → Transport          -- conn.session.post(target_url, data, headers)
  parseFloat : Str → Option Str                 -- Python float(text): `some` canonical text if it parses
  statusError : HttpResp → Raised               -- AuthError / HTTPError for a status ≠ 200
  badContentType : HttpResp → Option Raised     -- HeaderParseError for a Content-type that is not XML
  xmlOk : Bytes → Bool                          -- xml_to_tupletree_sax + TupleParser.parse_cim accept the reply
  parse : Bytes → Outcome                       -- the whole of: XML parsing, structure checks, ERROR → CIMError, result extraction

structure Call where
  method : Str
  kwargs : List Kwarg
  pull : Bool := false
  recordsRet : Bool := true     -- the variable handed to stage_result is assigned by the try body (generated table)
  listener : Bool := false      -- ExportIndication: target_type='listener' (no '/cimom', no credentials, no server time)
  deriving Repr, Inhabited

def srvTimeHeader : Str := "WBEMServerResponseTime".toList

def xmlDecl : Bytes := "<?xml version=\"1.0\" encoding=\"utf-8\" ?>\n".toList.map Char.toNat

def hdrLookup (name : Str) : List Hdr → Option Str
  | [] => none
  | h :: hs => if lowerAscii h.name = lowerAscii name then some h.value else hdrLookup name hs

/-- the Authorization header wbem_request adds for the transport only (never handed to recorders) -/
def authHeader (b64 : Str → Str) : Creds → List Hdr
  | .none => []
  | .tuple u p => [⟨authName, "Basic ".toList ++ b64 (u ++ ":".toList ++ p), []⟩]
  | .tupleSub u p => [⟨authName, "Basic ".toList ++ b64 (u ++ ":".toList ++ p), []⟩]
  | .list u p => [⟨authName, "Basic ".toList ++ b64 (u ++ ":".toList ++ p), []⟩]

structure WbemResult where
  recorders : List Recorder
  events : List Event
  result : Except Raised (Bytes × SrvTime)
  sent : Option Bytes        -- the bytes handed to session.post (none: an observer raised before sending)

def raisedOf (e : Exc) : Raised := { exc := e }

/-- mirrors wbem_request -/
def wbemRequest (v : Variant) (recs : List Recorder) (creds : Creds) (b64 : Str → Str) (core : Core) (req : Req)
    (listener : Bool := false) : WbemResult :=
  let body := xmlDecl ++ encode req.data
  let target : Str := if listener then [] else "/cimom".toList
  let (recs1, ev1, e1) := forRecs (stageRequestOne req.headers target body) recs
  match e1 with
  | some e => ⟨recs1, ev1, .error (raisedOf e), none⟩
  | none =>
    match core.send body (req.headers ++ (if listener then [] else authHeader b64 creds)) with
    | .raised e => ⟨recs1, ev1, .error e, some body⟩
    | .response resp =>
      let srv : SrvTime :=
        if listener then .none else
        match hdrLookup srvTimeHeader resp.headers with
        | none => .none
        | some t =>
          match core.parseFloat t with
          | some f => .num f
          | none => if v.srvTimeNoneOnBad then .none else .str t
      let (recs2, ev2, e2) := forRecs (stageResponse1One resp) recs1
      match e2 with
      | some e => ⟨recs2, ev1 ++ ev2, .error (raisedOf e), some body⟩
      | none =>
        if resp.status ≠ 200 then ⟨recs2, ev1 ++ ev2, .error (core.statusError resp), some body⟩
        else match core.badContentType resp with
          | some e => ⟨recs2, ev1 ++ ev2, .error e, some body⟩
          | none =>
            let (recs3, ev3, e3) := forRecs (stageResponse2One v resp.body) recs2
            match e3 with
            | some e => ⟨recs3, ev1 ++ ev2 ++ ev3, .error (raisedOf e), some body⟩
            | none => ⟨recs3, ev1 ++ ev2 ++ ev3, .ok (resp.body, srv), some body⟩

structure OpResult where
  conn : Conn
  events : List Event
  outcome : Outcome
  sent : Option Bytes
  deriving Inhabited

/-- the try-body: _imethodcall / _methodcall / _iexportcall around wbem_request -/
def tryBody (v : Variant) (c : Conn) (b64 : Str → Str) (core : Core) (listener : Bool := false) : OpResult :=
  match core.prep with
  | .error e => ⟨c, [], .error e, none⟩
  | .ok req =>
    let c1 := { c with lastRawRequest := some req.data, lastRequestLen := req.data.length,
                       lastRawReply := none, lastReplyLen := 0, lastSrvTime := .none,
                       lastRequestXmlSet := if c.debug then true else c.lastRequestXmlSet,
                       lastReplyXmlSet := if c.debug then false else c.lastReplyXmlSet }
    let w := wbemRequest v c1.recorders c1.info.creds b64 core req listener
    let c2 := { c1 with recorders := w.recorders }
    match w.result with
    | .error e => ⟨c2, w.events, .error e, w.sent⟩
    | .ok (reply, srv) =>
      let c3 := { c2 with lastSrvTime := srv, lastRawReply := some reply, lastReplyLen := reply.length }
      -- debug part 2 (`_last_reply_xml_item = reply_data`) sits between the XML parsing and the structure checks
      let c4 := { c3 with lastReplyXmlSet := if c3.debug && core.xmlOk reply then true else c3.lastReplyXmlSet }
      match core.parse reply with
      | .error e => ⟨c4, w.events, .error e, w.sent⟩
      | .ok r => ⟨c4, w.events, .ok r, w.sent⟩

/-- `self.operation_recorder_stage_pywbem_args(method=…, …, **params)`: a user parameter called `method`
    (possible only through InvokeMethod's **params) collides with the keyword → TypeError (open finding) -/
def kwCollision (call : Call) : Bool := call.kwargs.any (fun k => k.key = "method".toList)

/-- the prologue of an operation method: `if self._operation_recorders: reset; stage_pywbem_args(...)` -/
def prologue (c : Conn) (call : Call) : List Recorder × List Event × Option Exc :=
  if c.recorders.isEmpty then (c.recorders, [], none)
  else
    let r0 := (forRecs (resetOne call.pull) c.recorders).1
    if kwCollision call then (r0, [], some (.py .typeError))
    else forRecs (stageArgsOne call.method call.kwargs) r0

def failedOf : Outcome → Bool
  | .error _ => true
  | .ok _ => false

def retOf (call : Call) : Outcome → Option RetInfo
  | .ok r => if call.recordsRet then some r else none
  | .error _ => none

def excOf : Outcome → Option Raised
  | .error e => some e
  | .ok _ => none

/-- the `finally:` clause: stop_timer, then (if there are recorders) operation_recorder_stage_result.
    An exception raised here replaces the return value / the exception of the try body. -/
def finallyPart (v : Variant) (call : Call) (ev1 : List Event) (b : OpResult) : OpResult :=
  match b.conn.stats.stopTimer call.method b.conn.lastRequestLen b.conn.lastReplyLen b.conn.lastSrvTime
          (failedOf b.outcome) with
  | .error e => ⟨b.conn, ev1 ++ b.events, .error (raisedOf e), b.sent⟩
  | .ok st =>
    let c2 := { b.conn with stats := st, lastOpTimeSet := st.enabled }
    if c2.recorders.isEmpty then ⟨c2, ev1 ++ b.events, b.outcome, b.sent⟩
    else
      match forRecs (stageResultOne v (retOf call b.outcome) (excOf b.outcome)) c2.recorders with
      | (recs3, ev3, some e) => ⟨{ c2 with recorders := recs3 }, ev1 ++ b.events ++ ev3, .error (raisedOf e), b.sent⟩
      | (recs3, ev3, none) => ⟨{ c2 with recorders := recs3 }, ev1 ++ b.events ++ ev3, b.outcome, b.sent⟩

/-- mirrors one operation method of WBEMConnection (all 34 share this skeleton) -/
def runOp (v : Variant) (c : Conn) (b64 : Str → Str) (call : Call) (core : Core) : OpResult :=
  match prologue c call with
  | (recs1, ev1, some e) =>
    -- raised before start_timer and outside the try statement: no statistics, no stage_result
    ⟨{ c with recorders := recs1 }, ev1, .error (raisedOf e), none⟩
  | (recs1, ev1, none) =>
    finallyPart v call ev1
      (tryBody v { c with recorders := recs1, stats := c.stats.startTimer call.method } b64 core call.listener)

/-- mirrors WBEMConnection.__init__ as far as the observers are concerned: nothing exchanged yet, no recorders -/
def Conn.new (info : ConnInfo) (statsEnabled : Bool) : Conn :=
  { info := info, stats := { enabled := statsEnabled } }

def sameClass : Recorder → Recorder → Bool
  | .log _, .log _ => true
  | .tcr _, .tcr _ => true
  | _, _ => false

/-- mirrors add_operation_recorder including its check: a second recorder of the same class is refused -/
def Conn.addRecorderChecked (c : Conn) (r : Recorder) : Except Exc (Conn × List Event) :=
  if c.recorders.any (sameClass r) then throw (.py .valueError) else pure (c.addRecorder r)

/-- the recorders added one after the other (events of stage_wbem_connection dropped) -/
def Conn.addRecorders (c : Conn) : List Recorder → Conn
  | [] => c
  | r :: rs => Conn.addRecorders (c.addRecorder r).1 rs

/-- mirrors the setter of WBEMConnection.operation_recorder_enabled: all recorders at once -/
def Conn.setRecordersEnabled (c : Conn) (b : Bool) : Conn :=
  { c with recorders := c.recorders.map (fun r => match r with
      | .log l => .log { l with enabled := b }
      | .tcr t => .tcr { t with enabled := b }) }

/-- what one operation does to (last_raw_request, last_raw_reply, last_reply_len): nothing when the request could
    not even be built; otherwise the request text, and the reply bytes exactly when wbem_request returned them -/
def bookStep (creds : Creds) (b64 : Str → Str) (prev : Option Str × Option Bytes × Nat) (p : Call × Core) :
    Option Str × Option Bytes × Nat :=
  match p.2.prep with
  | .error _ => prev
  | .ok req =>
    match (wbemRequest Variant.fixed [] creds b64 p.2 req p.1.listener).result with
    | .ok q => (some req.data, some q.1, q.1.length)
    | .error _ => (some req.data, none, 0)

/-- the outcomes of a whole history of operations on one connection (state carried from one to the next) -/
def runOps (v : Variant) (c : Conn) (b64 : Str → Str) : List (Call × Core) → List Outcome
  | [] => []
  | p :: rest => (runOp v c b64 p.1 p.2).outcome :: runOps v (runOp v c b64 p.1 p.2).conn b64 rest

/-- the connection after a history of operations -/
def runOpsConn (v : Variant) (c : Conn) (b64 : Str → Str) : List (Call × Core) → Conn
  | [] => c
  | p :: rest => runOpsConn v (runOp v c b64 p.1 p.2).conn b64 rest

/-- class name of the exception a stage raised (`none`: it returned) -/
def raisedName {α : Type} : Except Exc α → Option String
  | .error e => some e.name
  | .ok _ => none

/-- class name of the exception an operation raised (`none`: it returned a value) -/
def outcomeExc : Outcome → Option String
  | .error e => some e.exc.name
  | .ok _ => none

/-- the connection without any observer -/
def Conn.bare (c : Conn) : Conn := { c with recorders := [], stats := { enabled := false }, debug := false }

end Pywbem.Model.Observer
