/-
C03 — which CIM objects have a CIM-XML representation: `shape*` = the structural invariants the constructors and
attribute setters of pywbem's CIM object classes establish (type names, value shape matching is_array / type,
keybinding value types, scope names); `sendable* C o` = shape and every character of the encoding is an XML
character (what `_check_xml_chars` tests while the element tree is built).

mirrors pywbem/_cim_obj.py: the `type`, `embedded_object`, `value`, `keybindings`, `scopes` setters of CIMProperty,
  CIMQualifier, CIMParameter, CIMMethod, CIMInstanceName, CIMQualifierDeclaration (as accepted value sets)
-/
import Pywbem.Model.CimXmlEnc
import Pywbem.Model.Dtd

namespace Pywbem.Model.Sendable
open Pywbem.Model Pywbem.Model.XmlText

/-- the CIM data type names of DSP0201 `%CIMType;` -/
def cimTypes : List Str :=
  ["boolean", "string", "char16", "uint8", "sint8", "uint16", "sint16", "uint32", "sint32", "uint64", "sint64",
   "datetime", "real32", "real64"].map String.toList

def embKinds : List Str := ["object", "instance"].map String.toList

def isCimType (t : Str) : Bool := cimTypes.contains t

def embOk : Option Str → Bool
  | none => true
  | some e => embKinds.contains e

def isRef : Atom → Bool
  | .ref _ => true
  | _ => false

mutual
/-- a keybinding value `CIMInstanceName.tocimxml` has a branch for -/
def shapeKey : Key → Bool
  | .mk _ v =>
    match v with
    | .ref p => shapePath p
    | .char16 _ | .str _ | .bool _ | .dt _ | .int _ _ | .real _ _ | .pyint _ | .pyfloat _ => true
    | _ => false
def shapeKeys : List Key → Bool
  | [] => true
  | k :: ks => shapeKey k && shapeKeys ks
def shapePath : Path → Bool
  | .inst _ _ _ keys => shapeKeys keys
  | .cls .. => true
end

/-- value of a QUALIFIER / QUALIFIER.DECLARATION / scalar PROPERTY: NULL, a non-reference scalar or an array -/
def valNoRef : Val → Bool
  | .null => true
  | .scalar a => !isRef a
  | .array _ => true

def shapeQual : Qual → Bool
  | .mk _ ty val _ _ _ _ _ => isCimType ty && valNoRef val

def shapeQuals : List Qual → Bool
  | [] => true
  | q :: qs => shapeQual q && shapeQuals qs

def shapeProp : Prop_ → Bool
  | .mk _ ty val isArray _ _ _ _ emb quals =>
    shapeQuals quals &&
    (if isArray then
      isCimType ty && embOk emb && (match val with | .null => true | .array _ => true | .scalar _ => false)
    else if ty = "reference".toList then
      (match val with | .null => true | .scalar (.ref p) => shapePath p | _ => false)
    else
      isCimType ty && embOk emb && (match val with | .null => true | .scalar a => !isRef a | .array _ => false))

def shapeProps : List Prop_ → Bool
  | [] => true
  | p :: ps => shapeProp p && shapeProps ps

def shapeInst : Inst → Bool
  | .mk _ path props quals =>
    shapeQuals quals && shapeProps props &&
    (match path with | none => true | some p => shapePath p)

def shapeParam : Param → Bool
  | .mk _ ty _ _ _ quals _ _ => shapeQuals quals && (ty = "reference".toList || isCimType ty)

def shapeParams : List Param → Bool
  | [] => true
  | p :: ps => shapeParam p && shapeParams ps

def shapeMeth : Meth → Bool
  | .mk _ retTy params _ _ quals =>
    shapeQuals quals && shapeParams params && (match retTy with | none => true | some t => isCimType t)

def shapeMeths : List Meth → Bool
  | [] => true
  | m :: ms => shapeMeth m && shapeMeths ms

def shapeCls : Cls → Bool
  | .mk _ _ _ props meths quals => shapeQuals quals && shapeProps props && shapeMeths meths

/-- scopes that `_cim_xml.SCOPE` turns into declared attributes: `any: True`, or only (distinct) names among the
    seven DSP0201 scopes.  `any: False` and other names are written as undeclared attributes — known
    findings C03-KF1 / C03-KF2. -/
def scopesOk (scopes : List (Str × Bool)) : Bool :=
  scopes.any (fun p => p.1.map Char.toLower == "any".toList && p.2) ||
  (scopes.all (fun p => (scopeNames.map String.toList).contains (upperAscii p.1)) &&
   Dtd.nodupNames (scopes.map (fun p => upperAscii p.1)))

def shapeQualDecl (q : QualDecl) : Bool :=
  isCimType q.ty && valNoRef q.val && scopesOk q.scopes

/-- items of a VALUE.REFARRAY: references with a CIM-XML representation (anything else is written as VALUE.NULL) -/
def refItemsOk : List Atom → Bool
  | [] => true
  | .ref p :: rest => shapePath p && refItemsOk rest
  | _ :: rest => refItemsOk rest

/-- value of a PARAMVALUE (CIMParameter.tocimxml(as_value=True)) -/
def shapeParamValue : Param → Bool
  | .mk _ ty _ _ _ _ val emb =>
    (ty = "reference".toList || ty = "object".toList || ty = "instance".toList || isCimType ty) && embOk emb &&
    (match val with
     | .null => true
     | .scalar (.ref p) => shapePath p
     | .scalar _ => true
     | .array l => if ty = "reference".toList then refItemsOk l else true)

def shapeObj : Obj → Bool
  | .path p => shapePath p
  | .inst i => shapeInst i
  | .cls c => shapeCls c
  | .prop p => shapeProp p
  | .meth m => shapeMeth m
  | .param p => shapeParam p
  | .qual q => shapeQual q
  | .qdecl q => shapeQualDecl q

/-- has a CIM-XML representation: shape, and every character of the encoding is an XML character -/
def sendableObj (C : Codec) (o : Obj) : Bool := shapeObj o && Dtd.charsOk (encObj C o)

def sendableParamValue (C : Codec) (p : Param) : Bool := shapeParamValue p && Dtd.charsOk (encParamValue C p)

end Pywbem.Model.Sendable
