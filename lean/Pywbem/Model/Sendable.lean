/-
C03 — which CIM objects have a CIM-XML representation: `shape*` = the structural invariants the constructors and
attribute setters of pywbem's CIM object classes establish (type names, value shape matching is_array / type,
keybinding value types, scope names); `sendable* C o` = shape and every character of the encoding is an XML
character (what `_check_xml_chars` tests while the element tree is built).

mirrors pywbem/_cim_obj.py: the `type`, `embedded_object`, `value`, `keybindings`, `scopes` setters of CIMProperty,
  CIMQualifier, CIMParameter, CIMMethod, CIMInstanceName, CIMQualifierDeclaration (as accepted value sets)
-/
import Pywbem.Model.CimXmlEnc
import Pywbem.Model.Dtd

namespace Pywbem.Model.Sendable
open Pywbem.Model Pywbem.Model.XmlText

/-- the CIM data type names of DSP0201 `%CIMType;` -/
def cimTypes : List Str :=
  ["boolean", "string", "char16", "uint8", "sint8", "uint16", "sint16", "uint32", "sint32", "uint64", "sint64",
   "datetime", "real32", "real64"].map String.toList

def embKinds : List Str := ["object", "instance"].map String.toList

def isCimType (t : Str) : Bool := cimTypes.contains t

def embOk : Option Str → Bool
  | none => true
  | some e => embKinds.contains e

def isRef : Atom → Bool
  | .ref _ => true
  | _ => false

mutual
/-- a keybinding value `CIMInstanceName.tocimxml` has a branch for -/
def shapeKey : Key → Bool
  | .mk _ v =>
    match v with
    | .ref p => shapePath p
    | .char16 _ | .str _ | .bool _ | .dt _ | .int _ _ | .real _ _ | .pyint _ | .pyfloat _ => true
    | _ => false
def shapeKeys : List Key → Bool
  | [] => true
  | k :: ks => shapeKey k && shapeKeys ks
def shapePath : Path → Bool
  | .inst _ _ _ keys => shapeKeys keys
  | .cls .. => true
end

/-- value of a QUALIFIER / QUALIFIER.DECLARATION / scalar PROPERTY: NULL, a non-reference scalar or an array -/
def valNoRef : Val → Bool
  | .null => true
  | .scalar a => !isRef a
  | .array _ => true

def shapeQual : Qual → Bool
  | .mk _ ty val _ _ _ _ _ => isCimType ty && valNoRef val

def shapeQuals : List Qual → Bool
  | [] => true
  | q :: qs => shapeQual q && shapeQuals qs

def shapeProp : Prop_ → Bool
  | .mk _ ty val isArray _ _ _ _ emb quals =>
    shapeQuals quals &&
    (if isArray then
      isCimType ty && embOk emb && (match val with | .null => true | .array _ => true | .scalar _ => false)
    else if ty = "reference".toList then
      (match val with | .null => true | .scalar (.ref p) => shapePath p | _ => false)
    else
      isCimType ty && embOk emb && (match val with | .null => true | .scalar a => !isRef a | .array _ => false))

def shapeProps : List Prop_ → Bool
  | [] => true
  | p :: ps => shapeProp p && shapeProps ps

def shapeInst : Inst → Bool
  | .mk _ path props quals =>
    shapeQuals quals && shapeProps props &&
    (match path with | none => true | some p => shapePath p)

def shapeParam : Param → Bool
  | .mk _ ty _ _ _ quals _ _ => shapeQuals quals && (ty = "reference".toList || isCimType ty)

def shapeParams : List Param → Bool
  | [] => true
  | p :: ps => shapeParam p && shapeParams ps

def shapeMeth : Meth → Bool
  | .mk _ retTy params _ _ quals =>
    shapeQuals quals && shapeParams params && (match retTy with | none => true | some t => isCimType t)

def shapeMeths : List Meth → Bool
  | [] => true
  | m :: ms => shapeMeth m && shapeMeths ms

def shapeCls : Cls → Bool
  | .mk _ _ _ props meths quals => shapeQuals quals && shapeProps props && shapeMeths meths

/-- scopes that `_cim_xml.SCOPE` turns into declared attributes: `any: True`, or only (distinct) names among the
    seven DSP0201 scopes.  `any: False` and other names are written as undeclared attributes — known
    findings C03-KF1 / C03-KF2. -/
def scopesOk (scopes : List (Str × Bool)) : Bool :=
  scopes.any (fun p => p.1.map Char.toLower == "any".toList && p.2) ||
  (scopes.all (fun p => (scopeNames.map String.toList).contains (upperAscii p.1)) &&
   Dtd.nodupNames (scopes.map (fun p => upperAscii p.1)))

def shapeQualDecl (q : QualDecl) : Bool :=
  isCimType q.ty && valNoRef q.val && scopesOk q.scopes

/-- items of a VALUE.REFARRAY: references with a CIM-XML representation (anything else is written as VALUE.NULL) -/
def refItemsOk : List Atom → Bool
  | [] => true
  | .ref p :: rest => shapePath p && refItemsOk rest
  | _ :: rest => refItemsOk rest

/-- value of a PARAMVALUE (CIMParameter.tocimxml(as_value=True)) -/
def shapeParamValue : Param → Bool
  | .mk _ ty _ _ _ _ val emb =>
    (ty = "reference".toList || ty = "object".toList || ty = "instance".toList || isCimType ty) && embOk emb &&
    (match val with
     | .null => true
     | .scalar (.ref p) => shapePath p
     | .scalar _ => true
     | .array l => if ty = "reference".toList then refItemsOk l else true)

def shapeObj : Obj → Bool
  | .path p => shapePath p
  | .inst i => shapeInst i
  | .cls c => shapeCls c
  | .prop p => shapeProp p
  | .meth m => shapeMeth m
  | .param p => shapeParam p
  | .qual q => shapeQual q
  | .qdecl q => shapeQualDecl q

/-- has a CIM-XML representation: shape, and every character of the encoding is an XML character -/
def sendableObj (C : Codec) (o : Obj) : Bool := shapeObj o && Dtd.charsOk (encObj C o)

def sendableParamValue (C : Codec) (p : Param) : Bool := shapeParamValue p && Dtd.charsOk (encParamValue C p)

end Pywbem.Model.Sendable

/-! ### the character condition, from the constituents of the object

`contentOk*`: every string the object holds (names, class origins, reference classes, hosts, namespaces, string /
char16 / datetime values, keybinding names and values) consists of XML characters, the codec prints reals with XML
characters, and embedded instances / classes satisfy the same condition and the shape invariants (their encoding
travels as text).  `Proofs/Lemmas/DtdChars.lean` proves that this implies `charsOk (enc… )`, i.e. the hypothesis
`sendableObj` follows from `shapeObj` and `contentOkObj`. -/

namespace Pywbem.Model.Sendable
open Pywbem.Model Pywbem.Model.XmlText

def optOk : Option Str → Bool
  | none => true
  | some s => Dtd.strOk s

mutual
def contentOkAtom (C : Codec) : Atom → Bool
  | .null => true
  | .str s | .char16 s | .dt s => Dtd.strOk s
  | .bool _ | .int _ _ | .pyint _ => true
  | .real w b => Dtd.strOk (C.fmtReal w b) && Dtd.strOk (C.strFloat b)
  | .pyfloat b => Dtd.strOk (C.fmtReal true b) && Dtd.strOk (C.strFloat b)
  | .ref p => contentOkPath C p
  | .einst i => shapeInst i && contentOkInst C i
  | .ecls c => shapeCls c && contentOkCls C c
def contentOkAtoms (C : Codec) : List Atom → Bool
  | [] => true
  | a :: as => contentOkAtom C a && contentOkAtoms C as
def contentOkKey (C : Codec) : Key → Bool
  | .mk n v => optOk n && contentOkAtom C v
def contentOkKeys (C : Codec) : List Key → Bool
  | [] => true
  | k :: ks => contentOkKey C k && contentOkKeys C ks
def contentOkPath (C : Codec) : Path → Bool
  | .inst c h n ks => Dtd.strOk c && optOk h && optOk n && contentOkKeys C ks
  | .cls c h n => Dtd.strOk c && optOk h && optOk n
def contentOkVal (C : Codec) : Val → Bool
  | .null => true
  | .scalar a => contentOkAtom C a
  | .array l => contentOkAtoms C l
def contentOkQual (C : Codec) : Qual → Bool
  | .mk name ty val _ _ _ _ _ => Dtd.strOk name && Dtd.strOk ty && contentOkVal C val
def contentOkQuals (C : Codec) : List Qual → Bool
  | [] => true
  | q :: qs => contentOkQual C q && contentOkQuals C qs
def contentOkProp (C : Codec) : Prop_ → Bool
  | .mk name ty val _ _ refCls origin _ emb quals =>
    Dtd.strOk name && Dtd.strOk ty && contentOkVal C val && optOk refCls && optOk origin && optOk emb && contentOkQuals C quals
def contentOkProps (C : Codec) : List Prop_ → Bool
  | [] => true
  | p :: ps => contentOkProp C p && contentOkProps C ps
def contentOkInst (C : Codec) : Inst → Bool
  | .mk cls path props quals =>
    Dtd.strOk cls && contentOkOptPath C path && contentOkProps C props && contentOkQuals C quals
def contentOkOptPath (C : Codec) : Option Path → Bool
  | none => true
  | some p => contentOkPath C p
def contentOkParam (C : Codec) : Param → Bool
  | .mk name ty refCls _ _ quals val emb =>
    Dtd.strOk name && Dtd.strOk ty && optOk refCls && contentOkQuals C quals && contentOkVal C val && optOk emb
def contentOkParams (C : Codec) : List Param → Bool
  | [] => true
  | p :: ps => contentOkParam C p && contentOkParams C ps
def contentOkMeth (C : Codec) : Meth → Bool
  | .mk name retTy params origin _ quals =>
    Dtd.strOk name && optOk retTy && contentOkParams C params && optOk origin && contentOkQuals C quals
def contentOkMeths (C : Codec) : List Meth → Bool
  | [] => true
  | m :: ms => contentOkMeth C m && contentOkMeths C ms
def contentOkCls (C : Codec) : Cls → Bool
  | .mk name super _ props meths quals =>
    Dtd.strOk name && optOk super && contentOkProps C props && contentOkMeths C meths && contentOkQuals C quals
end

def contentOkQualDecl (C : Codec) (q : QualDecl) : Bool :=
  Dtd.strOk q.name && Dtd.strOk q.ty && contentOkVal C q.val && q.scopes.all (fun p => Dtd.strOk p.1)

def contentOkObj (C : Codec) : Obj → Bool
  | .path p => contentOkPath C p
  | .inst i => contentOkInst C i
  | .cls c => contentOkCls C c
  | .prop p => contentOkProp C p
  | .meth m => contentOkMeth C m
  | .param p => contentOkParam C p
  | .qual q => contentOkQual C q
  | .qdecl q => contentOkQualDecl C q

end Pywbem.Model.Sendable
