/-
Model of the MOF string generation of pywbem/_cim_obj.py: `_mof_escaped`, `mofstr` (line folding with
its line_pos / avl_len / end_space / avoid_splits bookkeeping), `mofval`, and the string part of
`_scalar_value_tomof` / `_value_tomof`.  Strings are lists of code points.  Lean core only.

The model mirrors the code *after* the fix "tomof() folds long string values inside MOF escape
sequences" (the `re.finditer` adjustment of `split_pos`).
-/
import Pywbem.Proto
import Pywbem.Generated.MofEscape

namespace Pywbem.Model.MofStr
open Pywbem.Proto

abbrev Str := List Nat

/-- mirrors `str.replace(a, b)` for a 1-character pattern `a` -/
def replaceChar (a : Nat) (b : Str) (s : Str) : Str :=
  s.flatMap (fun c => if c = a then b else [c])

/-- a chain `s.replace(a1,b1).replace(a2,b2)...` applied in order -/
def applyChain : List (Nat × Str) → Str → Str
  | [], s => s
  | r :: rs, s => applyChain rs (replaceChar r.1 r.2 s)

/-- mirrors _cim_obj.py: _mof_escaped — driven by the chain extracted from the source -/
def escape (s : Str) : Str := applyChain Generated.mofEscapeChain s

/-- mirrors _cim_obj.py: _indent_str -/
def indentStr (n : Nat) : Str := List.replicate n 32

/-- Python index normalisation of a slice bound `e` for a sequence of length `len` -/
def normIdx (len : Nat) (e : Int) : Nat :=
  if e < 0 then (len + e).toNat else min e.toNat len

/-- position of the last blank of `v`, if any -/
def lastBlank : Str → Option Nat
  | [] => none
  | c :: cs =>
    match lastBlank cs with
    | some i => some (i + 1)
    | none => if c = 32 then some 0 else none

/-- mirrors `value.rfind(' ', 0, e)` (`none` = -1) -/
def rfindBlank (v : Str) (e : Int) : Option Nat := lastBlank (v.take (normIdx v.length e))

def isUpHex (c : Nat) : Bool := (48 ≤ c && c ≤ 57) || (65 ≤ c && c ≤ 70)

/-- length of the match of the regex `\\(x[0-9A-F]{4}|.)` at the head of `v` (0 = no match here) -/
def escMatchLen : Str → Nat
  | 92 :: c :: rest =>
    if c = 120 ∧ (rest.take 4).length = 4 ∧ (rest.take 4).all isUpHex then 6
    else if c = 10 then 0 else 2
  | _ => 0

/-- mirrors _cim_obj.py: mofstr — the loop
      `for m in re.finditer(r'\\(x[0-9A-F]{4}|.)', value): if m.start() <= split_pos < m.end() - 1: split_pos = m.start() - 1`
    scanning `v` from position `pos`; `skip` = characters of the current match still to be passed -/
def adjustSplitAux : Str → Nat → Nat → Int → Int
  | [], _, _, sp => sp
  | c :: cs, pos, skip, sp =>
    if skip > 0 then adjustSplitAux cs (pos + 1) (skip - 1) sp
    else
      let l := escMatchLen (c :: cs)
      if l = 0 then adjustSplitAux cs (pos + 1) 0 sp
      else
        adjustSplitAux cs (pos + 1) (l - 1)
          (if (pos : Int) ≤ sp ∧ sp < (pos : Int) + l - 1 then (pos : Int) - 1 else sp)

def adjustSplit (v : Str) (sp : Int) : Int := adjustSplitAux v 0 0 sp

/-- parameters of one mofstr call that stay fixed during the loop -/
structure FoldCfg where
  indent : Nat
  maxline : Nat
  endSpace : Nat
  avoidSplits : Bool
  quote : Nat
  deriving Repr

def newLine (cfg : FoldCfg) : Str := 10 :: indentStr cfg.indent

/-- `avl_len` on the current line -/
def avlCur (cfg : FoldCfg) (linePos : Int) : Int := (cfg.maxline : Int) - linePos - 2
/-- `avl_len` after starting a new line -/
def avlNew (cfg : FoldCfg) : Int := (cfg.maxline : Int) - cfg.indent - 2

/-- "Decide whether to start a new line" -/
def startsNewLine (cfg : FoldCfg) (value : Str) (linePos : Int) : Bool :=
  decide ((value.length : Int) > avlCur cfg linePos - cfg.endSpace) &&
    (cfg.avoidSplits || decide (avlCur cfg linePos < 0) || (rfindBlank value (avlCur cfg linePos)).isNone)

/-- `split_pos` of the iteration -/
def splitPos (value : Str) (avl : Int) : Int :=
  match rfindBlank value avl with
  | some i => (i : Int)
  | none => adjustSplit value (avl - 1)

/-- text appended by "start a new line" (or nothing) -/
def linePre (cfg : FoldCfg) (value : Str) (linePos : Int) : Str :=
  if startsNewLine cfg value linePos then newLine cfg else []
/-- `line_pos` after the new-line decision -/
def lineLp (cfg : FoldCfg) (value : Str) (linePos : Int) : Int :=
  if startsNewLine cfg value linePos then (cfg.indent : Int) else linePos
/-- `avl_len` after the new-line decision -/
def lineAvl (cfg : FoldCfg) (value : Str) (linePos : Int) : Int :=
  if startsNewLine cfg value linePos then avlNew cfg else avlCur cfg linePos
/-- `split_pos + 1` as a slice bound of `value` -/
def cutPos (cfg : FoldCfg) (value : Str) (linePos : Int) : Nat :=
  normIdx value.length (splitPos value (lineAvl cfg value linePos) + 1)
/-- one quoted part, preceded by the new line if one was started -/
def piece (cfg : FoldCfg) (value : Str) (linePos : Int) (part : Str) : Str :=
  linePre cfg value linePos ++ cfg.quote :: part ++ [cfg.quote]

/-- mirrors _cim_obj.py: mofstr — the `while True` loop; returns the text appended to `mof` and the final
    line_pos.  `fuel` bounds the iterations (`mofstr` supplies len+1, which always suffices: theorem
    `C08_mofstr_fuel_suffices`); the "endless loop" assertion of the code is the AssertionError result. -/
def mofstrLoop (cfg : FoldCfg) : Nat → Str → Int → Except PyExc (Str × Int)
  | 0, _, _ => .error .recursionError
  | fuel + 1, value, linePos =>
    if (value.length : Int) ≤ lineAvl cfg value linePos - cfg.endSpace then
      -- "the entire string fits (that is a last line, then)"
      .ok (piece cfg value linePos value, lineLp cfg value linePos + 2 + value.length)
    else if value.drop (cutPos cfg value linePos) = [] then
      .ok (piece cfg value linePos (value.take (cutPos cfg value linePos)),
           lineLp cfg value linePos + 2 + (value.take (cutPos cfg value linePos)).length)
    else if value.drop (cutPos cfg value linePos) = value then .error .assertionError
    else
      match mofstrLoop cfg fuel (value.drop (cutPos cfg value linePos))
              (lineLp cfg value linePos + 2 + (value.take (cutPos cfg value linePos)).length) with
      | .error e => .error e
      | .ok r => .ok (piece cfg value linePos (value.take (cutPos cfg value linePos)) ++ r.1, r.2)

/-- mirrors _cim_obj.py: mofstr -/
def mofstr (value : Str) (indent maxline : Nat) (linePos : Int) (endSpace : Nat) (avoidSplits : Bool)
    (quote : Nat := 34) : Except PyExc (Str × Int) :=
  let v := escape value
  mofstrLoop ⟨indent, maxline, endSpace, avoidSplits, quote⟩ (v.length + 1) v linePos

/-- mirrors _cim_obj.py: mofval (ValueError when the value does not fit on a new line) -/
def mofval (value : Str) (indent maxline : Nat) (linePos : Int) (endSpace : Nat) : Except PyExc (Str × Int) :=
  if (value.length : Int) ≤ (maxline : Int) - linePos - endSpace then .ok (value, linePos + value.length)
  else if (value.length : Int) ≤ (maxline : Int) - indent - endSpace then
    .ok (10 :: indentStr indent ++ value, (indent : Int) + value.length)
  else .error .valueError

/-- a scalar item as `_scalar_value_tomof` sees it: `none` = NULL, a string-like value (string,
    datetime text, reference URI: all go through mofstr with double quotes), a char16, or an already
    printed non-string literal (number / boolean: go through mofval) -/
inductive Item where
  | null
  | str (s : Str)
  | char16 (s : Str)
  | lit (text : Str)
  deriving Repr

/-- mirrors _cim_obj.py: _scalar_value_tomof (value already classified as `Item`) -/
def scalarTomof (v : Item) (indent maxline : Nat) (linePos : Int) (endSpace : Nat) (avoid : Bool) :
    Except PyExc (Str × Int) :=
  match v with
  | .null => mofval [78, 85, 76, 76] indent maxline linePos endSpace
  | .str s => mofstr s indent maxline linePos endSpace avoid 34
  | .char16 s => mofstr s indent maxline linePos endSpace avoid 39
  | .lit t => mofval t indent maxline linePos endSpace

/-- mirrors _cim_obj.py: _value_tomof, array branch: items separated by `, ` (or `,` when the item
    starts on a new line), `line_pos` adjusted as in the code -/
def arrayTomof (indent maxline : Nat) (endSpace : Nat) (avoid : Bool) :
    List Item → Bool → Int → Except PyExc (Str × Int)
  | [], _, linePos => .ok ([], linePos)
  | v :: vs, first, linePos =>
    let lp0 : Int := if first then linePos else linePos + 2
    match scalarTomof v indent maxline lp0 (endSpace + 2) avoid with
    | .error e => .error e
    | .ok r =>
      let startsNl := r.1.head? == some 10
      let sep : Str := if first then [] else if startsNl then [44] else [44, 32]
      let lp1 : Int := if first then r.2 else if startsNl then r.2 - 1 else r.2
      match arrayTomof indent maxline endSpace avoid vs false lp1 with
      | .error e => .error e
      | .ok r2 => .ok (sep ++ r.1 ++ r2.1, r2.2)

/-- mirrors _cim_obj.py: _value_tomof -/
def valueTomof (v : Item ⊕ List Item) (indent maxline : Nat) (linePos : Int) (endSpace : Nat) (avoid : Bool) :
    Except PyExc (Str × Int) :=
  match v with
  | .inl x => scalarTomof x indent maxline linePos endSpace avoid
  | .inr xs => arrayTomof indent maxline endSpace avoid xs true linePos

end Pywbem.Model.MofStr
