/-
C10 — the reference map ("Spec") the instance store is compared with.

State: per namespace (name lower-cased) a finite map  normalised path ↦ instance  (an association list
with pairwise distinct keys, in insertion order).  Keys are `normPath` normal forms: every name
lower-cased, keybindings sorted by name, host absent, the namespace as part of the key.
Operations are given by the documented status-code table, with the order in which the errors win:

  all            namespace unknown                                  → CIM_ERR_INVALID_NAMESPACE
  Create         class unknown                                      → CIM_ERR_INVALID_CLASS
                 property undeclared / wrong type / wrong arrayness → CIM_ERR_INVALID_PARAMETER
                 association end (non-NULL reference) that names a host, lacks a namespace, or names an
                 instance that does not exist                        → CIM_ERR_INVALID_PARAMETER
                 class unknown in a namespace referenced by an end   → CIM_ERR_INVALID_CLASS
                 key property missing or NULL                        → CIM_ERR_INVALID_PARAMETER
                 key present in one of the target namespaces         → CIM_ERR_ALREADY_EXISTS
  Modify         class names of instance and path differ             → CIM_ERR_INVALID_PARAMETER  (before the namespace)
                 class unknown                                       → CIM_ERR_INVALID_CLASS
                 key absent                                          → CIM_ERR_NOT_FOUND
                 PropertyList names an undeclared property; property undeclared / wrong type; key property
                 changed; NULL or dangling changed association end   → CIM_ERR_INVALID_PARAMETER
  Delete / Get   class unknown → CIM_ERR_INVALID_CLASS ; key absent → CIM_ERR_NOT_FOUND
  Enumerate…     class unknown → CIM_ERR_INVALID_CLASS

An association instance whose ends name other namespaces lives under the same (class, keybindings) in
the creation namespace and in each of those namespaces ("targets"); Create/Modify/Delete act on all
targets or on none.
The Spec never raises anything but these five CIM status codes, except for `TypeError` on an
array-valued key property (unreachable with well-formed schemas; kept so that refinement is exact).
-/
import Pywbem.Model.Store

namespace Pywbem.Model.StoreSpec
open Pywbem.Proto Pywbem.Model.Store
open Pywbem.Generated.Store

structure SNs where
  name    : Name                   -- lower-cased
  classes : List Cls
  map     : List (Path × Inst)     -- normalised key ↦ instance
  deriving Repr, DecidableEq

structure SRepo where
  nss  : List SNs
  dflt : Name
  deriving Repr, DecidableEq

/-- abstraction function -/
def absNs (e : NsEntry) : SNs :=
  { name := lower e.name, classes := e.classes, map := e.insts.map (fun s => (normPath s.key, s.inst)) }

def abs (r : Repo) : SRepo := { nss := r.nss.map absNs, dflt := r.dflt }

def normRInst (i : RInst) : RInst := { i with path := normPath i.path }

/-- outputs up to the representation of paths -/
def normOut : Out → Out
  | .path p => .path (normPath p)
  | .inst i => .inst (normRInst i)
  | .insts l => .insts (l.map normRInst)
  | .paths l => .paths (l.map normPath)
  | o => o

def sFindNs (s : SRepo) (ns : Name) : Option SNs := s.nss.find? (fun e => e.name == lower ns)

def sLookup (m : List (Path × Inst)) (k : Path) : Option Inst := (m.find? (fun e => e.1 == k)).map (·.2)

def sSetMap (s : SRepo) (ns : Name) (f : List (Path × Inst) → List (Path × Inst)) : SRepo :=
  { s with nss := s.nss.map (fun e => if e.name == lower ns then { e with map := f e.map } else e) }

/-- key of `p` in namespace `n` -/
def keyIn (p : Path) (n : Name) : Path := normPath { p with host := none, ns := some n }

def sExists (s : SRepo) (n : Name) (k : Path) : Bool :=
  match sFindNs s n with
  | none => false
  | some e => (sLookup e.map k).isSome

def sClassIn (s : SRepo) (cls : Name) (n : Name) : Bool :=
  match sFindNs s n with
  | none => false
  | some e => (findCls e.classes cls).isSome

/-- an association end must be NULL or name (without host, with namespace) an existing instance -/
def sEndpointOk (s : SRepo) (v : Val) : Bool :=
  match v with
  | .one (.ref p) =>
    (match p.host with | some h => h.isEmpty | none => true) &&
    (match p.ns with
     | none => false
     | some n => sExists s n (normPath (path0ToPath p)))
  | .null => true
  | _ => false

/-- namespaces an instance with properties `ps` created in `ns` lives in -/
def targets (isAssoc : Bool) (ps : List PropV) (ns : Name) : List Name :=
  (if isAssoc then multiNs ps ns else []) ++ [ns]

def sInsertAll (s : SRepo) (p : Path) (i : Inst) : List Name → SRepo
  | [] => s
  | n :: rest => sInsertAll (sSetMap s n (fun m => m ++ [(keyIn p n, i)])) p i rest

def sReplaceAll (s : SRepo) (p : Path) (i : Inst) : List Name → SRepo
  | [] => s
  | n :: rest =>
    sReplaceAll (sSetMap s n (fun m => m.map (fun e => if e.1 == keyIn p n then (e.1, i) else e))) p i rest

def sDeleteAll (s : SRepo) (p : Path) : List Name → SRepo
  | [] => s
  | n :: rest => sDeleteAll (sSetMap s n (fun m => m.filter (fun e => !(e.1 == keyIn p n)))) p rest

def specCreate (s : SRepo) (nsArg : Option Name) (inst : Inst) : SRepo × Out :=
  let ns := nsArg.getD s.dflt
  match sFindNs s ns with
  | none => (s, errNs)
  | some e =>
    match findCls e.classes inst.cls with
    | none => (s, errClass)
    | some c =>
      if !(inst.props.all (validProp e.classes c)) then (s, errParam)
      else
        let i : Inst := { cls := inst.cls, props := adjustNames c inst.props, quals := inst.quals }
        if c.isAssoc && !((i.props.filter isRef).all (fun p => sEndpointOk s p.val)) then (s, errParam)
        else
          let tg := targets c.isAssoc i.props ns
          if !(tg.all (sClassIn s i.cls)) then (s, errClass)
          else
            match newInstancePath c i.props ns with
            | .error ex => (s, .err ex)
            | .ok path =>
              if tg.any (fun n => sExists s n (keyIn path n)) then (s, errExists)
              else (sInsertAll s path i tg, .path (normPath path))

/-- the properties ModifyInstance may carry: declared, right type, key values unchanged -/
def sPropOk (cs : List Cls) (c : Cls) (stored : List PropV) (p : PropV) : Bool :=
  validProp cs c p &&
    (match findDecl c p.name with
     | some d => !d.isKey || (match findProp stored p.name with | some sp => !valNe p.val sp.val | none => false)
     | none => false)

/-- a key property named in PropertyList but not supplied would be reset to its default -/
def sPlKeyOk (c : Cls) (stored : List PropV) (ps : List PropV) (pn : Name) : Bool :=
  (findProp ps pn).isSome ||
    (match findDecl c pn with
     | some d => !d.isKey || (match findProp stored pn with | some sp => !valNe d.dflt sp.val | none => false)
     | none => true)

/-- a supplied association end must not be NULL; a changed one must exist -/
def sRefOk (s : SRepo) (stored : List PropV) (p : PropV) : Bool :=
  !isRef p ||
    (match p.val with
     | .null => false
     | v => (match findProp stored p.name with
             | some sp => !valNe v sp.val || sEndpointOk s v
             | none => sEndpointOk s v))

def specModify (s : SRepo) (path : Path) (inst : Inst) (pl : Option (List Name)) : SRepo × Out :=
  let ns := path.ns.getD s.dflt
  if !nameEq inst.cls path.cls then (s, errParam)
  else
    match sFindNs s ns with
    | none => (s, errNs)
    | some e =>
      match findCls e.classes inst.cls with
      | none => (s, errClass)
      | some c =>
        match sLookup e.map (keyIn path ns) with
        | none => (s, errNotFound)
        | some old =>
          if plBad c pl then (s, errParam)
          else if !(inst.props.all (sPropOk e.classes c old.props)) then (s, errParam)
          else if !((pl.getD []).all (sPlKeyOk c old.props inst.props)) then (s, errParam)
          else
            let ps := adjustNames c (reduceByPl c inst.props pl)
            if c.isAssoc && !(ps.all (sRefOk s old.props)) then (s, errParam)
            else
              let ni : Inst := { cls := old.cls, props := updateProps old.props ps, quals := old.quals }
              let tg := targets c.isAssoc ni.props ns
              if !(tg.all (sClassIn s ni.cls)) then (s, errClass)
              else if !(tg.all (fun n => sExists s n (keyIn path n))) then (s, errNotFound)
              else (sReplaceAll s path ni tg, .unit)

def specDelete (s : SRepo) (path : Path) : SRepo × Out :=
  let ns := path.ns.getD s.dflt
  match sFindNs s ns with
  | none => (s, errNs)
  | some e =>
    match findCls e.classes path.cls with
    | none => (s, errClass)
    | some c =>
      match sLookup e.map (keyIn path ns) with
      | none => (s, errNotFound)
      | some old => (sDeleteAll s path (targets c.isAssoc old.props ns), .unit)

def specGet (s : SRepo) (path : Path) (pl : Option (List Name)) (_o : RetOpts := {}) : SRepo × Out :=
  let ns := path.ns.getD s.dflt
  match sFindNs s ns with
  | none => (s, errNs)
  | some e =>
    if (findCls e.classes path.cls).isNone then (s, errClass)
    else
      match sLookup e.map (keyIn path ns) with
      | none => (s, errNotFound)
      | some i => (s, .inst { cls := i.cls, path := keyIn path ns, props := (retrieveSimple pl i).1, quals := false })

/-- the entries of the map whose creation class is `cls` or a subclass -/
def sSelect (e : SNs) (cls : Name) : List (Path × Inst) :=
  e.map.filter (fun x => descends e.classes e.classes.length x.1.cls cls)

def specEnumInsts (s : SRepo) (nsArg : Option Name) (cls : Name) (di : Option Bool)
    (pl : Option (List Name)) (_o : RetOpts := {}) : SRepo × Out :=
  let ns := nsArg.getD s.dflt
  match sFindNs s ns with
  | none => (s, errNs)
  | some e =>
    match findCls e.classes cls with
    | none => (s, errClass)
    | some c =>
      (s, .insts ((sSelect e cls).map (fun x =>
        { cls := x.2.cls, path := { x.1 with ns := some (lower ns) }, props := (retrieveSimple (enumPl c di pl) x.2).1,
          quals := false })))

def specEnumNames (s : SRepo) (nsArg : Option Name) (cls : Name) : SRepo × Out :=
  let ns := nsArg.getD s.dflt
  match sFindNs s ns with
  | none => (s, errNs)
  | some e =>
    if (findCls e.classes cls).isNone then (s, errClass)
    else (s, .paths ((sSelect e cls).map (fun x => { x.1 with ns := some (lower ns) })))

def sstep (s : SRepo) (op : Op) : SRepo × Out :=
  match op with
  | .create ns i => specCreate s ns i
  | .modify p i pl => specModify s p i pl
  | .delete p => specDelete s p
  | .get p pl o => specGet s p pl o
  | .enumInsts ns c di pl o => specEnumInsts s ns c di pl o
  | .enumNames ns c => specEnumNames s ns c

def run (s : SRepo) : List Op → SRepo × List Out
  | [] => (s, [])
  | op :: ops =>
    let x := sstep s op
    let y := run x.1 ops
    (y.1, x.2 :: y.2)

end Pywbem.Model.StoreSpec
