/-
C06: a concrete, executable model of the third-party behaviour the real round trip rests on — CPython's
`format(x, '.<P>G')` (correctly rounded, as CPython's dtoa-based formatter) and `float(text)` (correctly rounded
decimal → binary64) — restricted to the texts pywbem writes (DSP0201 realValue, INF, -INF, NaN).
This is NOT pywbem code: it instantiates the functions of the `RealCodec` hypothesis record so that K can test the
record's hypotheses on the model itself and compare both functions with CPython on every generated value.
All arithmetic is exact (Nat / Int); doubles are bit patterns.
-/
import Pywbem.Model.CimTypes
import Pywbem.Model.DateTime

namespace Pywbem.Model.FloatText
open Pywbem.Model.CimTypes Pywbem.Model.DateTime

/-- number of decimal digits of n (n > 0), by repeated division -/
def decLen (n : Nat) : Nat :=
  if n < 10 then 1 else decLen (n / 10) + 1
termination_by n
decreasing_by omega

/-- decimal digits of n, most significant first -/
def decDigits (n : Nat) : List Char :=
  if n < 10 then [digitChar n] else decDigits (n / 10) ++ [digitChar n]
termination_by n
decreasing_by omega

/-- round-half-even quotient of num / den (den > 0) -/
def divRoundEven (num den : Nat) : Nat :=
  let q := num / den
  let r := num % den
  if 2 * r > den || (2 * r == den && q % 2 == 1) then q + 1 else q

/-- the finite non-zero double with these fields as an exact fraction num / den -/
def fracOf (e m : Nat) : Nat × Nat :=
  let sig := if e == 0 then m else 2 ^ 52 + m
  let ex : Int := (if e == 0 then 1 else (e : Int)) - 1075
  if ex ≥ 0 then (sig * 2 ^ ex.toNat, 1) else (sig, 2 ^ (-ex).toNat)

/-- ⌊log10 (num/den)⌋ for num, den > 0: estimate from the bit lengths, then correct -/
def floorLog10 (num den : Nat) : Int :=
  let est : Int := (((num.log2 : Int) - (den.log2 : Int)) * 30103) / 100000
  -- x = est is within ±1 of the answer; move down while num/den < 10^x, up while num/den ≥ 10^(x+1)
  let ge (x : Int) : Bool :=        -- num/den ≥ 10^x
    if x ≥ 0 then num ≥ den * 10 ^ x.toNat else num * 10 ^ (-x).toNat ≥ den
  let x1 := if ge est then est else est - 1
  let x2 := if ge x1 then x1 else x1 - 1
  let x3 := if ge (x2 + 1) then x2 + 1 else x2
  if ge (x3 + 1) then x3 + 1 else x3

def stripTrailingZeros (l : List Char) : List Char := (l.reverse.dropWhile (· == '0')).reverse

/-- the `P` significant digits (as a number < 10^P … ) and decimal exponent X of num/den, correctly rounded half-even -/
def sigDigits (p : Nat) (num den : Nat) : Nat × Int :=
  let x := floorLog10 num den
  let s : Int := x - (p : Int) + 1            -- value / 10^s has p digits before the point
  let d := if s ≥ 0 then divRoundEven num (den * 10 ^ s.toNat) else divRoundEven (num * 10 ^ (-s).toNat) den
  if d == 10 ^ p then (10 ^ (p - 1), x + 1) else (d, x)

/-- two-or-more-digit exponent text of %G -/
def expText (x : Int) : List Char :=
  let a := x.natAbs
  'E' :: (if x < 0 then '-' else '+') :: (if a < 10 then ['0', digitChar a] else decDigits a)

/-- mirrors CPython `format(x, '.<p>G')` for the double with these bits -/
def fmtG (p : Nat) (bits : Nat) : List Char :=
  let sign := bits / 2 ^ 63 % 2
  let e := bits / 2 ^ 52 % 2048
  let m := bits % 2 ^ 52
  let sg : List Char := if sign == 1 then ['-'] else []
  if e == 2047 then (if m == 0 then sg ++ "INF".toList else "NAN".toList)
  else if e == 0 && m == 0 then sg ++ ['0']
  else
    let (num, den) := fracOf e m
    let (d, x) := sigDigits p num den
    let ds := decDigits d                      -- exactly p digits
    if x < -4 || x ≥ (p : Int) then
      -- scientific: d.ddd E±xx, trailing zeros (and a bare point) removed
      let frac := stripTrailingZeros (ds.drop 1)
      sg ++ ds.take 1 ++ (if frac.isEmpty then [] else '.' :: frac) ++ expText x
    else if x ≥ 0 then
      let ip := ds.take (x.toNat + 1)
      let frac := stripTrailingZeros (ds.drop (x.toNat + 1))
      sg ++ ip ++ (if frac.isEmpty then [] else '.' :: frac)
    else
      let frac := stripTrailingZeros (List.replicate ((-x).toNat - 1) '0' ++ ds)
      sg ++ ['0'] ++ (if frac.isEmpty then [] else '.' :: frac)

/-- nearest binary64 (ties to even) of num/den > 0 as bits without sign; 0x7FF0000000000000 = overflow to inf -/
def roundToF64 (num den : Nat) : Nat :=
  -- binary exponent b with 2^b ≤ num/den < 2^(b+1)
  let est : Int := (num.log2 : Int) - (den.log2 : Int)
  let ge2 (b : Int) : Bool := if b ≥ 0 then num ≥ den * 2 ^ b.toNat else num * 2 ^ (-b).toNat ≥ den
  let b := if ge2 est then est else est - 1
  -- quantum exponent: normal numbers keep 53 bits, subnormals are multiples of 2^-1074
  let q : Int := if b - 52 < -1074 then -1074 else b - 52
  let n := if q ≥ 0 then divRoundEven num (den * 2 ^ q.toNat) else divRoundEven (num * 2 ^ (-q).toNat) den
  -- n × 2^q, n ≤ 2^53
  if n == 0 then 0
  else if n < 2 ^ 52 then n                              -- subnormal (q = -1074)
  else
    let (n', q') := if n == 2 ^ 53 then (2 ^ 52, q + 1) else (n, q)
    let be : Int := q' + 1075                             -- biased exponent
    if be ≥ 2047 then 0x7FF0000000000000 else be.toNat * 2 ^ 52 + (n' - 2 ^ 52)

def digitsVal (l : List Char) : Nat := l.foldl (fun a c => a * 10 + (c.toNat - 48)) 0

def allDigits (l : List Char) : Bool := l.all (fun c => '0' ≤ c && c ≤ '9')

/-- split at the first occurrence of one of two characters -/
def splitAt2 (a b : Char) : List Char → List Char × Option (List Char)
  | [] => ([], none)
  | c :: cs => if c == a || c == b then ([], some cs) else
      let (p, r) := splitAt2 a b cs
      (c :: p, r)

/-- mirrors CPython `float(text)` on DSP0201 realValue texts and the three special spellings pywbem writes;
    none = outside this grammar (not modelled) -/
def floatOfText (s : List Char) : Option Nat :=
  if s == "NaN".toList then some 0x7FF8000000000000
  else if s == "INF".toList then some 0x7FF0000000000000
  else if s == "-INF".toList then some 0xFFF0000000000000
  else
    let (neg, body) := match s with
      | '-' :: r => (true, r)
      | '+' :: r => (false, r)
      | r => (false, r)
    let (mant, ex) := splitAt2 'E' 'e' body
    let (ip, fr) := splitAt2 '.' '.' mant
    match fr with
    | none => none
    | some frac =>
      if frac.isEmpty || !allDigits ip || !allDigits frac then none
      else
        let exv : Option Int := match ex with
          | none => some 0
          | some ('-' :: ds) => if ds.isEmpty || !allDigits ds then none else some (-(digitsVal ds : Int))
          | some ('+' :: ds) => if ds.isEmpty || !allDigits ds then none else some (digitsVal ds : Int)
          | some ds => if ds.isEmpty || !allDigits ds then none else some (digitsVal ds : Int)
        match exv with
        | none => none
        | some xe =>
          let m := digitsVal (ip ++ frac)
          let e10 : Int := xe - frac.length
          let sgn := if neg then 2 ^ 63 else 0
          if m == 0 then some sgn
          else if e10 > 400 then some (sgn + 0x7FF0000000000000)
          else if e10 < -800 - ((ip ++ frac).length : Int) then some sgn
          else
            let r := if e10 ≥ 0 then roundToF64 (m * 10 ^ e10.toNat) 1 else roundToF64 m (10 ^ (-e10).toNat)
            some (sgn + r)

end Pywbem.Model.FloatText
