/-
C05 model: equality, hashing and copying of pywbem's CIM objects.

One nested inductive `Obj` stands for every Python value that can occur inside a CIM object:
`None`, immutable leaves (`Atom`), Python lists, `NocaseDict`s and the nine CIM object classes
(`node kind attrs`, attributes in `__slots__` order).  Mutable values carry an abstract identity
(`id : Nat`, Python's `id()`); `==`/`hash` ignore it, the copy functions are about it.

Which attribute is compared / hashed with which helper (`_eq_name`, `_eq_item`, `_eq_dict`, …) is NOT
written down here: `eqSpec`/`hashSpec` read it from `Generated/Slots.lean`, which tools/extractors/slots.py
regenerates from the source text of `__eq__`/`__hash__`/`__slots__` on every run.

`str.lower` / `str.casefold` (CPython, Unicode tables) are a parameter (`CaseOps`); the driver plugs in a
concrete implementation for the alphabet the harness generates (`CaseOps.py`).
-/
import Pywbem.Proto
import Pywbem.Generated.Slots

namespace Pywbem.Model.Eq
open Pywbem.Generated.Slots (Cmp)

/-- CPython `str.lower` / `str.casefold`: third-party behaviour, a parameter of every definition and theorem -/
structure CaseOps where
  lower : List Char → List Char
  casefold : List Char → List Char

/-- immutable leaf values.  Numbers are the exact rational `n/d` in lowest terms (`float.as_integer_ratio`,
    ints have `d = 1`); `tag` = the Python type (bool, int, float, Uint8 … Real64), which `==` never looks at.
    CIMDateTime: a timestamp is its UTC instant in µs plus the two public attributes that do not follow
    from it (`minutes_from_utc`, `precision`); an interval is its length in µs plus `precision`. -/
inductive Atom where
  | str (s : List Char)
  | num (tag : Nat) (n : Int) (d : Nat)
  | inf (neg : Bool)
  | nan
  | ts (utc : Int) (mfu : Int) (prec : Option Nat)
  | iv (us : Int) (prec : Option Nat)
  deriving DecidableEq, Repr, Inhabited

inductive Kind where
  | instanceName | className | instance | cimClass | property | method | parameter | qualifier | qualifierDecl
  deriving DecidableEq, Repr, Inhabited

def Kind.pyName : Kind → String
  | .instanceName => "CIMInstanceName" | .className => "CIMClassName" | .instance => "CIMInstance"
  | .cimClass => "CIMClass" | .property => "CIMProperty" | .method => "CIMMethod"
  | .parameter => "CIMParameter" | .qualifier => "CIMQualifier" | .qualifierDecl => "CIMQualifierDeclaration"

def Kind.all : List Kind :=
  [.instanceName, .className, .instance, .cimClass, .property, .method, .parameter, .qualifier, .qualifierDecl]

def Kind.ofName? (s : String) : Option Kind := Kind.all.find? (fun k => k.pyName == s)

/-- key of a NocaseDict item; `none` = the unnamed keybinding pywbem allows in CIMInstanceName -/
abbrev Key := Option (List Char)

inductive Obj where
  | none
  | atom (a : Atom)
  | list (id : Nat) (xs : List Obj)
  | dict (id : Nat) (es : List (Key × Obj))
  | node (id : Nat) (k : Kind) (attrs : List Obj)
  deriving Repr, Inhabited

/-! ### the per-class tables, read from the generated source extraction -/

def slotsOf (k : Kind) : List String := (Pywbem.Generated.Slots.slots.lookup k.pyName).getD []

def cmpOf (tbl : List (String × List (String × Cmp))) (cls : String) (slot : String) : Cmp :=
  ((tbl.lookup cls).bind (·.lookup slot)).getD .skip

/-- comparator of every slot, in slot order.  mirrors pywbem/_cim_obj.py: <class>.__eq__ -/
def eqSpec (k : Kind) : List Cmp := (slotsOf k).map (cmpOf Pywbem.Generated.Slots.eqCalls k.pyName)

/-- hasher of every slot, in slot order.  mirrors pywbem/_cim_obj.py: <class>.__hash__ -/
def hashSpec (k : Kind) : List Cmp := (slotsOf k).map (cmpOf Pywbem.Generated.Slots.hashCalls k.pyName)

/-! ### equality -/

/-- mirrors pywbem/_cim_types.py: CIMDateTime.__eq__ (aware datetimes compare by UTC instant, timedeltas by
    length; `precision` and `minutes_from_utc` are not looked at), and CPython `==` on str / numbers -/
def eqAtom : Atom → Atom → Bool
  | .str s, .str t => s == t
  | .num _ n d, .num _ m e => n == m && d == e
  | .inf a, .inf b => a == b
  | .ts u _ _, .ts v _ _ => u == v
  | .iv u _, .iv v _ => u == v
  | _, _ => false

/-- mirrors pywbem/_utils.py: _eq_name -/
def eqName (C : CaseOps) : Obj → Obj → Bool
  | .none, .none => true
  | .atom (.str s), .atom (.str t) => C.lower s == C.lower t
  | _, _ => false

/-- mirrors pywbem/_vendor/nocasedict/_nocasedict.py: NocaseDict._casefolded_key -/
def ckey (C : CaseOps) (k : Key) : Key := k.map C.casefold

/-- mirrors NocaseDict.__contains__ / __getitem__ (lookup in the internal dict keyed by casefolded key) -/
def lookup (C : CaseOps) (k : Key) : List (Key × Obj) → Option Obj
  | [] => .none
  | (k', v) :: es => if ckey C k' = ckey C k then some v else lookup C k es

mutual
/-- `a == b` for two values of the family.  Values of different Python classes are unequal (after the
    `_eq_item` fix a TypeError from a nested `__eq__` means "not equal", as in NocaseDict.__eq__).
    mirrors pywbem/_utils.py: _eq_item, _eq_dict; CPython list `==` -/
def eqObj (C : CaseOps) : Obj → Obj → Bool
  | .none, .none => true
  | .atom a, .atom b => eqAtom a b
  | .list _ xs, .list _ ys => eqList C xs ys
  | .dict _ es, .dict _ fs => eqEntries C es fs && es.length == fs.length
  | .node _ k as, .node _ k' bs => k == k' && eqAttrs C (eqSpec k) as bs
  | _, _ => false
def eqList (C : CaseOps) : List Obj → List Obj → Bool
  | [], [] => true
  | a :: as, b :: bs => eqObj C a b && eqList C as bs
  | _, _ => false
/-- mirrors NocaseDict.__eq__: `for key, v in self.items(): if key not in other: return False; if not v == other[key]: return False` -/
def eqEntries (C : CaseOps) : List (Key × Obj) → List (Key × Obj) → Bool
  | [], _ => true
  | (k, v) :: es, fs =>
    (match lookup C k fs with
     | some w => eqObj C v w
     | .none => false) && eqEntries C es fs
/-- mirrors `<class>.__eq__`: the conjunction over the compared attributes -/
def eqAttrs (C : CaseOps) : List Cmp → List Obj → List Obj → Bool
  | [], [], [] => true
  | c :: cs, a :: as, b :: bs =>
    (match c with
     | .skip => true
     | .name => eqName C a b
     | .item => eqObj C a b
     | .dict => eqObj C a b) && eqAttrs C cs as bs
  | _, _, _ => false
end

/-- mirrors pywbem/_cim_types.py: _CIMComparisonMixin.__ne__ and NocaseDict.__ne__ -/
def neObj (C : CaseOps) (a b : Obj) : Bool := !eqObj C a b

/-! ### well-formedness (what the constructors/setters of the real classes guarantee) and NaN-freedom -/

def keysOf (C : CaseOps) (es : List (Key × Obj)) : List Key := es.map (fun e => ckey C e.1)

def isName : Obj → Bool
  | .none => true
  | .atom (.str _) => true
  | _ => false

mutual
/-- dict keys are pairwise different after casefolding (NocaseDict invariant), every CIM object has one
    attribute per slot, and no NaN occurs (the property excludes NaN) -/
def good (C : CaseOps) : Obj → Bool
  | .none => true
  | .atom a => a != .nan
  | .list _ xs => goodList C xs
  | .dict _ es => decide (keysOf C es).Nodup && goodEntries C es
  | .node _ k as => goodAttrs C (eqSpec k) as
def goodList (C : CaseOps) : List Obj → Bool
  | [] => true
  | a :: as => good C a && goodList C as
/-- one attribute per slot; slots compared with `_eq_name` hold `None` or a string (the setters ensure it) -/
def goodAttrs (C : CaseOps) : List Cmp → List Obj → Bool
  | [], [] => true
  | c :: cs, a :: as =>
    (match c with
     | .name => isName a
     | .item => good C a
     | .dict => good C a
     | .skip => good C a) && goodAttrs C cs as
  | _, _ => false
def goodEntries (C : CaseOps) : List (Key × Obj) → Bool
  | [] => true
  | (_, v) :: es => good C v && goodEntries C es
end

/-! ### hashing -/

/-- CPython's builtin `hash()` on the value classes involved: third-party behaviour, a parameter.
    `num` takes the exact value only (CPython guarantees equal numbers of any numeric type hash equal);
    `fset` is `hash(frozenset(…))`: the theorems assume it depends only on the *set* of element hashes. -/
structure PyHash (β : Type) where
  none : β
  str : List Char → β
  num : Int → Nat → β
  inf : Bool → β
  nan : β
  dt : Int → β
  td : Int → β
  tuple : List β → β
  fset : List β → β

variable {β : Type}

/-- mirrors pywbem/_cim_types.py: CIMDateTime.__hash__ = hash((hash(datetime), hash(timedelta))) -/
def hashAtom (H : PyHash β) : Atom → β
  | .str s => H.str s
  | .num _ n d => H.num n d
  | .inf b => H.inf b
  | .nan => H.nan
  | .ts u _ _ => H.tuple [H.dt u, H.none]
  | .iv u _ => H.tuple [H.none, H.td u]

/-- mirrors pywbem/_utils.py: _hash_name -/
def hashName (C : CaseOps) (H : PyHash β) : Obj → β
  | .atom (.str s) => H.str (C.lower s)
  | _ => H.none

def hashKey (C : CaseOps) (H : PyHash β) (k : Key) : β :=
  match ckey C k with
  | some s => H.str s
  | .none => H.none

mutual
/-- mirrors pywbem/_utils.py: _hash_item (list → tuple), _hash_dict; HashableMixin.__hash__
    (frozenset of (casefolded key, value)); `<class>.__hash__` (tuple of the per-attribute hashes) -/
def hashObj (C : CaseOps) (H : PyHash β) : Obj → β
  | .none => H.none
  | .atom a => hashAtom H a
  | .list _ xs => H.tuple (hashList C H xs)
  | .dict _ es => H.fset (hashEntries C H es)
  | .node _ k as => H.tuple (hashAttrs C H (hashSpec k) as)
def hashList (C : CaseOps) (H : PyHash β) : List Obj → List β
  | [] => []
  | a :: as => hashObj C H a :: hashList C H as
def hashEntries (C : CaseOps) (H : PyHash β) : List (Key × Obj) → List β
  | [] => []
  | (k, v) :: es => H.tuple [hashKey C H k, hashObj C H v] :: hashEntries C H es
def hashAttrs (C : CaseOps) (H : PyHash β) : List Cmp → List Obj → List β
  | c :: cs, a :: as =>
    (match c with
     | .skip => H.none
     | .name => hashName C H a
     | .item => hashObj C H a
     | .dict => hashObj C H a) :: hashAttrs C H cs as
  | _, _ => []
end

/-- a slot's hasher is compatible with its comparator when it hashes the attribute the way it is compared
    (or not at all) -/
def compat1 : Cmp → Cmp → Bool
  | _, .skip => true
  | .name, .name => true
  | .item, .item => true | .item, .dict => true | .dict, .item => true | .dict, .dict => true
  | _, _ => false

def compat : List Cmp → List Cmp → Bool
  | [], [] => true
  | c :: cs, h :: hs => compat1 c h && compat cs hs
  | _, _ => false

/-! ### normal form: what `==` cannot see -/

def normAtom : Atom → Atom
  | .num _ n d => .num 0 n d
  | .ts u _ _ => .ts u 0 .none
  | .iv u _ => .iv u .none
  | a => a

mutual
/-- erase identities, numeric Python types, the lexical case of names (slots compared with `_eq_name`) and of
    dict keys; keeps the order of dict items -/
def norm (C : CaseOps) : Obj → Obj
  | .none => .none
  | .atom a => .atom (normAtom a)
  | .list _ xs => .list 0 (normList C xs)
  | .dict _ es => .dict 0 (normEntries C es)
  | .node _ k as => .node 0 k (normAttrs C (eqSpec k) as)
def normList (C : CaseOps) : List Obj → List Obj
  | [] => []
  | a :: as => norm C a :: normList C as
def normEntries (C : CaseOps) : List (Key × Obj) → List (Key × Obj)
  | [] => []
  | (k, v) :: es => (ckey C k, norm C v) :: normEntries C es
def normAttrs (C : CaseOps) : List Cmp → List Obj → List Obj
  | c :: cs, a :: as =>
    (match c with
     | .skip => Obj.none
     | .name =>
       (match a with
        | .atom (.str s) => Obj.atom (.str (C.lower s))
        | _ => norm C a)
     | .item => norm C a
     | .dict => norm C a) :: normAttrs C cs as
  | [], a :: as => norm C a :: normAttrs C [] as
  | _, [] => []
end

/-! ### concrete `str.lower` / `str.casefold` for the driver (alphabet of the harness generators) -/

/-- `str.lower` on one code point of the supported alphabet: ASCII, Latin-1, ẞ, İ, Kelvin sign.
    (Σ is excluded from the alphabet: its lower-casing is context dependent.) -/
def lowerChar (c : Char) : List Char :=
  let n := c.toNat
  if 65 ≤ n ∧ n ≤ 90 then [Char.ofNat (n + 32)]
  else if 192 ≤ n ∧ n ≤ 222 ∧ n ≠ 215 then [Char.ofNat (n + 32)]
  else if n = 0x1E9E then [Char.ofNat 0xDF]
  else if n = 0x130 then [Char.ofNat 0x69, Char.ofNat 0x307]
  else if n = 0x212A then ['k']
  else [c]

/-- `str.casefold` on one code point: lower, plus ß/ẞ → ss, µ → μ, ς → σ -/
def casefoldChar (c : Char) : List Char :=
  let n := c.toNat
  if n = 0xDF ∨ n = 0x1E9E then ['s', 's']
  else if n = 0xB5 then [Char.ofNat 0x3BC]
  else if n = 0x3C2 then [Char.ofNat 0x3C3]
  else lowerChar c

def CaseOps.py : CaseOps where
  lower s := s.flatMap lowerChar
  casefold s := s.flatMap casefoldChar

/-! ### copying.  identities ≥ `base` are fresh (allocated by the copy), smaller ones belong to the original -/

/-- how `copy()` (constructor + setters) treats a slot -/
inductive CopyAct where
  | share        -- the very same object is stored (immutable values; values the setter does not copy)
  | newDict      -- setter builds a new NocaseDict holding the same value objects
  | value        -- cimvalue(): a list value becomes a new list holding the same element objects
  | pathCopy     -- CIMInstance.path setter: path.copy()  (CIMInstanceName.copy)
  | shallow      -- CIMClass.path setter: copy.copy(path)
  deriving DecidableEq, Repr

def CopyAct.ofString : String → CopyAct
  | "newDict" => .newDict | "value" => .value | "pathCopy" => .pathCopy | "shallow" => .shallow | _ => .share

/-- what `copy()` does with a slot = what the setter of that attribute stores; read from the generated source
    extraction (Generated/Slots.lean: setterActs).  mirrors the property setters of pywbem/_cim_obj.py -/
def copySpec (k : Kind) : List CopyAct :=
  (slotsOf k).map (fun s =>
    CopyAct.ofString (((Pywbem.Generated.Slots.setterActs.lookup k.pyName).bind (·.lookup s)).getD "share"))

/-- the sharing the docstrings of `copy()` describe: dict-valued attributes are re-created (their value objects
    are shared), `value` goes through cimvalue(), the path is copied, everything else is immutable -/
def docCopyAct (k : Kind) (slot : String) : CopyAct :=
  if slot ∈ ["keybindings", "properties", "qualifiers", "methods", "parameters", "scopes"] then .newDict
  else if slot = "value" then .value
  else if slot = "path" then (if k = .instance then .pathCopy else .shallow)
  else .share

/-! the identity allocator is a counter `n : Nat`: the next unused identity -/

/-- mirrors CIMInstanceName.copy(): new object, new keybindings dict, values shared -/
def copyInstanceName (n : Nat) : Obj → Obj × Nat
  | .node _ .instanceName [cn, .dict _ es, h, ns] => (.node n .instanceName [cn, .dict (n + 1) es, h, ns], n + 2)
  | o => (o, n)

def copySlot (n : Nat) : CopyAct → Obj → Obj × Nat
  | .share, o => (o, n)
  | .newDict, .dict _ es => (.dict n es, n + 1)
  | .newDict, o => (o, n)
  | .value, .list _ xs => (.list n xs, n + 1)
  | .value, o => (o, n)
  | .pathCopy, o => copyInstanceName n o
  | .shallow, .node _ k as => (.node n k as, n + 1)
  | .shallow, o => (o, n)

def copySlots (n : Nat) : List CopyAct → List Obj → List Obj × Nat
  | c :: cs, a :: as =>
    let (a', n') := copySlot n c a
    let (as', n'') := copySlots n' cs as
    (a' :: as', n'')
  | _, _ => ([], n)

/-- mirrors `<class>.copy()` and NocaseDict.copy() -/
def copyObj (n : Nat) : Obj → Obj × Nat
  | .node _ k as =>
    let (as', n') := copySlots (n + 1) (copySpec k) as
    (.node n k as', n')
  | .dict _ es => (.dict n es, n + 1)
  | o => (o, n)

/-- mirrors copy.copy(): SlottedPickleMixin.__getstate__/__setstate__ re-bind every slot to the same object;
    a NocaseDict gets a new internal dict with the same values; a list a new list -/
def shallowObj (n : Nat) : Obj → Obj × Nat
  | .node _ k as => (.node n k as, n + 1)
  | .dict _ es => (.dict n es, n + 1)
  | .list _ xs => (.list n xs, n + 1)
  | o => (o, n)

mutual
/-- mirrors copy.deepcopy() / pickle round trip on a tree without internal aliasing: everything mutable is new -/
def deepObj (n : Nat) : Obj → Obj × Nat
  | .none => (.none, n)
  | .atom a => (.atom a, n)
  | .list _ xs => let (xs', n') := deepList (n + 1) xs; (.list n xs', n')
  | .dict _ es => let (es', n') := deepEntries (n + 1) es; (.dict n es', n')
  | .node _ k as => let (as', n') := deepList (n + 1) as; (.node n k as', n')
def deepList (n : Nat) : List Obj → List Obj × Nat
  | [] => ([], n)
  | a :: as => let (a', n') := deepObj n a; let (as', n'') := deepList n' as; (a' :: as', n'')
def deepEntries (n : Nat) : List (Key × Obj) → List (Key × Obj) × Nat
  | [] => ([], n)
  | (k, v) :: es => let (v', n') := deepObj n v; let (es', n'') := deepEntries n' es; ((k, v') :: es', n'')
end

mutual
/-- identities of all mutable values reachable from an object -/
def ids : Obj → List Nat
  | .none => []
  | .atom _ => []
  | .list i xs => i :: idsList xs
  | .dict i es => i :: idsEntries es
  | .node i _ as => i :: idsList as
def idsList : List Obj → List Nat
  | [] => []
  | a :: as => ids a ++ idsList as
def idsEntries : List (Key × Obj) → List Nat
  | [] => []
  | (_, v) :: es => ids v ++ idsEntries es
end

/-- identities the documentation of `copy()` declares shared between original and copy: the value objects of
    the dict-valued attributes (and everything below them).
    mirrors the docstrings of `<class>.copy()` in pywbem/_cim_obj.py -/
def documentedSharedSlot : CopyAct → Obj → List Nat
  | .newDict, .dict _ es => idsEntries es
  | _, _ => []

def documentedSharedSlots : List CopyAct → List Obj → List Nat
  | c :: cs, a :: as => documentedSharedSlot c a ++ documentedSharedSlots cs as
  | _, _ => []

def documentedShared : Obj → List Nat
  | .node _ k as => documentedSharedSlots (copySpec k) as
  | .dict _ es => idsEntries es
  | _ => []

end Pywbem.Model.Eq
