/-
C06, sub-models (1) CIM integer types and (3) real text fixup.
Mirrors pywbem/_cim_types.py (CIMInt.__new__, Uint8 … Sint64, atomic_to_cim_xml real branches) after the
`fix:` commits of the C06 builder.  Mathlib-free, executable (linked into drv_c06).

Python's builtin `int(*args, **kwargs)` (CPython 3.12: long_new_impl, PyLong_FromString,
_PyUnicode_TransformDecimalAndSpaceToASCII) is modelled concretely for ASCII text, Unicode white space,
every base 0/2..36, prefixes, underscores, sign, the 4300 digit limit, floats by bit pattern, bool, None.
Unicode decimal digits (category Nd, table of Unicode 15.0) are accepted like CPython does.
Not modelled: objects with user-defined __int__/__index__/__trunc__.
-/
import Pywbem.Proto
import Pywbem.Generated.Config
import Pywbem.Generated.CimTypes

namespace Pywbem.Model.CimTypes
open Pywbem.Proto

/-! ## the 8 integer types; limits come from the generated table -/

inductive IntTy where
  | uint8 | sint8 | uint16 | sint16 | uint32 | sint32 | uint64 | sint64
  deriving DecidableEq, Repr, Inhabited

def IntTy.all : List IntTy := [.uint8, .sint8, .uint16, .sint16, .uint32, .sint32, .uint64, .sint64]

/-- mirrors _cim_types.py: `cimtype` class attribute -/
def IntTy.name : IntTy → String
  | .uint8 => "uint8" | .sint8 => "sint8" | .uint16 => "uint16" | .sint16 => "sint16"
  | .uint32 => "uint32" | .sint32 => "sint32" | .uint64 => "uint64" | .sint64 => "sint64"

def IntTy.ofName? (s : String) : Option IntTy := IntTy.all.find? (fun t => t.name == s)

/-- row of the generated table for a type (by cimtype name) -/
def limitsOf (tbl : List (String × String × Int × Int)) (n : String) : Option (Int × Int) :=
  (tbl.find? (fun r => r.2.1 == n)).map (fun r => (r.2.2.1, r.2.2.2))

/-- mirrors _cim_types.py: `minvalue` of the class with this cimtype (extracted from the source on every run) -/
def IntTy.lo (t : IntTy) : Int := ((limitsOf Generated.intTypes t.name).getD (0, 0)).1
/-- mirrors _cim_types.py: `maxvalue` -/
def IntTy.hi (t : IntTy) : Int := ((limitsOf Generated.intTypes t.name).getD (0, 0)).2

/-- DSP0004 table 2 (the specification side): bit width and signedness -/
def IntTy.bits : IntTy → Nat
  | .uint8 | .sint8 => 8 | .uint16 | .sint16 => 16 | .uint32 | .sint32 => 32 | .uint64 | .sint64 => 64
def IntTy.signed : IntTy → Bool
  | .sint8 | .sint16 | .sint32 | .sint64 => true
  | _ => false
def IntTy.specLo (t : IntTy) : Int := if t.signed then -(2 ^ (t.bits - 1) : Int) else 0
def IntTy.specHi (t : IntTy) : Int := if t.signed then 2 ^ (t.bits - 1) - 1 else 2 ^ t.bits - 1

/-- the DSP0004 table in the layout of the generated one -/
def specIntTypes : List (String × String × Int × Int) :=
  [("Uint8", .uint8), ("Sint8", .sint8), ("Uint16", .uint16), ("Sint16", .sint16),
   ("Uint32", .uint32), ("Sint32", .sint32), ("Uint64", .uint64), ("Sint64", IntTy.sint64)].map
    (fun (c, t) => (c, t.name, t.specLo, t.specHi))

structure CimInt where
  ty : IntTy
  val : Int
  deriving DecidableEq, Repr

/-! ## Python `int()` -/

/-- an argument offered to `int()` / a CIMInt constructor -/
inductive Arg where
  | int (v : Int)            -- int, or a CIMInt object
  | bool (b : Bool)
  | float (bits : Nat)       -- IEEE-754 binary64 bit pattern (also Real32/Real64 objects)
  | str (s : List Char)
  | bytes (s : List Nat)     -- byte values
  | none
  | other                    -- an object int() cannot convert and that is not iterable (e.g. CIMDateTime)
  deriving Repr, DecidableEq, Inhabited

/-- str.isspace() characters (what _PyUnicode_TransformDecimalAndSpaceToASCII turns into ' ') -/
def isPySpace (c : Char) : Bool :=
  let n := c.toNat
  (9 ≤ n && n ≤ 13) || n == 32 || n == 0x85 || n == 0xA0 || n == 0x1680 ||
  (0x2000 ≤ n && n ≤ 0x200A) || n == 0x2028 || n == 0x2029 || n == 0x202F || n == 0x205F || n == 0x3000

/-- Py_ISSPACE (bytes arguments): ASCII white space only -/
def isCSpace (n : Nat) : Bool := (9 ≤ n && n ≤ 13) || n == 32

/-- _PyLong_DigitValue: value of a digit character in bases up to 36 (37 = not a digit) -/
def digitValue (n : Nat) : Nat :=
  if 48 ≤ n && n ≤ 57 then n - 48
  else if 97 ≤ n && n ≤ 122 then n - 97 + 10
  else if 65 ≤ n && n ≤ 90 then n - 65 + 10
  else 37

/-- scan digits and underscores (long_from_string_base); returns (value, number of digits, rest) or none on a
    misplaced underscore.  `prevUs` = previous character was an underscore. -/
def scanDigits (base : Nat) : List Nat → (acc : Nat) → (nd : Nat) → (prevUs : Bool) → Option (Nat × Nat × List Nat)
  | [], acc, nd, prevUs => if prevUs then none else some (acc, nd, [])
  | c :: cs, acc, nd, prevUs =>
    if c == 95 then (if prevUs then none else scanDigits base cs acc nd true)
    else if digitValue c < base then scanDigits base cs (acc * base + digitValue c) (nd + 1) false
    else if prevUs then none else some (acc, nd, c :: cs)

def isPow2Base (b : Nat) : Bool := b == 2 || b == 4 || b == 8 || b == 16 || b == 32

/-- sys.int_info.default_max_str_digits -/
def maxStrDigits : Nat := 4300

def isX (c : Nat) : Bool := c == 120 || c == 88
def isO (c : Nat) : Bool := c == 111 || c == 79
def isB (c : Nat) : Bool := c == 98 || c == 66

/-- PyLong_FromString: optional sign -/
def stripSign : List Nat → Bool × List Nat
  | 43 :: r => (false, r)
  | 45 :: r => (true, r)
  | r => (false, r)

/-- PyLong_FromString: base 0 is decided by the prefix; a leading 0 without prefix is only valid for the value zero
    (second component = error_if_nonzero) -/
def pickBase (base0 : Nat) (s2 : List Nat) : Nat × Bool :=
  if base0 != 0 then (base0, false)
  else match s2 with
    | 48 :: c :: _ => if isX c then (16, false) else if isO c then (8, false) else if isB c then (2, false)
                      else (10, true)
    | 48 :: [] => (10, true)
    | _ => (10, false)

/-- PyLong_FromString: skip "0x" / "0o" / "0b" when it fits the base, and one underscore after it -/
def stripPrefix (base : Nat) (s2 : List Nat) : List Nat :=
  match s2 with
  | 48 :: c :: r =>
    if (base == 16 && isX c) || (base == 8 && isO c) || (base == 2 && isB c) then
      (match r with | 95 :: r' => r' | _ => r)
    else s2
  | _ => s2

/-- PyLong_FromString: the digits, the checks after them, the sign -/
def finishScan (space : Nat → Bool) (neg : Bool) (base : Nat) (errIfNonzero : Bool) (s3 : List Nat) : Except PyExc Int :=
  match s3 with
  | 95 :: _ => .error .valueError                    -- may not start with an underscore
  | _ =>
    match scanDigits base s3 0 0 false with
    | none => .error .valueError
    | some (v, nd, rest) =>
      if nd == 0 then .error .valueError
      else if !isPow2Base base && nd > maxStrDigits then .error .valueError
      else if errIfNonzero && v != 0 then .error .valueError
      else if !(rest.dropWhile space).isEmpty then .error .valueError
      else .ok (if neg then -(v : Int) else (v : Int))

/-- mirrors CPython PyLong_FromString on a NUL-free byte string (`space` = the white-space test in force) -/
def longFromString (space : Nat → Bool) (s : List Nat) (base0 : Nat) : Except PyExc Int :=
  let ns := stripSign (s.dropWhile space)
  let be := pickBase base0 ns.2
  finishScan space ns.1 be.1 be.2 (stripPrefix be.1 ns.2)

/-- code points of the digit zero of every Unicode (15.0, CPython 3.12) decimal-digit block (category Nd);
    each block is 10 consecutive code points -/
def ndZeros : List Nat :=
  [1632, 1776, 1984, 2406, 2534, 2662, 2790, 2918, 3046, 3174, 3302, 3430, 3558, 3664, 3792, 3872, 4160, 4240, 6112,
   6160, 6470, 6608, 6784, 6800, 6992, 7088, 7232, 7248, 42528, 43216, 43264, 43472, 43504, 43600, 44016, 65296, 66720,
   68912, 69734, 69872, 69942, 70096, 70384, 70736, 70864, 71248, 71360, 71472, 71904, 72016, 72784, 73040, 73120,
   73552, 92768, 92864, 93008, 120782, 120792, 120802, 120812, 120822, 123200, 123632, 124144, 125264, 130032]

/-- Py_UNICODE_TODECIMAL for a non-ASCII code point -/
def unicodeDecimal (n : Nat) : Option Nat :=
  (ndZeros.find? (fun z => z ≤ n && n < z + 10)).map (fun z => n - z)

/-- mirrors CPython _PyUnicode_TransformDecimalAndSpaceToASCII: ASCII stays, Unicode white space becomes ' ',
    Unicode decimal digits become ASCII digits, anything else (and an embedded NUL) makes the string invalid -/
def strToBytes (s : List Char) : Option (List Nat) :=
  s.mapM (fun c =>
    let n := c.toNat
    if n == 0 then none
    else if n < 127 then some n
    else if isPySpace c then some 32
    else (unicodeDecimal n).map (fun d => 48 + d))

def intOfStr (s : List Char) (base : Nat) : Except PyExc Int :=
  match strToBytes s with
  | none => .error .valueError
  | some b => longFromString isCSpace b base

def intOfBytes (s : List Nat) (base : Nat) : Except PyExc Int :=
  if s.any (fun c => c == 0 || c ≥ 128) then .error .valueError else longFromString isCSpace s base

/-- int(float): truncation toward zero; nan → ValueError, ±inf → OverflowError (exact, from the bit pattern) -/
def f64Trunc (bits : Nat) : Except PyExc Int :=
  let sign := bits / 2 ^ 63 % 2
  let e := bits / 2 ^ 52 % 2048
  let m := bits % 2 ^ 52
  if e == 2047 then (if m == 0 then .error .overflowError else .error .valueError)
  else if e == 0 then .ok 0
  else
    let sig := 2 ^ 52 + m
    let mag : Nat := if e ≥ 1075 then sig * 2 ^ (e - 1075) else sig / 2 ^ (1075 - e)
    .ok (if sign == 1 then -(mag : Int) else (mag : Int))

/-- PyNumber_Long(x): int(x) without base -/
def intOf1 : Arg → Except PyExc Int
  | .int v => .ok v
  | .bool b => .ok (if b then 1 else 0)
  | .float bits => f64Trunc bits
  | .str s => intOfStr s 10
  | .bytes s => intOfBytes s 10
  | .none => .error .typeError
  | .other => .error .typeError

/-- PyNumber_AsSsize_t(base) and the base range check of long_new_impl -/
def baseOf : Arg → Except PyExc Nat
  | .int v => if (v != 0 && v < 2) || v > 36 then .error .valueError else .ok v.toNat
  | .bool b => if b then .error .valueError else .ok 0
  | _ => .error .typeError

/-- mirrors CPython long_new_impl: `int(*pos, base=kwBase)` -/
def pyInt (pos : List Arg) (kwBase : Option Arg) : Except PyExc Int :=
  match pos, kwBase with
  | [], none => .ok 0
  | [], some _ => .error .typeError                       -- int() missing string argument
  | [x], none => intOf1 x
  | [x], some b => withBase x b
  | [x, b], none => withBase x b
  | [_, _], some _ => .error .typeError                   -- base given twice
  | _, _ => .error .typeError                             -- int() takes at most 2 arguments
where
  withBase (x b : Arg) : Except PyExc Int := do
    let base ← baseOf b
    match x with
    | .str s => intOfStr s base
    | .bytes s => intOfBytes s base
    | _ => .error .typeError                              -- can't convert non-string with explicit base

/-- the call `Cls(*pos, x=kwX, base=kwBase)` -/
structure Call where
  pos : List Arg := []
  kwX : Option Arg := none
  kwBase : Option Arg := none
  deriving Repr

/-- mirrors _cim_types.py: CIMInt.__new__ — `if 'x' in kwargs: args = list(*args); args.append(kwargs.pop('x'))` -/
def effArgs (c : Call) : Except PyExc (List Arg) :=
  match c.kwX with
  | none => .ok c.pos
  | some x =>
    match c.pos with
    | [] => .ok [x]
    | [.str s] => .ok (s.map (fun ch => Arg.str [ch]) ++ [x])     -- list('ab') == ['a', 'b']
    | [.bytes s] => .ok (s.map (fun (b : Nat) => Arg.int (b : Int)) ++ [x])       -- list(b'ab') == [97, 98]
    | [_] => .error .typeError                                    -- list(5): not iterable
    | _ => .error .typeError                                      -- list(a, b): at most 1 argument

/-- mirrors _cim_types.py: CIMInt.__new__ (range check on `int(*args, **kwargs)`, object built by
    `super().__new__(cls, *args, **kwargs)` from the same arguments) -/
def mkInt (enforce : Bool) (t : IntTy) (c : Call) : Except PyExc CimInt := do
  let args ← effArgs c
  let value ← pyInt args c.kwBase
  if enforce && (value > t.hi || value < t.lo) then .error .valueError
  else do
    let obj ← pyInt args c.kwBase
    .ok ⟨t, obj⟩

/-- the constructor as configured in the repo (pywbem/config.py: ENFORCE_INTEGER_RANGE) -/
def mkIntCfg (t : IntTy) (c : Call) : Except PyExc CimInt := mkInt Generated.enforceIntegerRange t c

/-! ## reals: the text fixup of atomic_to_cim_xml -/

def strNAN : List Char := "NAN".toList
def strNaN : List Char := "NaN".toList
def strINF : List Char := "INF".toList
def strNegINF : List Char := "-INF".toList

/-- str.split('E') -/
def splitE : List Char → List (List Char)
  | [] => [[]]
  | c :: cs =>
    match splitE cs with
    | [] => [[c]]          -- unreachable (splitE never returns [])
    | p :: ps => if c == 'E' then [] :: p :: ps else (c :: p) :: ps

/-- 'E'.join(parts) -/
def joinE : List (List Char) → List Char
  | [] => []
  | [p] => p
  | p :: ps => p ++ 'E' :: joinE ps

/-- mirrors _cim_types.py: atomic_to_cim_xml, the statements after `s = f'{obj:.17G}'` (same for .11G) -/
def fixup (s : List Char) : List Char :=
  if s == strNAN then strNaN
  else if s == strINF || s == strNegINF then s
  else if !s.contains '.' then
    match splitE s with
    | [] => s
    | p :: ps => joinE ((p ++ ['.', '0']) :: ps)
  else s

/-- number of significant digits of a '.<n>G' format spec -/
def specDigits (spec : String) : Option Nat :=
  match spec.toList with
  | '.' :: rest =>
    match rest.reverse with
    | 'G' :: ds =>
      if ds.isEmpty || !ds.all (fun c => '0' ≤ c && c ≤ '9') then none
      else some (ds.reverse.foldl (fun a c => a * 10 + (c.toNat - 48)) 0)
    | _ => none
  | _ => none

/-! ## specification side of the reals: shape of '%.<n>G' text and the RealCodec hypothesis record -/

def isDig (c : Char) : Bool := '0' ≤ c && c ≤ '9'

/-- the text CPython's '%.<n>G' produces for a finite value: [-] digits [. digits] [E (+|-) digits] -/
structure GText where
  neg : Bool
  ip : List Char                       -- integer part
  frac : List Char                     -- digits after the '.', [] = no '.'
  exp : Option (Bool × List Char)      -- exponent: (negative?, digits)
  deriving Repr

def GText.ok (g : GText) : Bool :=
  !g.ip.isEmpty && g.ip.all isDig && g.frac.all isDig &&
  (match g.exp with | none => true | some (_, ds) => !ds.isEmpty && ds.all isDig)

def GText.expText (g : GText) : List Char :=
  match g.exp with
  | none => []
  | some (s, ds) => 'E' :: (if s then '-' else '+') :: ds

def GText.render (g : GText) : List Char :=
  (if g.neg then ['-'] else []) ++ g.ip ++ (if g.frac.isEmpty then [] else '.' :: g.frac) ++ g.expText

/-- DSP0201 realValue = [ "+" | "-" ] *decimalDigit "." 1*decimalDigit [ ( "e" | "E" ) [ "+" | "-" ] 1*decimalDigit ]:
    a GText with a non-empty fraction renders to exactly this grammar -/
def GText.isRealValue (g : GText) : Bool := g.ok && !g.frac.isEmpty

/-- what atomic_to_cim_xml is meant to do to a G text: add ".0" when there is no fraction -/
def GText.withFraction (g : GText) : GText := if g.frac.isEmpty then { g with frac := ['0'] } else g

/-- Third-party behaviour the real round trip rests on, as a HYPOTHESIS RECORD (never an axiom):
    CPython's format(x, '.17G') / format(x, '.11G') and float(text), over doubles given by bit pattern. -/
structure RealCodec where
  fmt : Nat → List Char
  parse : List Char → Option Nat
  finite : Nat → Bool
  /-- the text of a finite value has the G shape -/
  shape : ∀ x, finite x = true → ∃ g : GText, g.ok = true ∧ fmt x = g.render
  /-- enough digits are printed: float() of the text gives the value back (17 digits for binary64; for '.11G' the
      codec is over binary32 values) -/
  rt : ∀ x, finite x = true → parse (fmt x) = some x
  /-- float() reads "<int>.0[E…]" like "<int>[E…]" -/
  dot0 : ∀ g : GText, g.ok = true → g.frac = [] → parse ({ g with frac := ['0'] } : GText).render = parse g.render

/-- the same for real32 ('%.11G'): the text is read back as a double `y` that is in general NOT the double `x` that was
    written (11 digits do not determine a double) but rounds to the same binary32 value — which is the claim of the
    property for "all float32-representable values".  `toF32` = rounding a double to binary32 (e.g. struct.pack('f')). -/
structure RealCodec32 where
  fmt : Nat → List Char                   -- format(x, '.11G')
  parse : List Char → Option Nat          -- float(text)
  toF32 : Nat → Nat
  finite32 : Nat → Bool                   -- x is a finite double that is exactly a binary32 value
  shape : ∀ x, finite32 x = true → ∃ g : GText, g.ok = true ∧ fmt x = g.render
  /-- 11 significant digits determine a binary32 value -/
  rt32 : ∀ x, finite32 x = true → ∃ y, parse (fmt x) = some y ∧ toF32 y = toF32 x
  dot0 : ∀ g : GText, g.ok = true → g.frac = [] → parse ({ g with frac := ['0'] } : GText).render = parse g.render

end Pywbem.Model.CimTypes
