/-
C19 — detailed model of pywbem/_statistics.py (the arithmetic the coarse `Observer.Stats` leaves out).

mirrors pywbem/_statistics.py: Statistics.__call__/__enter__/__exit__ (the context manager used by the mock's
  compile_mof_*/add_cimobjects and by users), OperationStatistic.__init__/start_timer/stop_timer (count, exception count,
  time sum/min/max, server-time sum/min/max with suspension, request/reply length sum/min/max, _start_time,
  _stat_start_time), avg_* properties (as the pair sum, count), Statistics.__init__/enable/disable/
  start_timer/get_op_statistic (the dummy statistic while disabled)/reset (refused while a timer runs)

Numbers: the clock and all measured quantities are `Int`s (K drives the real class with a fake clock and
integer-valued floats, so sums/min/max are exact); `none` stands for `float('inf')` of the minima.
Object identity: `start_timer` returns an OperationStatistic object; `Handle` names it (the dummy, or the
object stored under a name in generation `gen`; `Statistics.reset()` replaces the dict, i.e. starts a new
generation, and is only possible when no stored statistic has a running timer).
-/
import Pywbem.Proto

namespace Pywbem.Model.Statistics
open Pywbem.Proto

abbrev Str := List Char

/-- one OperationStatistic object -/
structure OpStat where
  count : Nat := 0
  excCount : Nat := 0
  timeSum : Int := 0
  timeMin : Option Int := none       -- none = float('inf')
  timeMax : Int := 0
  srvSuspended : Bool := false
  srvSum : Int := 0
  srvMin : Option Int := none
  srvMax : Int := 0
  reqSum : Int := 0
  reqMin : Option Int := none
  reqMax : Int := 0
  replySum : Int := 0
  replyMin : Option Int := none
  replyMax : Int := 0
  startTime : Option Int := none      -- _start_time
  statStart : Option Int := none      -- _stat_start_time
  deriving Repr, DecidableEq, Inhabited

structure Stats where
  enabled : Bool := false
  ops : List (Str × OpStat) := []      -- _op_stats, insertion ordered
  gen : Nat := 0                        -- number of successful reset() calls (identity of the dict)
  deriving Repr, DecidableEq, Inhabited

inductive Handle where
  | dummy                               -- _disabled_stats
  | named (n : Str) (gen : Nat)
  deriving Repr, DecidableEq, Inhabited

/-- `x < min` against a minimum that may still be inf -/
def minUpd (m : Option Int) (x : Int) : Option Int :=
  match m with
  | none => some x
  | some v => if x < v then some x else some v

def maxUpd (m x : Int) : Int := if x > m then x else m

def find (ops : List (Str × OpStat)) (n : Str) : Option OpStat :=
  match ops with
  | [] => none
  | p :: ps => if p.1 = n then some p.2 else find ps n

def setOp (n : Str) (o : OpStat) : List (Str × OpStat) → List (Str × OpStat)
  | [] => [(n, o)]
  | p :: ps => if p.1 = n then (n, o) :: ps else p :: setOp n o ps

/-- mirrors OperationStatistic.start_timer on an enabled container (`if not self._stat_start_time`: None or 0) -/
def OpStat.start (o : OpStat) (now : Int) : OpStat :=
  { o with startTime := some now,
           statStart := (match o.statStart with
                         | none => some now
                         | some t => if t = 0 then some now else some t) }

/-- mirrors Statistics.start_timer(name): returns the statistic object it started (the dummy when disabled) -/
def Stats.startTimer (s : Stats) (n : Str) (now : Int) : Stats × Handle :=
  if !s.enabled then (s, .dummy)
  else
    let o := (find s.ops n).getD {}
    ({ s with ops := setOp n (o.start now) s.ops }, .named n s.gen)

/-- the arithmetic of stop_timer on a statistic whose timer runs since `t0` -/
def OpStat.stop (o : OpStat) (t0 now : Int) (reqLen replyLen srv : Option Int) (exc : Bool) : OpStat :=
  let dt := now - t0
  let o1 := { o with startTime := none, count := o.count + 1,
                     excCount := if exc then o.excCount + 1 else o.excCount,
                     timeSum := o.timeSum + dt, timeMax := maxUpd o.timeMax dt, timeMin := minUpd o.timeMin dt }
  let o2 :=
    if o1.srvSuspended then o1
    else match srv with
      | none => { o1 with srvSuspended := true, srvSum := 0, srvMin := none, srvMax := 0 }
      | some t => { o1 with srvSum := o1.srvSum + t, srvMax := maxUpd o1.srvMax t, srvMin := minUpd o1.srvMin t }
  let o3 := match reqLen with
    | none => o2
    | some l => { o2 with reqSum := o2.reqSum + l, reqMax := maxUpd o2.reqMax l, reqMin := minUpd o2.reqMin l }
  match replyLen with
  | none => o3
  | some l => { o3 with replySum := o3.replySum + l, replyMax := maxUpd o3.replyMax l, replyMin := minUpd o3.replyMin l }

inductive StopResult where
  | none                -- container disabled: returns None
  | dt (d : Int)        -- the elapsed time
  | runtimeError        -- stop_timer() without preceding start_timer()
  deriving Repr, DecidableEq, Inhabited

/-- mirrors OperationStatistic.stop_timer called on the object `h` -/
def Stats.stopTimer (s : Stats) (h : Handle) (now : Int) (reqLen replyLen srv : Option Int) (exc : Bool) :
    Stats × StopResult :=
  if !s.enabled then (s, .none)
  else match h with
    | .dummy => (s, .runtimeError)                      -- the dummy never has a start time
    | .named n g =>
      if g ≠ s.gen then (s, .runtimeError)              -- an object orphaned by reset(): its timer cannot run
      else match find s.ops n with
        | none => (s, .runtimeError)
        | some o =>
          match o.startTime with
          | none => (s, .runtimeError)
          | some t0 => ({ s with ops := setOp n (o.stop t0 now reqLen replyLen srv exc) s.ops }, .dt (now - t0))

/-- mirrors Statistics.reset(): refused (False) while any stored statistic has a running timer -/
def Stats.reset (s : Stats) : Stats × Bool :=
  if s.ops.any (fun p => p.2.startTime.isSome) then (s, false)
  else ({ s with ops := [], gen := s.gen + 1 }, true)

def Stats.enable (s : Stats) : Stats := { s with enabled := true }
def Stats.disable (s : Stats) : Stats := { s with enabled := false }

/-- the low-level API as a history -/
inductive Op where
  | start (n : Str) (now : Int)                         -- pushes the returned handle
  | stop (idx : Nat) (now : Int) (reqLen replyLen srv : Option Int) (exc : Bool)   -- stop_timer on the idx-th handle handed out
  | reset
  | enable
  | disable
  | enter (n : Str) (now : Int)                         -- `with statistics(n):` is entered (__call__ + __enter__)
  | exit (now : Int)                                    -- the with-block is left, normally or by an exception (__exit__)
  deriving Repr, Inhabited

inductive Out where
  | handle (h : Handle)
  | stopped (r : StopResult)
  | resetDone (ok : Bool)
  | unit
  | exited (suppress : Bool) (r : StopResult)           -- what __exit__ returned (truthy = the exception is swallowed)
  | indexError                                          -- __exit__ without a matching __enter__ (pop from empty list)
  deriving Repr, DecidableEq, Inhabited

structure Run where
  stats : Stats := {}
  handles : List Handle := []
  cm : List Handle := []                                -- _cm_stack (innermost last)
  deriving Repr, Inhabited

/-- mirrors Statistics.__exit__: pop the statistic pushed by __enter__, stop_timer() without arguments, `return False`
    (an exception raised in the with-block is re-raised; a RuntimeError of stop_timer escapes from __exit__) -/
def exitCm (s : Stats) (h : Handle) (now : Int) : Stats × Bool × StopResult :=
  let (s', res) := s.stopTimer h now none none none false
  (s', false, res)

def step (r : Run) : Op → Run × Out
  | .start n now =>
    let (s, h) := r.stats.startTimer n now
    ({ r with stats := s, handles := r.handles ++ [h] }, .handle h)
  | .stop idx now a b c e =>
    match r.handles[idx]? with
    | none => (r, .unit)
    | some h =>
      let (s, res) := r.stats.stopTimer h now a b c e
      ({ r with stats := s }, .stopped res)
  | .reset => let (s, ok) := r.stats.reset; ({ r with stats := s }, .resetDone ok)
  | .enable => ({ r with stats := r.stats.enable }, .unit)
  | .disable => ({ r with stats := r.stats.disable }, .unit)
  | .enter n now =>
    let (s, h) := r.stats.startTimer n now
    ({ r with stats := s, cm := r.cm ++ [h] }, .unit)
  | .exit now =>
    match r.cm.getLast? with
    | none => (r, .indexError)
    | some h =>
      let (s, suppress, res) := exitCm r.stats h now
      ({ r with stats := s, cm := r.cm.dropLast }, .exited suppress res)

def run (r : Run) : List Op → Run × List Out
  | [] => (r, [])
  | op :: ops =>
    let (r1, o) := step r op
    let (r2, os) := run r1 ops
    (r2, o :: os)

end Pywbem.Model.Statistics
