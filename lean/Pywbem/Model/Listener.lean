/-
C16 — small-step model of the threads of `pywbem.WBEMListener`.

mirrors pywbem/_listener.py: WBEMListener.start, WBEMListener.stop,
  WBEMListener._stop_listener_threads, WBEMListener._stop_indication_delivery,
  WBEMListener._callback_run, WBEMListener._deliver_indication_to_callbacks,
  WBEMListener._handle_indication, WBEMListener.add_callback, ListenerRequestHandler.do_POST (queue part only),
  StoppableThread.stop/stopped, ExceptionHandlingThread.run/join

Threads: the *main* thread (user program calling start()/stop() in any order
that respects "do not call start() on a started listener"), the *callback
thread*, and any number of *senders*; sender `j` sends indications (j,0),
(j,1), … one after the other, each handled by one handler thread of the
ThreadingMixIn server (client and its handler thread are one model thread:
the client only waits for the response).

A step is the code a thread executes between two scheduling points.  The
scheduling points are exactly the calls of synchronising primitives (queue
constructor/get/put/empty/task_done, Event.set/is_set, Thread.start/join,
server creation/shutdown/close, callback entry/exit, response send); the
harness parks the real threads at the same points.  Attribute reads of
`self._ind_queue` happen *before* the primitive is entered and therefore
belong to the step that leads to the scheduling point (this matters for the
old protocol only).

`Protocol.old` is the code before the `fix:` commit (stop() clears
`_ind_queue` right after seeing the queue empty; the callback thread reads
`self._ind_queue` for every get()/task_done()).  `Protocol.fixed` is the
current code (callback thread keeps a local reference; stop() stops and joins
the thread and clears the reference last).

Two server objects are modelled: the HTTP server (`srv`, `accepting`) and the
HTTPS server (`srv2`, `accepting2`), each present iff its port is configured
(`Cfg.http`, `Cfg.https`); start() creates them one after the other,
`_stop_listener_threads` stops them one after the other, and each
`server_close()` joins only the handler threads of its own server.  A sender
chooses the port per request (`snd j` = HTTP, `sndTls j` = HTTPS).
The `_queue_full` flag and its two edge-triggered log warnings are modelled
(`qfull`, ghost `fullLog`).

A start() whose server creation fails (`failStart`, decided by the environment)
is modelled: the listener is taken down like in stop() and the documented
ListenerError is raised (code after the third `fix:` commit).

Not modelled (see manifest): sockets/ports, TLS, time (a `get` may time out whenever
the queue is empty).
Third-party hypotheses built into the step relation: `queue.Queue` is a
linearizable FIFO with non-blocking `put` raising `Full` iff `maxsize>0 ∧
qsize≥maxsize`; `Event`/`Thread.join` have their documented semantics;
`ThreadingMixIn.server_close()` joins every handler thread (block_on_close).
-/
import Pywbem.Proto

namespace Pywbem.Model.Listener
open Pywbem.Proto

inductive Protocol where
  | old | fixed
  deriving DecidableEq, Repr, Inhabited

structure Cfg where
  proto : Protocol := .fixed
  maxQ  : Nat := 0          -- max_ind_queue_size; 0 = unbounded
  ncb   : Nat := 1          -- number of registered callbacks
  http  : Bool := true      -- http_port configured
  https : Bool := false     -- https_port configured
  deriving DecidableEq, Repr

/-- indication = (sender index, sequence number of that sender) -/
abbrev Ind := Nat × Nat

/-- scheduling points of the main thread.  s* = inside start(), t* = inside stop() -/
inductive MainPc where
  | idle        -- between API calls
  | sMkq        -- about to run queue.Queue(maxsize)        (asserts already passed)
  | sThr        -- about to run CallbackThread.start()
  | sSrv        -- about to run make_server(); …; ServerThread.start()   (HTTP)
  | sSrv2       -- about to run make_server(); wrap_socket; ServerThread.start()   (HTTPS)
  | tShutdown   -- about to run _http_server.shutdown()
  | tClose      -- about to run _http_server.server_close() (joins the HTTP handler threads)
  | tShutdown2  -- about to run _https_server.shutdown()
  | tClose2     -- about to run _https_server.server_close() (joins the HTTPS handler threads)
  | tPoll       -- about to run _ind_queue.empty()
  | tSetEv      -- about to run _callback_thread.stop()     (Event.set)
  | tJoin       -- about to run _callback_thread.join()
  deriving DecidableEq, Repr, Inhabited

/-- scheduling points of the callback thread -/
inductive CbPc where
  | off                         -- no thread object running (never started)
  | run                         -- thread started, _callback_run not yet entered
  | get                         -- inside queue.get(block=True, timeout)
  | enter (x : Ind) (k : Nat)   -- about to enter callback k with indication x
  | inCb (x : Ind) (k : Nat)    -- inside callback k (any duration; returns or raises)
  | taskDone (x : Ind)          -- inside queue.task_done()
  | chk                         -- inside _callback_thread.stopped()  (after queue.Empty)
  | done (exc : Bool)           -- thread ended; exc = ExceptionHandlingThread stored an exception
  deriving DecidableEq, Repr, Inhabited

/-- scheduling points of a sender and its current handler thread -/
inductive HPc where
  | idle      -- no request in flight (next one would be (j, next))
  | put       -- handler inside queue.put(item, block=False)
  | respOk    -- handler about to send the success response, item was enqueued
  | respIgn   -- handler about to send the success response, item was ignored (`_ind_queue is None`)
  | respErr   -- handler about to send the CIM_ERR_FAILED response (queue.Full)
  deriving DecidableEq, Repr, Inhabited

structure Sender where
  next : Nat := 0
  pc   : HPc := .idle
  tls  : Bool := false      -- the request in flight came in over the HTTPS port
  deriving DecidableEq, Repr, Inhabited

structure Sys where
  main      : MainPc := .idle
  up        : Bool := false            -- user view: start() was called and stop() not since
  errs      : List PyExc := []         -- exceptions raised by start()/stop() so far, other than the documented
                                       -- ListenerError of a start() whose server creation failed (`startFails`)
  qref      : Bool := false            -- self._ind_queue is not None
  thrRef    : Bool := false            -- self._callback_thread is not None
  stopEv    : Bool := false            -- _callback_thread.stop_event
  srv       : Bool := false            -- self._http_server is not None
  accepting : Bool := false            -- the HTTP server accepts connections
  srv2      : Bool := false            -- self._https_server is not None
  accepting2 : Bool := false           -- the HTTPS server accepts connections
  qfull     : Bool := false            -- self._queue_full
  queue     : List Ind := []           -- content of the current queue object
  cb        : CbPc := .off
  senders   : List Sender := []
  -- ghost history (never read by a step)
  enq       : List Ind := []           -- successful puts, in queue order
  dlv       : List Ind := []           -- indications handed to every callback and task_done()
  log       : List (Nat × Ind) := []   -- callback invocations (callback index, indication)
  acked     : List Ind := []           -- success responses sent
  refused   : List Ind := []           -- CIM error responses sent (queue full)
  ignored   : List Ind := []           -- acknowledged although not enqueued
  fullLog   : List Bool := []          -- the queue-full warnings logged: true = "now full", false = "no longer full"
  startFails : Nat := 0                -- start() calls that failed with their documented ListenerError
  deriving DecidableEq, Repr

def init (n : Nat) : Sys := { senders := List.replicate n {} }

inductive Label where
  | start               -- main: call start()
  | stop                -- main: call stop()
  | main                -- main: next step inside start()/stop()
  | cb (raise : Bool)   -- callback thread: next step (raise: the callback being left raises)
  | snd (j : Nat)       -- sender j / its handler thread: next step (a new request goes to the HTTP port)
  | sndTls (j : Nat)    -- sender j: send the next request to the HTTPS port
  | failStart           -- environment: the server creation start() is about to do fails (port in use, address
                        -- not resolvable, bad certificate/key file)
  deriving DecidableEq, Repr, Inhabited

/-! ### main thread -/

/-- mirrors _stop_indication_delivery: `if self._callback_thread:` … else fall through to the end.
    fixed: the trailing `self._ind_queue = None` runs when there is no thread to stop. -/
def afterQ (c : Cfg) (s : Sys) : Sys :=
  if s.thrRef then { s with main := .tSetEv }
  else match c.proto with
    | .old => { s with main := .idle }
    | .fixed => { s with qref := false, main := .idle }

/-- mirrors _stop_indication_delivery: `if self._ind_queue:` (a Queue object is truthy) -/
def afterServers (c : Cfg) (s : Sys) : Sys :=
  if s.qref then { s with main := .tPoll } else afterQ c s

/-- mirrors start(): the two asserts, then up to the Queue constructor -/
def stepStart (s : Sys) : Option Sys :=
  if s.main = .idle ∧ s.up = false then
    if s.thrRef = true ∨ s.qref = true then some { s with errs := s.errs ++ [.assertionError] }
    else some { s with up := true, main := .sMkq }
  else none

/-- mirrors _stop_listener_threads: the second block `if self._https_server:` -/
def stopHttps (c : Cfg) (s : Sys) : Sys :=
  if s.srv2 then { s with main := .tShutdown2 } else afterServers c s

/-- mirrors stop(): _stop_listener_threads `if self._http_server:` -/
def stepStop (c : Cfg) (s : Sys) : Option Sys :=
  if s.main = .idle then
    if s.srv then some { s with up := false, main := .tShutdown }
    else some (stopHttps c { s with up := false })
  else none

/-- mirrors start(): `except Exception:` … `self._stop_listener_threads(); self._stop_indication_delivery(); raise`
    when make_server() / the certificate loading of the server about to be created fails: the listener is taken
    down exactly like in stop() (a server object created but not started is closed on the way), then the
    ListenerPortError / ListenerStartError / ListenerCertificateError is raised -/
def stepFail (c : Cfg) (s : Sys) : Option Sys :=
  if s.main = .sSrv ∨ s.main = .sSrv2 then
    if s.srv then some { s with up := false, startFails := s.startFails + 1, main := .tShutdown }
    else some (stopHttps c { s with up := false, startFails := s.startFails + 1 })
  else none

def allIdle (l : List Sender) : Bool := l.all (fun sd => sd.pc == .idle)

/-- no handler thread of the HTTP (`tls = false`) / HTTPS (`tls = true`) server is alive -/
def idleOn (tls : Bool) (l : List Sender) : Bool := l.all (fun sd => sd.pc == .idle || sd.tls != tls)

/-- mirrors start(): after the callback thread, `if self._http_port:` … `if self._https_port:` -/
def startServers (c : Cfg) : MainPc := if c.http then .sSrv else if c.https then .sSrv2 else .idle

/-- mirrors ExceptionHandlingThread.join + the statements after it in _stop_indication_delivery -/
def joinStep (c : Cfg) (s : Sys) (exc : Bool) : Sys :=
  if exc then { s with errs := s.errs ++ [.attributeError], main := .idle }
  else match c.proto with
    | .old => { s with thrRef := false, main := .idle }
    | .fixed => { s with thrRef := false, qref := false, main := .idle }

/-- mirrors _stop_indication_delivery: `while not self._ind_queue.empty(): sleep(0.1)`, then
    old: `self._ind_queue = None` -/
def pollStep (c : Cfg) (s : Sys) : Sys :=
  match s.queue with
  | _ :: _ => s
  | [] => match c.proto with
    | .old => afterQ c { s with qref := false }
    | .fixed => afterQ c s

def stepMain (c : Cfg) (s : Sys) : Option Sys :=
  match s.main with
  | .idle => none
  | .sMkq => some { s with qref := true, queue := [], main := .sThr }
  | .sThr => some { s with thrRef := true, stopEv := false, cb := .run, main := startServers c }
  | .sSrv => some { s with srv := true, accepting := true, main := if c.https then .sSrv2 else .idle }
  | .sSrv2 => some { s with srv2 := true, accepting2 := true, main := .idle }
  | .tShutdown => some { s with accepting := false, main := .tClose }
  | .tClose => if idleOn false s.senders then some (stopHttps c { s with srv := false }) else none
  | .tShutdown2 => some { s with accepting2 := false, main := .tClose2 }
  | .tClose2 => if idleOn true s.senders then some (afterServers c { s with srv2 := false }) else none
  | .tPoll => some (pollStep c s)
  | .tSetEv => some { s with stopEv := true, main := .tJoin }
  | .tJoin => match s.cb with
    | .done exc => some (joinStep c s exc)
    | _ => none

/-! ### callback thread -/

/-- mirrors _callback_run: top of the loop, evaluate `<queue>.get` -/
def loopTop (c : Cfg) (s : Sys) : Sys :=
  match c.proto with
  | .old => if s.qref then { s with cb := .get } else { s with cb := .done true }
  | .fixed => { s with cb := .get }

/-- mirrors _callback_run: evaluate `<queue>.task_done` after the callbacks -/
def afterCallbacks (c : Cfg) (s : Sys) (x : Ind) : Sys :=
  match c.proto with
  | .old => if s.qref then { s with cb := .taskDone x } else { s with cb := .done true }
  | .fixed => { s with cb := .taskDone x }

/-- mirrors _deliver_indication_to_callbacks: `for callback in self._callbacks` -/
def nextDeliver (c : Cfg) (s : Sys) (x : Ind) (k : Nat) : Sys :=
  if k < c.ncb then { s with cb := .enter x k } else afterCallbacks c s x

def stepCb (c : Cfg) (s : Sys) : Option Sys :=
  match s.cb with
  | .off => none
  | .run => some (loopTop c s)
  | .get => match s.queue with
    | [] => some { s with cb := .chk }
    | x :: q => some (nextDeliver c { s with queue := q } x 0)
  | .enter x k => some { s with log := s.log ++ [(k, x)], cb := .inCb x k }
  | .inCb x k => some (nextDeliver c s x (k + 1))
  | .taskDone x => some (loopTop c { s with dlv := s.dlv ++ [x] })
  | .chk => if s.stopEv then some { s with cb := .done false } else some (loopTop c s)
  | .done _ => none

/-! ### senders / handler threads -/

/-- mirrors queue.Queue.put(block=False): Full iff maxsize > 0 and qsize >= maxsize -/
def isFull (c : Cfg) (s : Sys) : Bool := c.maxQ != 0 && c.maxQ ≤ s.queue.length

def setPc (s : Sys) (j : Nat) (sd : Sender) (pc : HPc) : List Sender :=
  s.senders.set j { sd with pc := pc }

def finishReq (s : Sys) (j : Nat) (sd : Sender) : List Sender :=
  s.senders.set j { next := sd.next + 1, pc := .idle, tls := sd.tls }

/-- mirrors _handle_indication: the edge-triggered log state after a refused put -/
def logFull (s : Sys) : List Bool := if s.qfull then s.fullLog else s.fullLog ++ [true]

/-- mirrors _handle_indication: the edge-triggered log state after a successful put -/
def logNotFull (s : Sys) : List Bool := if s.qfull then s.fullLog ++ [false] else s.fullLog

/-- a request arrives over the port `tls` and gets a handler thread; mirrors the first lines of
    _handle_indication (`if self._ind_queue is None: … return`) -/
def acceptReq (s : Sys) (j : Nat) (sd : Sender) (tls : Bool) : Sys :=
  if s.qref then { s with senders := s.senders.set j { sd with pc := .put, tls := tls } }
  else { s with senders := s.senders.set j { sd with pc := .respIgn, tls := tls },
                ignored := s.ignored ++ [(j, sd.next)] }

/-- mirrors do_POST/_handle_indication for one sender -/
def stepSndAt (c : Cfg) (s : Sys) (j : Nat) (sd : Sender) : Option Sys :=
  match sd.pc with
  | .idle => if s.accepting then some (acceptReq s j sd false) else none
  | .put =>
    if isFull c s then some { s with senders := setPc s j sd .respErr, qfull := true, fullLog := logFull s }
    else some { s with queue := s.queue ++ [(j, sd.next)], enq := s.enq ++ [(j, sd.next)],
                       senders := setPc s j sd .respOk, qfull := false, fullLog := logNotFull s }
  | .respOk => some { s with acked := s.acked ++ [(j, sd.next)], senders := finishReq s j sd }
  | .respIgn => some { s with acked := s.acked ++ [(j, sd.next)], senders := finishReq s j sd }
  | .respErr => some { s with refused := s.refused ++ [(j, sd.next)], senders := finishReq s j sd }

def stepSnd (c : Cfg) (s : Sys) (j : Nat) : Option Sys :=
  match s.senders[j]? with
  | none => none
  | some sd => stepSndAt c s j sd

/-- sender j sends its next request to the HTTPS port -/
def stepSndTls (s : Sys) (j : Nat) : Option Sys :=
  match s.senders[j]? with
  | none => none
  | some sd => if sd.pc = .idle ∧ s.accepting2 = true then some (acceptReq s j sd true) else none

/-! ### the system -/

def step (c : Cfg) (l : Label) (s : Sys) : Option Sys :=
  match l with
  | .start => stepStart s
  | .stop => stepStop c s
  | .main => stepMain c s
  | .cb _ => stepCb c s
  | .snd j => stepSnd c s j
  | .sndTls j => stepSndTls s j
  | .failStart => stepFail c s

/-- states reachable from the initial state with `n` senders under any schedule -/
inductive Reachable (c : Cfg) (n : Nat) : Sys → Prop where
  | init : Reachable c n (init n)
  | step {s s' : Sys} (l : Label) : Reachable c n s → step c l s = some s' → Reachable c n s'

/-- run a schedule; `none` when a label is not enabled -/
def runTrace (c : Cfg) : List Label → Sys → Option Sys
  | [], s => some s
  | l :: ls, s => match step c l s with
    | none => none
    | some s' => runTrace c ls s'

/-- the indication the callback thread currently holds (dequeued, not yet task_done) -/
def inflight (s : Sys) : List Ind :=
  match s.cb with
  | .enter x _ => [x]
  | .inCb x _ => [x]
  | .taskDone x => [x]
  | _ => []

/-- callback invocations for indication `x` by callbacks `0..k-1` -/
def calls (k : Nat) (x : Ind) : List (Nat × Ind) := (List.range k).map (fun i => (i, x))

/-- the complete invocation log for a list of indications and `n` callbacks -/
def expand (n : Nat) (xs : List Ind) : List (Nat × Ind) := xs.flatMap (calls n)

/-- mirrors add_callback: `if callback not in self._callbacks: self._callbacks.append(callback)`;
    callbacks are identified up to `==` (a natural number per equality class) -/
def addCallback (cbs : List Nat) (f : Nat) : List Nat := if cbs.contains f then cbs else cbs ++ [f]

/-- `self._callbacks` after the calls `add_callback(f)` for `f` in `regs`, in that order -/
def registered (regs : List Nat) : List Nat := regs.foldl addCallback []

/-- successive entries differ (the queue-full warnings are edge-triggered) -/
def alternating : List Bool → Bool
  | [] => true
  | [_] => true
  | x :: y :: r => x != y && alternating (y :: r)

/-- the indications handed to callback `k`, in the order of the calls -/
def seenBy (k : Nat) (log : List (Nat × Ind)) : List Ind := (log.filter (fun e => e.1 == k)).map (·.2)

/-- the part of the log that belongs to the indication in flight -/
def partialLog (c : Cfg) (s : Sys) : List (Nat × Ind) :=
  match s.cb with
  | .enter x k => calls k x
  | .inCb x k => calls (k + 1) x
  | .taskDone x => calls c.ncb x
  | _ => []

end Pywbem.Model.Listener
