/-
C06, the text of atomic CIM values on the CIM-XML wire, both directions.
Mirrors pywbem/_cim_types.py: atomic_to_cim_xml (every branch), CIMInt.__str__ (= int.__repr__, decimal);
pywbem/_tupleparse.py: unpack_single_value, unpack_boolean, unpack_datetime, unpack_char16 (unpack_numeric is in
Model/CimValue.lean).

Parameters (third-party behaviour): the two float formatters '%.17G' / '%.11G' (RealCodec.fmt), float(text) and
utf-8 decoding (as in Model/CimValue.lean).
`str.lower()` is modelled on ASCII letters only: no non-ASCII character lower-cases to one of the letters of
"true" / "false" (U+212A KELVIN SIGN → 'k' and U+0130 → "i̇" are the only non-ASCII sources of ASCII letters), so the
comparison with 'true' / 'false' is unaffected; K exercises such characters.
-/
import Pywbem.Model.CimValue
import Pywbem.Generated.Config

namespace Pywbem.Model.AtomicXml
open Pywbem.Proto Pywbem.Model.CimTypes Pywbem.Model.DateTime Pywbem.Model.CimValue

/-- decimal digits of a natural number, most significant first (int.__repr__ for n ≥ 0) -/
def natDigits (n : Nat) : List Char :=
  if n < 10 then [digitChar n] else natDigits (n / 10) ++ [digitChar n]
termination_by n
decreasing_by omega

/-- mirrors CIMInt.__str__ / str(int) -/
def intStr (v : Int) : List Char :=
  if v < 0 then '-' :: natDigits v.natAbs else natDigits v.toNat

/-- mirrors _cim_types.py: atomic_to_cim_xml.  `fmt17` / `fmt11` = f'{obj:.17G}' / f'{obj:.11G}' of the double with
    these bits; none = the Python None result. -/
def atomicToCimXml (fmt17 fmt11 : Nat → List Char) (utf8 : List Nat → Option (List Char)) :
    Sc → Except PyExc (Option (List Char))
  | .none => .ok none
  | .str s => .ok (some s)
  | .char16 s => .ok (some s)                           -- isinstance(obj, str)
  | .bytes b => match utf8 b with
    | some s => .ok (some s)
    | none => .error .valueError                        -- UnicodeDecodeError
  | .bool b => .ok (some (if b then "TRUE".toList else "FALSE".toList))
  | .cimInt _ v => .ok (some (intStr v))
  | .int v => .ok (some (intStr v))
  | .cimDT x => (toStr x).map some
  | .datetime y mo d h mi s us off => do
    let x ← construct (.datetime y mo d h mi s us off)  -- str(CIMDateTime(obj))
    (toStr x).map some
  | .real32 b => .ok (some (fixup (fmt11 b)))
  | .real64 b => .ok (some (fixup (fmt17 b)))
  | .float b => .ok (some (fixup (fmt17 b)))
  | _ => .error .typeError                              -- timedelta, CIM objects, anything else

/-- ASCII part of str.lower() (see the file header) -/
def asciiLower (c : Char) : Char := if 'A' ≤ c && c ≤ 'Z' then Char.ofNat (c.toNat + 32) else c

/-- mirrors _tupleparse.py: unpack_boolean (none = the tolerated empty value) -/
def unpackBoolean (data : List Char) : Except PyExc Sc :=
  let d := (pyStrip data).map asciiLower
  if d == "true".toList then .ok (.bool true)
  else if d == "false".toList then .ok (.bool false)
  else if d.isEmpty then .ok .none
  else .error .cimXmlParseError

/-- mirrors _tupleparse.py: unpack_datetime -/
def unpackDatetime (data : List Char) : Except PyExc Sc :=
  match construct (.str data) with
  | .ok x => .ok (.cimDT x)
  | .error .valueError => .error .cimXmlParseError
  | .error e => .error e

/-- mirrors _tupleparse.py: unpack_char16 -/
def unpackChar16 (data : List Char) : Except PyExc Sc :=
  match data with
  | [] => .error .cimXmlParseError
  | [c] => if c.toNat > 0xFFFF then .error .cimXmlParseError else .ok (.char16 [c])
  | _ => .error .cimXmlParseError

/-- the `cimtype` argument of unpack_single_value -/
inductive WireTy where
  | string | boolean | datetime | char16 | num (t : NumTy)
  | other                                    -- 'reference' or any other text: CIMXMLParseError
  deriving Repr, DecidableEq

/-- mirrors _tupleparse.py: unpack_single_value for a given cimtype (`cimtype=None`, used for keybindings, returns a bare
    Python number and is not part of this model) -/
def unpackSingleValue (pf : Option Nat) (data : Option (List Char)) (t : WireTy) : Except PyExc Sc :=
  match data with
  | none => .ok .none
  | some d =>
    match t with
    | .string => .ok (.str d)
    | .boolean => unpackBoolean d
    | .num nt => unpackNumeric pf d nt
    | .datetime => unpackDatetime d
    | .char16 => unpackChar16 d
    | .other => .error .cimXmlParseError

/-- CIM type name on the wire for a typed scalar (what tocimxml() writes into TYPE=…) -/
def wireTyOf : Sc → Option WireTy
  | .str _ => some .string
  | .char16 _ => some .char16
  | .bool _ => some .boolean
  | .cimInt t _ => some (.num (.int t))
  | .real32 _ => some (.num .real32)
  | .real64 _ => some (.num .real64)
  | .cimDT _ => some .datetime
  | _ => none

/-! ## the module-level functions tocimxml(value) / tocimxmlstr(value) for CIM data types and arrays of them
    (also the path array-valued IPARAMVALUEs take) -/

/-- the VALUE-level elements tocimxml() produces for data values -/
inductive ValXml where
  | value (txt : Option (List Char))        -- <VALUE>txt</VALUE>
  | valueNull                               -- <VALUE.NULL/>
  | valueArray (items : List ValXml)        -- <VALUE.ARRAY>…</VALUE.ARRAY>
  | object                                  -- value.tocimxml() of a CIM object (not part of this model)
  deriving Repr

def hasTocimxml : Sc → Bool
  | .instName _ | .className | .instance _ | .cimClass => true
  | _ => false

/-- one array item: `if v is None: VALUE.NULL (SEND_VALUE_NULL) / VALUE(None) else VALUE(atomic_to_cim_xml(v))` -/
def tocimxmlItem (fmt17 fmt11 : Nat → List Char) (utf8 : List Nat → Option (List Char)) (sendNull : Bool) (v : Sc) :
    Except PyExc ValXml :=
  match v with
  | .none => .ok (if sendNull then .valueNull else .value none)
  | v => (atomicToCimXml fmt17 fmt11 utf8 v).map ValXml.value

/-- mirrors _cim_obj.py: the module-level tocimxml(value) (lists and tuples are arrays; `isTuple` only records which) -/
def tocimxmlFn (fmt17 fmt11 : Nat → List Char) (utf8 : List Nat → Option (List Char)) (sendNull : Bool) :
    Val → Except PyExc ValXml
  | .sc .none => .error .valueError                      -- "The value parameter must not be None"
  | .list l => (l.mapM (tocimxmlItem fmt17 fmt11 utf8 sendNull)).map ValXml.valueArray
  | .sc s => if hasTocimxml s then .ok .object else (atomicToCimXml fmt17 fmt11 utf8 s).map ValXml.value

/-- with the configuration of the repo (pywbem/config.py: SEND_VALUE_NULL) -/
def tocimxmlCfg (fmt17 fmt11 : Nat → List Char) (utf8 : List Nat → Option (List Char)) : Val → Except PyExc ValXml :=
  tocimxmlFn fmt17 fmt11 utf8 Pywbem.Generated.sendValueNull

/-- the way back for one item of a VALUE.ARRAY of the given TYPE (unpack_value → unpack_single_value; VALUE.NULL → None) -/
def unpackItem (pf : List Char → Option Nat) (t : WireTy) : ValXml → Except PyExc Sc
  | .value (some txt) => unpackSingleValue (pf txt) (some txt) t
  | .value none => unpackSingleValue none (some []) t     -- an empty VALUE element has text ''
  | .valueNull => .ok .none
  | _ => .error .cimXmlParseError

end Pywbem.Model.AtomicXml
